
(** val xorb : bool -> bool -> bool **)

let xorb b1 b2 =
  if b1 then if b2 then false else true else b2

(** val negb : bool -> bool **)

let negb = function
| true -> false
| false -> true

type nat =
| O
| S of nat

(** val option_map : ('a1 -> 'a2) -> 'a1 option -> 'a2 option **)

let option_map f = function
| Some a -> Some (f a)
| None -> None

(** val fst : ('a1 * 'a2) -> 'a1 **)

let fst = function
| (x, _) -> x

(** val snd : ('a1 * 'a2) -> 'a2 **)

let snd = function
| (_, y) -> y

(** val length : 'a1 list -> nat **)

let rec length = function
| [] -> O
| _ :: l' -> S (length l')

(** val app : 'a1 list -> 'a1 list -> 'a1 list **)

let rec app l m =
  match l with
  | [] -> m
  | a :: l1 -> a :: (app l1 m)

type comparison =
| Eq
| Lt
| Gt

(** val compOpp : comparison -> comparison **)

let compOpp = function
| Eq -> Eq
| Lt -> Gt
| Gt -> Lt

type uint =
| Nil
| D0 of uint
| D1 of uint
| D2 of uint
| D3 of uint
| D4 of uint
| D5 of uint
| D6 of uint
| D7 of uint
| D8 of uint
| D9 of uint

type signed_int =
| Pos of uint
| Neg of uint

(** val revapp : uint -> uint -> uint **)

let rec revapp d d' =
  match d with
  | Nil -> d'
  | D0 d0 -> revapp d0 (D0 d')
  | D1 d0 -> revapp d0 (D1 d')
  | D2 d0 -> revapp d0 (D2 d')
  | D3 d0 -> revapp d0 (D3 d')
  | D4 d0 -> revapp d0 (D4 d')
  | D5 d0 -> revapp d0 (D5 d')
  | D6 d0 -> revapp d0 (D6 d')
  | D7 d0 -> revapp d0 (D7 d')
  | D8 d0 -> revapp d0 (D8 d')
  | D9 d0 -> revapp d0 (D9 d')

(** val rev : uint -> uint **)

let rev d =
  revapp d Nil

module Little =
 struct
  (** val double : uint -> uint **)

  let rec double = function
  | Nil -> Nil
  | D0 d0 -> D0 (double d0)
  | D1 d0 -> D2 (double d0)
  | D2 d0 -> D4 (double d0)
  | D3 d0 -> D6 (double d0)
  | D4 d0 -> D8 (double d0)
  | D5 d0 -> D0 (succ_double d0)
  | D6 d0 -> D2 (succ_double d0)
  | D7 d0 -> D4 (succ_double d0)
  | D8 d0 -> D6 (succ_double d0)
  | D9 d0 -> D8 (succ_double d0)

  (** val succ_double : uint -> uint **)

  and succ_double = function
  | Nil -> D1 Nil
  | D0 d0 -> D1 (double d0)
  | D1 d0 -> D3 (double d0)
  | D2 d0 -> D5 (double d0)
  | D3 d0 -> D7 (double d0)
  | D4 d0 -> D9 (double d0)
  | D5 d0 -> D1 (succ_double d0)
  | D6 d0 -> D3 (succ_double d0)
  | D7 d0 -> D5 (succ_double d0)
  | D8 d0 -> D7 (succ_double d0)
  | D9 d0 -> D9 (succ_double d0)
 end

module Coq__1 = struct
 (** val add : nat -> nat -> nat **)
 let rec add n0 m =
   match n0 with
   | O -> m
   | S p -> S (add p m)
end
include Coq__1

(** val mul : nat -> nat -> nat **)

let rec mul n0 m =
  match n0 with
  | O -> O
  | S p -> add m (mul p m)

(** val sub : nat -> nat -> nat **)

let rec sub n0 m =
  match n0 with
  | O -> n0
  | S k -> (match m with
            | O -> n0
            | S l -> sub k l)

(** val eqb : bool -> bool -> bool **)

let eqb b1 b2 =
  if b1 then b2 else if b2 then false else true

type positive =
| XI of positive
| XO of positive
| XH

type n =
| N0
| Npos of positive

type z =
| Z0
| Zpos of positive
| Zneg of positive

module Nat =
 struct
  (** val eqb : nat -> nat -> bool **)

  let rec eqb n0 m =
    match n0 with
    | O -> (match m with
            | O -> true
            | S _ -> false)
    | S n' -> (match m with
               | O -> false
               | S m' -> eqb n' m')

  (** val leb : nat -> nat -> bool **)

  let rec leb n0 m =
    match n0 with
    | O -> true
    | S n' -> (match m with
               | O -> false
               | S m' -> leb n' m')

  (** val ltb : nat -> nat -> bool **)

  let ltb n0 m =
    leb (S n0) m
 end

module Pos =
 struct
  type mask =
  | IsNul
  | IsPos of positive
  | IsNeg
 end

module Coq_Pos =
 struct
  (** val succ : positive -> positive **)

  let rec succ = function
  | XI p -> XO (succ p)
  | XO p -> XI p
  | XH -> XO XH

  (** val add : positive -> positive -> positive **)

  let rec add x y =
    match x with
    | XI p ->
      (match y with
       | XI q -> XO (add_carry p q)
       | XO q -> XI (add p q)
       | XH -> XO (succ p))
    | XO p ->
      (match y with
       | XI q -> XI (add p q)
       | XO q -> XO (add p q)
       | XH -> XI p)
    | XH -> (match y with
             | XI q -> XO (succ q)
             | XO q -> XI q
             | XH -> XO XH)

  (** val add_carry : positive -> positive -> positive **)

  and add_carry x y =
    match x with
    | XI p ->
      (match y with
       | XI q -> XI (add_carry p q)
       | XO q -> XO (add_carry p q)
       | XH -> XI (succ p))
    | XO p ->
      (match y with
       | XI q -> XO (add_carry p q)
       | XO q -> XI (add p q)
       | XH -> XO (succ p))
    | XH ->
      (match y with
       | XI q -> XI (succ q)
       | XO q -> XO (succ q)
       | XH -> XI XH)

  (** val pred_double : positive -> positive **)

  let rec pred_double = function
  | XI p -> XI (XO p)
  | XO p -> XI (pred_double p)
  | XH -> XH

  type mask = Pos.mask =
  | IsNul
  | IsPos of positive
  | IsNeg

  (** val succ_double_mask : mask -> mask **)

  let succ_double_mask = function
  | IsNul -> IsPos XH
  | IsPos p -> IsPos (XI p)
  | IsNeg -> IsNeg

  (** val double_mask : mask -> mask **)

  let double_mask = function
  | IsPos p -> IsPos (XO p)
  | x0 -> x0

  (** val double_pred_mask : positive -> mask **)

  let double_pred_mask = function
  | XI p -> IsPos (XO (XO p))
  | XO p -> IsPos (XO (pred_double p))
  | XH -> IsNul

  (** val sub_mask : positive -> positive -> mask **)

  let rec sub_mask x y =
    match x with
    | XI p ->
      (match y with
       | XI q -> double_mask (sub_mask p q)
       | XO q -> succ_double_mask (sub_mask p q)
       | XH -> IsPos (XO p))
    | XO p ->
      (match y with
       | XI q -> succ_double_mask (sub_mask_carry p q)
       | XO q -> double_mask (sub_mask p q)
       | XH -> IsPos (pred_double p))
    | XH -> (match y with
             | XH -> IsNul
             | _ -> IsNeg)

  (** val sub_mask_carry : positive -> positive -> mask **)

  and sub_mask_carry x y =
    match x with
    | XI p ->
      (match y with
       | XI q -> succ_double_mask (sub_mask_carry p q)
       | XO q -> double_mask (sub_mask p q)
       | XH -> IsPos (pred_double p))
    | XO p ->
      (match y with
       | XI q -> double_mask (sub_mask_carry p q)
       | XO q -> succ_double_mask (sub_mask_carry p q)
       | XH -> double_pred_mask p)
    | XH -> IsNeg

  (** val mul : positive -> positive -> positive **)

  let rec mul x y =
    match x with
    | XI p -> add y (XO (mul p y))
    | XO p -> XO (mul p y)
    | XH -> y

  (** val iter : ('a1 -> 'a1) -> 'a1 -> positive -> 'a1 **)

  let rec iter f x = function
  | XI n' -> f (iter f (iter f x n') n')
  | XO n' -> iter f (iter f x n') n'
  | XH -> f x

  (** val size : positive -> positive **)

  let rec size = function
  | XI p0 -> succ (size p0)
  | XO p0 -> succ (size p0)
  | XH -> XH

  (** val compare_cont : comparison -> positive -> positive -> comparison **)

  let rec compare_cont r x y =
    match x with
    | XI p ->
      (match y with
       | XI q -> compare_cont r p q
       | XO q -> compare_cont Gt p q
       | XH -> Gt)
    | XO p ->
      (match y with
       | XI q -> compare_cont Lt p q
       | XO q -> compare_cont r p q
       | XH -> Gt)
    | XH -> (match y with
             | XH -> r
             | _ -> Lt)

  (** val compare : positive -> positive -> comparison **)

  let compare =
    compare_cont Eq

  (** val eqb : positive -> positive -> bool **)

  let rec eqb p q =
    match p with
    | XI p0 -> (match q with
                | XI q0 -> eqb p0 q0
                | _ -> false)
    | XO p0 -> (match q with
                | XO q0 -> eqb p0 q0
                | _ -> false)
    | XH -> (match q with
             | XH -> true
             | _ -> false)

  (** val iter_op : ('a1 -> 'a1 -> 'a1) -> positive -> 'a1 -> 'a1 **)

  let rec iter_op op p a =
    match p with
    | XI p0 -> op a (iter_op op p0 (op a a))
    | XO p0 -> iter_op op p0 (op a a)
    | XH -> a

  (** val to_nat : positive -> nat **)

  let to_nat x =
    iter_op Coq__1.add x (S O)

  (** val of_succ_nat : nat -> positive **)

  let rec of_succ_nat = function
  | O -> XH
  | S x -> succ (of_succ_nat x)

  (** val to_little_uint : positive -> uint **)

  let rec to_little_uint = function
  | XI p0 -> Little.succ_double (to_little_uint p0)
  | XO p0 -> Little.double (to_little_uint p0)
  | XH -> D1 Nil

  (** val to_uint : positive -> uint **)

  let to_uint p =
    rev (to_little_uint p)
 end

module N =
 struct
  (** val succ_double : n -> n **)

  let succ_double = function
  | N0 -> Npos XH
  | Npos p -> Npos (XI p)

  (** val double : n -> n **)

  let double = function
  | N0 -> N0
  | Npos p -> Npos (XO p)

  (** val add : n -> n -> n **)

  let add n0 m =
    match n0 with
    | N0 -> m
    | Npos p -> (match m with
                 | N0 -> n0
                 | Npos q -> Npos (Coq_Pos.add p q))

  (** val sub : n -> n -> n **)

  let sub n0 m =
    match n0 with
    | N0 -> N0
    | Npos n' ->
      (match m with
       | N0 -> n0
       | Npos m' ->
         (match Coq_Pos.sub_mask n' m' with
          | Coq_Pos.IsPos p -> Npos p
          | _ -> N0))

  (** val mul : n -> n -> n **)

  let mul n0 m =
    match n0 with
    | N0 -> N0
    | Npos p -> (match m with
                 | N0 -> N0
                 | Npos q -> Npos (Coq_Pos.mul p q))

  (** val compare : n -> n -> comparison **)

  let compare n0 m =
    match n0 with
    | N0 -> (match m with
             | N0 -> Eq
             | Npos _ -> Lt)
    | Npos n' -> (match m with
                  | N0 -> Gt
                  | Npos m' -> Coq_Pos.compare n' m')

  (** val leb : n -> n -> bool **)

  let leb x y =
    match compare x y with
    | Gt -> false
    | _ -> true

  (** val pos_div_eucl : positive -> n -> n * n **)

  let rec pos_div_eucl a b =
    match a with
    | XI a' ->
      let (q, r) = pos_div_eucl a' b in
      let r' = succ_double r in
      if leb b r' then ((succ_double q), (sub r' b)) else ((double q), r')
    | XO a' ->
      let (q, r) = pos_div_eucl a' b in
      let r' = double r in
      if leb b r' then ((succ_double q), (sub r' b)) else ((double q), r')
    | XH ->
      (match b with
       | N0 -> (N0, (Npos XH))
       | Npos p -> (match p with
                    | XH -> ((Npos XH), N0)
                    | _ -> (N0, (Npos XH))))
 end

(** val zero : char **)

let zero = '\000'

(** val one : char **)

let one = '\001'

(** val shift : bool -> char -> char **)

let shift = fun b c -> Char.chr (((Char.code c) lsl 1) land 255 + if b then 1 else 0)

(** val ascii_of_pos : positive -> char **)

let ascii_of_pos =
  let rec loop n0 p =
    match n0 with
    | O -> zero
    | S n' ->
      (match p with
       | XI p' -> shift true (loop n' p')
       | XO p' -> shift false (loop n' p')
       | XH -> one)
  in loop (S (S (S (S (S (S (S (S O))))))))

(** val ascii_of_N : n -> char **)

let ascii_of_N = function
| N0 -> zero
| Npos p -> ascii_of_pos p

(** val n_of_digits : bool list -> n **)

let rec n_of_digits = function
| [] -> N0
| b :: l' ->
  N.add (if b then Npos XH else N0) (N.mul (Npos (XO XH)) (n_of_digits l'))

(** val n_of_ascii : char -> n **)

let n_of_ascii a =
  (* If this appears, you're using Ascii internals. Please don't *)
 (fun f c ->
  let n = Char.code c in
  let h i = (n land (1 lsl i)) <> 0 in
  f (h 0) (h 1) (h 2) (h 3) (h 4) (h 5) (h 6) (h 7))
    (fun a0 a1 a2 a3 a4 a5 a6 a7 ->
    n_of_digits
      (a0 :: (a1 :: (a2 :: (a3 :: (a4 :: (a5 :: (a6 :: (a7 :: [])))))))))
    a

(** val tl : 'a1 list -> 'a1 list **)

let tl = function
| [] -> []
| _ :: m -> m

(** val nth_error : 'a1 list -> nat -> 'a1 option **)

let rec nth_error l = function
| O -> (match l with
        | [] -> None
        | x :: _ -> Some x)
| S n1 -> (match l with
           | [] -> None
           | _ :: l0 -> nth_error l0 n1)

(** val rev0 : 'a1 list -> 'a1 list **)

let rec rev0 = function
| [] -> []
| x :: l' -> app (rev0 l') (x :: [])

(** val map : ('a1 -> 'a2) -> 'a1 list -> 'a2 list **)

let rec map f = function
| [] -> []
| a :: t -> (f a) :: (map f t)

(** val flat_map : ('a1 -> 'a2 list) -> 'a1 list -> 'a2 list **)

let rec flat_map f = function
| [] -> []
| x :: t -> app (f x) (flat_map f t)

(** val fold_left : ('a1 -> 'a2 -> 'a1) -> 'a2 list -> 'a1 -> 'a1 **)

let rec fold_left f l a0 =
  match l with
  | [] -> a0
  | b :: t -> fold_left f t (f a0 b)

(** val fold_right : ('a2 -> 'a1 -> 'a1) -> 'a1 -> 'a2 list -> 'a1 **)

let rec fold_right f a0 = function
| [] -> a0
| b :: t -> f b (fold_right f a0 t)

(** val existsb : ('a1 -> bool) -> 'a1 list -> bool **)

let rec existsb f = function
| [] -> false
| a :: l0 -> (||) (f a) (existsb f l0)

(** val forallb : ('a1 -> bool) -> 'a1 list -> bool **)

let rec forallb f = function
| [] -> true
| a :: l0 -> (&&) (f a) (forallb f l0)

(** val filter : ('a1 -> bool) -> 'a1 list -> 'a1 list **)

let rec filter f = function
| [] -> []
| x :: l0 -> if f x then x :: (filter f l0) else filter f l0

(** val firstn : nat -> 'a1 list -> 'a1 list **)

let rec firstn n0 l =
  match n0 with
  | O -> []
  | S n1 -> (match l with
             | [] -> []
             | a :: l0 -> a :: (firstn n1 l0))

(** val skipn : nat -> 'a1 list -> 'a1 list **)

let rec skipn n0 l =
  match n0 with
  | O -> l
  | S n1 -> (match l with
             | [] -> []
             | _ :: l0 -> skipn n1 l0)

module Z =
 struct
  (** val double : z -> z **)

  let double = function
  | Z0 -> Z0
  | Zpos p -> Zpos (XO p)
  | Zneg p -> Zneg (XO p)

  (** val succ_double : z -> z **)

  let succ_double = function
  | Z0 -> Zpos XH
  | Zpos p -> Zpos (XI p)
  | Zneg p -> Zneg (Coq_Pos.pred_double p)

  (** val pred_double : z -> z **)

  let pred_double = function
  | Z0 -> Zneg XH
  | Zpos p -> Zpos (Coq_Pos.pred_double p)
  | Zneg p -> Zneg (XI p)

  (** val pos_sub : positive -> positive -> z **)

  let rec pos_sub x y =
    match x with
    | XI p ->
      (match y with
       | XI q -> double (pos_sub p q)
       | XO q -> succ_double (pos_sub p q)
       | XH -> Zpos (XO p))
    | XO p ->
      (match y with
       | XI q -> pred_double (pos_sub p q)
       | XO q -> double (pos_sub p q)
       | XH -> Zpos (Coq_Pos.pred_double p))
    | XH ->
      (match y with
       | XI q -> Zneg (XO q)
       | XO q -> Zneg (Coq_Pos.pred_double q)
       | XH -> Z0)

  (** val add : z -> z -> z **)

  let add x y =
    match x with
    | Z0 -> y
    | Zpos x' ->
      (match y with
       | Z0 -> x
       | Zpos y' -> Zpos (Coq_Pos.add x' y')
       | Zneg y' -> pos_sub x' y')
    | Zneg x' ->
      (match y with
       | Z0 -> x
       | Zpos y' -> pos_sub y' x'
       | Zneg y' -> Zneg (Coq_Pos.add x' y'))

  (** val opp : z -> z **)

  let opp = function
  | Z0 -> Z0
  | Zpos x0 -> Zneg x0
  | Zneg x0 -> Zpos x0

  (** val sub : z -> z -> z **)

  let sub m n0 =
    add m (opp n0)

  (** val mul : z -> z -> z **)

  let mul x y =
    match x with
    | Z0 -> Z0
    | Zpos x' ->
      (match y with
       | Z0 -> Z0
       | Zpos y' -> Zpos (Coq_Pos.mul x' y')
       | Zneg y' -> Zneg (Coq_Pos.mul x' y'))
    | Zneg x' ->
      (match y with
       | Z0 -> Z0
       | Zpos y' -> Zneg (Coq_Pos.mul x' y')
       | Zneg y' -> Zpos (Coq_Pos.mul x' y'))

  (** val pow_pos : z -> positive -> z **)

  let pow_pos z0 =
    Coq_Pos.iter (mul z0) (Zpos XH)

  (** val pow : z -> z -> z **)

  let pow x = function
  | Z0 -> Zpos XH
  | Zpos p -> pow_pos x p
  | Zneg _ -> Z0

  (** val compare : z -> z -> comparison **)

  let compare x y =
    match x with
    | Z0 -> (match y with
             | Z0 -> Eq
             | Zpos _ -> Lt
             | Zneg _ -> Gt)
    | Zpos x' -> (match y with
                  | Zpos y' -> Coq_Pos.compare x' y'
                  | _ -> Gt)
    | Zneg x' ->
      (match y with
       | Zneg y' -> compOpp (Coq_Pos.compare x' y')
       | _ -> Lt)

  (** val sgn : z -> z **)

  let sgn = function
  | Z0 -> Z0
  | Zpos _ -> Zpos XH
  | Zneg _ -> Zneg XH

  (** val leb : z -> z -> bool **)

  let leb x y =
    match compare x y with
    | Gt -> false
    | _ -> true

  (** val ltb : z -> z -> bool **)

  let ltb x y =
    match compare x y with
    | Lt -> true
    | _ -> false

  (** val eqb : z -> z -> bool **)

  let eqb x y =
    match x with
    | Z0 -> (match y with
             | Z0 -> true
             | _ -> false)
    | Zpos p -> (match y with
                 | Zpos q -> Coq_Pos.eqb p q
                 | _ -> false)
    | Zneg p -> (match y with
                 | Zneg q -> Coq_Pos.eqb p q
                 | _ -> false)

  (** val min : z -> z -> z **)

  let min n0 m =
    match compare n0 m with
    | Gt -> m
    | _ -> n0

  (** val abs : z -> z **)

  let abs = function
  | Zneg p -> Zpos p
  | x -> x

  (** val to_nat : z -> nat **)

  let to_nat = function
  | Zpos p -> Coq_Pos.to_nat p
  | _ -> O

  (** val to_N : z -> n **)

  let to_N = function
  | Zpos p -> Npos p
  | _ -> N0

  (** val of_nat : nat -> z **)

  let of_nat = function
  | O -> Z0
  | S n1 -> Zpos (Coq_Pos.of_succ_nat n1)

  (** val of_N : n -> z **)

  let of_N = function
  | N0 -> Z0
  | Npos p -> Zpos p

  (** val to_int : z -> signed_int **)

  let to_int = function
  | Z0 -> Pos (D0 Nil)
  | Zpos p -> Pos (Coq_Pos.to_uint p)
  | Zneg p -> Neg (Coq_Pos.to_uint p)

  (** val pos_div_eucl : positive -> z -> z * z **)

  let rec pos_div_eucl a b =
    match a with
    | XI a' ->
      let (q, r) = pos_div_eucl a' b in
      let r' = add (mul (Zpos (XO XH)) r) (Zpos XH) in
      if ltb r' b
      then ((mul (Zpos (XO XH)) q), r')
      else ((add (mul (Zpos (XO XH)) q) (Zpos XH)), (sub r' b))
    | XO a' ->
      let (q, r) = pos_div_eucl a' b in
      let r' = mul (Zpos (XO XH)) r in
      if ltb r' b
      then ((mul (Zpos (XO XH)) q), r')
      else ((add (mul (Zpos (XO XH)) q) (Zpos XH)), (sub r' b))
    | XH -> if leb (Zpos (XO XH)) b then (Z0, (Zpos XH)) else ((Zpos XH), Z0)

  (** val div_eucl : z -> z -> z * z **)

  let div_eucl a b =
    match a with
    | Z0 -> (Z0, Z0)
    | Zpos a' ->
      (match b with
       | Z0 -> (Z0, a)
       | Zpos _ -> pos_div_eucl a' b
       | Zneg b' ->
         let (q, r) = pos_div_eucl a' (Zpos b') in
         (match r with
          | Z0 -> ((opp q), Z0)
          | _ -> ((opp (add q (Zpos XH))), (add b r))))
    | Zneg a' ->
      (match b with
       | Z0 -> (Z0, a)
       | Zpos _ ->
         let (q, r) = pos_div_eucl a' b in
         (match r with
          | Z0 -> ((opp q), Z0)
          | _ -> ((opp (add q (Zpos XH))), (sub b r)))
       | Zneg b' -> let (q, r) = pos_div_eucl a' (Zpos b') in (q, (opp r)))

  (** val div : z -> z -> z **)

  let div a b =
    let (q, _) = div_eucl a b in q

  (** val modulo : z -> z -> z **)

  let modulo a b =
    let (_, r) = div_eucl a b in r

  (** val quotrem : z -> z -> z * z **)

  let quotrem a b =
    match a with
    | Z0 -> (Z0, Z0)
    | Zpos a0 ->
      (match b with
       | Z0 -> (Z0, a)
       | Zpos b0 ->
         let (q, r) = N.pos_div_eucl a0 (Npos b0) in ((of_N q), (of_N r))
       | Zneg b0 ->
         let (q, r) = N.pos_div_eucl a0 (Npos b0) in
         ((opp (of_N q)), (of_N r)))
    | Zneg a0 ->
      (match b with
       | Z0 -> (Z0, a)
       | Zpos b0 ->
         let (q, r) = N.pos_div_eucl a0 (Npos b0) in
         ((opp (of_N q)), (opp (of_N r)))
       | Zneg b0 ->
         let (q, r) = N.pos_div_eucl a0 (Npos b0) in
         ((of_N q), (opp (of_N r))))

  (** val quot : z -> z -> z **)

  let quot a b =
    fst (quotrem a b)

  (** val rem : z -> z -> z **)

  let rem a b =
    snd (quotrem a b)

  (** val log2 : z -> z **)

  let log2 = function
  | Zpos p0 ->
    (match p0 with
     | XI p -> Zpos (Coq_Pos.size p)
     | XO p -> Zpos (Coq_Pos.size p)
     | XH -> Z0)
  | _ -> Z0
 end

(** val eqb0 : char list -> char list -> bool **)

let rec eqb0 s1 s2 =
  match s1 with
  | [] -> (match s2 with
           | [] -> true
           | _::_ -> false)
  | c1::s1' ->
    (match s2 with
     | [] -> false
     | c2::s2' -> if (=) c1 c2 then eqb0 s1' s2' else false)

(** val list_ascii_of_string : char list -> char list **)

let rec list_ascii_of_string = function
| [] -> []
| ch::s0 -> ch :: (list_ascii_of_string s0)

module NilEmpty =
 struct
  (** val string_of_uint : uint -> char list **)

  let rec string_of_uint = function
  | Nil -> []
  | D0 d0 -> '0'::(string_of_uint d0)
  | D1 d0 -> '1'::(string_of_uint d0)
  | D2 d0 -> '2'::(string_of_uint d0)
  | D3 d0 -> '3'::(string_of_uint d0)
  | D4 d0 -> '4'::(string_of_uint d0)
  | D5 d0 -> '5'::(string_of_uint d0)
  | D6 d0 -> '6'::(string_of_uint d0)
  | D7 d0 -> '7'::(string_of_uint d0)
  | D8 d0 -> '8'::(string_of_uint d0)
  | D9 d0 -> '9'::(string_of_uint d0)
 end

module NilZero =
 struct
  (** val string_of_uint : uint -> char list **)

  let string_of_uint d = match d with
  | Nil -> '0'::[]
  | _ -> NilEmpty.string_of_uint d

  (** val string_of_int : signed_int -> char list **)

  let string_of_int = function
  | Pos d0 -> string_of_uint d0
  | Neg d0 -> '-'::(string_of_uint d0)
 end

type str = char list

(** val bs : char list -> str **)

let bs =
  list_ascii_of_string

(** val str_eqb : str -> str -> bool **)

let rec str_eqb a b =
  match a with
  | [] -> (match b with
           | [] -> true
           | _ :: _ -> false)
  | x :: a' ->
    (match b with
     | [] -> false
     | y :: b' -> (&&) ((=) x y) (str_eqb a' b'))

(** val byte : char -> z **)

let byte c =
  Z.of_N (n_of_ascii c)

(** val chr : z -> char **)

let chr z0 =
  ascii_of_N (Z.to_N z0)

(** val is_upper : char -> bool **)

let is_upper c =
  (&&) (Z.leb (Zpos (XI (XO (XO (XO (XO (XO XH))))))) (byte c))
    (Z.leb (byte c) (Zpos (XO (XI (XO (XI (XI (XO XH))))))))

(** val is_digit : char -> bool **)

let is_digit c =
  (&&) (Z.leb (Zpos (XO (XO (XO (XO (XI XH)))))) (byte c))
    (Z.leb (byte c) (Zpos (XI (XO (XO (XI (XI XH)))))))

(** val lower_ascii : char -> char **)

let lower_ascii c =
  if is_upper c
  then chr (Z.add (byte c) (Zpos (XO (XO (XO (XO (XO XH)))))))
  else c

(** val str_lower : str -> str **)

let str_lower s =
  map lower_ascii s

(** val equal_fold : str -> str -> bool **)

let equal_fold a b =
  str_eqb (str_lower a) (str_lower b)

(** val has_prefix : str -> str -> bool **)

let rec has_prefix s = function
| [] -> true
| c :: p' ->
  (match s with
   | [] -> false
   | d :: s' -> (&&) ((=) c d) (has_prefix s' p'))

(** val has_suffix : str -> str -> bool **)

let has_suffix s p =
  has_prefix (rev0 s) (rev0 p)

(** val contains : str -> str -> bool **)

let rec contains s n0 =
  (||) (has_prefix s n0)
    (match s with
     | [] -> false
     | _ :: s' -> contains s' n0)

(** val replace_all_fuel : nat -> str -> str -> str -> str **)

let rec replace_all_fuel fuel s f r =
  match fuel with
  | O -> s
  | S k ->
    (match s with
     | [] -> []
     | c :: s' ->
       if has_prefix s f
       then app r (replace_all_fuel k (skipn (length f) s) f r)
       else c :: (replace_all_fuel k s' f r))

(** val replace_all : str -> str -> str -> str **)

let replace_all s f r =
  replace_all_fuel (S (length s)) s f r

(** val show_Z : z -> str **)

let show_Z z0 =
  bs (NilZero.string_of_int (Z.to_int z0))

(** val digits_val : z -> str -> z option **)

let rec digits_val acc = function
| [] -> Some acc
| c :: s' ->
  if is_digit c
  then digits_val
         (Z.add (Z.mul acc (Zpos (XO (XI (XO XH)))))
           (Z.sub (byte c) (Zpos (XO (XO (XO (XO (XI XH)))))))) s'
  else None

(** val parse_int : str -> z option **)

let parse_int s = match s with
| [] -> None
| c :: s' ->
  if (=) c '-'
  then (match s' with
        | [] -> None
        | _ :: _ -> option_map Z.opp (digits_val Z0 s'))
  else if (=) c '+'
       then (match s' with
             | [] -> None
             | _ :: _ -> digits_val Z0 s')
       else digits_val Z0 s

type err =
| EKeyNotFound
| EOther of char list

type 'a outcome =
| Ok of 'a
| Err of err
| Panic of char list
| OutOfFuel
| Declined of char list

(** val bind : 'a1 outcome -> ('a1 -> 'a2 outcome) -> 'a2 outcome **)

let bind o f =
  match o with
  | Ok a -> f a
  | Err e -> Err e
  | Panic m -> Panic m
  | OutOfFuel -> OutOfFuel
  | Declined w -> Declined w

(** val fail : char list -> 'a1 outcome **)

let fail tag =
  Err (EOther tag)

(** val find_first : ('a1 -> bool) -> 'a1 list -> 'a1 option **)

let rec find_first p = function
| [] -> None
| x :: l' -> if p x then Some x else find_first p l'

(** val concat_str : str -> str list -> str **)

let rec concat_str sep = function
| [] -> []
| x :: l' ->
  (match l' with
   | [] -> x
   | _ :: _ -> app x (app sep (concat_str sep l')))

type dec = { coef : z; dexp : z }

(** val dzero : dec **)

let dzero =
  { coef = Z0; dexp = Z0 }

(** val pow10 : z -> z **)

let pow10 n0 =
  Z.pow (Zpos (XO (XI (XO XH)))) n0

(** val rescale : dec -> z -> dec **)

let rescale d e =
  if Z.eqb e d.dexp
  then d
  else if Z.ltb d.dexp e
       then { coef = (Z.quot d.coef (pow10 (Z.sub e d.dexp))); dexp = e }
       else { coef = (Z.mul d.coef (pow10 (Z.sub d.dexp e))); dexp = e }

(** val rescale_pair : dec -> dec -> dec * dec **)

let rescale_pair a b =
  let e = Z.min a.dexp b.dexp in ((rescale a e), (rescale b e))

(** val dadd : dec -> dec -> dec **)

let dadd a b =
  let (x, y) = rescale_pair a b in
  { coef = (Z.add x.coef y.coef); dexp = x.dexp }

(** val dsub : dec -> dec -> dec **)

let dsub a b =
  let (x, y) = rescale_pair a b in
  { coef = (Z.sub x.coef y.coef); dexp = x.dexp }

(** val dmul : dec -> dec -> dec **)

let dmul a b =
  { coef = (Z.mul a.coef b.coef); dexp = (Z.add a.dexp b.dexp) }

(** val dabs : dec -> dec **)

let dabs a =
  { coef = (Z.abs a.coef); dexp = a.dexp }

(** val dcmp : dec -> dec -> comparison **)

let dcmp a b =
  let (x, y) = rescale_pair a b in Z.compare x.coef y.coef

(** val deq : dec -> dec -> bool **)

let deq a b =
  match dcmp a b with
  | Eq -> true
  | _ -> false

(** val dlt : dec -> dec -> bool **)

let dlt a b =
  match dcmp a b with
  | Lt -> true
  | _ -> false

(** val dgt : dec -> dec -> bool **)

let dgt a b =
  match dcmp a b with
  | Gt -> true
  | _ -> false

(** val dle : dec -> dec -> bool **)

let dle a b =
  negb (dgt a b)

(** val dge : dec -> dec -> bool **)

let dge a b =
  negb (dlt a b)

(** val dis_zero : dec -> bool **)

let dis_zero a =
  Z.eqb a.coef Z0

(** val dis_neg : dec -> bool **)

let dis_neg a =
  Z.ltb a.coef Z0

(** val division_precision : z **)

let division_precision =
  Zpos (XO (XO (XO (XO XH))))

(** val quo_rem : dec -> dec -> z -> dec * dec **)

let quo_rem a b prec =
  let scale = Z.opp prec in
  let e = Z.sub (Z.sub a.dexp b.dexp) scale in
  if Z.ltb e Z0
  then let aa = a.coef in
       let bb = Z.mul b.coef (pow10 (Z.opp e)) in
       ({ coef = (Z.quot aa bb); dexp = scale }, { coef = (Z.rem aa bb);
       dexp = a.dexp })
  else let aa = Z.mul a.coef (pow10 e) in
       let bb = b.coef in
       ({ coef = (Z.quot aa bb); dexp = scale }, { coef = (Z.rem aa bb);
       dexp = (Z.add scale b.dexp) })

(** val div_round : dec -> dec -> z -> dec **)

let div_round a b prec =
  let (q, r) = quo_rem a b prec in
  let r2 = { coef = (Z.mul (Z.abs r.coef) (Zpos (XO XH))); dexp =
    (Z.add r.dexp prec) }
  in
  (match dcmp r2 (dabs b) with
   | Lt -> q
   | _ ->
     if Z.ltb (Z.mul (Z.sgn a.coef) (Z.sgn b.coef)) Z0
     then dsub q { coef = (Zpos XH); dexp = (Z.opp prec) }
     else dadd q { coef = (Zpos XH); dexp = (Z.opp prec) })

(** val ddiv : dec -> dec -> dec **)

let ddiv a b =
  div_round a b division_precision

(** val truncate0 : dec -> dec **)

let truncate0 d =
  if Z.ltb d.dexp Z0 then rescale d Z0 else d

(** val dmod : dec -> dec -> dec **)

let dmod a b =
  dsub a (dmul b (truncate0 (ddiv a b)))

(** val dsum : dec -> dec list -> dec **)

let dsum first rest =
  fold_left dadd rest first

(** val davg : dec -> dec list -> dec **)

let davg first rest =
  ddiv (dsum first rest) { coef = (Z.of_nat (S (length rest))); dexp = Z0 }

(** val dmin : dec -> dec list -> dec **)

let dmin first rest =
  fold_left (fun ans item -> match dcmp item ans with
                             | Lt -> item
                             | _ -> ans) rest first

(** val dmax : dec -> dec list -> dec **)

let dmax first rest =
  fold_left (fun ans item -> match dcmp item ans with
                             | Gt -> item
                             | _ -> ans) rest first

(** val dis_integer : dec -> bool **)

let dis_integer d =
  if Z.leb Z0 d.dexp
  then true
  else Z.eqb (Z.rem d.coef (pow10 (Z.opp d.dexp))) Z0

(** val sint64 : z -> z **)

let sint64 z0 =
  Z.sub
    (Z.modulo
      (Z.add z0 (Z.pow (Zpos (XO XH)) (Zpos (XI (XI (XI (XI (XI XH))))))))
      (Z.pow (Zpos (XO XH)) (Zpos (XO (XO (XO (XO (XO (XO XH)))))))))
    (Z.pow (Zpos (XO XH)) (Zpos (XI (XI (XI (XI (XI XH)))))))

(** val big_int64 : z -> z **)

let big_int64 x =
  let v =
    sint64
      (Z.modulo (Z.abs x)
        (Z.pow (Zpos (XO XH)) (Zpos (XO (XO (XO (XO (XO (XO XH)))))))))
  in
  if Z.ltb x Z0 then sint64 (Z.opp v) else v

(** val int_part : dec -> z **)

let int_part d =
  big_int64 (rescale d Z0).coef

(** val strip_zeros : nat -> z -> z -> dec **)

let rec strip_zeros fuel c e =
  match fuel with
  | O -> { coef = c; dexp = e }
  | S k ->
    if Z.eqb c Z0
    then { coef = Z0; dexp = Z0 }
    else if Z.eqb (Z.rem c (Zpos (XO (XI (XO XH))))) Z0
         then strip_zeros k (Z.quot c (Zpos (XO (XI (XO XH)))))
                (Z.add e (Zpos XH))
         else { coef = c; dexp = e }

(** val dnorm : dec -> dec **)

let dnorm d =
  strip_zeros (S (Z.to_nat (Z.log2 (Z.abs d.coef)))) d.coef d.dexp

(** val index_any_e : str -> nat -> nat option **)

let rec index_any_e s i =
  match s with
  | [] -> None
  | c :: s' ->
    if (||) ((=) c 'e') ((=) c 'E') then Some i else index_any_e s' (S i)

(** val count_dots : str -> nat **)

let rec count_dots = function
| [] -> O
| c :: s' -> add (if (=) c '.' then S O else O) (count_dots s')

(** val before_dot : str -> str **)

let rec before_dot = function
| [] -> []
| c :: s' -> if (=) c '.' then [] else c :: (before_dot s')

(** val after_dot : str -> str option **)

let rec after_dot = function
| [] -> None
| c :: s' -> if (=) c '.' then Some s' else after_dot s'

(** val in_int32 : z -> bool **)

let in_int32 z0 =
  (&&)
    (Z.leb (Z.opp (Z.pow (Zpos (XO XH)) (Zpos (XI (XI (XI (XI XH))))))) z0)
    (Z.ltb z0 (Z.pow (Zpos (XO XH)) (Zpos (XI (XI (XI (XI XH)))))))

(** val dec_of_string : str -> dec option **)

let dec_of_string value =
  match index_any_e value O with
  | Some i ->
    let mant = firstn i value in
    let eopt = Some (skipn (S i) value) in
    let expo =
      match eopt with
      | Some es ->
        (match parse_int es with
         | Some z0 -> if in_int32 z0 then Some z0 else None
         | None -> None)
      | None -> Some Z0
    in
    (match expo with
     | Some e0 ->
       if Nat.ltb (S O) (count_dots mant)
       then None
       else (match after_dot mant with
             | Some frac ->
               let int_string = app (before_dot mant) frac in
               let e1 = Z.sub e0 (Z.of_nat (length frac)) in
               (match parse_int int_string with
                | Some c ->
                  if in_int32 e1 then Some { coef = c; dexp = e1 } else None
                | None -> None)
             | None ->
               (match parse_int mant with
                | Some c ->
                  if in_int32 e0 then Some { coef = c; dexp = e0 } else None
                | None -> None))
     | None -> None)
  | None ->
    let eopt = None in
    let expo =
      match eopt with
      | Some es ->
        (match parse_int es with
         | Some z0 -> if in_int32 z0 then Some z0 else None
         | None -> None)
      | None -> Some Z0
    in
    (match expo with
     | Some e0 ->
       if Nat.ltb (S O) (count_dots value)
       then None
       else (match after_dot value with
             | Some frac ->
               let int_string = app (before_dot value) frac in
               let e1 = Z.sub e0 (Z.of_nat (length frac)) in
               (match parse_int int_string with
                | Some c ->
                  if in_int32 e1 then Some { coef = c; dexp = e1 } else None
                | None -> None)
             | None ->
               (match parse_int value with
                | Some c ->
                  if in_int32 e0 then Some { coef = c; dexp = e0 } else None
                | None -> None))
     | None -> None)

type num_result =
| NumOk of dec
| NumReject
| NumUnknown

(** val all_digits : str -> bool **)

let rec all_digits = function
| [] -> true
| c :: s' -> (&&) (is_digit c) (all_digits s')

(** val strip_leading_zeros : str -> str **)

let rec strip_leading_zeros s = match s with
| [] -> []
| c :: s' -> if (=) c '0' then strip_leading_zeros s' else s

(** val is_sign : char -> bool **)

let is_sign c =
  (||) ((=) c '+') ((=) c '-')

(** val is_hexish : char -> bool **)

let is_hexish c =
  (||) ((||) ((||) ((||) (is_digit c) ((=) c '_')) ((=) c '.')) (is_sign c))
    (let l = lower_ascii c in
     (||)
       ((||)
         ((||)
           ((||)
             ((||) ((||) ((||) ((=) l 'a') ((=) l 'b')) ((=) l 'c'))
               ((=) l 'd')) ((=) l 'e')) ((=) l 'f')) ((=) l 'x')) ((=) l 'p'))

(** val starts_hex : str -> bool **)

let starts_hex = function
| [] -> false
| z0 :: l ->
  (match l with
   | [] -> false
   | x :: _ -> (&&) ((=) z0 '0') ((=) (lower_ascii x) 'x'))

(** val numeral : str -> num_result **)

let numeral tt = match tt with
| [] ->
  let neg = false in
  let body = [] in
  if (&&) (forallb is_hexish tt)
       ((||) (existsb (fun c -> (=) c '_') tt) (starts_hex body))
  then NumUnknown
  else (match index_any_e body O with
        | Some i ->
          let mant = firstn i body in
          let eopt = Some (skipn (S i) body) in
          let ip = before_dot mant in
          let fp = match after_dot mant with
                   | Some f -> f
                   | None -> [] in
          let simple_mant =
            (&&)
              ((&&) ((&&) (all_digits ip) (all_digits fp))
                (Nat.leb (count_dots mant) (S O)))
              (negb (Nat.eqb (add (length ip) (length fp)) O))
          in
          let eok =
            match eopt with
            | Some es ->
              (match es with
               | [] -> None
               | c :: r ->
                 let ds = if is_sign c then r else es in
                 (match ds with
                  | [] -> None
                  | _ :: _ -> if all_digits ds then parse_int es else None))
            | None -> Some Z0
          in
          if negb simple_mant
          then NumReject
          else (match eok with
                | Some e0 ->
                  let digits = strip_leading_zeros (app ip fp) in
                  (match digits_val Z0 digits with
                   | Some c ->
                     let e = Z.sub e0 (Z.of_nat (length fp)) in
                     let adj = Z.add e (Z.of_nat (length digits)) in
                     if Nat.ltb (S (S (S (S (S (S (S (S (S (S (S (S (S (S (S
                          O))))))))))))))) (length digits)
                     then NumUnknown
                     else if Z.eqb c Z0
                          then if Z.ltb (Z.abs e0) (Zpos (XO (XO (XO (XO (XO
                                    (XI (XO (XI (XO (XI (XI (XO (XO (XO (XO
                                    (XI XH)))))))))))))))))
                               then NumOk dzero
                               else NumUnknown
                          else if (||)
                                    (Z.ltb adj (Zneg (XO (XO (XI (XI (XO (XI
                                      (XO (XO XH))))))))))
                                    (Z.ltb (Zpos (XO (XO (XI (XI (XO (XI (XO
                                      (XO XH))))))))) adj)
                               then NumUnknown
                               else NumOk
                                      (dnorm { coef =
                                        (if neg then Z.opp c else c); dexp =
                                        e })
                   | None -> NumReject)
                | None -> NumReject)
        | None ->
          let eopt = None in
          let ip = before_dot body in
          let fp = match after_dot body with
                   | Some f -> f
                   | None -> [] in
          let simple_mant =
            (&&)
              ((&&) ((&&) (all_digits ip) (all_digits fp))
                (Nat.leb (count_dots body) (S O)))
              (negb (Nat.eqb (add (length ip) (length fp)) O))
          in
          let eok =
            match eopt with
            | Some es ->
              (match es with
               | [] -> None
               | c :: r ->
                 let ds = if is_sign c then r else es in
                 (match ds with
                  | [] -> None
                  | _ :: _ -> if all_digits ds then parse_int es else None))
            | None -> Some Z0
          in
          if negb simple_mant
          then NumReject
          else (match eok with
                | Some e0 ->
                  let digits = strip_leading_zeros (app ip fp) in
                  (match digits_val Z0 digits with
                   | Some c ->
                     let e = Z.sub e0 (Z.of_nat (length fp)) in
                     let adj = Z.add e (Z.of_nat (length digits)) in
                     if Nat.ltb (S (S (S (S (S (S (S (S (S (S (S (S (S (S (S
                          O))))))))))))))) (length digits)
                     then NumUnknown
                     else if Z.eqb c Z0
                          then if Z.ltb (Z.abs e0) (Zpos (XO (XO (XO (XO (XO
                                    (XI (XO (XI (XO (XI (XI (XO (XO (XO (XO
                                    (XI XH)))))))))))))))))
                               then NumOk dzero
                               else NumUnknown
                          else if (||)
                                    (Z.ltb adj (Zneg (XO (XO (XI (XI (XO (XI
                                      (XO (XO XH))))))))))
                                    (Z.ltb (Zpos (XO (XO (XI (XI (XO (XI (XO
                                      (XO XH))))))))) adj)
                               then NumUnknown
                               else NumOk
                                      (dnorm { coef =
                                        (if neg then Z.opp c else c); dexp =
                                        e })
                   | None -> NumReject)
                | None -> NumReject))
| c :: r ->
  if (=) c '-'
  then let neg = true in
       if (&&) (forallb is_hexish tt)
            ((||) (existsb (fun c0 -> (=) c0 '_') tt) (starts_hex r))
       then NumUnknown
       else (match index_any_e r O with
             | Some i ->
               let mant = firstn i r in
               let eopt = Some (skipn (S i) r) in
               let ip = before_dot mant in
               let fp = match after_dot mant with
                        | Some f -> f
                        | None -> [] in
               let simple_mant =
                 (&&)
                   ((&&) ((&&) (all_digits ip) (all_digits fp))
                     (Nat.leb (count_dots mant) (S O)))
                   (negb (Nat.eqb (add (length ip) (length fp)) O))
               in
               let eok =
                 match eopt with
                 | Some es ->
                   (match es with
                    | [] -> None
                    | c0 :: r0 ->
                      let ds = if is_sign c0 then r0 else es in
                      (match ds with
                       | [] -> None
                       | _ :: _ ->
                         if all_digits ds then parse_int es else None))
                 | None -> Some Z0
               in
               if negb simple_mant
               then NumReject
               else (match eok with
                     | Some e0 ->
                       let digits = strip_leading_zeros (app ip fp) in
                       (match digits_val Z0 digits with
                        | Some c0 ->
                          let e = Z.sub e0 (Z.of_nat (length fp)) in
                          let adj = Z.add e (Z.of_nat (length digits)) in
                          if Nat.ltb (S (S (S (S (S (S (S (S (S (S (S (S (S
                               (S (S O))))))))))))))) (length digits)
                          then NumUnknown
                          else if Z.eqb c0 Z0
                               then if Z.ltb (Z.abs e0) (Zpos (XO (XO (XO (XO
                                         (XO (XI (XO (XI (XO (XI (XI (XO (XO
                                         (XO (XO (XI XH)))))))))))))))))
                                    then NumOk dzero
                                    else NumUnknown
                               else if (||)
                                         (Z.ltb adj (Zneg (XO (XO (XI (XI (XO
                                           (XI (XO (XO XH))))))))))
                                         (Z.ltb (Zpos (XO (XO (XI (XI (XO (XI
                                           (XO (XO XH))))))))) adj)
                                    then NumUnknown
                                    else NumOk
                                           (dnorm { coef =
                                             (if neg then Z.opp c0 else c0);
                                             dexp = e })
                        | None -> NumReject)
                     | None -> NumReject)
             | None ->
               let eopt = None in
               let ip = before_dot r in
               let fp = match after_dot r with
                        | Some f -> f
                        | None -> [] in
               let simple_mant =
                 (&&)
                   ((&&) ((&&) (all_digits ip) (all_digits fp))
                     (Nat.leb (count_dots r) (S O)))
                   (negb (Nat.eqb (add (length ip) (length fp)) O))
               in
               let eok =
                 match eopt with
                 | Some es ->
                   (match es with
                    | [] -> None
                    | c0 :: r0 ->
                      let ds = if is_sign c0 then r0 else es in
                      (match ds with
                       | [] -> None
                       | _ :: _ ->
                         if all_digits ds then parse_int es else None))
                 | None -> Some Z0
               in
               if negb simple_mant
               then NumReject
               else (match eok with
                     | Some e0 ->
                       let digits = strip_leading_zeros (app ip fp) in
                       (match digits_val Z0 digits with
                        | Some c0 ->
                          let e = Z.sub e0 (Z.of_nat (length fp)) in
                          let adj = Z.add e (Z.of_nat (length digits)) in
                          if Nat.ltb (S (S (S (S (S (S (S (S (S (S (S (S (S
                               (S (S O))))))))))))))) (length digits)
                          then NumUnknown
                          else if Z.eqb c0 Z0
                               then if Z.ltb (Z.abs e0) (Zpos (XO (XO (XO (XO
                                         (XO (XI (XO (XI (XO (XI (XI (XO (XO
                                         (XO (XO (XI XH)))))))))))))))))
                                    then NumOk dzero
                                    else NumUnknown
                               else if (||)
                                         (Z.ltb adj (Zneg (XO (XO (XI (XI (XO
                                           (XI (XO (XO XH))))))))))
                                         (Z.ltb (Zpos (XO (XO (XI (XI (XO (XI
                                           (XO (XO XH))))))))) adj)
                                    then NumUnknown
                                    else NumOk
                                           (dnorm { coef =
                                             (if neg then Z.opp c0 else c0);
                                             dexp = e })
                        | None -> NumReject)
                     | None -> NumReject))
  else if (=) c '+'
       then let neg = false in
            if (&&) (forallb is_hexish tt)
                 ((||) (existsb (fun c0 -> (=) c0 '_') tt) (starts_hex r))
            then NumUnknown
            else (match index_any_e r O with
                  | Some i ->
                    let mant = firstn i r in
                    let eopt = Some (skipn (S i) r) in
                    let ip = before_dot mant in
                    let fp =
                      match after_dot mant with
                      | Some f -> f
                      | None -> []
                    in
                    let simple_mant =
                      (&&)
                        ((&&) ((&&) (all_digits ip) (all_digits fp))
                          (Nat.leb (count_dots mant) (S O)))
                        (negb (Nat.eqb (add (length ip) (length fp)) O))
                    in
                    let eok =
                      match eopt with
                      | Some es ->
                        (match es with
                         | [] -> None
                         | c0 :: r0 ->
                           let ds = if is_sign c0 then r0 else es in
                           (match ds with
                            | [] -> None
                            | _ :: _ ->
                              if all_digits ds then parse_int es else None))
                      | None -> Some Z0
                    in
                    if negb simple_mant
                    then NumReject
                    else (match eok with
                          | Some e0 ->
                            let digits = strip_leading_zeros (app ip fp) in
                            (match digits_val Z0 digits with
                             | Some c0 ->
                               let e = Z.sub e0 (Z.of_nat (length fp)) in
                               let adj = Z.add e (Z.of_nat (length digits)) in
                               if Nat.ltb (S (S (S (S (S (S (S (S (S (S (S (S
                                    (S (S (S O))))))))))))))) (length digits)
                               then NumUnknown
                               else if Z.eqb c0 Z0
                                    then if Z.ltb (Z.abs e0) (Zpos (XO (XO
                                              (XO (XO (XO (XI (XO (XI (XO (XI
                                              (XI (XO (XO (XO (XO (XI
                                              XH)))))))))))))))))
                                         then NumOk dzero
                                         else NumUnknown
                                    else if (||)
                                              (Z.ltb adj (Zneg (XO (XO (XI
                                                (XI (XO (XI (XO (XO
                                                XH))))))))))
                                              (Z.ltb (Zpos (XO (XO (XI (XI
                                                (XO (XI (XO (XO XH)))))))))
                                                adj)
                                         then NumUnknown
                                         else NumOk
                                                (dnorm { coef =
                                                  (if neg
                                                   then Z.opp c0
                                                   else c0); dexp = e })
                             | None -> NumReject)
                          | None -> NumReject)
                  | None ->
                    let eopt = None in
                    let ip = before_dot r in
                    let fp = match after_dot r with
                             | Some f -> f
                             | None -> []
                    in
                    let simple_mant =
                      (&&)
                        ((&&) ((&&) (all_digits ip) (all_digits fp))
                          (Nat.leb (count_dots r) (S O)))
                        (negb (Nat.eqb (add (length ip) (length fp)) O))
                    in
                    let eok =
                      match eopt with
                      | Some es ->
                        (match es with
                         | [] -> None
                         | c0 :: r0 ->
                           let ds = if is_sign c0 then r0 else es in
                           (match ds with
                            | [] -> None
                            | _ :: _ ->
                              if all_digits ds then parse_int es else None))
                      | None -> Some Z0
                    in
                    if negb simple_mant
                    then NumReject
                    else (match eok with
                          | Some e0 ->
                            let digits = strip_leading_zeros (app ip fp) in
                            (match digits_val Z0 digits with
                             | Some c0 ->
                               let e = Z.sub e0 (Z.of_nat (length fp)) in
                               let adj = Z.add e (Z.of_nat (length digits)) in
                               if Nat.ltb (S (S (S (S (S (S (S (S (S (S (S (S
                                    (S (S (S O))))))))))))))) (length digits)
                               then NumUnknown
                               else if Z.eqb c0 Z0
                                    then if Z.ltb (Z.abs e0) (Zpos (XO (XO
                                              (XO (XO (XO (XI (XO (XI (XO (XI
                                              (XI (XO (XO (XO (XO (XI
                                              XH)))))))))))))))))
                                         then NumOk dzero
                                         else NumUnknown
                                    else if (||)
                                              (Z.ltb adj (Zneg (XO (XO (XI
                                                (XI (XO (XI (XO (XO
                                                XH))))))))))
                                              (Z.ltb (Zpos (XO (XO (XI (XI
                                                (XO (XI (XO (XO XH)))))))))
                                                adj)
                                         then NumUnknown
                                         else NumOk
                                                (dnorm { coef =
                                                  (if neg
                                                   then Z.opp c0
                                                   else c0); dexp = e })
                             | None -> NumReject)
                          | None -> NumReject))
       else let neg = false in
            if (&&) (forallb is_hexish tt)
                 ((||) (existsb (fun c0 -> (=) c0 '_') tt) (starts_hex tt))
            then NumUnknown
            else (match index_any_e tt O with
                  | Some i ->
                    let mant = firstn i tt in
                    let eopt = Some (skipn (S i) tt) in
                    let ip = before_dot mant in
                    let fp =
                      match after_dot mant with
                      | Some f -> f
                      | None -> []
                    in
                    let simple_mant =
                      (&&)
                        ((&&) ((&&) (all_digits ip) (all_digits fp))
                          (Nat.leb (count_dots mant) (S O)))
                        (negb (Nat.eqb (add (length ip) (length fp)) O))
                    in
                    let eok =
                      match eopt with
                      | Some es ->
                        (match es with
                         | [] -> None
                         | c0 :: r0 ->
                           let ds = if is_sign c0 then r0 else es in
                           (match ds with
                            | [] -> None
                            | _ :: _ ->
                              if all_digits ds then parse_int es else None))
                      | None -> Some Z0
                    in
                    if negb simple_mant
                    then NumReject
                    else (match eok with
                          | Some e0 ->
                            let digits = strip_leading_zeros (app ip fp) in
                            (match digits_val Z0 digits with
                             | Some c0 ->
                               let e = Z.sub e0 (Z.of_nat (length fp)) in
                               let adj = Z.add e (Z.of_nat (length digits)) in
                               if Nat.ltb (S (S (S (S (S (S (S (S (S (S (S (S
                                    (S (S (S O))))))))))))))) (length digits)
                               then NumUnknown
                               else if Z.eqb c0 Z0
                                    then if Z.ltb (Z.abs e0) (Zpos (XO (XO
                                              (XO (XO (XO (XI (XO (XI (XO (XI
                                              (XI (XO (XO (XO (XO (XI
                                              XH)))))))))))))))))
                                         then NumOk dzero
                                         else NumUnknown
                                    else if (||)
                                              (Z.ltb adj (Zneg (XO (XO (XI
                                                (XI (XO (XI (XO (XO
                                                XH))))))))))
                                              (Z.ltb (Zpos (XO (XO (XI (XI
                                                (XO (XI (XO (XO XH)))))))))
                                                adj)
                                         then NumUnknown
                                         else NumOk
                                                (dnorm { coef =
                                                  (if neg
                                                   then Z.opp c0
                                                   else c0); dexp = e })
                             | None -> NumReject)
                          | None -> NumReject)
                  | None ->
                    let eopt = None in
                    let ip = before_dot tt in
                    let fp = match after_dot tt with
                             | Some f -> f
                             | None -> []
                    in
                    let simple_mant =
                      (&&)
                        ((&&) ((&&) (all_digits ip) (all_digits fp))
                          (Nat.leb (count_dots tt) (S O)))
                        (negb (Nat.eqb (add (length ip) (length fp)) O))
                    in
                    let eok =
                      match eopt with
                      | Some es ->
                        (match es with
                         | [] -> None
                         | c0 :: r0 ->
                           let ds = if is_sign c0 then r0 else es in
                           (match ds with
                            | [] -> None
                            | _ :: _ ->
                              if all_digits ds then parse_int es else None))
                      | None -> Some Z0
                    in
                    if negb simple_mant
                    then NumReject
                    else (match eok with
                          | Some e0 ->
                            let digits = strip_leading_zeros (app ip fp) in
                            (match digits_val Z0 digits with
                             | Some c0 ->
                               let e = Z.sub e0 (Z.of_nat (length fp)) in
                               let adj = Z.add e (Z.of_nat (length digits)) in
                               if Nat.ltb (S (S (S (S (S (S (S (S (S (S (S (S
                                    (S (S (S O))))))))))))))) (length digits)
                               then NumUnknown
                               else if Z.eqb c0 Z0
                                    then if Z.ltb (Z.abs e0) (Zpos (XO (XO
                                              (XO (XO (XO (XI (XO (XI (XO (XI
                                              (XI (XO (XO (XO (XO (XI
                                              XH)))))))))))))))))
                                         then NumOk dzero
                                         else NumUnknown
                                    else if (||)
                                              (Z.ltb adj (Zneg (XO (XO (XI
                                                (XI (XO (XI (XO (XO
                                                XH))))))))))
                                              (Z.ltb (Zpos (XO (XO (XI (XI
                                                (XO (XI (XO (XO XH)))))))))
                                                adj)
                                         then NumUnknown
                                         else NumOk
                                                (dnorm { coef =
                                                  (if neg
                                                   then Z.opp c0
                                                   else c0); dexp = e })
                             | None -> NumReject)
                          | None -> NumReject))

type ptype =
| PT_String
| PT_Bytes
| PT_Boolean
| PT_Number
| PT_Any
| PT_Object
| PT_Root
| PT_ElementRoot

type iotype =
| IO_Single
| IO_Array
| IO_Variadic

type ioty = ptype * iotype

type fdesc = { fd_key : char list; fd_name : char list; fd_on : ioty;
               fd_ret : ioty; fd_params : ioty list; fd_known : bool }

type nkind =
| KInt
| KInt8
| KInt16
| KInt32
| KInt64
| KUint
| KUint8
| KUint16
| KUint32
| KUint64

(** val nk_unsigned : nkind -> bool **)

let nk_unsigned = function
| KInt -> false
| KInt8 -> false
| KInt16 -> false
| KInt32 -> false
| KInt64 -> false
| _ -> true

type fl =
| FNaN
| FInf of bool
| FFin of dec

type ety =
| EAny
| EDec
| EStr
| EBool
| EFloat64
| EInt
| ETOther

type kty =
| KtStr
| KtNamedStr
| KtAny
| KtOther

type gv =
| VNil
| VBool of bool * bool
| VInt of nkind * bool * z
| VFloat of bool * bool * fl
| VStr of bool * str
| VDec of dec
| VPtr of gv option
| VSlice of ety * bool * gv list
| VArray of ety * gv list
| VMap of kty * ety * bool * (gv * gv) list
| VStruct of (((str * bool) * bool) * gv) list
| VFunc of bool
| VChan of bool

(** val ety_eqb : ety -> ety -> bool **)

let ety_eqb a b =
  match a with
  | EAny -> (match b with
             | EAny -> true
             | _ -> false)
  | EDec -> (match b with
             | EDec -> true
             | _ -> false)
  | EStr -> (match b with
             | EStr -> true
             | _ -> false)
  | EBool -> (match b with
              | EBool -> true
              | _ -> false)
  | EFloat64 -> (match b with
                 | EFloat64 -> true
                 | _ -> false)
  | EInt -> (match b with
             | EInt -> true
             | _ -> false)
  | ETOther -> (match b with
                | ETOther -> true
                | _ -> false)

type kind =
| KdInvalid
| KdBool
| KdInt
| KdUint
| KdFloat
| KdString
| KdStruct
| KdMap
| KdSlice
| KdArray
| KdPtr
| KdInterface
| KdFunc
| KdChan

(** val kind_of : gv -> kind **)

let kind_of = function
| VNil -> KdInvalid
| VBool (_, _) -> KdBool
| VInt (k, _, _) -> if nk_unsigned k then KdUint else KdInt
| VFloat (_, _, _) -> KdFloat
| VStr (_, _) -> KdString
| VPtr _ -> KdPtr
| VSlice (_, _, _) -> KdSlice
| VArray (_, _) -> KdArray
| VMap (_, _, _, _) -> KdMap
| VFunc _ -> KdFunc
| VChan _ -> KdChan
| _ -> KdStruct

type rv = { rv_if : bool; rv_v : gv }

(** val value_of : gv -> rv **)

let value_of g =
  { rv_if = false; rv_v = g }

(** val rkind : rv -> kind **)

let rkind r =
  if r.rv_if then KdInterface else kind_of r.rv_v

(** val relem : rv -> rv **)

let relem r =
  if r.rv_if
  then { rv_if = false; rv_v = r.rv_v }
  else (match r.rv_v with
        | VPtr target ->
          (match target with
           | Some g -> { rv_if = false; rv_v = g }
           | None -> { rv_if = false; rv_v = VNil })
        | _ -> { rv_if = false; rv_v = VNil })

(** val deref1 : rv -> rv **)

let deref1 r =
  match rkind r with
  | KdPtr -> relem r
  | KdInterface -> relem r
  | _ -> r

(** val slot : ety -> gv -> rv **)

let slot t g =
  { rv_if = (ety_eqb t EAny); rv_v = g }

(** val float_is_zero : fl -> bool **)

let float_is_zero = function
| FFin d -> dis_zero d
| _ -> false

(** val rlen : rv -> nat **)

let rlen r =
  match r.rv_v with
  | VStr (_, s) -> length s
  | VSlice (_, _, xs) -> length xs
  | VArray (_, xs) -> length xs
  | VMap (_, _, _, kvs) -> length kvs
  | _ -> O

(** val ris_nil : rv -> bool **)

let ris_nil r =
  if r.rv_if
  then (match r.rv_v with
        | VNil -> true
        | _ -> false)
  else (match r.rv_v with
        | VNil -> true
        | VPtr target -> (match target with
                          | Some _ -> false
                          | None -> true)
        | VSlice (_, isnil, _) -> isnil
        | VMap (_, _, isnil, _) -> isnil
        | VFunc isnil -> isnil
        | VChan isnil -> isnil
        | _ -> false)

(** val is_empty_value : rv -> bool **)

let is_empty_value r =
  match rkind r with
  | KdInvalid -> false
  | KdBool -> (match r.rv_v with
               | VBool (_, b) -> negb b
               | _ -> false)
  | KdInt -> (match r.rv_v with
              | VInt (_, _, z0) -> Z.eqb z0 Z0
              | _ -> false)
  | KdUint -> (match r.rv_v with
               | VInt (_, _, z0) -> Z.eqb z0 Z0
               | _ -> false)
  | KdFloat ->
    (match r.rv_v with
     | VFloat (_, _, f) -> float_is_zero f
     | _ -> false)
  | KdStruct -> false
  | KdPtr -> ris_nil r
  | KdInterface -> ris_nil r
  | KdFunc -> false
  | KdChan -> false
  | _ -> Nat.eqb (rlen r) O

(** val is_nil : gv -> bool **)

let is_nil g =
  match kind_of g with
  | KdInvalid -> true
  | KdMap -> ris_nil (value_of g)
  | KdSlice -> ris_nil (value_of g)
  | KdPtr -> ris_nil (value_of g)
  | KdFunc -> ris_nil (value_of g)
  | KdChan -> ris_nil (value_of g)
  | _ -> false

(** val convert_number_check : gv -> bool * dec **)

let convert_number_check val0 =
  let v = value_of val0 in
  let v0 = if is_empty_value v then v else deref1 v in
  (match v0.rv_v with
   | VInt (_, _, z0) ->
     if v0.rv_if then (false, dzero) else (true, { coef = z0; dexp = Z0 })
   | VFloat (_, _, f) ->
     (match f with
      | FFin d -> if v0.rv_if then (false, dzero) else (true, d)
      | _ -> (false, dzero))
   | VStr (_, s) ->
     if v0.rv_if
     then (false, dzero)
     else (match dec_of_string s with
           | Some d -> (true, d)
           | None -> (false, dzero))
   | _ -> (false, dzero))

(** val convert_number : gv -> gv **)

let convert_number val0 =
  let (was, d) = convert_number_check val0 in if was then VDec d else val0

(** val is_go_string : gv -> bool **)

let is_go_string = function
| VStr (named, _) -> if named then false else true
| _ -> false

(** val convert_unless_string : gv -> gv **)

let convert_unless_string g =
  if is_go_string g then g else convert_number g

(** val key_string : gv -> str option **)

let key_string = function
| VInt (_, _, z0) ->
  if (&&) (Z.ltb Z0 z0)
       (Z.ltb z0 (Zpos (XO (XO (XO (XO (XO (XO (XO XH)))))))))
  then Some ((chr z0) :: [])
  else Some
         ((chr (Zpos (XI (XI (XI (XI (XO (XI (XI XH))))))))) :: ((chr (Zpos
                                                                   (XI (XI
                                                                   (XI (XI
                                                                   (XI (XI
                                                                   (XO
                                                                   XH))))))))) :: (
         (chr (Zpos (XI (XO (XI (XI (XI (XI (XO XH))))))))) :: [])))
| VStr (named, s) ->
  if named then (match s with
                 | [] -> None
                 | _ :: _ -> Some s) else Some s
| _ -> None

(** val map_lookup_fold : str -> (gv * gv) list -> gv option **)

let rec map_lookup_fold name = function
| [] -> None
| p :: rest ->
  let (k, v) = p in
  (match key_string k with
   | Some s -> if equal_fold s name then Some v else map_lookup_fold name rest
   | None -> map_lookup_fold name rest)

(** val struct_lookup_fold :
    str -> (((str * bool) * bool) * gv) list -> gv option **)

let rec struct_lookup_fold name = function
| [] -> None
| p :: rest ->
  let (p0, v) = p in
  let (p1, _) = p0 in
  let (fname, exported) = p1 in
  if (&&) exported (equal_fold fname name)
  then Some v
  else struct_lookup_fold name rest

(** val get_field_by_name : str -> rv -> gv option **)

let get_field_by_name name sv =
  if is_empty_value sv
  then None
  else let sv0 = deref1 sv in
       if sv0.rv_if
       then None
       else (match sv0.rv_v with
             | VMap (_, _, _, kvs) ->
               option_map convert_number (map_lookup_fold name kvs)
             | VStruct fs ->
               option_map convert_unless_string (struct_lookup_fold name fs)
             | _ -> None)

(** val elems_of : gv -> (ety * gv list) option **)

let elems_of = function
| VSlice (t, _, xs) -> Some (t, xs)
| VArray (t, xs) -> Some (t, xs)
| _ -> None

(** val filter_map : ('a1 -> 'a2 option) -> 'a1 list -> 'a2 list **)

let rec filter_map f = function
| [] -> []
| x :: l' ->
  (match f x with
   | Some y -> y :: (filter_map f l')
   | None -> filter_map f l')

(** val get_values_by_name : str -> gv -> gv outcome **)

let get_values_by_name name data =
  let v = value_of data in
  if is_empty_value v
  then Err EKeyNotFound
  else let v0 = deref1 v in
       (match v0.rv_v with
        | VDec _ ->
          (match get_field_by_name name v0 with
           | Some out -> Ok out
           | None -> Err EKeyNotFound)
        | VSlice (t, _, xs) ->
          (match xs with
           | [] -> Err EKeyNotFound
           | x0 :: _ ->
             let fev = deref1 (slot t x0) in
             (match rkind fev with
              | KdStruct ->
                (match filter_map (fun x ->
                         get_field_by_name name (slot t x)) xs with
                 | [] -> Err EKeyNotFound
                 | g :: l -> Ok (VSlice (EAny, false, (g :: l))))
              | KdMap ->
                (match filter_map (fun x ->
                         get_field_by_name name (slot t x)) xs with
                 | [] -> Err EKeyNotFound
                 | g :: l -> Ok (VSlice (EAny, false, (g :: l))))
              | _ -> Err EKeyNotFound))
        | VArray (t, xs) ->
          (match xs with
           | [] -> Err EKeyNotFound
           | x0 :: _ ->
             let fev = deref1 (slot t x0) in
             (match rkind fev with
              | KdStruct ->
                (match filter_map (fun x ->
                         get_field_by_name name (slot t x)) xs with
                 | [] -> Err EKeyNotFound
                 | g :: l -> Ok (VSlice (EAny, false, (g :: l))))
              | KdMap ->
                (match filter_map (fun x ->
                         get_field_by_name name (slot t x)) xs with
                 | [] -> Err EKeyNotFound
                 | g :: l -> Ok (VSlice (EAny, false, (g :: l))))
              | _ -> Err EKeyNotFound))
        | VStruct _ ->
          (match get_field_by_name name v0 with
           | Some out -> Ok out
           | None -> Err EKeyNotFound)
        | _ -> Err EKeyNotFound)

(** val do_ident : str -> gv -> gv outcome **)

let do_ident name cur =
  let v = deref1 (value_of cur) in
  (match v.rv_v with
   | VMap (_, _, _, kvs) ->
     (match map_lookup_fold name kvs with
      | Some x -> Ok (convert_unless_string x)
      | None -> Err EKeyNotFound)
   | _ -> get_values_by_name name cur)

(** val get_as_struct_or_slice : gv -> (gv * bool) option **)

let get_as_struct_or_slice data = match data with
| VMap (kt, vt, _, _) ->
  (match kt with
   | KtStr ->
     (match vt with
      | EAny -> Some (data, true)
      | _ ->
        let v = deref1 (value_of data) in
        (match v.rv_v with
         | VDec _ -> Some (v.rv_v, true)
         | VSlice (_, _, xs) ->
           (match xs with
            | [] -> Some ((VSlice (EAny, false, [])), false)
            | _ :: _ -> Some ((VSlice (EAny, false, xs)), false))
         | VArray (_, xs) ->
           (match xs with
            | [] -> Some ((VSlice (EAny, false, [])), false)
            | _ :: _ -> Some ((VSlice (EAny, false, xs)), false))
         | VStruct _ -> Some (v.rv_v, true)
         | _ -> None))
   | _ ->
     let v = deref1 (value_of data) in
     (match v.rv_v with
      | VDec _ -> Some (v.rv_v, true)
      | VSlice (_, _, xs) ->
        (match xs with
         | [] -> Some ((VSlice (EAny, false, [])), false)
         | _ :: _ -> Some ((VSlice (EAny, false, xs)), false))
      | VArray (_, xs) ->
        (match xs with
         | [] -> Some ((VSlice (EAny, false, [])), false)
         | _ :: _ -> Some ((VSlice (EAny, false, xs)), false))
      | VStruct _ -> Some (v.rv_v, true)
      | _ -> None))
| _ ->
  let v = deref1 (value_of data) in
  (match v.rv_v with
   | VDec _ -> Some (v.rv_v, true)
   | VSlice (_, _, xs) ->
     (match xs with
      | [] -> Some ((VSlice (EAny, false, [])), false)
      | _ :: _ -> Some ((VSlice (EAny, false, xs)), false))
   | VArray (_, xs) ->
     (match xs with
      | [] -> Some ((VSlice (EAny, false, [])), false)
      | _ :: _ -> Some ((VSlice (EAny, false, xs)), false))
   | VStruct _ -> Some (v.rv_v, true)
   | _ -> None)

type lot =
| LAnd
| LOr
| LBad of str

type path =
| Path of bool * bool * bool * bool * pathop list * str
and pathop =
| PIdent of str * bool * str
| PFilter of logop * str
| PFunc of func
and func =
| Func of bool * str * param list * str
and param =
| FPNum of dec
| FPStr of str
| FPBool of bool
| FPPath of path
| FPLog of logop
and logop =
| LogOp of bool * bool * lot * operand list * str
and operand =
| OpP of path
| OpL of logop

type top =
| TopP of path
| TopL of logop

(** val path_us : path -> str **)

let path_us = function
| Path (_, _, _, _, _, us) -> us

(** val logop_us : logop -> str **)

let logop_us = function
| LogOp (_, _, _, _, us) -> us

(** val func_us : func -> str **)

let func_us = function
| Func (_, _, _, us) -> us

(** val pathop_qmark : pathop -> bool **)

let pathop_qmark = function
| PIdent (_, q, _) -> q
| _ -> false

(** val pathop_is_func : pathop -> bool **)

let pathop_is_func = function
| PFunc _ -> true
| _ -> false

(** val invalid_runes : z list **)

let invalid_runes =
  (Zpos (XI (XO (XO (XO (XO XH)))))) :: ((Zpos (XO (XI (XO (XO (XO
    XH)))))) :: ((Zpos (XO (XO (XI (XO (XO XH)))))) :: ((Zpos (XO (XI (XI (XO
    (XO XH)))))) :: ((Zpos (XI (XI (XI (XO (XO XH)))))) :: ((Zpos (XO (XO (XO
    (XI (XO XH)))))) :: ((Zpos (XI (XO (XO (XI (XO XH)))))) :: ((Zpos (XO (XI
    (XO (XI (XO XH)))))) :: ((Zpos (XO (XO (XI (XI (XO XH)))))) :: ((Zpos (XO
    (XI (XI (XI (XO XH)))))) :: ((Zpos (XI (XI (XI (XI (XO XH)))))) :: ((Zpos
    (XI (XI (XO (XI (XI XH)))))) :: ((Zpos (XO (XO (XI (XI (XI
    XH)))))) :: ((Zpos (XI (XO (XI (XI (XI XH)))))) :: ((Zpos (XO (XI (XI (XI
    (XI XH)))))) :: ((Zpos (XO (XO (XO (XO (XO (XO XH))))))) :: ((Zpos (XI
    (XI (XO (XI (XI (XO XH))))))) :: ((Zpos (XI (XO (XI (XI (XI (XO
    XH))))))) :: ((Zpos (XI (XI (XO (XI (XI (XI XH))))))) :: ((Zpos (XO (XO
    (XI (XI (XI (XI XH))))))) :: ((Zpos (XI (XO (XI (XI (XI (XI
    XH))))))) :: []))))))))))))))))))))

type uclass = { u_print : (z -> bool); u_space : (z -> bool) }

(** val rune_error : z **)

let rune_error =
  Zpos (XI (XO (XI (XI (XI (XI (XI (XI (XI (XI (XI (XI (XI (XI (XI
    XH)))))))))))))))

(** val is_cont : char -> bool **)

let is_cont c =
  (&&) (Z.leb (Zpos (XO (XO (XO (XO (XO (XO (XO XH)))))))) (byte c))
    (Z.leb (byte c) (Zpos (XI (XI (XI (XI (XI (XI (XO XH)))))))))

(** val in_rng : z -> z -> char -> bool **)

let in_rng lo hi c =
  (&&) (Z.leb lo (byte c)) (Z.leb (byte c) hi)

(** val decode_rune : str -> z * nat **)

let decode_rune = function
| [] -> (rune_error, O)
| b0 :: r ->
  let x0 = byte b0 in
  if Z.ltb x0 (Zpos (XO (XO (XO (XO (XO (XO (XO XH))))))))
  then (x0, (S O))
  else if in_rng (Zpos (XO (XI (XO (XO (XO (XO (XI XH)))))))) (Zpos (XI (XI
            (XI (XI (XI (XO (XI XH)))))))) b0
       then (match r with
             | [] -> (rune_error, (S O))
             | b1 :: _ ->
               if is_cont b1
               then ((Z.add
                       (Z.mul
                         (Z.sub x0 (Zpos (XO (XO (XO (XO (XO (XO (XI
                           XH))))))))) (Zpos (XO (XO (XO (XO (XO (XO
                         XH))))))))
                       (Z.sub (byte b1) (Zpos (XO (XO (XO (XO (XO (XO (XO
                         XH)))))))))), (S (S O)))
               else (rune_error, (S O)))
       else if in_rng (Zpos (XO (XO (XO (XO (XO (XI (XI XH)))))))) (Zpos (XI
                 (XI (XI (XI (XO (XI (XI XH)))))))) b0
            then (match r with
                  | [] -> (rune_error, (S O))
                  | b1 :: l ->
                    (match l with
                     | [] -> (rune_error, (S O))
                     | b2 :: _ ->
                       let lo =
                         if Z.eqb x0 (Zpos (XO (XO (XO (XO (XO (XI (XI
                              XH))))))))
                         then Zpos (XO (XO (XO (XO (XO (XI (XO XH)))))))
                         else Zpos (XO (XO (XO (XO (XO (XO (XO XH)))))))
                       in
                       let hi =
                         if Z.eqb x0 (Zpos (XI (XO (XI (XI (XO (XI (XI
                              XH))))))))
                         then Zpos (XI (XI (XI (XI (XI (XO (XO XH)))))))
                         else Zpos (XI (XI (XI (XI (XI (XI (XO XH)))))))
                       in
                       if (&&) (in_rng lo hi b1) (is_cont b2)
                       then ((Z.add
                               (Z.add
                                 (Z.mul
                                   (Z.sub x0 (Zpos (XO (XO (XO (XO (XO (XI
                                     (XI XH))))))))) (Zpos (XO (XO (XO (XO
                                   (XO (XO (XO (XO (XO (XO (XO (XO
                                   XH))))))))))))))
                                 (Z.mul
                                   (Z.sub (byte b1) (Zpos (XO (XO (XO (XO (XO
                                     (XO (XO XH))))))))) (Zpos (XO (XO (XO
                                   (XO (XO (XO XH)))))))))
                               (Z.sub (byte b2) (Zpos (XO (XO (XO (XO (XO (XO
                                 (XO XH)))))))))), (S (S (S O))))
                       else (rune_error, (S O))))
            else if in_rng (Zpos (XO (XO (XO (XO (XI (XI (XI XH)))))))) (Zpos
                      (XO (XO (XI (XO (XI (XI (XI XH)))))))) b0
                 then (match r with
                       | [] -> (rune_error, (S O))
                       | b1 :: l ->
                         (match l with
                          | [] -> (rune_error, (S O))
                          | b2 :: l0 ->
                            (match l0 with
                             | [] -> (rune_error, (S O))
                             | b3 :: _ ->
                               let lo =
                                 if Z.eqb x0 (Zpos (XO (XO (XO (XO (XI (XI
                                      (XI XH))))))))
                                 then Zpos (XO (XO (XO (XO (XI (XO (XO
                                        XH)))))))
                                 else Zpos (XO (XO (XO (XO (XO (XO (XO
                                        XH)))))))
                               in
                               let hi =
                                 if Z.eqb x0 (Zpos (XO (XO (XI (XO (XI (XI
                                      (XI XH))))))))
                                 then Zpos (XI (XI (XI (XI (XO (XO (XO
                                        XH)))))))
                                 else Zpos (XI (XI (XI (XI (XI (XI (XO
                                        XH)))))))
                               in
                               if (&&) ((&&) (in_rng lo hi b1) (is_cont b2))
                                    (is_cont b3)
                               then ((Z.add
                                       (Z.add
                                         (Z.add
                                           (Z.mul
                                             (Z.sub x0 (Zpos (XO (XO (XO (XO
                                               (XI (XI (XI XH))))))))) (Zpos
                                             (XO (XO (XO (XO (XO (XO (XO (XO
                                             (XO (XO (XO (XO (XO (XO (XO (XO
                                             (XO (XO XH))))))))))))))))))))
                                           (Z.mul
                                             (Z.sub (byte b1) (Zpos (XO (XO
                                               (XO (XO (XO (XO (XO XH)))))))))
                                             (Zpos (XO (XO (XO (XO (XO (XO
                                             (XO (XO (XO (XO (XO (XO
                                             XH)))))))))))))))
                                         (Z.mul
                                           (Z.sub (byte b2) (Zpos (XO (XO (XO
                                             (XO (XO (XO (XO XH)))))))))
                                           (Zpos (XO (XO (XO (XO (XO (XO
                                           XH)))))))))
                                       (Z.sub (byte b3) (Zpos (XO (XO (XO (XO
                                         (XO (XO (XO XH)))))))))), (S (S (S
                                      (S O)))))
                               else (rune_error, (S O)))))
                 else (rune_error, (S O))

(** val chars_fuel : nat -> str -> (z * str) list option **)

let rec chars_fuel fuel s =
  match fuel with
  | O -> Some []
  | S k ->
    (match s with
     | [] -> Some []
     | _ :: _ ->
       let (r, w) = decode_rune s in
       if (&&) (Z.eqb r rune_error) (Nat.eqb w (S O))
       then None
       else if Z.eqb r Z0
            then None
            else (match chars_fuel k (skipn w s) with
                  | Some cs -> Some ((r, (firstn w s)) :: cs)
                  | None -> None))

(** val bom : z **)

let bom =
  Zpos (XI (XI (XI (XI (XI (XI (XI (XI (XO (XI (XI (XI (XI (XI (XI
    XH)))))))))))))))

(** val chars : str -> (z * str) list option **)

let chars s =
  match chars_fuel (S (length s)) s with
  | Some l ->
    (match l with
     | [] -> Some []
     | p :: cs ->
       let (r, _) = p in
       if Z.eqb r bom then Some cs else chars_fuel (S (length s)) s)
  | None -> None

type tkind =
| TIdent
| TString
| TChar
| TCh of z

type token = { tk : tkind; ttext : str; tnext : z }

(** val is_print : uclass -> z -> bool **)

let is_print uni c =
  if Z.ltb c (Zpos (XO (XO (XO (XO (XO (XO (XO XH))))))))
  then (&&) (Z.leb (Zpos (XO (XO (XO (XO (XO XH)))))) c)
         (Z.leb c (Zpos (XO (XI (XI (XI (XI (XI XH))))))))
  else uni.u_print c

(** val is_space : uclass -> z -> bool **)

let is_space uni c =
  if Z.ltb c (Zpos (XO (XO (XO (XO (XO (XO (XO XH))))))))
  then (||)
         ((&&) (Z.leb (Zpos (XI (XO (XO XH)))) c)
           (Z.leb c (Zpos (XI (XO (XI XH))))))
         (Z.eqb c (Zpos (XO (XO (XO (XO (XO XH)))))))
  else uni.u_space c

(** val zmem : z -> z list -> bool **)

let rec zmem z0 = function
| [] -> false
| x :: l' -> (||) (Z.eqb z0 x) (zmem z0 l')

(** val is_ident_rune : uclass -> z -> bool **)

let is_ident_rune uni c =
  if (||) (zmem c invalid_runes) (is_space uni c)
  then false
  else is_print uni c

(** val is_ws : z -> bool **)

let is_ws c =
  (||)
    ((||)
      ((||) (Z.eqb c (Zpos (XI (XO (XO XH)))))
        (Z.eqb c (Zpos (XO (XI (XO XH))))))
      (Z.eqb c (Zpos (XI (XO (XI XH))))))
    (Z.eqb c (Zpos (XO (XO (XO (XO (XO XH)))))))

(** val peek : (z * str) list -> z **)

let peek = function
| [] -> Zneg XH
| p :: _ -> let (c, _) = p in c

(** val span_ident : uclass -> (z * str) list -> str * (z * str) list **)

let rec span_ident uni cs = match cs with
| [] -> ([], [])
| p :: cs' ->
  let (c, b) = p in
  if is_ident_rune uni c
  then let (t, r) = span_ident uni cs' in ((app b t), r)
  else ([], cs)

(** val digit_val : z -> z **)

let digit_val c =
  if (&&) (Z.leb (Zpos (XO (XO (XO (XO (XI XH)))))) c)
       (Z.leb c (Zpos (XI (XO (XO (XI (XI XH)))))))
  then Z.sub c (Zpos (XO (XO (XO (XO (XI XH))))))
  else if (&&) (Z.leb (Zpos (XI (XO (XO (XO (XO (XI XH))))))) c)
            (Z.leb c (Zpos (XO (XI (XI (XO (XO (XI XH))))))))
       then Z.add (Z.sub c (Zpos (XI (XO (XO (XO (XO (XI XH)))))))) (Zpos (XO
              (XI (XO XH))))
       else if (&&) (Z.leb (Zpos (XI (XO (XO (XO (XO (XO XH))))))) c)
                 (Z.leb c (Zpos (XO (XI (XI (XO (XO (XO XH))))))))
            then Z.add (Z.sub c (Zpos (XI (XO (XO (XO (XO (XO XH))))))))
                   (Zpos (XO (XI (XO XH))))
            else Zpos (XO (XO (XO (XO XH))))

(** val scan_digits :
    nat -> z -> (z * str) list -> str -> (str * (z * str) list) option **)

let rec scan_digits n0 base cs acc =
  match n0 with
  | O -> Some (acc, cs)
  | S n' ->
    (match cs with
     | [] -> None
     | p :: cs' ->
       let (c, b) = p in
       if Z.ltb (digit_val c) base
       then scan_digits n' base cs' (app acc b)
       else None)

(** val scan_string :
    nat -> z -> (z * str) list -> str -> nat -> ((str * nat) * (z * str)
    list) option **)

let rec scan_string fuel quote cs acc n0 =
  match fuel with
  | O -> None
  | S k ->
    (match cs with
     | [] -> None
     | p :: cs' ->
       let (c, b) = p in
       if Z.eqb c quote
       then Some (((app acc b), n0), cs')
       else if Z.eqb c (Zpos (XO (XI (XO XH))))
            then None
            else if Z.eqb c (Zpos (XO (XO (XI (XI (XI (XO XH)))))))
                 then (match cs' with
                       | [] -> None
                       | p0 :: cs'' ->
                         let (e, eb) = p0 in
                         if (||)
                              (zmem e ((Zpos (XI (XO (XO (XO (XO (XI
                                XH))))))) :: ((Zpos (XO (XI (XO (XO (XO (XI
                                XH))))))) :: ((Zpos (XO (XI (XI (XO (XO (XI
                                XH))))))) :: ((Zpos (XO (XI (XI (XI (XO (XI
                                XH))))))) :: ((Zpos (XO (XI (XO (XO (XI (XI
                                XH))))))) :: ((Zpos (XO (XO (XI (XO (XI (XI
                                XH))))))) :: ((Zpos (XO (XI (XI (XO (XI (XI
                                XH))))))) :: ((Zpos (XO (XO (XI (XI (XI (XO
                                XH))))))) :: []))))))))) (Z.eqb e quote)
                         then scan_string k quote cs'' (app acc (app b eb))
                                (S n0)
                         else if (&&)
                                   (Z.leb (Zpos (XO (XO (XO (XO (XI XH))))))
                                     e)
                                   (Z.leb e (Zpos (XI (XI (XI (XO (XI
                                     XH)))))))
                              then (match scan_digits (S (S (S O))) (Zpos (XO
                                            (XO (XO XH)))) cs' (app acc b) with
                                    | Some p1 ->
                                      let (acc', r) = p1 in
                                      scan_string k quote r acc' (S n0)
                                    | None -> None)
                              else if Z.eqb e (Zpos (XO (XO (XO (XI (XI (XI
                                        XH)))))))
                                   then (match scan_digits (S (S O)) (Zpos
                                                 (XO (XO (XO (XO XH))))) cs''
                                                 (app acc (app b eb)) with
                                         | Some p1 ->
                                           let (acc', r) = p1 in
                                           scan_string k quote r acc' (S n0)
                                         | None -> None)
                                   else if Z.eqb e (Zpos (XI (XO (XI (XO (XI
                                             (XI XH)))))))
                                        then (match scan_digits (S (S (S (S
                                                      O)))) (Zpos (XO (XO (XO
                                                      (XO XH))))) cs''
                                                      (app acc (app b eb)) with
                                              | Some p1 ->
                                                let (acc', r) = p1 in
                                                scan_string k quote r acc' (S
                                                  n0)
                                              | None -> None)
                                        else if Z.eqb e (Zpos (XI (XO (XI (XO
                                                  (XI (XO XH)))))))
                                             then (match scan_digits (S (S (S
                                                           (S (S (S (S (S
                                                           O)))))))) (Zpos
                                                           (XO (XO (XO (XO
                                                           XH))))) cs''
                                                           (app acc
                                                             (app b eb)) with
                                                   | Some p1 ->
                                                     let (acc', r) = p1 in
                                                     scan_string k quote r
                                                       acc' (S n0)
                                                   | None -> None)
                                             else None)
                 else scan_string k quote cs' (app acc b) (S n0))

(** val skip_line : (z * str) list -> (z * str) list **)

let rec skip_line cs = match cs with
| [] -> []
| p :: cs' ->
  let (c, _) = p in
  if Z.eqb c (Zpos (XO (XI (XO XH)))) then cs else skip_line cs'

(** val skip_block : (z * str) list -> (z * str) list option **)

let rec skip_block = function
| [] -> None
| p :: cs' ->
  let (c, _) = p in
  (match cs' with
   | [] -> None
   | p0 :: cs'' ->
     let (d, _) = p0 in
     if (&&) (Z.eqb c (Zpos (XO (XI (XO (XI (XO XH)))))))
          (Z.eqb d (Zpos (XI (XI (XI (XI (XO XH)))))))
     then Some cs''
     else skip_block cs')

(** val tokens_fuel : uclass -> nat -> (z * str) list -> token list option **)

let rec tokens_fuel uni fuel cs =
  match fuel with
  | O -> None
  | S k ->
    (match cs with
     | [] -> Some []
     | p :: cs' ->
       let (c, b) = p in
       if is_ws c
       then tokens_fuel uni k cs'
       else if is_ident_rune uni c
            then let (t, r) = span_ident uni cs in
                 option_map (fun x -> { tk = TIdent; ttext = t; tnext =
                   (peek r) } :: x) (tokens_fuel uni k r)
            else if Z.eqb c (Zpos (XO (XI (XO (XO (XO XH))))))
                 then (match scan_string (S (length cs')) (Zpos (XO (XI (XO
                               (XO (XO XH)))))) cs' b O with
                       | Some p0 ->
                         let (p1, r) = p0 in
                         let (t, _) = p1 in
                         option_map (fun x -> { tk = TString; ttext = t;
                           tnext = (peek r) } :: x) (tokens_fuel uni k r)
                       | None -> None)
                 else if Z.eqb c (Zpos (XI (XI (XI (XO (XO XH))))))
                      then (match scan_string (S (length cs')) (Zpos (XI (XI
                                    (XI (XO (XO XH)))))) cs' b O with
                            | Some p0 ->
                              let (p1, r) = p0 in
                              let (t, n0) = p1 in
                              if Nat.eqb n0 (S O)
                              then option_map (fun x -> { tk = TChar; ttext =
                                     t; tnext = (peek r) } :: x)
                                     (tokens_fuel uni k r)
                              else None
                            | None -> None)
                      else if (&&)
                                (Z.eqb c (Zpos (XI (XI (XI (XI (XO XH)))))))
                                (Z.eqb (peek cs') (Zpos (XI (XI (XI (XI (XO
                                  XH)))))))
                           then tokens_fuel uni k (skip_line (tl cs'))
                           else if (&&)
                                     (Z.eqb c (Zpos (XI (XI (XI (XI (XO
                                       XH)))))))
                                     (Z.eqb (peek cs') (Zpos (XO (XI (XO (XI
                                       (XO XH)))))))
                                then (match skip_block (tl cs') with
                                      | Some r -> tokens_fuel uni k r
                                      | None -> None)
                                else option_map (fun x -> { tk = (TCh c);
                                       ttext = b; tnext = (peek cs') } :: x)
                                       (tokens_fuel uni k cs'))

(** val visible : uclass -> token -> bool **)

let visible uni t =
  match t.tk with
  | TCh c -> is_print uni c
  | _ -> true

(** val lex : uclass -> str -> token list option **)

let lex uni s =
  match chars s with
  | Some cs ->
    option_map (filter (visible uni)) (tokens_fuel uni (S (length cs)) cs)
  | None -> None

(** val func_table : fdesc list **)

let func_table =
  { fd_key = ('A'::('d'::('d'::[]))); fd_name = ('A'::('d'::('d'::[])));
    fd_on = (PT_Number, IO_Single); fd_ret = (PT_Number, IO_Single);
    fd_params = ((PT_Number, IO_Single) :: []); fd_known =
    false } :: ({ fd_key = ('A'::('n'::('y'::[]))); fd_name =
    ('A'::('n'::('y'::[]))); fd_on = (PT_Any, IO_Array); fd_ret =
    (PT_Boolean, IO_Single); fd_params = []; fd_known =
    false } :: ({ fd_key = ('A'::('n'::('y'::('O'::('f'::[]))))); fd_name =
    ('A'::('n'::('y'::('O'::('f'::[]))))); fd_on = (PT_Any, IO_Single);
    fd_ret = (PT_Boolean, IO_Single); fd_params = ((PT_Any,
    IO_Variadic) :: []); fd_known = false } :: ({ fd_key =
    ('A'::('s'::('A'::('r'::('r'::('a'::('y'::[]))))))); fd_name =
    ('A'::('s'::('A'::('r'::('r'::('a'::('y'::[]))))))); fd_on = (PT_Any,
    IO_Array); fd_ret = (PT_Any, IO_Array); fd_params = []; fd_known =
    true } :: ({ fd_key = ('A'::('s'::('J'::('S'::('O'::('N'::[]))))));
    fd_name = ('A'::('s'::('J'::('S'::('O'::('N'::[])))))); fd_on = (PT_Any,
    IO_Variadic); fd_ret = (PT_String, IO_Single); fd_params = []; fd_known =
    false } :: ({ fd_key =
    ('A'::('v'::('e'::('r'::('a'::('g'::('e'::[]))))))); fd_name =
    ('A'::('v'::('e'::('r'::('a'::('g'::('e'::[]))))))); fd_on = (PT_Number,
    IO_Array); fd_ret = (PT_Number, IO_Single); fd_params = ((PT_Number,
    IO_Variadic) :: []); fd_known = false } :: ({ fd_key =
    ('C'::('o'::('n'::('t'::('a'::('i'::('n'::('s'::[])))))))); fd_name =
    ('C'::('o'::('n'::('t'::('a'::('i'::('n'::('s'::[])))))))); fd_on =
    (PT_String, IO_Single); fd_ret = (PT_Boolean, IO_Single); fd_params =
    ((PT_String, IO_Single) :: []); fd_known = false } :: ({ fd_key =
    ('C'::('o'::('u'::('n'::('t'::[]))))); fd_name =
    ('C'::('o'::('u'::('n'::('t'::[]))))); fd_on = (PT_Any, IO_Array);
    fd_ret = (PT_Number, IO_Single); fd_params = []; fd_known =
    false } :: ({ fd_key = ('D'::('i'::('v'::('i'::('d'::('e'::[]))))));
    fd_name = ('D'::('i'::('v'::('i'::('d'::('e'::[])))))); fd_on =
    (PT_Number, IO_Single); fd_ret = (PT_Number, IO_Single); fd_params =
    ((PT_Number, IO_Single) :: []); fd_known = false } :: ({ fd_key =
    ('D'::('o'::('e'::('s'::('M'::('a'::('t'::('c'::('h'::('R'::('e'::('g'::('e'::('x'::[]))))))))))))));
    fd_name =
    ('D'::('o'::('e'::('s'::('M'::('a'::('t'::('c'::('h'::('R'::('e'::('g'::('e'::('x'::[]))))))))))))));
    fd_on = (PT_String, IO_Single); fd_ret = (PT_Boolean, IO_Single);
    fd_params = ((PT_String, IO_Single) :: []); fd_known =
    false } :: ({ fd_key = ('E'::('q'::('u'::('a'::('l'::[]))))); fd_name =
    ('E'::('q'::('u'::('a'::('l'::[]))))); fd_on = (PT_Any, IO_Variadic);
    fd_ret = (PT_Boolean, IO_Single); fd_params = ((PT_Any,
    IO_Single) :: []); fd_known = false } :: ({ fd_key =
    ('F'::('i'::('r'::('s'::('t'::[]))))); fd_name =
    ('F'::('i'::('r'::('s'::('t'::[]))))); fd_on = (PT_Any, IO_Array);
    fd_ret = (PT_Any, IO_Single); fd_params = []; fd_known =
    true } :: ({ fd_key =
    ('G'::('r'::('e'::('a'::('t'::('e'::('r'::[]))))))); fd_name =
    ('G'::('r'::('e'::('a'::('t'::('e'::('r'::[]))))))); fd_on = (PT_Number,
    IO_Single); fd_ret = (PT_Boolean, IO_Single); fd_params = ((PT_Number,
    IO_Single) :: []); fd_known = false } :: ({ fd_key =
    ('G'::('r'::('e'::('a'::('t'::('e'::('r'::('O'::('r'::('E'::('q'::('u'::('a'::('l'::[]))))))))))))));
    fd_name =
    ('G'::('r'::('e'::('a'::('t'::('e'::('r'::('O'::('r'::('E'::('q'::('u'::('a'::('l'::[]))))))))))))));
    fd_on = (PT_Number, IO_Single); fd_ret = (PT_Boolean, IO_Single);
    fd_params = ((PT_Number, IO_Single) :: []); fd_known =
    false } :: ({ fd_key = ('I'::('n'::('d'::('e'::('x'::[]))))); fd_name =
    ('I'::('n'::('d'::('e'::('x'::[]))))); fd_on = (PT_Any, IO_Array);
    fd_ret = (PT_Any, IO_Single); fd_params = ((PT_Number, IO_Single) :: []);
    fd_known = true } :: ({ fd_key =
    ('I'::('n'::('v'::('e'::('r'::('t'::[])))))); fd_name =
    ('I'::('n'::('v'::('e'::('r'::('t'::[])))))); fd_on = (PT_Boolean,
    IO_Single); fd_ret = (PT_Boolean, IO_Single); fd_params = []; fd_known =
    false } :: ({ fd_key =
    ('I'::('s'::('E'::('m'::('p'::('t'::('y'::[]))))))); fd_name =
    ('I'::('s'::('E'::('m'::('p'::('t'::('y'::[]))))))); fd_on = (PT_Any,
    IO_Variadic); fd_ret = (PT_Boolean, IO_Single); fd_params = [];
    fd_known = false } :: ({ fd_key =
    ('I'::('s'::('N'::('o'::('t'::('E'::('m'::('p'::('t'::('y'::[]))))))))));
    fd_name =
    ('I'::('s'::('N'::('o'::('t'::('E'::('m'::('p'::('t'::('y'::[]))))))))));
    fd_on = (PT_Any, IO_Variadic); fd_ret = (PT_Boolean, IO_Single);
    fd_params = []; fd_known = false } :: ({ fd_key =
    ('I'::('s'::('N'::('o'::('t'::('N'::('u'::('l'::('l'::[])))))))));
    fd_name =
    ('I'::('s'::('N'::('o'::('t'::('N'::('u'::('l'::('l'::[])))))))));
    fd_on = (PT_Any, IO_Variadic); fd_ret = (PT_Boolean, IO_Single);
    fd_params = []; fd_known = false } :: ({ fd_key =
    ('I'::('s'::('N'::('o'::('t'::('N'::('u'::('l'::('l'::('O'::('r'::('E'::('m'::('p'::('t'::('y'::[]))))))))))))))));
    fd_name =
    ('I'::('s'::('N'::('o'::('t'::('N'::('u'::('l'::('l'::('O'::('r'::('E'::('m'::('p'::('t'::('y'::[]))))))))))))))));
    fd_on = (PT_Any, IO_Variadic); fd_ret = (PT_Boolean, IO_Single);
    fd_params = []; fd_known = false } :: ({ fd_key =
    ('I'::('s'::('N'::('u'::('l'::('l'::[])))))); fd_name =
    ('I'::('s'::('N'::('u'::('l'::('l'::[])))))); fd_on = (PT_Any,
    IO_Variadic); fd_ret = (PT_Boolean, IO_Single); fd_params = [];
    fd_known = false } :: ({ fd_key =
    ('I'::('s'::('N'::('u'::('l'::('l'::('O'::('r'::('E'::('m'::('p'::('t'::('y'::[])))))))))))));
    fd_name =
    ('I'::('s'::('N'::('u'::('l'::('l'::('O'::('r'::('E'::('m'::('p'::('t'::('y'::[])))))))))))));
    fd_on = (PT_Any, IO_Variadic); fd_ret = (PT_Boolean, IO_Single);
    fd_params = []; fd_known = false } :: ({ fd_key =
    ('L'::('a'::('s'::('t'::[])))); fd_name = ('L'::('a'::('s'::('t'::[]))));
    fd_on = (PT_Any, IO_Array); fd_ret = (PT_Any, IO_Single); fd_params = [];
    fd_known = true } :: ({ fd_key = ('L'::('e'::('f'::('t'::[]))));
    fd_name = ('L'::('e'::('f'::('t'::[])))); fd_on = (PT_String, IO_Single);
    fd_ret = (PT_String, IO_Single); fd_params = ((PT_Number,
    IO_Single) :: []); fd_known = false } :: ({ fd_key =
    ('L'::('e'::('s'::('s'::[])))); fd_name = ('L'::('e'::('s'::('s'::[]))));
    fd_on = (PT_Number, IO_Single); fd_ret = (PT_Boolean, IO_Single);
    fd_params = ((PT_Number, IO_Single) :: []); fd_known =
    false } :: ({ fd_key =
    ('L'::('e'::('s'::('s'::('O'::('r'::('E'::('q'::('u'::('a'::('l'::[])))))))))));
    fd_name =
    ('L'::('e'::('s'::('s'::('O'::('r'::('E'::('q'::('u'::('a'::('l'::[])))))))))));
    fd_on = (PT_Number, IO_Single); fd_ret = (PT_Boolean, IO_Single);
    fd_params = ((PT_Number, IO_Single) :: []); fd_known =
    false } :: ({ fd_key =
    ('M'::('a'::('x'::('i'::('m'::('u'::('m'::[]))))))); fd_name =
    ('M'::('a'::('x'::('i'::('m'::('u'::('m'::[]))))))); fd_on = (PT_Number,
    IO_Array); fd_ret = (PT_Number, IO_Single); fd_params = ((PT_Number,
    IO_Variadic) :: []); fd_known = false } :: ({ fd_key =
    ('M'::('i'::('n'::('i'::('m'::('u'::('m'::[]))))))); fd_name =
    ('M'::('i'::('n'::('i'::('m'::('u'::('m'::[]))))))); fd_on = (PT_Number,
    IO_Array); fd_ret = (PT_Number, IO_Single); fd_params = ((PT_Number,
    IO_Variadic) :: []); fd_known = false } :: ({ fd_key =
    ('M'::('o'::('d'::('u'::('l'::('o'::[])))))); fd_name =
    ('M'::('o'::('d'::('u'::('l'::('o'::[])))))); fd_on = (PT_Number,
    IO_Single); fd_ret = (PT_Number, IO_Single); fd_params = ((PT_Number,
    IO_Single) :: []); fd_known = false } :: ({ fd_key =
    ('M'::('u'::('l'::('t'::('i'::('p'::('l'::('y'::[])))))))); fd_name =
    ('M'::('u'::('l'::('t'::('i'::('p'::('l'::('y'::[])))))))); fd_on =
    (PT_Number, IO_Single); fd_ret = (PT_Number, IO_Single); fd_params =
    ((PT_Number, IO_Single) :: []); fd_known = false } :: ({ fd_key =
    ('N'::('o'::('t'::[]))); fd_name = ('N'::('o'::('t'::[]))); fd_on =
    (PT_Boolean, IO_Single); fd_ret = (PT_Boolean, IO_Single); fd_params =
    []; fd_known = false } :: ({ fd_key =
    ('N'::('o'::('t'::('C'::('o'::('n'::('t'::('a'::('i'::('n'::('s'::[])))))))))));
    fd_name =
    ('N'::('o'::('t'::('C'::('o'::('n'::('t'::('a'::('i'::('n'::('s'::[])))))))))));
    fd_on = (PT_String, IO_Single); fd_ret = (PT_Boolean, IO_Single);
    fd_params = ((PT_String, IO_Single) :: []); fd_known =
    false } :: ({ fd_key =
    ('N'::('o'::('t'::('E'::('q'::('u'::('a'::('l'::[])))))))); fd_name =
    ('N'::('o'::('t'::('E'::('q'::('u'::('a'::('l'::[])))))))); fd_on =
    (PT_Any, IO_Variadic); fd_ret = (PT_Boolean, IO_Single); fd_params =
    ((PT_Any, IO_Single) :: []); fd_known = false } :: ({ fd_key =
    ('N'::('o'::('t'::('P'::('r'::('e'::('f'::('i'::('x'::[])))))))));
    fd_name =
    ('N'::('o'::('t'::('P'::('r'::('e'::('f'::('i'::('x'::[])))))))));
    fd_on = (PT_String, IO_Single); fd_ret = (PT_Boolean, IO_Single);
    fd_params = ((PT_String, IO_Single) :: []); fd_known =
    false } :: ({ fd_key =
    ('N'::('o'::('t'::('S'::('u'::('f'::('f'::('i'::('x'::[])))))))));
    fd_name =
    ('N'::('o'::('t'::('S'::('u'::('f'::('f'::('i'::('x'::[])))))))));
    fd_on = (PT_String, IO_Single); fd_ret = (PT_Boolean, IO_Single);
    fd_params = ((PT_String, IO_Single) :: []); fd_known =
    false } :: ({ fd_key =
    ('P'::('a'::('r'::('s'::('e'::('J'::('S'::('O'::('N'::[])))))))));
    fd_name =
    ('P'::('a'::('r'::('s'::('e'::('J'::('S'::('O'::('N'::[])))))))));
    fd_on = (PT_String, IO_Single); fd_ret = (PT_Object, IO_Variadic);
    fd_params = []; fd_known = false } :: ({ fd_key =
    ('P'::('a'::('r'::('s'::('e'::('T'::('O'::('M'::('L'::[])))))))));
    fd_name =
    ('P'::('a'::('r'::('s'::('e'::('T'::('O'::('M'::('L'::[])))))))));
    fd_on = (PT_String, IO_Single); fd_ret = (PT_Object, IO_Variadic);
    fd_params = []; fd_known = false } :: ({ fd_key =
    ('P'::('a'::('r'::('s'::('e'::('X'::('M'::('L'::[])))))))); fd_name =
    ('P'::('a'::('r'::('s'::('e'::('X'::('M'::('L'::[])))))))); fd_on =
    (PT_String, IO_Single); fd_ret = (PT_Object, IO_Variadic); fd_params =
    []; fd_known = false } :: ({ fd_key =
    ('P'::('a'::('r'::('s'::('e'::('Y'::('A'::('M'::('L'::[])))))))));
    fd_name =
    ('P'::('a'::('r'::('s'::('e'::('Y'::('A'::('M'::('L'::[])))))))));
    fd_on = (PT_String, IO_Single); fd_ret = (PT_Object, IO_Variadic);
    fd_params = []; fd_known = false } :: ({ fd_key =
    ('P'::('r'::('e'::('f'::('i'::('x'::[])))))); fd_name =
    ('P'::('r'::('e'::('f'::('i'::('x'::[])))))); fd_on = (PT_String,
    IO_Single); fd_ret = (PT_Boolean, IO_Single); fd_params = ((PT_String,
    IO_Single) :: []); fd_known = false } :: ({ fd_key =
    ('R'::('e'::('m'::('o'::('v'::('e'::('K'::('e'::('y'::('s'::('B'::('y'::('P'::('r'::('e'::('f'::('i'::('x'::[]))))))))))))))))));
    fd_name =
    ('R'::('e'::('m'::('o'::('v'::('e'::('K'::('e'::('y'::('s'::('B'::('y'::('P'::('r'::('e'::('f'::('i'::('x'::[]))))))))))))))))));
    fd_on = (PT_Object, IO_Single); fd_ret = (PT_Object, IO_Single);
    fd_params = ((PT_String, IO_Single) :: []); fd_known =
    false } :: ({ fd_key =
    ('R'::('e'::('m'::('o'::('v'::('e'::('K'::('e'::('y'::('s'::('B'::('y'::('R'::('e'::('g'::('e'::('x'::[])))))))))))))))));
    fd_name =
    ('R'::('e'::('m'::('o'::('v'::('e'::('K'::('e'::('y'::('s'::('B'::('y'::('R'::('e'::('g'::('e'::('x'::[])))))))))))))))));
    fd_on = (PT_Object, IO_Single); fd_ret = (PT_Object, IO_Single);
    fd_params = ((PT_String, IO_Single) :: []); fd_known =
    false } :: ({ fd_key =
    ('R'::('e'::('m'::('o'::('v'::('e'::('K'::('e'::('y'::('s'::('B'::('y'::('S'::('u'::('f'::('f'::('i'::('x'::[]))))))))))))))))));
    fd_name =
    ('R'::('e'::('m'::('o'::('v'::('e'::('K'::('e'::('y'::('s'::('B'::('y'::('S'::('u'::('f'::('f'::('i'::('x'::[]))))))))))))))))));
    fd_on = (PT_Object, IO_Single); fd_ret = (PT_Object, IO_Single);
    fd_params = ((PT_String, IO_Single) :: []); fd_known =
    false } :: ({ fd_key =
    ('R'::('e'::('p'::('l'::('a'::('c'::('e'::('A'::('l'::('l'::[]))))))))));
    fd_name =
    ('R'::('e'::('p'::('l'::('a'::('c'::('e'::('A'::('l'::('l'::[]))))))))));
    fd_on = (PT_String, IO_Single); fd_ret = (PT_String, IO_Single);
    fd_params = ((PT_String, IO_Single) :: ((PT_String, IO_Single) :: []));
    fd_known = false } :: ({ fd_key =
    ('R'::('e'::('p'::('l'::('a'::('c'::('e'::('R'::('e'::('g'::('e'::('x'::[]))))))))))));
    fd_name =
    ('R'::('e'::('p'::('l'::('a'::('c'::('e'::('R'::('e'::('g'::('e'::('x'::[]))))))))))));
    fd_on = (PT_String, IO_Single); fd_ret = (PT_String, IO_Single);
    fd_params = ((PT_String, IO_Single) :: ((PT_String, IO_Single) :: []));
    fd_known = false } :: ({ fd_key = ('R'::('i'::('g'::('h'::('t'::[])))));
    fd_name = ('R'::('i'::('g'::('h'::('t'::[]))))); fd_on = (PT_String,
    IO_Single); fd_ret = (PT_String, IO_Single); fd_params = ((PT_Number,
    IO_Single) :: []); fd_known = false } :: ({ fd_key =
    ('S'::('e'::('l'::('e'::('c'::('t'::[])))))); fd_name =
    ('S'::('e'::('l'::('e'::('c'::('t'::[])))))); fd_on = (PT_Any, IO_Array);
    fd_ret = (PT_Any, IO_Array); fd_params = ((PT_String, IO_Single) :: []);
    fd_known = false } :: ({ fd_key =
    ('S'::('p'::('r'::('i'::('n'::('t'::('f'::[]))))))); fd_name =
    ('S'::('p'::('r'::('i'::('n'::('t'::('f'::[]))))))); fd_on = (PT_String,
    IO_Single); fd_ret = (PT_String, IO_Single); fd_params = ((PT_Any,
    IO_Variadic) :: []); fd_known = false } :: ({ fd_key =
    ('S'::('u'::('b'::('t'::('r'::('a'::('c'::('t'::[])))))))); fd_name =
    ('S'::('u'::('b'::('t'::('r'::('a'::('c'::('t'::[])))))))); fd_on =
    (PT_Number, IO_Single); fd_ret = (PT_Number, IO_Single); fd_params =
    ((PT_Number, IO_Single) :: []); fd_known = false } :: ({ fd_key =
    ('S'::('u'::('f'::('f'::('i'::('x'::[])))))); fd_name =
    ('S'::('u'::('f'::('f'::('i'::('x'::[])))))); fd_on = (PT_String,
    IO_Single); fd_ret = (PT_Boolean, IO_Single); fd_params = ((PT_String,
    IO_Single) :: []); fd_known = false } :: ({ fd_key =
    ('S'::('u'::('m'::[]))); fd_name = ('S'::('u'::('m'::[]))); fd_on =
    (PT_Number, IO_Array); fd_ret = (PT_Number, IO_Single); fd_params =
    ((PT_Number, IO_Variadic) :: []); fd_known = false } :: ({ fd_key =
    ('T'::('r'::('i'::('m'::('L'::('e'::('f'::('t'::[])))))))); fd_name =
    ('T'::('r'::('i'::('m'::('L'::('e'::('f'::('t'::[])))))))); fd_on =
    (PT_String, IO_Single); fd_ret = (PT_String, IO_Single); fd_params =
    ((PT_Number, IO_Single) :: []); fd_known = false } :: ({ fd_key =
    ('T'::('r'::('i'::('m'::('R'::('i'::('g'::('h'::('t'::[])))))))));
    fd_name =
    ('T'::('r'::('i'::('m'::('R'::('i'::('g'::('h'::('t'::[])))))))));
    fd_on = (PT_String, IO_Single); fd_ret = (PT_String, IO_Single);
    fd_params = ((PT_Number, IO_Single) :: []); fd_known =
    false } :: []))))))))))))))))))))))))))))))))))))))))))))))))))))

(** val unescape_table : (str * str) list **)

let unescape_table =
  ((map chr ((Zpos (XO (XO (XI (XI (XI (XO XH))))))) :: ((Zpos (XO (XI (XO
     (XO (XO XH)))))) :: []))),
    (map chr ((Zpos (XO (XI (XO (XO (XO XH)))))) :: []))) :: (((map chr
                                                                 ((Zpos (XO
                                                                 (XO (XI (XI
                                                                 (XI (XO
                                                                 XH))))))) :: ((Zpos
                                                                 (XI (XO (XO
                                                                 (XO (XO (XI
                                                                 XH))))))) :: []))),
    (map chr ((Zpos (XI (XI XH))) :: []))) :: (((map chr ((Zpos (XO (XO (XI
                                                  (XI (XI (XO
                                                  XH))))))) :: ((Zpos (XO (XI
                                                  (XO (XO (XO (XI
                                                  XH))))))) :: []))),
    (map chr ((Zpos (XO (XO (XO XH)))) :: []))) :: (((map chr ((Zpos (XO (XO
                                                       (XI (XI (XI (XO
                                                       XH))))))) :: ((Zpos
                                                       (XO (XI (XI (XO (XO
                                                       (XI XH))))))) :: []))),
    (map chr ((Zpos (XO (XO (XI XH)))) :: []))) :: (((map chr ((Zpos (XO (XO
                                                       (XI (XI (XI (XO
                                                       XH))))))) :: ((Zpos
                                                       (XO (XI (XI (XI (XO
                                                       (XI XH))))))) :: []))),
    (map chr ((Zpos (XO (XI (XO XH)))) :: []))) :: (((map chr ((Zpos (XO (XO
                                                       (XI (XI (XI (XO
                                                       XH))))))) :: ((Zpos
                                                       (XO (XI (XO (XO (XI
                                                       (XI XH))))))) :: []))),
    (map chr ((Zpos (XI (XO (XI XH)))) :: []))) :: (((map chr ((Zpos (XO (XO
                                                       (XI (XI (XI (XO
                                                       XH))))))) :: ((Zpos
                                                       (XO (XO (XI (XO (XI
                                                       (XI XH))))))) :: []))),
    (map chr ((Zpos (XI (XO (XO XH)))) :: []))) :: (((map chr ((Zpos (XO (XO
                                                       (XI (XI (XI (XO
                                                       XH))))))) :: ((Zpos
                                                       (XO (XI (XI (XO (XI
                                                       (XI XH))))))) :: []))),
    (map chr ((Zpos (XI (XI (XO XH)))) :: []))) :: [])))))))

type cursor =
| CTok of token
| CEOF
| CZero

(** val scan : token list -> cursor * token list **)

let scan = function
| [] -> (CEOF, [])
| t :: r -> ((CTok t), r)

type 'a pres = ((cursor * token list) * 'a) outcome

(** val perr : 'a1 pres **)

let perr =
  Err (EOther
    ('p'::('a'::('r'::('s'::('e'::(' '::('e'::('r'::('r'::('o'::('r'::[]))))))))))))

(** val is_ch : token -> z -> bool **)

let is_ch t c =
  match t.tk with
  | TCh d -> Z.eqb d c
  | _ -> false

(** val is_ident_tok : token -> bool **)

let is_ident_tok t =
  match t.tk with
  | TIdent -> true
  | _ -> false

(** val find_fdesc : str -> fdesc list -> fdesc option **)

let rec find_fdesc name = function
| [] -> None
| d :: tbl' ->
  if str_eqb (bs d.fd_name) name then Some d else find_fdesc name tbl'

(** val ft_get_by_name : str -> str option **)

let ft_get_by_name name =
  option_map (fun d -> bs d.fd_key) (find_fdesc name func_table)

(** val find_fdesc_key : str -> fdesc list -> fdesc option **)

let rec find_fdesc_key key = function
| [] -> None
| d :: tbl' ->
  if str_eqb (bs d.fd_key) key then Some d else find_fdesc_key key tbl'

(** val ft_is_bool_func : str -> bool **)

let ft_is_bool_func ft =
  match find_fdesc_key ft func_table with
  | Some d ->
    let (p, i) = d.fd_ret in
    (match p with
     | PT_Boolean -> (match i with
                      | IO_Single -> true
                      | _ -> false)
     | _ -> false)
  | None -> false

(** val apply_replacements : (str * str) list -> str -> str **)

let apply_replacements tbl s =
  fold_left (fun acc pat -> let (o, n0) = pat in replace_all acc o n0) tbl s

(** val unescape : str -> str **)

let unescape s =
  apply_replacements unescape_table s

(** val strip_qmark : str -> str * bool **)

let strip_qmark name =
  match rev0 name with
  | [] -> (name, false)
  | c :: r -> if (=) c '?' then ((rev0 r), true) else (name, false)

(** val strip_dquotes : str -> str **)

let strip_dquotes tt = match tt with
| [] -> tt
| q :: r ->
  (match rev0 r with
   | [] -> tt
   | q2 :: mid -> if (&&) ((=) q '"') ((=) q2 '"') then rev0 mid else tt)

(** val is_digit_rune : z -> bool **)

let is_digit_rune c =
  (&&) (Z.leb (Zpos (XO (XO (XO (XO (XI XH)))))) c)
    (Z.leb c (Zpos (XI (XO (XO (XI (XI XH)))))))

(** val deal_with_numbers : token -> token list -> str * token list **)

let deal_with_numbers t rest =
  if Z.eqb t.tnext (Zpos (XO (XI (XI (XI (XO XH))))))
  then (match rest with
        | [] -> (t.ttext, rest)
        | dot :: rest' ->
          if is_digit_rune dot.tnext
          then (match rest' with
                | [] -> (t.ttext, rest')
                | t2 :: rest'' ->
                  ((app t.ttext (app (bs ('.'::[])) t2.ttext)), rest''))
          else (t.ttext, rest'))
  else (t.ttext, rest)

(** val last_ok_for_group : pathop list -> bool **)

let last_ok_for_group ops =
  match rev0 ops with
  | [] -> false
  | p :: _ ->
    (match p with
     | PIdent (_, _, _) -> true
     | PFilter (_, _) -> false
     | PFunc f -> let Func (_, ft, _, _) = f in ft_is_bool_func ft)

(** val ch_str : z -> str **)

let ch_str c =
  (chr c) :: []

(** val parse_path :
    nat -> bool -> bool -> cursor -> token list -> path pres **)

let rec parse_path fuel is_filter must_end cur rest =
  match fuel with
  | O -> OutOfFuel
  | S k ->
    (match cur with
     | CTok t ->
       if is_ch t (Zpos (XO (XO (XI (XO (XO XH))))))
       then if is_filter
            then perr
            else let (c, r) = scan rest in
                 path_loop k true is_filter must_end []
                   (ch_str (Zpos (XO (XO (XI (XO (XO XH))))))) c r
       else if is_ch t (Zpos (XO (XO (XO (XO (XO (XO XH)))))))
            then let (c, r) = scan rest in
                 path_loop k false is_filter must_end []
                   (ch_str (Zpos (XO (XO (XO (XO (XO (XO XH)))))))) c r
            else perr
     | _ -> perr)

(** val path_loop :
    nat -> bool -> bool -> bool -> pathop list -> str -> cursor -> token list
    -> path pres **)

and path_loop fuel root is_filter must_end ops us cur rest =
  match fuel with
  | O -> OutOfFuel
  | S k ->
    (match cur with
     | CTok t ->
       if is_ch t (Zpos (XO (XI (XI (XI (XO XH))))))
       then let (c, r) = scan rest in
            path_loop k root is_filter must_end ops
              (app us (ch_str (Zpos (XO (XI (XI (XI (XO XH)))))))) c r
       else if (||)
                 ((||)
                   ((||) (is_ch t (Zpos (XO (XO (XI (XI (XO XH)))))))
                     (is_ch t (Zpos (XI (XO (XO (XI (XO XH))))))))
                   (is_ch t (Zpos (XI (XO (XI (XI (XI (XO XH)))))))))
                 (is_ch t (Zpos (XI (XO (XI (XI (XI (XI XH))))))))
            then let invalid = (&&) must_end (negb (last_ok_for_group ops)) in
                 Ok ((cur, rest), (Path (invalid, root, is_filter, must_end,
                 ops, us)))
            else if is_ident_tok t
                 then if Z.eqb t.tnext (Zpos (XO (XO (XO (XI (XO XH))))))
                      then bind (parse_func k cur rest) (fun pat ->
                             let (p, f) = pat in
                             let (c, r) = p in
                             path_loop k root is_filter must_end
                               (app ops ((PFunc f) :: []))
                               (app us (func_us f)) c r)
                      else let (name, q) = strip_qmark t.ttext in
                           let (c, r) = scan rest in
                           path_loop k root is_filter must_end
                             (app ops ((PIdent (name, q, t.ttext)) :: []))
                             (app us t.ttext) c r
                 else if is_ch t (Zpos (XI (XI (XO (XI (XI (XO XH)))))))
                      then bind (parse_log k true cur rest) (fun pat ->
                             let (p, l) = pat in
                             let (c, r) = p in
                             path_loop k root is_filter must_end
                               (app ops ((PFilter (l, (logop_us l))) :: []))
                               (app us (logop_us l)) c r)
                      else perr
     | CEOF ->
       Ok ((CZero, rest), (Path (false, root, is_filter, must_end, ops, us)))
     | CZero -> perr)

(** val parse_func : nat -> cursor -> token list -> func pres **)

and parse_func fuel cur rest =
  match fuel with
  | O -> OutOfFuel
  | S k ->
    (match cur with
     | CTok t ->
       if negb (Z.eqb t.tnext (Zpos (XO (XO (XO (XI (XO XH)))))))
       then perr
       else (match ft_get_by_name t.ttext with
             | Some key ->
               let invalid = false in
               let (c, r) = scan rest in
               let us = app key (match c with
                                 | CTok t1 -> t1.ttext
                                 | _ -> [])
               in
               func_loop k invalid key [] us c r
             | None ->
               let invalid = true in
               let ft = t.ttext in
               let (c, r) = scan rest in
               let us = app ft (match c with
                                | CTok t1 -> t1.ttext
                                | _ -> []) in
               func_loop k invalid ft [] us c r)
     | _ -> perr)

(** val func_loop :
    nat -> bool -> str -> param list -> str -> cursor -> token list -> func
    pres **)

and func_loop fuel invalid ft ps us cur rest =
  match fuel with
  | O -> OutOfFuel
  | S k ->
    (match cur with
     | CTok t ->
       if is_ch t (Zpos (XO (XO (XI (XI (XO XH))))))
       then let (c, r) = scan rest in
            func_loop k invalid ft ps
              (app us (ch_str (Zpos (XO (XO (XI (XI (XO XH)))))))) c r
       else if is_ch t (Zpos (XI (XO (XO (XI (XO XH))))))
            then Ok ((scan rest), (Func (invalid, ft, ps,
                   (app us (ch_str (Zpos (XI (XO (XO (XI (XO XH)))))))))))
            else if (||) (is_ch t (Zpos (XO (XO (XI (XO (XO XH)))))))
                      (is_ch t (Zpos (XO (XO (XO (XO (XO (XO XH))))))))
                 then bind (parse_path k false false cur rest) (fun pat ->
                        let (p0, p) = pat in
                        let (c, r) = p0 in
                        func_loop k invalid ft (app ps ((FPPath p) :: []))
                          (app us (path_us p)) c r)
                 else if is_ch t (Zpos (XI (XI (XO (XI (XI (XI XH)))))))
                      then bind (parse_log k false cur rest) (fun pat ->
                             let (p, l) = pat in
                             let (c, r) = p in
                             func_loop k invalid ft
                               (app ps ((FPLog l) :: []))
                               (app us (logop_us l)) c r)
                      else (match t.tk with
                            | TIdent ->
                              if str_eqb t.ttext
                                   (bs ('t'::('r'::('u'::('e'::[])))))
                              then let (c, r) = scan rest in
                                   func_loop k invalid ft
                                     (app ps ((FPBool true) :: []))
                                     (app us t.ttext) c r
                              else if str_eqb t.ttext
                                        (bs
                                          ('f'::('a'::('l'::('s'::('e'::[]))))))
                                   then let (c, r) = scan rest in
                                        func_loop k invalid ft
                                          (app ps ((FPBool false) :: []))
                                          (app us t.ttext) c r
                                   else let (ntxt, rest') =
                                          deal_with_numbers t rest
                                        in
                                        (match numeral ntxt with
                                         | NumOk d ->
                                           let (c, r) = scan rest' in
                                           func_loop k invalid ft
                                             (app ps ((FPNum d) :: []))
                                             (app us ntxt) c r
                                         | NumReject -> perr
                                         | NumUnknown ->
                                           Declined
                                             ('n'::('u'::('m'::('e'::('r'::('a'::('l'::(' '::('o'::('u'::('t'::('s'::('i'::('d'::('e'::(' '::('t'::('h'::('e'::(' '::('m'::('o'::('d'::('e'::('l'::('l'::('e'::('d'::(' '::('f'::('r'::('a'::('g'::('m'::('e'::('n'::('t'::[]))))))))))))))))))))))))))))))))))))))
                            | TCh _ ->
                              let (c, r) = scan rest in
                              func_loop k invalid ft ps us c r
                            | _ ->
                              let v = unescape (strip_dquotes t.ttext) in
                              let (c, r) = scan rest in
                              func_loop k invalid ft
                                (app ps ((FPStr v) :: [])) (app us t.ttext) c
                                r)
     | CEOF -> Ok ((CZero, rest), (Func (invalid, ft, ps, us)))
     | CZero -> let (c, r) = scan rest in func_loop k invalid ft ps us c r)

(** val parse_log : nat -> bool -> cursor -> token list -> logop pres **)

and parse_log fuel is_filter cur rest =
  match fuel with
  | O -> OutOfFuel
  | S k ->
    (match cur with
     | CTok t ->
       if negb
            ((||) (is_ch t (Zpos (XI (XI (XO (XI (XI (XI XH))))))))
              (is_ch t (Zpos (XI (XI (XO (XI (XI (XO XH)))))))))
       then perr
       else let us = t.ttext in
            let (c, r) = scan rest in
            (match c with
             | CTok t1 ->
               if is_ident_tok t1
               then let ty =
                      if str_eqb t1.ttext (bs ('A'::('N'::('D'::[]))))
                      then LAnd
                      else if str_eqb t1.ttext (bs ('O'::('R'::[])))
                           then LOr
                           else LBad t1.ttext
                    in
                    let inv = match ty with
                              | LBad _ -> true
                              | _ -> false in
                    let (c', r') = scan r in
                    log_loop k inv is_filter ty [] (app us t1.ttext) c' r'
               else log_loop k false is_filter LAnd [] us c r
             | _ -> log_loop k false is_filter LAnd [] us c r)
     | _ -> perr)

(** val log_loop :
    nat -> bool -> bool -> lot -> operand list -> str -> cursor -> token list
    -> logop pres **)

and log_loop fuel invalid is_filter ty xs us cur rest =
  match fuel with
  | O -> OutOfFuel
  | S k ->
    (match cur with
     | CTok t ->
       if is_ch t (Zpos (XO (XO (XI (XI (XO XH))))))
       then let (c, r) = scan rest in
            log_loop k invalid is_filter ty xs
              (app us (ch_str (Zpos (XO (XO (XI (XI (XO XH)))))))) c r
       else if (||) (is_ch t (Zpos (XO (XO (XI (XO (XO XH)))))))
                 (is_ch t (Zpos (XO (XO (XO (XO (XO (XO XH))))))))
            then bind (parse_path k is_filter true cur rest) (fun pat ->
                   let (p0, p) = pat in
                   let (c, r) = p0 in
                   log_loop k invalid is_filter ty (app xs ((OpP p) :: []))
                     (app us (path_us p)) c r)
            else if is_ch t (Zpos (XI (XI (XO (XI (XI (XI XH)))))))
                 then bind (parse_log k false cur rest) (fun pat ->
                        let (p, l) = pat in
                        let (c, r) = p in
                        log_loop k invalid is_filter ty
                          (app xs ((OpL l) :: [])) (app us (logop_us l)) c r)
                 else if (||)
                           (is_ch t (Zpos (XI (XO (XI (XI (XI (XI XH))))))))
                           (is_ch t (Zpos (XI (XO (XI (XI (XI (XO XH))))))))
                      then Ok ((scan rest), (LogOp (invalid, is_filter, ty,
                             xs, (app us t.ttext))))
                      else perr
     | CEOF -> Ok ((CZero, rest), (LogOp (invalid, is_filter, ty, xs, us)))
     | CZero -> perr)

(** val top_loop :
    nat -> top option -> cursor -> token list -> top outcome **)

let rec top_loop fuel topop cur rest =
  match fuel with
  | O -> OutOfFuel
  | S k ->
    (match cur with
     | CTok t ->
       if is_ch t (Zpos (XI (XI (XO (XI (XI (XI XH)))))))
       then (match topop with
             | Some _ ->
               Err (EOther
                 ('o'::('p'::('e'::('r'::('a'::('t'::('i'::('o'::('n'::(' '::('n'::('o'::('t'::(' '::('t'::('e'::('r'::('m'::('i'::('n'::('a'::('t'::('e'::('d'::(' '::('p'::('r'::('o'::('p'::('e'::('r'::('l'::('y'::[]))))))))))))))))))))))))))))))))))
             | None ->
               bind (parse_log k false cur rest) (fun pat ->
                 let (p, l) = pat in
                 let (c, r) = p in top_loop k (Some (TopL l)) c r))
       else if (||) (is_ch t (Zpos (XO (XO (XO (XO (XO (XO XH))))))))
                 (is_ch t (Zpos (XO (XO (XI (XO (XO XH)))))))
            then (match topop with
                  | Some _ ->
                    Err (EOther
                      ('o'::('p'::('e'::('r'::('a'::('t'::('i'::('o'::('n'::(' '::('n'::('o'::('t'::(' '::('t'::('e'::('r'::('m'::('i'::('n'::('a'::('t'::('e'::('d'::(' '::('p'::('r'::('o'::('p'::('e'::('r'::('l'::('y'::[]))))))))))))))))))))))))))))))))))
                  | None ->
                    bind (parse_path k false false cur rest) (fun pat ->
                      let (p0, p) = pat in
                      let (c, r) = p0 in top_loop k (Some (TopP p)) c r))
            else Err (EOther
                   ('i'::('n'::('v'::('a'::('l'::('i'::('d'::(' '::('q'::('u'::('e'::('r'::('y'::[]))))))))))))))
     | _ ->
       (match topop with
        | Some t -> Ok t
        | None ->
          Err (EOther
            ('i'::('n'::('v'::('a'::('l'::('i'::('d'::(' '::('q'::('u'::('e'::('r'::('y'::(':'::(' '::('n'::('o'::(' '::('o'::('p'::('e'::('r'::('a'::('t'::('i'::('o'::('n'::(' '::('f'::('o'::('u'::('n'::('d'::[]))))))))))))))))))))))))))))))))))))

(** val parse_fuel : token list -> nat **)

let parse_fuel toks =
  add (mul (S (S (S O))) (length toks)) (S (S (S (S (S (S (S (S O))))))))

(** val parse_tokens : token list -> top outcome **)

let parse_tokens toks =
  let (c, r) = scan toks in top_loop (parse_fuel toks) None c r

(** val parse_string : uclass -> str -> top outcome **)

let parse_string uni s =
  match lex uni s with
  | Some toks -> parse_tokens toks
  | None ->
    Err (EOther
      ('s'::('c'::('a'::('n'::('n'::('e'::('r'::(' '::('e'::('r'::('r'::('o'::('r'::[]))))))))))))))

type rparam =
| RNum of dec
| RStr of str
| RBool of bool

type engines = { eng_re_match : (str -> str -> bool option option);
                 eng_re_replace : (str -> str -> str -> str option option);
                 eng_json_marshal : (gv -> str option option);
                 eng_decode : (char list -> str -> gv option option);
                 eng_sprintf : (str -> gv list -> str option) }

(** val numbers : rparam list -> dec list **)

let numbers ps =
  filter_map (fun p -> match p with
                       | RNum d -> Some d
                       | _ -> None) ps

(** val strings : rparam list -> str list **)

let strings ps =
  filter_map (fun p -> match p with
                       | RStr s -> Some s
                       | _ -> None) ps

(** val bools : rparam list -> bool list **)

let bools ps =
  filter_map (fun p -> match p with
                       | RBool b -> Some b
                       | _ -> None) ps

(** val string_number : str -> dec option **)

let string_number s =
  let (was, d) = convert_number_check (VStr (false, s)) in
  if was then Some d else None

(** val len_is : rparam list -> nat -> bool **)

let len_is ps n0 =
  Nat.eqb (length ps) n0

(** val params_first_any : rparam list -> rparam outcome **)

let params_first_any = function
| [] ->
  fail
    ('e'::('x'::('p'::('e'::('c'::('t'::('e'::('d'::(' '::('1'::(' '::('p'::('a'::('r'::('a'::('m'::('s'::[])))))))))))))))))
| p :: l ->
  (match l with
   | [] -> Ok p
   | _ :: _ ->
     fail
       ('e'::('x'::('p'::('e'::('c'::('t'::('e'::('d'::(' '::('1'::(' '::('p'::('a'::('r'::('a'::('m'::('s'::[]))))))))))))))))))

(** val params_first_number : rparam list -> dec outcome **)

let params_first_number ps =
  if negb (len_is ps (S O))
  then fail
         ('e'::('x'::('p'::('e'::('c'::('t'::('e'::('d'::(' '::('1'::(' '::('p'::('a'::('r'::('a'::('m'::('s'::[])))))))))))))))))
  else (match numbers ps with
        | [] ->
          (match filter_map string_number (strings ps) with
           | [] ->
             fail
               ('n'::('o'::(' '::('n'::('u'::('m'::('b'::('e'::('r'::(' '::('p'::('a'::('r'::('a'::('m'::('e'::('t'::('e'::('r'::(' '::('f'::('o'::('u'::('n'::('d'::[])))))))))))))))))))))))))
           | d :: _ -> Ok d)
        | d :: _ -> Ok d)

(** val params_first_string : rparam list -> str outcome **)

let params_first_string ps =
  if negb (len_is ps (S O))
  then fail
         ('e'::('x'::('p'::('e'::('c'::('t'::('e'::('d'::(' '::('1'::(' '::('p'::('a'::('r'::('a'::('m'::('s'::[])))))))))))))))))
  else (match strings ps with
        | [] ->
          fail
            ('n'::('o'::(' '::('s'::('t'::('r'::('i'::('n'::('g'::(' '::('p'::('a'::('r'::('a'::('m'::('e'::('t'::('e'::('r'::(' '::('f'::('o'::('u'::('n'::('d'::[])))))))))))))))))))))))))
        | s :: _ -> Ok s)

(** val params_get_all : rparam list -> gv list **)

let params_get_all ps =
  app (map (fun x -> VDec x) (numbers ps))
    (app (map (fun x -> VStr (false, x)) (strings ps))
      (map (fun x -> VBool (false, x)) (bools ps)))

(** val vbool : bool -> gv **)

let vbool b =
  VBool (false, b)

(** val vstr : str -> gv **)

let vstr s =
  VStr (false, s)

(** val go_eq : gv -> gv -> bool **)

let go_eq val0 p =
  match val0 with
  | VBool (named, b) ->
    if named
    then false
    else (match p with
          | VBool (named0, c) -> if named0 then false else eqb b c
          | _ -> false)
  | VStr (named, s) ->
    if named
    then false
    else (match p with
          | VStr (named0, t) -> if named0 then false else str_eqb s t
          | _ -> false)
  | _ -> false

(** val rparam_gv : rparam -> gv **)

let rparam_gv = function
| RNum d -> VDec d
| RStr s -> vstr s
| RBool b -> vbool b

(** val func_equal : rparam list -> gv -> bool outcome **)

let func_equal ps val0 =
  bind (params_first_any ps) (fun p ->
    match val0 with
    | VDec v -> (match p with
                 | RNum d -> Ok (deq v d)
                 | _ -> Ok false)
    | _ -> Ok (go_eq val0 (rparam_gv p)))

(** val decimal_bool_func :
    (dec -> dec -> bool) -> rparam list -> gv -> gv outcome **)

let decimal_bool_func f ps val0 =
  bind (params_first_number ps) (fun p ->
    match val0 with
    | VDec v -> Ok (vbool (f v p))
    | _ ->
      fail
        ('p'::('a'::('r'::('a'::('m'::('e'::('t'::('e'::('r'::(' '::('w'::('a'::('s'::('n'::('\''::('t'::(' '::('n'::('u'::('m'::('b'::('e'::('r'::[]))))))))))))))))))))))))

(** val string_bool_func :
    (str -> str -> bool) -> bool -> rparam list -> gv -> gv outcome **)

let string_bool_func f invert ps val0 =
  bind (params_first_string ps) (fun p ->
    match val0 with
    | VStr (named, s) ->
      if named
      then fail
             ('p'::('a'::('r'::('a'::('m'::('e'::('t'::('e'::('r'::(' '::('w'::('a'::('s'::('n'::('\''::('t'::(' '::('s'::('t'::('r'::('i'::('n'::('g'::[])))))))))))))))))))))))
      else Ok (vbool (xorb invert (f s p)))
    | _ ->
      fail
        ('p'::('a'::('r'::('a'::('m'::('e'::('t'::('e'::('r'::(' '::('w'::('a'::('s'::('n'::('\''::('t'::(' '::('s'::('t'::('r'::('i'::('n'::('g'::[]))))))))))))))))))))))))

(** val is_seq_kind : rv -> bool **)

let is_seq_kind v =
  match rkind v with
  | KdSlice -> true
  | KdArray -> true
  | _ -> false

(** val func_count : rparam list -> gv -> gv outcome **)

let func_count ps val0 =
  if negb (len_is ps O)
  then fail
         ('e'::('x'::('p'::('e'::('c'::('t'::('e'::('d'::(' '::('0'::(' '::('p'::('a'::('r'::('a'::('m'::('s'::[])))))))))))))))))
  else let v = value_of val0 in
       if is_empty_value v
       then Ok (VDec dzero)
       else (match elems_of (deref1 v).rv_v with
             | Some p ->
               let (_, xs) = p in
               Ok (VDec { coef = (Z.of_nat (length xs)); dexp = Z0 })
             | None -> Ok (VDec dzero))

(** val gv_is_zero : gv -> bool **)

let rec gv_is_zero = function
| VNil -> true
| VBool (_, b) -> negb b
| VInt (_, _, z0) -> Z.eqb z0 Z0
| VFloat (_, _, f) -> float_is_zero f
| VStr (_, s) -> (match s with
                  | [] -> true
                  | _ :: _ -> false)
| VDec _ -> false
| VPtr o -> (match o with
             | Some _ -> false
             | None -> true)
| VSlice (_, isnil, _) -> isnil
| VArray (_, xs) -> forallb gv_is_zero xs
| VMap (_, _, isnil, _) -> isnil
| VStruct fs -> forallb (fun pat -> let (_, v) = pat in gv_is_zero v) fs
| VFunc isnil -> isnil
| VChan isnil -> isnil

(** val func_any : rparam list -> gv -> gv outcome **)

let func_any ps val0 =
  if negb (len_is ps O)
  then fail
         ('e'::('x'::('p'::('e'::('c'::('t'::('e'::('d'::(' '::('0'::(' '::('p'::('a'::('r'::('a'::('m'::('s'::[])))))))))))))))))
  else let v = value_of val0 in
       if is_empty_value v
       then Ok (vbool false)
       else let v0 = deref1 v in
            (match v0.rv_v with
             | VDec _ ->
               Declined
                 ('A'::('n'::('y'::('('::(')'::(' '::('o'::('n'::(' '::('a'::(' '::('d'::('e'::('c'::('i'::('m'::('a'::('l'::(':'::(' '::('I'::('s'::('Z'::('e'::('r'::('o'::(' '::('o'::('f'::(' '::('b'::('i'::('g'::('.'::('I'::('n'::('t'::(' '::('i'::('n'::('t'::('e'::('r'::('n'::('a'::('l'::('s'::[])))))))))))))))))))))))))))))))))))))))))))))))
             | VSlice (_, _, xs) -> Ok (vbool (negb (Nat.eqb (length xs) O)))
             | VArray (_, xs) -> Ok (vbool (negb (Nat.eqb (length xs) O)))
             | VStruct _ -> Ok (vbool (gv_is_zero v0.rv_v))
             | _ -> Ok (vbool false))

(** val empty_guard : rv -> bool **)

let empty_guard v =
  (&&) (is_empty_value v) (negb (is_seq_kind v))

(** val func_first : rparam list -> gv -> gv outcome **)

let func_first ps val0 =
  if negb (len_is ps O)
  then fail
         ('e'::('x'::('p'::('e'::('c'::('t'::('e'::('d'::(' '::('0'::(' '::('p'::('a'::('r'::('a'::('m'::('s'::[])))))))))))))))))
  else let v = value_of val0 in
       if empty_guard v
       then Ok (VDec dzero)
       else (match elems_of (deref1 v).rv_v with
             | Some p ->
               let (_, l) = p in
               (match l with
                | [] ->
                  fail
                    ('n'::('o'::('t'::('h'::('i'::('n'::('g'::(' '::('i'::('n'::(' '::('a'::('r'::('r'::('a'::('y'::[]))))))))))))))))
                | x :: _ -> Ok (convert_number x))
             | None ->
               fail
                 ('n'::('o'::('t'::(' '::('a'::('r'::('r'::('a'::('y'::[]))))))))))

(** val func_last : rparam list -> gv -> gv outcome **)

let func_last ps val0 =
  if negb (len_is ps O)
  then fail
         ('e'::('x'::('p'::('e'::('c'::('t'::('e'::('d'::(' '::('0'::(' '::('p'::('a'::('r'::('a'::('m'::('s'::[])))))))))))))))))
  else let v = value_of val0 in
       if empty_guard v
       then Ok (VDec dzero)
       else (match elems_of (deref1 v).rv_v with
             | Some p ->
               let (_, xs) = p in
               (match xs with
                | [] ->
                  fail
                    ('n'::('o'::('t'::('h'::('i'::('n'::('g'::(' '::('i'::('n'::(' '::('a'::('r'::('r'::('a'::('y'::[]))))))))))))))))
                | _ :: _ ->
                  (match nth_error xs (sub (length xs) (S O)) with
                   | Some x -> Ok (convert_number x)
                   | None ->
                     Panic
                       ('r'::('e'::('f'::('l'::('e'::('c'::('t'::(':'::(' '::('s'::('l'::('i'::('c'::('e'::(' '::('i'::('n'::('d'::('e'::('x'::(' '::('o'::('u'::('t'::(' '::('o'::('f'::(' '::('r'::('a'::('n'::('g'::('e'::[])))))))))))))))))))))))))))))))))))
             | None ->
               fail
                 ('n'::('o'::('t'::(' '::('a'::('r'::('r'::('a'::('y'::[]))))))))))

(** val func_index : rparam list -> gv -> gv outcome **)

let func_index ps val0 =
  bind (params_first_number ps) (fun p ->
    let v = value_of val0 in
    if empty_guard v
    then Ok (VDec dzero)
    else (match elems_of (deref1 v).rv_v with
          | Some p0 ->
            let (_, xs) = p0 in
            if (&&) (negb (dis_neg p))
                 (dlt p { coef = (Z.of_nat (length xs)); dexp = Z0 })
            then let i = int_part p in
                 if Z.ltb i Z0
                 then Panic
                        ('r'::('e'::('f'::('l'::('e'::('c'::('t'::(':'::(' '::('s'::('l'::('i'::('c'::('e'::(' '::('i'::('n'::('d'::('e'::('x'::(' '::('o'::('u'::('t'::(' '::('o'::('f'::(' '::('r'::('a'::('n'::('g'::('e'::[])))))))))))))))))))))))))))))))))
                 else (match nth_error xs (Z.to_nat i) with
                       | Some x -> Ok (convert_number x)
                       | None ->
                         Panic
                           ('r'::('e'::('f'::('l'::('e'::('c'::('t'::(':'::(' '::('s'::('l'::('i'::('c'::('e'::(' '::('i'::('n'::('d'::('e'::('x'::(' '::('o'::('u'::('t'::(' '::('o'::('f'::(' '::('r'::('a'::('n'::('g'::('e'::[]))))))))))))))))))))))))))))))))))
            else fail
                   ('n'::('o'::('t'::('h'::('i'::('n'::('g'::(' '::('i'::('n'::(' '::('a'::('r'::('r'::('a'::('y'::[]))))))))))))))))
          | None ->
            fail
              ('n'::('o'::('t'::(' '::('a'::('r'::('r'::('a'::('y'::[])))))))))))

type agg =
| AggSum
| AggAvg
| AggMin
| AggMax

(** val run_agg : agg -> dec -> dec list -> dec **)

let run_agg a first rest =
  match a with
  | AggSum -> dsum first rest
  | AggAvg -> davg first rest
  | AggMin -> dmin first rest
  | AggMax -> dmax first rest

(** val elem_number : gv -> dec option **)

let elem_number = function
| VFloat (is32, named, f) ->
  if is32
  then None
  else if named then None else (match f with
                                | FFin d -> Some d
                                | _ -> None)
| VStr (named, s) -> if named then None else string_number s
| VDec d -> Some d
| _ -> None

(** val all_some : 'a1 option list -> 'a1 list option **)

let rec all_some = function
| [] -> Some []
| o :: l' ->
  (match o with
   | Some x -> option_map (fun x0 -> x :: x0) (all_some l')
   | None -> None)

(** val func_decimal_slice : agg -> rparam list -> gv -> gv outcome **)

let func_decimal_slice a ps val0 =
  let val1 =
    match val0 with
    | VDec d -> VSlice (EDec, false, ((VDec d) :: []))
    | _ -> val0
  in
  let param_numbers = app (numbers ps) (filter_map string_number (strings ps))
  in
  let val2 =
    match val1 with
    | VMap (_, _, _, kvs) -> VSlice (EAny, false, (map snd kvs))
    | _ -> val1
  in
  let new_slc =
    match val2 with
    | VNil -> Some []
    | VBool (_, _) -> Some []
    | VInt (_, _, _) -> Some []
    | VFloat (_, _, _) -> Some []
    | VStr (_, _) -> Some []
    | VDec _ -> Some []
    | VPtr _ -> Some []
    | VSlice (t, _, xs) ->
      (match t with
       | EAny ->
         option_map (fun ds -> app param_numbers ds)
           (all_some (map elem_number xs))
       | EDec ->
         option_map (fun ds -> app ds param_numbers)
           (all_some
             (map (fun x ->
               match x with
               | VNil -> None
               | VBool (_, _) -> None
               | VInt (_, _, _) -> None
               | VFloat (_, _, _) -> None
               | VStr (_, _) -> None
               | VDec d -> Some d
               | _ -> None) xs))
       | _ -> Some [])
    | _ -> Some []
  in
  (match new_slc with
   | Some l ->
     (match l with
      | [] -> Ok (VDec dzero)
      | d :: rest ->
        (match rest with
         | [] -> Ok (VDec d)
         | _ :: _ -> Ok (VDec (run_agg a d rest))))
   | None ->
     fail
       ('n'::('o'::('t'::(' '::('a'::('n'::(' '::('a'::('r'::('r'::('a'::('y'::(' '::('o'::('f'::(' '::('n'::('u'::('m'::('b'::('e'::('r'::('s'::[]))))))))))))))))))))))))

type arith =
| AAdd
| ASub
| AMul
| ADiv
| AMod

(** val func_decimal : arith -> rparam list -> gv -> gv outcome **)

let func_decimal op ps val0 =
  bind (params_first_number ps) (fun p ->
    match op with
    | ADiv ->
      if dis_zero p
      then fail
             ('c'::('a'::('n'::('n'::('o'::('t'::(' '::('d'::('i'::('v'::('i'::('d'::('e'::(' '::('b'::('y'::(' '::('z'::('e'::('r'::('o'::[])))))))))))))))))))))
      else (match val0 with
            | VDec v ->
              Ok (VDec (match op with
                        | ADiv -> ddiv v p
                        | _ -> dmod v p))
            | _ ->
              fail
                ('n'::('o'::('t'::(' '::('a'::(' '::('n'::('u'::('m'::('b'::('e'::('r'::[])))))))))))))
    | AMod ->
      if dis_zero p
      then fail
             ('c'::('a'::('n'::('n'::('o'::('t'::(' '::('d'::('i'::('v'::('i'::('d'::('e'::(' '::('b'::('y'::(' '::('z'::('e'::('r'::('o'::[])))))))))))))))))))))
      else (match val0 with
            | VDec v ->
              Ok (VDec (match op with
                        | ADiv -> ddiv v p
                        | _ -> dmod v p))
            | _ ->
              fail
                ('n'::('o'::('t'::(' '::('a'::(' '::('n'::('u'::('m'::('b'::('e'::('r'::[])))))))))))))
    | _ ->
      (match val0 with
       | VDec v ->
         Ok (VDec
           (match op with
            | AAdd -> dadd v p
            | ASub -> dsub v p
            | _ -> dmul v p))
       | _ ->
         fail
           ('n'::('o'::('t'::(' '::('a'::(' '::('n'::('u'::('m'::('b'::('e'::('r'::[]))))))))))))))

(** val any_of_loop : gv -> gv list -> bool **)

let rec any_of_loop val0 = function
| [] -> false
| p :: rest ->
  (match val0 with
   | VDec v ->
     (match p with
      | VDec d -> if deq v d then true else any_of_loop val0 rest
      | _ -> false)
   | _ -> if go_eq val0 p then true else any_of_loop val0 rest)

(** val func_any_of : rparam list -> gv -> gv outcome **)

let func_any_of ps val0 =
  Ok (vbool (any_of_loop val0 (params_get_all ps)))

(** val go_slice : str -> z -> z -> str outcome **)

let go_slice s lo hi =
  if (&&) ((&&) (Z.leb Z0 lo) (Z.leb lo hi)) (Z.leb hi (Z.of_nat (length s)))
  then Ok (firstn (Z.to_nat (Z.sub hi lo)) (skipn (Z.to_nat lo) s))
  else Panic
         ('s'::('l'::('i'::('c'::('e'::(' '::('b'::('o'::('u'::('n'::('d'::('s'::(' '::('o'::('u'::('t'::(' '::('o'::('f'::(' '::('r'::('a'::('n'::('g'::('e'::[])))))))))))))))))))))))))

type spart =
| SLeft
| SRight
| STrimLeft
| STrimRight

(** val string_part_func : spart -> rparam list -> gv -> gv outcome **)

let string_part_func w ps val0 =
  bind (params_first_number ps) (fun p ->
    if negb (dis_integer p)
    then fail
           ('p'::('a'::('r'::('a'::('m'::('e'::('t'::('e'::('r'::(' '::('m'::('u'::('s'::('t'::(' '::('b'::('e'::(' '::('a'::('n'::(' '::('i'::('n'::('t'::('e'::('g'::('e'::('r'::[]))))))))))))))))))))))))))))
    else if dis_neg p
         then fail
                ('p'::('a'::('r'::('a'::('m'::('e'::('t'::('e'::('r'::(' '::('m'::('u'::('s'::('t'::(' '::('n'::('o'::('t'::(' '::('b'::('e'::(' '::('n'::('e'::('g'::('a'::('t'::('i'::('v'::('e'::[]))))))))))))))))))))))))))))))
         else (match val0 with
               | VStr (named, s) ->
                 if named
                 then fail
                        ('v'::('a'::('l'::('u'::('e'::(' '::('w'::('a'::('s'::('n'::('\''::('t'::(' '::('s'::('t'::('r'::('i'::('n'::('g'::[])))))))))))))))))))
                 else let n0 = Z.of_nat (length s) in
                      let p0 =
                        if dgt p { coef = n0; dexp = Z0 }
                        then { coef = n0; dexp = Z0 }
                        else p
                      in
                      let i = int_part p0 in
                      bind
                        (match w with
                         | SLeft ->
                           if Z.ltb n0 i then Ok s else go_slice s Z0 i
                         | SRight ->
                           if Z.ltb n0 i
                           then Ok s
                           else go_slice s (Z.sub n0 i) n0
                         | STrimLeft ->
                           if Z.leb n0 i then Ok [] else go_slice s i n0
                         | STrimRight ->
                           if Z.leb n0 i
                           then Ok []
                           else go_slice s Z0 (Z.sub n0 i)) (fun r -> Ok
                        (vstr r))
               | _ ->
                 fail
                   ('v'::('a'::('l'::('u'::('e'::(' '::('w'::('a'::('s'::('n'::('\''::('t'::(' '::('s'::('t'::('r'::('i'::('n'::('g'::[])))))))))))))))))))))

(** val func_replace_all : rparam list -> gv -> gv outcome **)

let func_replace_all ps val0 =
  if negb (len_is ps (S (S O)))
  then fail
         ('e'::('x'::('p'::('e'::('c'::('t'::('e'::('d'::(' '::('2'::(' '::('p'::('a'::('r'::('a'::('m'::('s'::[])))))))))))))))))
  else (match strings ps with
        | [] ->
          fail
            ('r'::('e'::('p'::('l'::('a'::('c'::('e'::(' '::('p'::('a'::('r'::('a'::('m'::('e'::('t'::('e'::('r'::(' '::('m'::('i'::('s'::('s'::('i'::('n'::('g'::[])))))))))))))))))))))))))
        | f :: rest ->
          (match f with
           | [] ->
             fail
               ('f'::('i'::('n'::('d'::(' '::('p'::('a'::('r'::('a'::('m'::('e'::('t'::('e'::('r'::(' '::('m'::('u'::('s'::('t'::(' '::('n'::('o'::('t'::(' '::('b'::('e'::(' '::('a'::('n'::(' '::('e'::('m'::('p'::('t'::('y'::(' '::('s'::('t'::('r'::('i'::('n'::('g'::[]))))))))))))))))))))))))))))))))))))))))))
           | _ :: _ ->
             (match rest with
              | [] ->
                fail
                  ('r'::('e'::('p'::('l'::('a'::('c'::('e'::(' '::('p'::('a'::('r'::('a'::('m'::('e'::('t'::('e'::('r'::(' '::('m'::('i'::('s'::('s'::('i'::('n'::('g'::[])))))))))))))))))))))))))
              | r :: _ ->
                (match val0 with
                 | VStr (named, s) ->
                   if named
                   then fail
                          ('v'::('a'::('l'::('u'::('e'::(' '::('w'::('a'::('s'::('n'::('\''::('t'::(' '::('s'::('t'::('r'::('i'::('n'::('g'::[])))))))))))))))))))
                   else Ok (vstr (replace_all s f r))
                 | _ ->
                   fail
                     ('v'::('a'::('l'::('u'::('e'::(' '::('w'::('a'::('s'::('n'::('\''::('t'::(' '::('s'::('t'::('r'::('i'::('n'::('g'::[])))))))))))))))))))))))

(** val cmp_is_zero : gv -> bool **)

let rec cmp_is_zero = function
| VNil -> true
| VBool (_, b) -> negb b
| VInt (_, _, z0) -> Z.eqb z0 Z0
| VFloat (_, _, f) -> float_is_zero f
| VStr (_, s) -> (match s with
                  | [] -> true
                  | _ :: _ -> false)
| VDec d -> Z.eqb d.coef Z0
| VPtr o -> (match o with
             | Some _ -> false
             | None -> true)
| VSlice (_, _, xs) -> (match xs with
                        | [] -> true
                        | _ :: _ -> false)
| VArray (t, xs) ->
  forallb (fun x ->
    if ety_eqb t EAny
    then (match x with
          | VNil -> true
          | _ -> false)
    else cmp_is_zero x) xs
| VMap (_, _, _, kvs) -> (match kvs with
                          | [] -> true
                          | _ :: _ -> false)
| VStruct fs ->
  forallb (fun pat ->
    let (y, v) = pat in
    let (_, iface) = y in
    if iface then (match v with
                   | VNil -> true
                   | _ -> false) else cmp_is_zero v) fs
| VFunc isnil -> isnil
| VChan isnil -> isnil

(** val func_is_null : rparam list -> gv -> bool outcome **)

let func_is_null ps val0 =
  if negb (len_is ps O)
  then fail
         ('e'::('x'::('p'::('e'::('c'::('t'::('e'::('d'::(' '::('0'::(' '::('p'::('a'::('r'::('a'::('m'::('s'::[])))))))))))))))))
  else Ok (is_nil val0)

(** val func_is_empty : rparam list -> gv -> bool outcome **)

let func_is_empty ps val0 =
  if negb (len_is ps O)
  then fail
         ('e'::('x'::('p'::('e'::('c'::('t'::('e'::('d'::(' '::('0'::(' '::('p'::('a'::('r'::('a'::('m'::('s'::[])))))))))))))))))
  else Ok (cmp_is_zero val0)

(** val func_is_null_or_empty : rparam list -> gv -> bool outcome **)

let func_is_null_or_empty ps val0 =
  if negb (len_is ps O)
  then fail
         ('e'::('x'::('p'::('e'::('c'::('t'::('e'::('d'::(' '::('0'::(' '::('p'::('a'::('r'::('a'::('m'::('s'::[])))))))))))))))))
  else Ok ((||) (is_nil val0) (cmp_is_zero val0))

(** val negate : bool outcome -> gv outcome **)

let negate o =
  bind o (fun b -> Ok (vbool (negb b)))

(** val boolv : bool outcome -> gv outcome **)

let boolv o =
  bind o (fun b -> Ok (vbool b))

(** val func_not : gv -> gv outcome **)

let func_not = function
| VBool (named, b) ->
  if named
  then fail
         ('v'::('a'::('l'::('u'::('e'::(' '::('i'::('s'::(' '::('n'::('o'::('t'::(' '::('a'::(' '::('b'::('o'::('o'::('l'::('e'::('a'::('n'::[]))))))))))))))))))))))
  else Ok (vbool (negb b))
| _ ->
  fail
    ('v'::('a'::('l'::('u'::('e'::(' '::('i'::('s'::(' '::('n'::('o'::('t'::(' '::('a'::(' '::('b'::('o'::('o'::('l'::('e'::('a'::('n'::[]))))))))))))))))))))))

(** val func_invert : gv -> gv outcome **)

let func_invert = function
| VBool (named, b) ->
  if named
  then fail
         ('i'::('n'::('p'::('u'::('t'::(' '::('w'::('a'::('s'::(' '::('n'::('o'::('t'::(' '::('b'::('o'::('o'::('l'::('e'::('a'::('n'::[])))))))))))))))))))))
  else Ok (vbool (negb b))
| VPtr target ->
  (match target with
   | Some g ->
     (match g with
      | VBool (named, b) ->
        if named
        then fail
               ('i'::('n'::('p'::('u'::('t'::(' '::('w'::('a'::('s'::(' '::('n'::('o'::('t'::(' '::('b'::('o'::('o'::('l'::('e'::('a'::('n'::[])))))))))))))))))))))
        else Ok (vbool (negb b))
      | _ ->
        fail
          ('i'::('n'::('p'::('u'::('t'::(' '::('w'::('a'::('s'::(' '::('n'::('o'::('t'::(' '::('b'::('o'::('o'::('l'::('e'::('a'::('n'::[]))))))))))))))))))))))
   | None ->
     fail
       ('i'::('n'::('p'::('u'::('t'::(' '::('w'::('a'::('s'::(' '::('n'::('o'::('t'::(' '::('b'::('o'::('o'::('l'::('e'::('a'::('n'::[]))))))))))))))))))))))
| _ ->
  fail
    ('i'::('n'::('p'::('u'::('t'::(' '::('w'::('a'::('s'::(' '::('n'::('o'::('t'::(' '::('b'::('o'::('o'::('l'::('e'::('a'::('n'::[])))))))))))))))))))))

(** val func_does_match_regex : engines -> rparam list -> gv -> gv outcome **)

let func_does_match_regex eng ps val0 =
  bind (params_first_string ps) (fun p ->
    match val0 with
    | VStr (named, s) ->
      if named
      then (match eng.eng_re_match p [] with
            | Some o ->
              (match o with
               | Some _ ->
                 fail
                   ('v'::('a'::('l'::('u'::('e'::(' '::('w'::('a'::('s'::('n'::('\''::('t'::(' '::('s'::('t'::('r'::('i'::('n'::('g'::[])))))))))))))))))))
               | None ->
                 fail
                   ('r'::('e'::('g'::('u'::('l'::('a'::('r'::(' '::('e'::('x'::('p'::('r'::('e'::('s'::('s'::('i'::('o'::('n'::(' '::('i'::('s'::(' '::('i'::('n'::('v'::('a'::('l'::('i'::('d'::[]))))))))))))))))))))))))))))))
            | None ->
              Declined
                ('r'::('e'::('g'::('e'::('x'::('p'::(' '::('o'::('r'::('a'::('c'::('l'::('e'::(' '::('m'::('i'::('s'::('s'::[])))))))))))))))))))
      else (match eng.eng_re_match p s with
            | Some o ->
              (match o with
               | Some b -> Ok (vbool b)
               | None ->
                 fail
                   ('r'::('e'::('g'::('u'::('l'::('a'::('r'::(' '::('e'::('x'::('p'::('r'::('e'::('s'::('s'::('i'::('o'::('n'::(' '::('i'::('s'::(' '::('i'::('n'::('v'::('a'::('l'::('i'::('d'::[]))))))))))))))))))))))))))))))
            | None ->
              Declined
                ('r'::('e'::('g'::('e'::('x'::('p'::(' '::('o'::('r'::('a'::('c'::('l'::('e'::(' '::('m'::('i'::('s'::('s'::[])))))))))))))))))))
    | _ ->
      (match eng.eng_re_match p [] with
       | Some o ->
         (match o with
          | Some _ ->
            fail
              ('v'::('a'::('l'::('u'::('e'::(' '::('w'::('a'::('s'::('n'::('\''::('t'::(' '::('s'::('t'::('r'::('i'::('n'::('g'::[])))))))))))))))))))
          | None ->
            fail
              ('r'::('e'::('g'::('u'::('l'::('a'::('r'::(' '::('e'::('x'::('p'::('r'::('e'::('s'::('s'::('i'::('o'::('n'::(' '::('i'::('s'::(' '::('i'::('n'::('v'::('a'::('l'::('i'::('d'::[]))))))))))))))))))))))))))))))
       | None ->
         Declined
           ('r'::('e'::('g'::('e'::('x'::('p'::(' '::('o'::('r'::('a'::('c'::('l'::('e'::(' '::('m'::('i'::('s'::('s'::[]))))))))))))))))))))

(** val func_replace_regex : engines -> rparam list -> gv -> gv outcome **)

let func_replace_regex eng ps val0 =
  if negb (len_is ps (S (S O)))
  then fail
         ('e'::('x'::('p'::('e'::('c'::('t'::('e'::('d'::(' '::('2'::(' '::('p'::('a'::('r'::('a'::('m'::('s'::[])))))))))))))))))
  else (match strings ps with
        | [] ->
          fail
            ('r'::('e'::('p'::('l'::('a'::('c'::('e'::(' '::('p'::('a'::('r'::('a'::('m'::('e'::('t'::('e'::('r'::(' '::('m'::('i'::('s'::('s'::('i'::('n'::('g'::[])))))))))))))))))))))))))
        | rgx :: rest ->
          (match rgx with
           | [] ->
             fail
               ('f'::('i'::('n'::('d'::(' '::('p'::('a'::('r'::('a'::('m'::('e'::('t'::('e'::('r'::(' '::('m'::('u'::('s'::('t'::(' '::('n'::('o'::('t'::(' '::('b'::('e'::(' '::('a'::('n'::(' '::('e'::('m'::('p'::('t'::('y'::(' '::('s'::('t'::('r'::('i'::('n'::('g'::[]))))))))))))))))))))))))))))))))))))))))))
           | _ :: _ ->
             (match rest with
              | [] ->
                fail
                  ('r'::('e'::('p'::('l'::('a'::('c'::('e'::(' '::('p'::('a'::('r'::('a'::('m'::('e'::('t'::('e'::('r'::(' '::('m'::('i'::('s'::('s'::('i'::('n'::('g'::[])))))))))))))))))))))))))
              | repl :: _ ->
                let subject =
                  match val0 with
                  | VNil -> []
                  | VBool (_, _) -> []
                  | VInt (_, _, _) -> []
                  | VFloat (_, _, _) -> []
                  | VStr (named, s) -> if named then [] else s
                  | _ -> []
                in
                (match eng.eng_re_replace rgx subject repl with
                 | Some o ->
                   (match o with
                    | Some out ->
                      (match val0 with
                       | VStr (named, _) ->
                         if named
                         then fail
                                ('v'::('a'::('l'::('u'::('e'::(' '::('w'::('a'::('s'::('n'::('\''::('t'::(' '::('s'::('t'::('r'::('i'::('n'::('g'::[])))))))))))))))))))
                         else Ok (vstr out)
                       | _ ->
                         fail
                           ('v'::('a'::('l'::('u'::('e'::(' '::('w'::('a'::('s'::('n'::('\''::('t'::(' '::('s'::('t'::('r'::('i'::('n'::('g'::[]))))))))))))))))))))
                    | None ->
                      fail
                        ('r'::('e'::('g'::('u'::('l'::('a'::('r'::(' '::('e'::('x'::('p'::('r'::('e'::('s'::('s'::('i'::('o'::('n'::(' '::('i'::('s'::(' '::('i'::('n'::('v'::('a'::('l'::('i'::('d'::[]))))))))))))))))))))))))))))))
                 | None ->
                   Declined
                     ('r'::('e'::('g'::('e'::('x'::('p'::(' '::('o'::('r'::('a'::('c'::('l'::('e'::(' '::('m'::('i'::('s'::('s'::[]))))))))))))))))))))))

(** val func_as_json : engines -> rparam list -> gv -> gv outcome **)

let func_as_json eng ps val0 =
  if negb (len_is ps O)
  then fail
         ('e'::('x'::('p'::('e'::('c'::('t'::('e'::('d'::(' '::('0'::(' '::('p'::('a'::('r'::('a'::('m'::('s'::[])))))))))))))))))
  else if is_empty_value (value_of val0)
       then Ok (vstr [])
       else (match eng.eng_json_marshal val0 with
             | Some o ->
               (match o with
                | Some s -> Ok (vstr s)
                | None ->
                  fail
                    ('u'::('n'::('a'::('b'::('l'::('e'::(' '::('t'::('o'::(' '::('m'::('a'::('r'::('s'::('h'::('a'::('l'::(' '::('t'::('o'::(' '::('J'::('S'::('O'::('N'::[]))))))))))))))))))))))))))
             | None ->
               Declined
                 ('j'::('s'::('o'::('n'::('.'::('M'::('a'::('r'::('s'::('h'::('a'::('l'::(' '::('o'::('r'::('a'::('c'::('l'::('e'::(' '::('m'::('i'::('s'::('s'::[])))))))))))))))))))))))))

(** val string_to_object :
    engines -> char list -> rparam list -> gv -> gv outcome **)

let string_to_object eng fmt ps val0 =
  if negb (len_is ps O)
  then fail
         ('e'::('x'::('p'::('e'::('c'::('t'::('e'::('d'::(' '::('0'::(' '::('p'::('a'::('r'::('a'::('m'::('s'::[])))))))))))))))))
  else let v = value_of val0 in
       if is_empty_value v
       then Ok (VMap (KtStr, EAny, true, []))
       else (match val0 with
             | VStr (named, s) ->
               if named
               then fail
                      ('v'::('a'::('l'::('u'::('e'::(' '::('i'::('s'::(' '::('n'::('o'::('t'::(' '::('a'::(' '::('s'::('t'::('r'::('i'::('n'::('g'::[])))))))))))))))))))))
               else (match eng.eng_decode fmt s with
                     | Some o ->
                       (match o with
                        | Some g -> Ok g
                        | None ->
                          fail
                            ('v'::('a'::('l'::('u'::('e'::(' '::('i'::('s'::(' '::('n'::('o'::('t'::(' '::('p'::('a'::('r'::('s'::('a'::('b'::('l'::('e'::[]))))))))))))))))))))))
                     | None ->
                       Declined
                         ('d'::('e'::('c'::('o'::('d'::('e'::('r'::(' '::('o'::('r'::('a'::('c'::('l'::('e'::(' '::('m'::('i'::('s'::('s'::[]))))))))))))))))))))
             | _ ->
               fail
                 ('v'::('a'::('l'::('u'::('e'::(' '::('i'::('s'::(' '::('n'::('o'::('t'::(' '::('a'::(' '::('s'::('t'::('r'::('i'::('n'::('g'::[]))))))))))))))))))))))

(** val func_sprintf : engines -> rparam list -> gv -> gv outcome **)

let func_sprintf eng ps = function
| VStr (named, s) ->
  if named
  then fail
         ('i'::('n'::('p'::('u'::('t'::(' '::('w'::('a'::('s'::(' '::('n'::('o'::('t'::(' '::('a'::(' '::('s'::('t'::('r'::('i'::('n'::('g'::[]))))))))))))))))))))))
  else (match params_get_all ps with
        | [] -> Ok (vstr s)
        | _ :: rest ->
          (match eng.eng_sprintf s rest with
           | Some out -> Ok (vstr out)
           | None ->
             Declined
               ('f'::('m'::('t'::('.'::('S'::('p'::('r'::('i'::('n'::('t'::('f'::(' '::('o'::('r'::('a'::('c'::('l'::('e'::(' '::('m'::('i'::('s'::('s'::[])))))))))))))))))))))))))
| _ ->
  fail
    ('i'::('n'::('p'::('u'::('t'::(' '::('w'::('a'::('s'::(' '::('n'::('o'::('t'::(' '::('a'::(' '::('s'::('t'::('r'::('i'::('n'::('g'::[]))))))))))))))))))))))

(** val remove_keys : (str -> bool option) -> gv -> gv outcome **)

let remove_keys keep val0 =
  let v = deref1 (value_of val0) in
  (match v.rv_v with
   | VMap (kt, vt, _, kvs) ->
     let step = fun acc kv ->
       match acc with
       | Some l ->
         (match key_string (fst kv) with
          | Some ks ->
            (match keep ks with
             | Some b -> if b then Some (app l (kv :: [])) else Some l
             | None -> None)
          | None -> Some (app l (kv :: [])))
       | None -> None
     in
     (match fold_left step kvs (Some []) with
      | Some l -> Ok (VMap (kt, vt, false, l))
      | None ->
        Declined
          ('r'::('e'::('g'::('e'::('x'::('p'::(' '::('o'::('r'::('a'::('c'::('l'::('e'::(' '::('m'::('i'::('s'::('s'::[])))))))))))))))))))
   | _ ->
     fail
       ('v'::('a'::('l'::('u'::('e'::(' '::('i'::('s'::(' '::('n'::('o'::('t'::(' '::('a'::(' '::('m'::('a'::('p'::[])))))))))))))))))))

(** val func_remove_keys_by :
    engines -> char list -> rparam list -> gv -> gv outcome **)

let func_remove_keys_by eng how ps val0 =
  if negb (len_is ps (S O))
  then fail
         ('e'::('x'::('p'::('e'::('c'::('t'::('e'::('d'::(' '::('1'::(' '::('p'::('a'::('r'::('a'::('m'::('s'::[])))))))))))))))))
  else bind (params_first_string ps) (fun p ->
         if eqb0 how ('R'::('e'::('g'::('e'::('x'::[])))))
         then (match eng.eng_re_match p [] with
               | Some o ->
                 (match o with
                  | Some _ ->
                    remove_keys (fun k ->
                      match eng.eng_re_match p k with
                      | Some o0 ->
                        (match o0 with
                         | Some b -> Some (negb b)
                         | None -> None)
                      | None -> None) val0
                  | None ->
                    fail
                      ('r'::('e'::('g'::('u'::('l'::('a'::('r'::(' '::('e'::('x'::('p'::('r'::('e'::('s'::('s'::('i'::('o'::('n'::(' '::('i'::('s'::(' '::('i'::('n'::('v'::('a'::('l'::('i'::('d'::[]))))))))))))))))))))))))))))))
               | None ->
                 Declined
                   ('r'::('e'::('g'::('e'::('x'::('p'::(' '::('o'::('r'::('a'::('c'::('l'::('e'::(' '::('m'::('i'::('s'::('s'::[])))))))))))))))))))
         else if eqb0 how ('P'::('r'::('e'::('f'::('i'::('x'::[]))))))
              then remove_keys (fun k -> Some (negb (has_prefix k p))) val0
              else remove_keys (fun k -> Some (negb (has_suffix k p))) val0)

(** val run_func : engines -> char list -> rparam list -> gv -> gv outcome **)

let run_func eng ft ps val0 =
  if eqb0 ft ('E'::('q'::('u'::('a'::('l'::[])))))
  then boolv (func_equal ps val0)
  else if eqb0 ft ('N'::('o'::('t'::('E'::('q'::('u'::('a'::('l'::[]))))))))
       then negate (func_equal ps val0)
       else if eqb0 ft ('L'::('e'::('s'::('s'::[]))))
            then decimal_bool_func dlt ps val0
            else if eqb0 ft
                      ('L'::('e'::('s'::('s'::('O'::('r'::('E'::('q'::('u'::('a'::('l'::[])))))))))))
                 then decimal_bool_func dle ps val0
                 else if eqb0 ft
                           ('G'::('r'::('e'::('a'::('t'::('e'::('r'::[])))))))
                      then decimal_bool_func dgt ps val0
                      else if eqb0 ft
                                ('G'::('r'::('e'::('a'::('t'::('e'::('r'::('O'::('r'::('E'::('q'::('u'::('a'::('l'::[]))))))))))))))
                           then decimal_bool_func dge ps val0
                           else if eqb0 ft
                                     ('I'::('n'::('v'::('e'::('r'::('t'::[]))))))
                                then func_invert val0
                                else if eqb0 ft ('N'::('o'::('t'::[])))
                                     then func_not val0
                                     else if eqb0 ft
                                               ('C'::('o'::('n'::('t'::('a'::('i'::('n'::('s'::[]))))))))
                                          then string_bool_func contains
                                                 false ps val0
                                          else if eqb0 ft
                                                    ('N'::('o'::('t'::('C'::('o'::('n'::('t'::('a'::('i'::('n'::('s'::[])))))))))))
                                               then string_bool_func contains
                                                      true ps val0
                                               else if eqb0 ft
                                                         ('P'::('r'::('e'::('f'::('i'::('x'::[]))))))
                                                    then string_bool_func
                                                           has_prefix false
                                                           ps val0
                                                    else if eqb0 ft
                                                              ('N'::('o'::('t'::('P'::('r'::('e'::('f'::('i'::('x'::[])))))))))
                                                         then string_bool_func
                                                                has_prefix
                                                                true ps val0
                                                         else if eqb0 ft
                                                                   ('S'::('u'::('f'::('f'::('i'::('x'::[]))))))
                                                              then string_bool_func
                                                                    has_suffix
                                                                    false ps
                                                                    val0
                                                              else if 
                                                                    eqb0 ft
                                                                    ('N'::('o'::('t'::('S'::('u'::('f'::('f'::('i'::('x'::[])))))))))
                                                                   then 
                                                                    string_bool_func
                                                                    has_suffix
                                                                    true ps
                                                                    val0
                                                                   else 
                                                                    if 
                                                                    eqb0 ft
                                                                    ('S'::('p'::('r'::('i'::('n'::('t'::('f'::[])))))))
                                                                    then 
                                                                    func_sprintf
                                                                    eng ps
                                                                    val0
                                                                    else 
                                                                    if 
                                                                    eqb0 ft
                                                                    ('C'::('o'::('u'::('n'::('t'::[])))))
                                                                    then 
                                                                    func_count
                                                                    ps val0
                                                                    else 
                                                                    if 
                                                                    eqb0 ft
                                                                    ('A'::('n'::('y'::[])))
                                                                    then 
                                                                    func_any
                                                                    ps val0
                                                                    else 
                                                                    if 
                                                                    eqb0 ft
                                                                    ('F'::('i'::('r'::('s'::('t'::[])))))
                                                                    then 
                                                                    func_first
                                                                    ps val0
                                                                    else 
                                                                    if 
                                                                    eqb0 ft
                                                                    ('L'::('a'::('s'::('t'::[]))))
                                                                    then 
                                                                    func_last
                                                                    ps val0
                                                                    else 
                                                                    if 
                                                                    eqb0 ft
                                                                    ('I'::('n'::('d'::('e'::('x'::[])))))
                                                                    then 
                                                                    func_index
                                                                    ps val0
                                                                    else 
                                                                    if 
                                                                    eqb0 ft
                                                                    ('S'::('u'::('m'::[])))
                                                                    then 
                                                                    func_decimal_slice
                                                                    AggSum ps
                                                                    val0
                                                                    else 
                                                                    if 
                                                                    eqb0 ft
                                                                    ('A'::('v'::('e'::('r'::('a'::('g'::('e'::[])))))))
                                                                    then 
                                                                    func_decimal_slice
                                                                    AggAvg ps
                                                                    val0
                                                                    else 
                                                                    if 
                                                                    eqb0 ft
                                                                    ('M'::('i'::('n'::('i'::('m'::('u'::('m'::[])))))))
                                                                    then 
                                                                    func_decimal_slice
                                                                    AggMin ps
                                                                    val0
                                                                    else 
                                                                    if 
                                                                    eqb0 ft
                                                                    ('M'::('a'::('x'::('i'::('m'::('u'::('m'::[])))))))
                                                                    then 
                                                                    func_decimal_slice
                                                                    AggMax ps
                                                                    val0
                                                                    else 
                                                                    if 
                                                                    eqb0 ft
                                                                    ('A'::('s'::('A'::('r'::('r'::('a'::('y'::[])))))))
                                                                    then 
                                                                    Ok
                                                                    (VSlice
                                                                    (EAny,
                                                                    false,
                                                                    (val0 :: [])))
                                                                    else 
                                                                    if 
                                                                    eqb0 ft
                                                                    ('A'::('d'::('d'::[])))
                                                                    then 
                                                                    func_decimal
                                                                    AAdd ps
                                                                    val0
                                                                    else 
                                                                    if 
                                                                    eqb0 ft
                                                                    ('S'::('u'::('b'::('t'::('r'::('a'::('c'::('t'::[]))))))))
                                                                    then 
                                                                    func_decimal
                                                                    ASub ps
                                                                    val0
                                                                    else 
                                                                    if 
                                                                    eqb0 ft
                                                                    ('M'::('u'::('l'::('t'::('i'::('p'::('l'::('y'::[]))))))))
                                                                    then 
                                                                    func_decimal
                                                                    AMul ps
                                                                    val0
                                                                    else 
                                                                    if 
                                                                    eqb0 ft
                                                                    ('D'::('i'::('v'::('i'::('d'::('e'::[]))))))
                                                                    then 
                                                                    func_decimal
                                                                    ADiv ps
                                                                    val0
                                                                    else 
                                                                    if 
                                                                    eqb0 ft
                                                                    ('M'::('o'::('d'::('u'::('l'::('o'::[]))))))
                                                                    then 
                                                                    func_decimal
                                                                    AMod ps
                                                                    val0
                                                                    else 
                                                                    if 
                                                                    eqb0 ft
                                                                    ('A'::('n'::('y'::('O'::('f'::[])))))
                                                                    then 
                                                                    func_any_of
                                                                    ps val0
                                                                    else 
                                                                    if 
                                                                    eqb0 ft
                                                                    ('T'::('r'::('i'::('m'::('R'::('i'::('g'::('h'::('t'::[])))))))))
                                                                    then 
                                                                    string_part_func
                                                                    STrimRight
                                                                    ps val0
                                                                    else 
                                                                    if 
                                                                    eqb0 ft
                                                                    ('T'::('r'::('i'::('m'::('L'::('e'::('f'::('t'::[]))))))))
                                                                    then 
                                                                    string_part_func
                                                                    STrimLeft
                                                                    ps val0
                                                                    else 
                                                                    if 
                                                                    eqb0 ft
                                                                    ('R'::('i'::('g'::('h'::('t'::[])))))
                                                                    then 
                                                                    string_part_func
                                                                    SRight ps
                                                                    val0
                                                                    else 
                                                                    if 
                                                                    eqb0 ft
                                                                    ('L'::('e'::('f'::('t'::[]))))
                                                                    then 
                                                                    string_part_func
                                                                    SLeft ps
                                                                    val0
                                                                    else 
                                                                    if 
                                                                    eqb0 ft
                                                                    ('D'::('o'::('e'::('s'::('M'::('a'::('t'::('c'::('h'::('R'::('e'::('g'::('e'::('x'::[]))))))))))))))
                                                                    then 
                                                                    func_does_match_regex
                                                                    eng ps
                                                                    val0
                                                                    else 
                                                                    if 
                                                                    eqb0 ft
                                                                    ('R'::('e'::('p'::('l'::('a'::('c'::('e'::('R'::('e'::('g'::('e'::('x'::[]))))))))))))
                                                                    then 
                                                                    func_replace_regex
                                                                    eng ps
                                                                    val0
                                                                    else 
                                                                    if 
                                                                    eqb0 ft
                                                                    ('R'::('e'::('p'::('l'::('a'::('c'::('e'::('A'::('l'::('l'::[]))))))))))
                                                                    then 
                                                                    func_replace_all
                                                                    ps val0
                                                                    else 
                                                                    if 
                                                                    eqb0 ft
                                                                    ('A'::('s'::('J'::('S'::('O'::('N'::[]))))))
                                                                    then 
                                                                    func_as_json
                                                                    eng ps
                                                                    val0
                                                                    else 
                                                                    if 
                                                                    eqb0 ft
                                                                    ('P'::('a'::('r'::('s'::('e'::('J'::('S'::('O'::('N'::[])))))))))
                                                                    then 
                                                                    string_to_object
                                                                    eng
                                                                    ('J'::('S'::('O'::('N'::[]))))
                                                                    ps val0
                                                                    else 
                                                                    if 
                                                                    eqb0 ft
                                                                    ('P'::('a'::('r'::('s'::('e'::('X'::('M'::('L'::[]))))))))
                                                                    then 
                                                                    string_to_object
                                                                    eng
                                                                    ('X'::('M'::('L'::[])))
                                                                    ps val0
                                                                    else 
                                                                    if 
                                                                    eqb0 ft
                                                                    ('P'::('a'::('r'::('s'::('e'::('Y'::('A'::('M'::('L'::[])))))))))
                                                                    then 
                                                                    string_to_object
                                                                    eng
                                                                    ('Y'::('A'::('M'::('L'::[]))))
                                                                    ps val0
                                                                    else 
                                                                    if 
                                                                    eqb0 ft
                                                                    ('P'::('a'::('r'::('s'::('e'::('T'::('O'::('M'::('L'::[])))))))))
                                                                    then 
                                                                    string_to_object
                                                                    eng
                                                                    ('T'::('O'::('M'::('L'::[]))))
                                                                    ps val0
                                                                    else 
                                                                    if 
                                                                    eqb0 ft
                                                                    ('R'::('e'::('m'::('o'::('v'::('e'::('K'::('e'::('y'::('s'::('B'::('y'::('R'::('e'::('g'::('e'::('x'::[])))))))))))))))))
                                                                    then 
                                                                    func_remove_keys_by
                                                                    eng
                                                                    ('R'::('e'::('g'::('e'::('x'::[])))))
                                                                    ps val0
                                                                    else 
                                                                    if 
                                                                    eqb0 ft
                                                                    ('R'::('e'::('m'::('o'::('v'::('e'::('K'::('e'::('y'::('s'::('B'::('y'::('P'::('r'::('e'::('f'::('i'::('x'::[]))))))))))))))))))
                                                                    then 
                                                                    func_remove_keys_by
                                                                    eng
                                                                    ('P'::('r'::('e'::('f'::('i'::('x'::[]))))))
                                                                    ps val0
                                                                    else 
                                                                    if 
                                                                    eqb0 ft
                                                                    ('R'::('e'::('m'::('o'::('v'::('e'::('K'::('e'::('y'::('s'::('B'::('y'::('S'::('u'::('f'::('f'::('i'::('x'::[]))))))))))))))))))
                                                                    then 
                                                                    func_remove_keys_by
                                                                    eng
                                                                    ('S'::('u'::('f'::('f'::('i'::('x'::[]))))))
                                                                    ps val0
                                                                    else 
                                                                    if 
                                                                    eqb0 ft
                                                                    ('I'::('s'::('N'::('u'::('l'::('l'::[]))))))
                                                                    then 
                                                                    boolv
                                                                    (func_is_null
                                                                    ps val0)
                                                                    else 
                                                                    if 
                                                                    eqb0 ft
                                                                    ('I'::('s'::('N'::('o'::('t'::('N'::('u'::('l'::('l'::[])))))))))
                                                                    then 
                                                                    negate
                                                                    (func_is_null
                                                                    ps val0)
                                                                    else 
                                                                    if 
                                                                    eqb0 ft
                                                                    ('I'::('s'::('E'::('m'::('p'::('t'::('y'::[])))))))
                                                                    then 
                                                                    boolv
                                                                    (func_is_empty
                                                                    ps val0)
                                                                    else 
                                                                    if 
                                                                    eqb0 ft
                                                                    ('I'::('s'::('N'::('o'::('t'::('E'::('m'::('p'::('t'::('y'::[]))))))))))
                                                                    then 
                                                                    negate
                                                                    (func_is_empty
                                                                    ps val0)
                                                                    else 
                                                                    if 
                                                                    eqb0 ft
                                                                    ('I'::('s'::('N'::('u'::('l'::('l'::('O'::('r'::('E'::('m'::('p'::('t'::('y'::[])))))))))))))
                                                                    then 
                                                                    boolv
                                                                    (func_is_null_or_empty
                                                                    ps val0)
                                                                    else 
                                                                    if 
                                                                    eqb0 ft
                                                                    ('I'::('s'::('N'::('o'::('t'::('N'::('u'::('l'::('l'::('O'::('r'::('E'::('m'::('p'::('t'::('y'::[]))))))))))))))))
                                                                    then 
                                                                    negate
                                                                    (func_is_null_or_empty
                                                                    ps val0)
                                                                    else 
                                                                    fail
                                                                    ('u'::('n'::('r'::('e'::('c'::('o'::('g'::('n'::('i'::('s'::('e'::('d'::(' '::('f'::('u'::('n'::('c'::('t'::('i'::('o'::('n'::[])))))))))))))))))))))

(** val spread_elem : gv -> rparam option **)

let spread_elem = function
| VBool (named, b) -> if named then None else Some (RBool b)
| VInt (k, named, z0) ->
  (match k with
   | KInt -> if named then None else Some (RNum { coef = z0; dexp = Z0 })
   | _ -> None)
| VFloat (is32, named, f) ->
  if is32
  then None
  else if named
       then None
       else (match f with
             | FFin d -> Some (RNum d)
             | _ -> None)
| VStr (named, s) -> if named then None else Some (RStr s)
| VDec d -> Some (RNum d)
| _ -> None

(** val spread_result : gv -> rparam list outcome **)

let spread_result = function
| VBool (named, b) ->
  if named
  then fail
         ('u'::('n'::('h'::('a'::('n'::('d'::('l'::('e'::('d'::(' '::('p'::('a'::('r'::('a'::('m'::(' '::('p'::('a'::('t'::('h'::(' '::('t'::('y'::('p'::('e'::[])))))))))))))))))))))))))
  else Ok ((RBool b) :: [])
| VStr (named, s) ->
  if named
  then fail
         ('u'::('n'::('h'::('a'::('n'::('d'::('l'::('e'::('d'::(' '::('p'::('a'::('r'::('a'::('m'::(' '::('p'::('a'::('t'::('h'::(' '::('t'::('y'::('p'::('e'::[])))))))))))))))))))))))))
  else Ok ((RStr s) :: [])
| VDec d -> Ok ((RNum d) :: [])
| VSlice (t, _, xs) ->
  (match t with
   | ETOther ->
     fail
       ('u'::('n'::('h'::('a'::('n'::('d'::('l'::('e'::('d'::(' '::('p'::('a'::('r'::('a'::('m'::(' '::('p'::('a'::('t'::('h'::(' '::('t'::('y'::('p'::('e'::[])))))))))))))))))))))))))
   | _ ->
     (match all_some (map spread_elem xs) with
      | Some ps -> Ok ps
      | None ->
        fail
          ('u'::('n'::('h'::('a'::('n'::('d'::('l'::('e'::('d'::(' '::('p'::('a'::('r'::('a'::('m'::(' '::('p'::('a'::('t'::('h'::(' '::('t'::('y'::('p'::('e'::[])))))))))))))))))))))))))))
| _ ->
  fail
    ('u'::('n'::('h'::('a'::('n'::('d'::('l'::('e'::('d'::(' '::('p'::('a'::('r'::('a'::('m'::(' '::('p'::('a'::('t'::('h'::(' '::('t'::('y'::('p'::('e'::[])))))))))))))))))))))))))

(** val str_ltb : str -> str -> bool **)

let rec str_ltb a b =
  match a with
  | [] -> (match b with
           | [] -> false
           | _ :: _ -> true)
  | x :: a' ->
    (match b with
     | [] -> false
     | y :: b' ->
       if Z.ltb (byte x) (byte y)
       then true
       else if Z.ltb (byte y) (byte x) then false else str_ltb a' b')

(** val insert_kv : (str * gv) -> (str * gv) list -> (str * gv) list **)

let rec insert_kv kv l = match l with
| [] -> kv :: []
| x :: l' ->
  if str_ltb (fst kv) (fst x) then kv :: l else x :: (insert_kv kv l')

(** val sorted_values : (gv * gv) list -> gv list option **)

let sorted_values kvs =
  match all_some
          (map (fun pat ->
            let (k, v) = pat in
            (match k with
             | VNil -> None
             | VBool (_, _) -> None
             | VInt (_, _, _) -> None
             | VFloat (_, _, _) -> None
             | VStr (_, s) -> Some (s, v)
             | _ -> None)) kvs) with
  | Some l -> Some (map snd (fold_right insert_kv [] l))
  | None -> None

(** val flatten_result : gv -> gv list **)

let flatten_result res = match res with
| VSlice (_, _, xs) -> xs
| VArray (_, xs) -> xs
| _ -> res :: []

type node =
| NPath of path
| NOp of pathop
| NFunc of func
| NLog of logop
| NTop of top

(** val path_ops :
    (pathop -> gv -> gv outcome) -> pathop option -> bool -> pathop list ->
    gv -> err option -> gv outcome **)

let rec path_ops ev prev prior_nil ops data last_err =
  match ops with
  | [] -> (match last_err with
           | Some e -> Err e
           | None -> Ok data)
  | op :: rest ->
    let blocked =
      match prev with
      | Some p ->
        (&&) ((&&) prior_nil (negb (pathop_qmark p)))
          (negb (pathop_is_func op))
      | None -> false
    in
    if blocked
    then fail
           ('c'::('a'::('n'::('n'::('o'::('t'::(' '::('a'::('c'::('c'::('e'::('s'::('s'::(' '::('p'::('r'::('o'::('p'::('e'::('r'::('t'::('y'::(' '::('o'::('f'::(' '::('n'::('i'::('l'::(' '::('v'::('a'::('l'::('u'::('e'::[])))))))))))))))))))))))))))))))))))
    else (match ev op data with
          | Ok v ->
            path_ops ev (Some op) ((||) prior_nil (is_nil v)) rest v None
          | Err e ->
            (match e with
             | EKeyNotFound ->
               if pathop_qmark op
               then path_ops ev (Some op) true rest VNil (Some EKeyNotFound)
               else Err EKeyNotFound
             | EOther t -> Err (EOther t))
          | x -> x)

(** val log_ops :
    (operand -> gv outcome) -> lot -> operand list -> gv outcome **)

let rec log_ops ev t = function
| [] ->
  (match t with
   | LAnd -> Ok (vbool true)
   | LOr -> Ok (vbool false)
   | LBad _ ->
     fail
       ('d'::('i'::('d'::('n'::('\''::('t'::(' '::('p'::('a'::('r'::('s'::('e'::(' '::('r'::('e'::('s'::('u'::('l'::('t'::(' '::('c'::('o'::('r'::('r'::('e'::('c'::('t'::('l'::('y'::[]))))))))))))))))))))))))))))))
| x :: rest ->
  bind (ev x) (fun res ->
    match res with
    | VBool (named, b) ->
      if named
      then Ok (vbool false)
      else (match t with
            | LAnd -> if b then log_ops ev t rest else Ok (vbool false)
            | LOr -> if b then Ok (vbool true) else log_ops ev t rest
            | LBad _ -> log_ops ev t rest)
    | _ -> Ok (vbool false))

(** val filter_elems : (gv -> gv outcome) -> gv list -> gv list outcome **)

let rec filter_elems ev = function
| [] -> Ok []
| x :: rest ->
  bind (ev x) (fun res ->
    match res with
    | VBool (named, b) ->
      if named
      then Panic
             ('i'::('n'::('t'::('e'::('r'::('f'::('a'::('c'::('e'::(' '::('c'::('o'::('n'::('v'::('e'::('r'::('s'::('i'::('o'::('n'::(':'::(' '::('i'::('n'::('t'::('e'::('r'::('f'::('a'::('c'::('e'::(' '::('{'::('}'::(' '::('i'::('s'::(' '::('n'::('o'::('t'::(' '::('b'::('o'::('o'::('l'::[]))))))))))))))))))))))))))))))))))))))))))))))
      else bind (filter_elems ev rest) (fun ys -> Ok
             (if b then x :: ys else ys))
    | _ ->
      Panic
        ('i'::('n'::('t'::('e'::('r'::('f'::('a'::('c'::('e'::(' '::('c'::('o'::('n'::('v'::('e'::('r'::('s'::('i'::('o'::('n'::(':'::(' '::('i'::('n'::('t'::('e'::('r'::('f'::('a'::('c'::('e'::(' '::('{'::('}'::(' '::('i'::('s'::(' '::('n'::('o'::('t'::(' '::('b'::('o'::('o'::('l'::[])))))))))))))))))))))))))))))))))))))))))))))))

(** val eval_params :
    (node -> gv outcome) -> param list -> rparam list outcome **)

let rec eval_params ev = function
| [] -> Ok []
| p :: rest ->
  bind
    (match p with
     | FPNum d -> Ok ((RNum d) :: [])
     | FPStr s -> Ok ((RStr s) :: [])
     | FPBool b -> Ok ((RBool b) :: [])
     | FPPath q -> bind (ev (NPath q)) spread_result
     | FPLog l -> bind (ev (NLog l)) spread_result) (fun here ->
    bind (eval_params ev rest) (fun more -> Ok (app here more)))

(** val select_elems : (gv -> gv outcome) -> gv list -> gv list outcome **)

let rec select_elems ev = function
| [] -> Ok []
| x :: rest ->
  bind (ev x) (fun res ->
    bind (select_elems ev rest) (fun more -> Ok
      (app (flatten_result res) more)))

(** val eval : uclass -> engines -> nat -> node -> gv -> gv -> gv outcome **)

let rec eval uni eng fuel n0 cur orig =
  match fuel with
  | O -> OutOfFuel
  | S k ->
    (match n0 with
     | NPath p ->
       let Path (_, root, is_filter, _, ops, _) = p in
       if (&&) root is_filter
       then fail
              ('c'::('a'::('n'::('n'::('o'::('t'::(' '::('a'::('c'::('c'::('e'::('s'::('s'::(' '::('r'::('o'::('o'::('t'::(' '::('d'::('a'::('t'::('a'::(' '::('i'::('n'::(' '::('f'::('i'::('l'::('t'::('e'::('r'::[])))))))))))))))))))))))))))))))))
       else let data = if root then orig else cur in
            let data0 =
              match ops with
              | [] -> convert_unless_string data
              | _ :: _ -> data
            in
            path_ops (fun o d -> eval uni eng k (NOp o) d orig) None false
              ops data0 None
     | NOp o ->
       (match o with
        | PIdent (name, _, _) -> do_ident name cur
        | PFilter (l, _) ->
          (match get_as_struct_or_slice cur with
           | Some p ->
             let (val0, b) = p in
             if b
             then bind (eval uni eng k (NLog l) val0 orig) (fun res ->
                    match res with
                    | VBool (named, b0) ->
                      if named
                      then Ok VNil
                      else if b0 then Ok val0 else Ok VNil
                    | _ -> Ok VNil)
             else (match val0 with
                   | VSlice (_, _, xs) ->
                     bind
                       (filter_elems (fun x ->
                         eval uni eng k (NLog l) x orig) xs) (fun ys -> Ok
                       (VSlice (EAny, false, ys)))
                   | _ ->
                     Panic
                       ('i'::('n'::('t'::('e'::('r'::('f'::('a'::('c'::('e'::(' '::('c'::('o'::('n'::('v'::('e'::('r'::('s'::('i'::('o'::('n'::(':'::(' '::('n'::('o'::('t'::(' '::('['::(']'::('i'::('n'::('t'::('e'::('r'::('f'::('a'::('c'::('e'::(' '::('{'::('}'::[])))))))))))))))))))))))))))))))))))))))))
           | None ->
             fail
               ('v'::('a'::('l'::('u'::('e'::(' '::('w'::('a'::('s'::(' '::('n'::('o'::('t'::(' '::('o'::('b'::('j'::('e'::('c'::('t'::(' '::('o'::('r'::(' '::('a'::('r'::('r'::('a'::('y'::(' '::('a'::('n'::('d'::(' '::('c'::('a'::('n'::('n'::('o'::('t'::(' '::('b'::('e'::(' '::('f'::('i'::('l'::('t'::('e'::('r'::('e'::('d'::[])))))))))))))))))))))))))))))))))))))))))))))))))))))
        | PFunc f -> eval uni eng k (NFunc f) cur orig)
     | NFunc f ->
       let Func (_, ft, ps, _) = f in
       bind (eval_params (fun m -> eval uni eng k m cur orig) ps) (fun rt ->
         let val0 = convert_number cur in
         (match find_fdesc_key ft func_table with
          | Some d ->
            if eqb0 d.fd_key ('S'::('e'::('l'::('e'::('c'::('t'::[]))))))
            then bind (params_first_string rt) (fun q ->
                   match parse_string uni q with
                   | Ok t ->
                     let v = deref1 (value_of val0) in
                     (match v.rv_v with
                      | VSlice (_, _, xs) ->
                        bind
                          (select_elems (fun x ->
                            eval uni eng k (NTop t) x x) xs) (fun rs -> Ok
                          (VSlice (EAny,
                          (match rs with
                           | [] -> true
                           | _ :: _ -> false), rs)))
                      | VArray (_, xs) ->
                        bind
                          (select_elems (fun x ->
                            eval uni eng k (NTop t) x x) xs) (fun rs -> Ok
                          (VSlice (EAny,
                          (match rs with
                           | [] -> true
                           | _ :: _ -> false), rs)))
                      | VMap (_, _, _, kvs) ->
                        (match sorted_values kvs with
                         | Some vs ->
                           bind
                             (select_elems (fun x ->
                               eval uni eng k (NTop t) x x) vs) (fun rs -> Ok
                             (VSlice (EAny,
                             (match rs with
                              | [] -> true
                              | _ :: _ -> false), rs)))
                         | None ->
                           Declined
                             ('S'::('e'::('l'::('e'::('c'::('t'::(' '::('o'::('v'::('e'::('r'::(' '::('a'::(' '::('m'::('a'::('p'::(' '::('w'::('h'::('o'::('s'::('e'::(' '::('k'::('e'::('y'::('s'::(' '::('a'::('r'::('e'::(' '::('n'::('o'::('t'::(' '::('s'::('t'::('r'::('i'::('n'::('g'::('s'::[])))))))))))))))))))))))))))))))))))))))))))))
                      | _ ->
                        fail
                          ('u'::('n'::('s'::('u'::('p'::('p'::('o'::('r'::('t'::('e'::('d'::(' '::('t'::('y'::('p'::('e'::(';'::(' '::('e'::('x'::('p'::('e'::('c'::('t'::('e'::('d'::(' '::('a'::('r'::('r'::('a'::('y'::(' '::('o'::('r'::(' '::('m'::('a'::('p'::[]))))))))))))))))))))))))))))))))))))))))
                   | Err _ ->
                     fail
                       ('e'::('r'::('r'::('o'::('r'::(' '::('p'::('a'::('r'::('s'::('i'::('n'::('g'::(' '::('q'::('u'::('e'::('r'::('y'::[])))))))))))))))))))
                   | Panic m -> Panic m
                   | OutOfFuel -> OutOfFuel
                   | Declined w -> Declined w)
            else run_func eng d.fd_key rt val0
          | None ->
            fail
              ('u'::('n'::('r'::('e'::('c'::('o'::('g'::('n'::('i'::('s'::('e'::('d'::(' '::('f'::('u'::('n'::('c'::('t'::('i'::('o'::('n'::[])))))))))))))))))))))))
     | NLog l ->
       let LogOp (_, _, t, xs, _) = l in
       log_ops (fun x ->
         match x with
         | OpP p -> eval uni eng k (NPath p) cur orig
         | OpL l0 -> eval uni eng k (NLog l0) cur orig) t xs
     | NTop t ->
       (match t with
        | TopP p -> eval uni eng k (NPath p) cur orig
        | TopL l -> eval uni eng k (NLog l) cur orig))

(** val default_fuel : nat **)

let default_fuel =
  S (S (S (S (S (S (S (S (S (S (S (S (S (S (S (S (S (S (S (S (S (S (S (S (S
    (S (S (S (S (S (S (S (S (S (S (S (S (S (S (S (S (S (S (S (S (S (S (S (S
    (S (S (S (S (S (S (S (S (S (S (S (S (S (S (S (S (S (S (S (S (S (S (S (S
    (S (S (S (S (S (S (S (S (S (S (S (S (S (S (S (S (S (S (S (S (S (S (S (S
    (S (S (S (S (S (S (S (S (S (S (S (S (S (S (S (S (S (S (S (S (S (S (S (S
    (S (S (S (S (S (S (S (S (S (S (S (S (S (S (S (S (S (S (S (S (S (S (S (S
    (S (S (S (S (S (S (S (S (S (S (S (S (S (S (S (S (S (S (S (S (S (S (S (S
    (S (S (S (S (S (S (S (S (S (S (S (S (S (S (S (S (S (S (S (S (S (S (S (S
    (S (S (S (S (S (S (S (S (S (S (S (S (S (S (S (S (S (S (S (S (S (S (S (S
    (S (S (S (S (S (S (S (S (S (S (S (S (S (S (S (S (S (S (S (S (S (S (S (S
    (S (S (S (S (S (S (S (S (S (S (S (S (S (S (S (S (S (S (S (S (S (S (S (S
    (S (S (S (S (S (S (S (S (S (S (S (S (S (S (S (S (S (S (S (S (S (S (S (S
    (S (S (S (S (S (S (S (S (S (S (S (S (S (S (S (S (S (S (S (S (S (S (S (S
    (S (S (S (S (S (S (S (S (S (S (S (S (S (S (S (S (S (S (S (S (S (S (S (S
    (S (S (S (S (S (S (S (S (S (S (S (S (S (S (S (S (S (S (S (S (S (S (S (S
    (S (S (S (S (S (S (S (S (S (S (S (S (S (S (S (S (S (S (S (S (S (S (S (S
    (S (S (S (S (S (S (S (S (S (S (S (S (S (S (S (S (S (S (S (S (S (S (S (S
    (S (S (S (S (S (S (S (S (S (S (S (S (S (S (S (S (S (S (S (S (S (S (S (S
    (S (S (S (S (S (S (S (S (S (S (S (S (S (S (S (S (S (S (S (S (S (S (S (S
    (S (S (S (S (S (S (S (S (S (S (S (S (S (S (S (S (S (S (S (S (S (S (S (S
    (S (S (S (S (S (S (S (S (S (S (S (S (S (S (S (S (S (S (S (S (S (S (S (S
    (S (S (S (S (S (S (S (S (S (S (S (S (S (S (S (S (S (S (S (S (S (S (S (S
    (S (S (S (S (S (S (S (S (S (S (S (S (S (S (S (S (S (S (S (S (S (S (S (S
    (S (S (S (S (S (S (S (S (S (S (S (S (S (S (S (S (S (S (S (S (S (S (S (S
    (S (S (S (S (S (S (S (S (S (S (S (S (S (S (S (S (S (S (S (S (S (S (S (S
    (S (S (S (S (S (S (S (S (S (S (S (S (S (S (S (S (S (S (S (S (S (S (S (S
    (S (S (S (S (S (S (S (S (S (S (S (S (S (S (S (S (S (S (S (S (S (S (S (S
    (S (S (S (S (S (S (S (S (S (S (S (S (S (S (S (S (S (S (S (S (S (S (S (S
    (S (S (S (S (S (S (S (S (S (S (S (S (S (S (S (S (S (S (S (S (S (S (S (S
    (S (S (S (S (S (S (S (S (S (S (S (S (S (S (S (S (S (S (S (S (S (S (S (S
    (S (S (S (S (S (S (S (S (S (S (S (S (S (S (S (S (S (S (S (S (S (S (S (S
    (S (S (S (S (S (S (S (S (S (S (S (S (S (S (S (S (S (S (S (S (S (S (S (S
    (S (S (S (S (S (S (S (S (S (S (S (S (S (S (S (S (S (S (S (S (S (S (S (S
    (S (S (S (S (S (S (S (S (S (S (S (S (S (S (S (S (S (S (S (S (S (S (S (S
    (S (S (S (S (S (S (S (S (S (S (S (S (S (S (S (S (S (S (S (S (S (S (S (S
    (S (S (S (S (S (S (S (S (S (S (S (S (S (S (S (S (S (S (S (S (S (S (S (S
    (S (S (S (S (S (S (S (S (S (S (S (S (S (S (S (S (S (S (S (S (S (S (S (S
    (S (S (S (S (S (S (S (S (S (S (S (S (S (S (S (S (S (S (S (S (S (S (S (S
    (S (S (S (S (S (S (S (S (S (S (S (S (S (S (S (S (S (S (S (S (S (S (S (S
    (S (S (S (S (S (S (S (S (S (S (S (S (S (S (S (S (S (S (S (S (S (S (S (S
    (S (S (S (S (S (S (S (S (S (S (S (S (S (S (S (S (S (S (S (S (S (S (S (S
    (S (S (S (S (S (S (S (S (S (S (S (S (S (S (S (S (S (S (S (S (S (S (S (S
    (S (S (S (S (S (S (S (S (S (S (S (S (S (S (S (S (S (S (S (S (S (S (S (S
    (S (S (S (S (S (S (S (S (S (S (S (S (S (S (S (S (S (S (S (S (S (S (S (S
    (S (S (S (S (S (S (S (S (S (S (S (S (S (S (S (S (S (S (S (S (S (S (S (S
    (S (S (S (S (S (S (S (S (S (S (S (S (S (S (S (S (S (S (S (S (S (S (S (S
    (S (S (S (S (S (S (S (S (S (S (S (S (S (S (S (S (S (S (S (S (S (S (S (S
    (S (S (S (S (S (S (S (S (S (S (S (S (S (S (S (S (S (S (S (S (S (S (S (S
    (S (S (S (S (S (S (S (S (S (S (S (S (S (S (S (S (S (S (S (S (S (S (S (S
    (S (S (S (S (S (S (S (S (S (S (S (S (S (S (S (S (S (S (S (S (S (S (S (S
    (S (S (S (S (S (S (S (S (S (S (S (S (S (S (S (S (S (S (S (S (S (S (S (S
    (S (S (S (S (S (S (S (S (S (S (S (S (S (S (S (S (S (S (S (S (S (S (S (S
    (S (S (S (S (S (S (S (S (S (S (S (S (S (S (S (S (S (S (S (S (S (S (S (S
    (S (S (S (S (S (S (S (S (S (S (S (S (S (S (S (S (S (S (S (S (S (S (S (S
    (S (S (S (S (S (S (S (S (S (S (S (S (S (S (S (S (S (S (S (S (S (S (S (S
    (S (S (S (S (S (S (S (S (S (S (S (S (S (S (S (S (S (S (S (S (S (S (S (S
    (S (S (S (S (S (S (S (S (S (S (S (S (S (S (S (S (S (S (S (S (S (S (S (S
    (S (S (S (S (S (S (S (S (S (S (S (S (S (S (S (S (S (S (S (S (S (S (S (S
    (S (S (S (S (S (S (S (S (S (S (S (S (S (S (S (S (S (S (S (S (S (S (S (S
    (S (S (S (S (S (S (S (S (S (S (S (S (S (S (S (S (S (S (S (S (S (S (S (S
    (S (S (S (S (S (S (S (S (S (S (S (S (S (S (S (S (S (S (S (S (S (S (S (S
    (S (S (S (S (S (S (S (S (S (S (S (S (S (S (S (S (S (S (S (S (S (S (S (S
    (S (S (S (S (S (S (S (S (S (S (S (S (S (S (S (S (S (S (S (S (S (S (S (S
    (S (S (S (S (S (S (S (S (S (S (S (S (S (S (S (S (S (S (S (S (S (S (S (S
    (S (S (S (S (S (S (S (S (S (S (S (S (S (S (S (S (S (S (S (S (S (S (S (S
    (S (S (S (S (S (S (S (S (S (S (S (S (S (S (S (S (S (S (S (S (S (S (S (S
    (S (S (S (S (S (S (S (S (S (S (S (S (S (S (S (S (S (S (S (S (S (S (S (S
    (S (S (S (S (S (S (S (S (S (S (S (S (S (S (S (S (S (S (S (S (S (S (S (S
    (S (S (S (S (S (S (S (S (S (S (S (S (S (S (S (S (S (S (S (S (S (S (S (S
    (S (S (S (S (S (S (S (S (S (S (S (S (S (S (S (S (S (S (S (S (S (S (S (S
    (S (S (S (S (S (S (S (S (S (S (S (S (S (S (S (S (S (S (S (S (S (S (S (S
    (S (S (S (S (S (S (S (S (S (S (S (S (S (S (S (S (S (S (S (S (S (S (S (S
    (S (S (S (S (S (S (S (S (S (S (S (S (S (S (S (S (S (S (S (S (S (S (S (S
    (S (S (S (S (S (S (S (S (S (S (S (S (S (S (S (S (S (S (S (S (S (S (S (S
    (S (S (S (S (S (S (S (S (S (S (S (S (S (S (S (S (S (S (S (S (S (S (S (S
    (S (S (S (S (S (S (S (S (S (S (S (S (S (S (S (S (S (S (S (S (S (S (S (S
    (S (S (S (S (S (S (S (S (S (S (S (S (S (S (S (S (S (S (S (S (S (S (S (S
    (S (S (S (S (S (S (S (S (S (S (S (S (S (S (S (S (S (S (S (S (S (S (S (S
    (S (S (S (S (S (S (S (S (S (S (S (S (S (S (S (S (S (S (S (S (S (S (S (S
    (S (S (S (S (S (S (S (S (S (S (S (S (S (S (S (S (S (S (S (S (S (S (S (S
    (S (S (S (S (S (S (S (S (S (S (S (S (S (S (S (S (S (S (S (S (S (S (S (S
    (S (S (S (S (S (S (S (S (S (S (S (S (S (S (S (S (S (S (S (S (S (S (S (S
    (S (S (S (S (S (S (S (S (S (S (S (S (S (S (S (S (S (S (S (S (S (S (S (S
    (S (S (S (S (S (S (S (S (S (S (S (S (S (S (S (S (S (S (S (S (S (S (S (S
    (S (S (S (S (S (S (S (S (S (S (S (S (S (S (S (S (S (S (S (S (S (S (S (S
    (S (S (S (S (S (S (S (S (S (S (S (S (S (S (S (S (S (S (S (S (S (S (S (S
    (S (S (S (S (S (S (S (S (S (S (S (S (S (S (S (S (S (S (S (S (S (S (S (S
    (S (S (S (S (S (S (S (S (S (S (S (S (S (S (S (S (S (S (S (S (S (S (S (S
    (S (S (S (S (S (S (S (S (S (S (S (S (S (S (S (S (S (S (S (S (S (S (S (S
    (S (S (S (S (S (S (S (S (S (S (S (S (S (S (S (S (S (S (S (S (S (S (S (S
    (S (S (S (S (S (S (S (S (S (S (S (S (S (S (S (S (S (S (S (S (S (S (S (S
    (S (S (S (S (S (S (S (S (S (S (S (S (S (S (S (S (S (S (S (S (S (S (S (S
    (S (S (S (S (S (S (S (S (S (S (S (S (S (S (S (S (S (S (S (S (S (S (S (S
    (S (S (S (S (S (S (S (S (S (S (S (S (S (S (S (S (S (S (S (S (S (S (S (S
    (S (S (S (S (S (S (S (S (S (S (S (S (S (S (S (S (S (S (S (S (S (S (S (S
    (S (S (S (S (S (S (S (S (S (S (S (S (S (S (S (S (S (S (S (S (S (S (S (S
    (S (S (S (S (S (S (S (S (S (S (S (S (S (S (S (S (S (S (S (S (S (S (S (S
    (S (S (S (S (S (S (S (S (S (S (S (S (S (S (S (S (S (S (S (S (S (S (S (S
    (S (S (S (S (S (S (S (S (S (S (S (S (S (S (S (S (S (S (S (S (S (S (S (S
    (S (S (S (S (S (S (S (S (S (S (S (S (S (S (S (S (S (S (S (S (S (S (S (S
    (S (S (S (S (S (S (S (S (S (S (S (S (S (S (S (S (S (S (S (S (S (S (S (S
    (S (S (S (S (S (S (S (S (S (S (S (S (S (S (S (S (S (S (S (S (S (S (S (S
    (S (S (S (S (S (S (S (S (S (S (S (S (S (S (S (S (S (S (S (S (S (S (S (S
    (S (S (S (S (S (S (S (S (S (S (S (S (S (S (S (S (S (S (S (S (S (S (S (S
    (S (S (S (S (S (S (S (S (S (S (S (S (S (S (S (S (S (S (S (S (S (S (S (S
    (S (S (S (S (S (S (S (S (S (S (S (S (S (S (S (S (S (S (S (S (S (S (S (S
    (S (S (S (S (S (S (S (S (S (S (S (S (S (S (S (S (S (S (S (S (S (S (S (S
    (S (S (S (S (S (S (S (S (S (S (S (S (S (S (S (S (S (S (S (S (S (S (S (S
    (S (S (S (S (S (S (S (S (S (S (S (S (S (S (S (S (S (S (S (S (S (S (S (S
    (S (S (S (S (S (S (S (S (S (S (S (S (S (S (S (S (S (S (S (S (S (S (S (S
    (S (S (S (S (S (S (S (S (S (S (S (S (S (S (S (S (S (S (S (S (S (S (S (S
    (S (S (S (S (S (S (S (S (S (S (S (S (S (S (S (S (S (S (S (S (S (S (S (S
    (S (S (S (S (S (S (S (S (S (S (S (S (S (S (S (S (S (S (S (S (S (S (S (S
    (S (S (S (S (S (S (S (S (S (S (S (S (S (S (S (S (S (S (S (S (S (S (S (S
    (S (S (S (S (S (S (S (S (S (S (S (S (S (S (S (S (S (S (S (S (S (S (S (S
    (S (S (S (S (S (S (S (S (S (S (S (S (S (S (S (S (S (S (S (S (S (S (S (S
    (S (S (S (S (S (S (S (S (S (S (S (S (S (S (S (S (S (S (S (S (S (S (S (S
    (S (S (S (S (S (S (S (S (S (S (S (S (S (S (S (S (S (S (S (S (S (S (S (S
    (S (S (S (S (S (S (S (S (S (S (S (S (S (S (S (S (S (S (S (S (S (S (S (S
    (S (S (S (S (S (S (S (S (S (S (S (S (S (S (S (S (S (S (S (S (S (S (S (S
    (S (S (S (S (S (S (S (S (S (S (S (S (S (S (S (S (S (S (S (S (S (S (S (S
    (S (S (S (S (S (S (S (S (S (S (S (S (S (S (S (S (S (S (S (S (S (S (S (S
    (S (S (S (S (S (S (S (S (S (S (S (S (S (S (S (S (S (S (S (S (S (S (S (S
    (S (S (S (S (S (S (S (S (S (S (S (S (S (S (S (S (S (S (S (S (S (S (S (S
    (S (S (S (S (S (S (S (S (S (S (S (S (S (S (S (S (S (S (S (S (S (S (S (S
    (S (S (S (S (S (S (S (S (S (S (S (S (S (S (S (S (S (S (S (S (S (S (S (S
    (S (S (S (S (S (S (S (S (S (S (S (S (S (S (S (S (S (S (S (S (S (S (S (S
    (S (S (S (S (S (S (S (S (S (S (S (S (S (S (S (S (S (S (S (S (S (S (S (S
    (S (S (S (S (S (S (S (S (S (S (S (S (S (S (S (S (S (S (S (S (S (S (S (S
    (S (S (S (S (S (S (S (S (S (S (S (S (S (S (S (S (S (S (S (S (S (S (S (S
    (S (S (S (S (S (S (S (S (S (S (S (S (S (S (S (S (S (S (S (S (S (S (S (S
    (S (S (S (S (S (S (S (S (S (S (S (S (S (S (S (S (S (S (S (S (S (S (S (S
    (S (S (S (S (S (S (S (S (S (S (S (S (S (S (S (S (S (S (S (S (S (S (S (S
    (S (S (S (S (S (S (S (S (S (S (S (S (S (S (S (S (S (S (S (S (S (S (S (S
    (S (S (S (S (S (S (S (S (S (S (S (S (S (S (S (S (S (S (S (S (S (S (S (S
    (S (S (S (S (S (S (S (S (S (S (S (S (S (S (S (S (S (S (S (S (S (S (S (S
    (S (S (S (S (S (S (S (S (S (S (S (S (S (S (S (S (S (S (S (S (S (S (S (S
    (S (S (S (S (S (S (S (S (S (S (S (S (S (S (S (S (S (S (S (S (S (S (S (S
    (S (S (S (S (S (S (S (S (S (S (S (S (S (S (S (S (S (S (S (S (S (S (S (S
    (S (S (S (S (S (S (S (S (S (S (S (S (S (S (S (S (S (S (S (S (S (S (S (S
    (S (S (S (S (S (S (S (S (S (S (S (S (S (S (S (S (S (S (S (S (S (S (S (S
    (S (S (S (S (S (S (S (S (S (S (S (S (S (S (S (S (S (S (S (S (S (S (S (S
    (S (S (S (S (S (S (S (S (S (S (S (S (S (S (S (S (S (S (S (S (S (S (S (S
    (S (S (S (S (S (S (S (S (S (S (S (S (S (S (S (S (S (S (S (S (S (S (S (S
    (S (S (S (S (S (S (S (S (S (S (S (S (S (S (S (S (S (S (S (S (S (S (S (S
    (S (S (S (S (S (S (S (S (S (S (S (S (S (S (S (S (S (S (S (S (S (S (S (S
    (S (S (S (S (S (S (S (S (S (S (S (S (S (S (S (S (S (S (S (S (S (S (S (S
    (S (S (S (S (S (S (S (S (S (S (S (S (S (S (S (S (S (S (S (S (S (S (S (S
    (S (S (S (S (S (S (S (S (S (S (S (S (S (S (S (S (S (S (S (S (S (S (S (S
    (S (S (S (S (S (S (S (S (S (S (S (S (S (S (S (S (S (S (S (S (S (S (S (S
    (S (S (S (S (S (S (S (S (S (S (S (S (S (S (S (S (S (S (S (S (S (S (S (S
    (S (S (S (S (S (S (S (S (S (S (S (S (S (S (S (S (S (S (S (S (S (S (S (S
    (S (S (S (S (S (S (S (S (S (S (S (S (S (S (S (S (S (S (S (S (S (S (S (S
    (S (S (S (S (S (S (S (S (S (S (S (S (S (S (S (S (S (S (S (S (S (S (S (S
    (S (S (S (S (S (S (S (S (S (S (S (S (S (S (S (S (S (S (S (S (S (S (S (S
    (S (S (S (S (S (S (S (S (S (S (S (S (S (S (S (S (S (S (S (S (S (S (S (S
    (S (S (S (S (S (S (S (S (S (S (S (S (S (S (S (S (S (S (S (S (S (S (S (S
    (S (S (S (S (S (S (S (S (S (S (S (S (S (S (S (S (S (S (S (S (S (S (S (S
    (S (S (S (S (S (S (S (S (S (S (S (S (S (S (S (S (S (S (S (S (S (S (S (S
    (S (S (S (S (S (S (S (S (S (S (S (S (S (S (S (S (S (S (S (S (S (S (S (S
    (S (S (S (S (S (S (S (S (S (S (S (S (S (S (S (S (S (S (S (S (S (S (S (S
    (S (S (S (S (S (S (S (S (S (S (S (S (S (S (S (S (S (S (S (S (S (S (S (S
    (S (S (S (S (S (S (S (S (S (S (S (S (S (S (S (S (S (S (S (S (S (S (S (S
    (S (S (S (S (S (S (S (S (S (S (S (S (S (S (S (S (S (S (S (S (S (S (S (S
    (S (S (S (S (S (S (S (S (S (S (S (S (S (S (S (S (S (S (S (S (S (S (S (S
    (S (S (S (S (S (S (S (S (S (S (S (S (S (S (S (S (S (S (S (S (S (S (S (S
    (S (S (S (S (S (S (S (S (S (S (S (S (S (S (S (S (S (S (S (S (S (S (S (S
    (S (S (S (S (S (S (S (S (S (S (S (S (S (S (S (S (S (S (S (S (S (S (S (S
    (S (S (S (S (S (S (S (S (S (S (S (S (S (S (S (S (S (S (S (S (S (S (S (S
    (S (S (S (S (S (S (S (S (S (S (S (S (S (S (S (S (S (S (S (S (S (S (S (S
    (S (S (S (S (S (S (S (S (S (S (S (S (S (S (S
    O)))))))))))))))))))))))))))))))))))))))))))))))))))))))))))))))))))))))))))))))))))))))))))))))))))))))))))))))))))))))))))))))))))))))))))))))))))))))))))))))))))))))))))))))))))))))))))))))))))))))))))))))))))))))))))))))))))))))))))))))))))))))))))))))))))))))))))))))))))))))))))))))))))))))))))))))))))))))))))))))))))))))))))))))))))))))))))))))))))))))))))))))))))))))))))))))))))))))))))))))))))))))))))))))))))))))))))))))))))))))))))))))))))))))))))))))))))))))))))))))))))))))))))))))))))))))))))))))))))))))))))))))))))))))))))))))))))))))))))))))))))))))))))))))))))))))))))))))))))))))))))))))))))))))))))))))))))))))))))))))))))))))))))))))))))))))))))))))))))))))))))))))))))))))))))))))))))))))))))))))))))))))))))))))))))))))))))))))))))))))))))))))))))))))))))))))))))))))))))))))))))))))))))))))))))))))))))))))))))))))))))))))))))))))))))))))))))))))))))))))))))))))))))))))))))))))))))))))))))))))))))))))))))))))))))))))))))))))))))))))))))))))))))))))))))))))))))))))))))))))))))))))))))))))))))))))))))))))))))))))))))))))))))))))))))))))))))))))))))))))))))))))))))))))))))))))))))))))))))))))))))))))))))))))))))))))))))))))))))))))))))))))))))))))))))))))))))))))))))))))))))))))))))))))))))))))))))))))))))))))))))))))))))))))))))))))))))))))))))))))))))))))))))))))))))))))))))))))))))))))))))))))))))))))))))))))))))))))))))))))))))))))))))))))))))))))))))))))))))))))))))))))))))))))))))))))))))))))))))))))))))))))))))))))))))))))))))))))))))))))))))))))))))))))))))))))))))))))))))))))))))))))))))))))))))))))))))))))))))))))))))))))))))))))))))))))))))))))))))))))))))))))))))))))))))))))))))))))))))))))))))))))))))))))))))))))))))))))))))))))))))))))))))))))))))))))))))))))))))))))))))))))))))))))))))))))))))))))))))))))))))))))))))))))))))))))))))))))))))))))))))))))))))))))))))))))))))))))))))))))))))))))))))))))))))))))))))))))))))))))))))))))))))))))))))))))))))))))))))))))))))))))))))))))))))))))))))))))))))))))))))))))))))))))))))))))))))))))))))))))))))))))))))))))))))))))))))))))))))))))))))))))))))))))))))))))))))))))))))))))))))))))))))))))))))))))))))))))))))))))))))))))))))))))))))))))))))))))))))))))))))))))))))))))))))))))))))))))))))))))))))))))))))))))))))))))))))))))))))))))))))))))))))))))))))))))))))))))))))))))))))))))))))))))))))))))))))))))))))))))))))))))))))))))))))))))))))))))))))))))))))))))))))))))))))))))))))))))))))))))))))))))))))))))))))))))))))))))))))))))))))))))))))))))))))))))))))))))))))))))))))))))))))))))))))))))))))))))))))))))))))))))))))))))))))))))))))))))))))))))))))))))))))))))))))))))))))))))))))))))))))))))))))))))))))))))))))))))))))))))))))))))))))))))))))))))))))))))))))))))))))))))))))))))))))))))))))))))))))))))))))))))))))))))))))))))))))))))))))))))))))))))))))))))))))))))))))))))))))))))))))))))))))))))))))))))))))))))))))))))))))))))))))))))))))))))))))))))))))))))))))))))))))))))))))))))))))))))))))))))))))))))))))))))))))))))))))))))))))))))))))))))))))))))))))))))))))))))))))))))))))))))))))))))))))))))))))))))))))))))))))))))))))))))))))))))))))))))))))))))))))))))))))))))))))))))))))))))))))))))))))))))))))))))))))))))))))))))))))))))))))))))))))))))))))))))))))))))))))))))))))))))))))))))))))))))))))))))))))))))))))))))))))))))))))))))))))))))))))))))))))))))))))))))))))))))))))))))))))))))))))))))))))))))))))))))))))))))))))))))))))))))))))))))))))))))))))))))))))))))))))))))))))))))))))))))))))))))))))))))))))))))))))))))))))))))))))))))))))))))))))))))))))))))))))))))))))))))))))))))))))))))))))))))))))))))))))))))))))))))))))))))))))))))))))))))))))))))))))))))))))))))))))))))))))))))))))))))))))))))))))))))))))))))))))))))))))))))))))))))))))))))))))))))))))))))))))))))))))))))))))))))))))))))))))))))))))))))))))))))))))))))))))))))))))))))))))))))))))))))))))))))))))))))))))))))))))))))))))))))))))))))))))))))))))))))))))))))))))))))))))))))))))))))))))))))))))))))))))))))))))))))))))))))))))))))))))))))))))))))))))))))))))))))))))))))))))))))))))))))))))))))))))))))))))))))))))))))))))))))))))))))))))))))))))))))))))))))))))))))))))))))))))))))

(** val do_top : uclass -> engines -> top -> gv -> gv outcome **)

let do_top uni eng t data =
  eval uni eng default_fuel (NTop t) data data

type sexp =
| SA of str
| SL of sexp list

type stok =
| SLp
| SRp
| SAtom of str

(** val is_sep : char -> bool **)

let is_sep c =
  (=) c ' '

(** val stokens : str -> str -> stok list **)

let rec stokens s cur =
  let flush = match cur with
              | [] -> []
              | _ :: _ -> (SAtom (rev0 cur)) :: [] in
  (match s with
   | [] -> flush
   | c :: s' ->
     if (=) c '('
     then app flush (SLp :: (stokens s' []))
     else if (=) c ')'
          then app flush (SRp :: (stokens s' []))
          else if is_sep c
               then app flush (stokens s' [])
               else stokens s' (c :: cur))

(** val sparse : stok list -> sexp list list -> sexp option **)

let rec sparse ts stack =
  match ts with
  | [] ->
    (match stack with
     | [] -> None
     | l :: l0 ->
       (match l with
        | [] -> None
        | x :: l1 ->
          (match l1 with
           | [] -> (match l0 with
                    | [] -> Some x
                    | _ :: _ -> None)
           | _ :: _ -> None)))
  | s :: ts' ->
    (match s with
     | SLp -> sparse ts' ([] :: stack)
     | SRp ->
       (match stack with
        | [] -> None
        | top0 :: l ->
          (match l with
           | [] -> None
           | next :: stack' ->
             sparse ts' (((SL (rev0 top0)) :: next) :: stack')))
     | SAtom a ->
       (match stack with
        | [] -> None
        | top0 :: stack' -> sparse ts' (((SA a) :: top0) :: stack')))

(** val sexp_of_str : str -> sexp option **)

let sexp_of_str s =
  sparse (stokens s []) ([] :: [])

(** val hex_val : char -> z option **)

let hex_val c =
  let x = byte c in
  if (&&) (Z.leb (Zpos (XO (XO (XO (XO (XI XH)))))) x)
       (Z.leb x (Zpos (XI (XO (XO (XI (XI XH)))))))
  then Some (Z.sub x (Zpos (XO (XO (XO (XO (XI XH)))))))
  else if (&&) (Z.leb (Zpos (XI (XO (XO (XO (XO (XI XH))))))) x)
            (Z.leb x (Zpos (XO (XI (XI (XO (XO (XI XH))))))))
       then Some (Z.sub x (Zpos (XI (XI (XI (XO (XI (XO XH))))))))
       else None

(** val unhex : str -> str option **)

let rec unhex = function
| [] -> Some []
| a :: l ->
  (match l with
   | [] -> None
   | b :: s' ->
     (match hex_val a with
      | Some x ->
        (match hex_val b with
         | Some y ->
           (match unhex s' with
            | Some r ->
              Some
                ((chr (Z.add (Z.mul x (Zpos (XO (XO (XO (XO XH)))))) y)) :: r)
            | None -> None)
         | None -> None)
      | None -> None))

(** val hex_digit : z -> char **)

let hex_digit z0 =
  if Z.ltb z0 (Zpos (XO (XI (XO XH))))
  then chr (Z.add (Zpos (XO (XO (XO (XO (XI XH)))))) z0)
  else chr (Z.add (Zpos (XI (XI (XI (XO (XI (XO XH))))))) z0)

(** val hex : str -> str **)

let hex s =
  flat_map (fun c ->
    (hex_digit (Z.div (byte c) (Zpos (XO (XO (XO (XO XH))))))) :: ((hex_digit
                                                                    (Z.modulo
                                                                    (byte c)
                                                                    (Zpos (XO
                                                                    (XO (XO
                                                                    (XO
                                                                    XH))))))) :: []))
    s

(** val atom_hex : str -> str option **)

let atom_hex = function
| [] -> None
| c :: r -> if (=) c 'x' then unhex r else None

(** val show_hex : str -> str **)

let show_hex s =
  'x' :: (hex s)

(** val atom_bool : str -> bool option **)

let atom_bool a =
  if str_eqb a (bs ('1'::[]))
  then Some true
  else if str_eqb a (bs ('0'::[])) then Some false else None

(** val show_bool : bool -> str **)

let show_bool = function
| true -> bs ('1'::[])
| false -> bs ('0'::[])

(** val atom_is : str -> char list -> bool **)

let atom_is a s =
  str_eqb a (bs s)

(** val nkind_names : (char list * nkind) list **)

let nkind_names =
  (('i'::('n'::('t'::[]))), KInt) :: ((('i'::('n'::('t'::('8'::[])))),
    KInt8) :: ((('i'::('n'::('t'::('1'::('6'::[]))))),
    KInt16) :: ((('i'::('n'::('t'::('3'::('2'::[]))))),
    KInt32) :: ((('i'::('n'::('t'::('6'::('4'::[]))))),
    KInt64) :: ((('u'::('i'::('n'::('t'::[])))),
    KUint) :: ((('u'::('i'::('n'::('t'::('8'::[]))))),
    KUint8) :: ((('u'::('i'::('n'::('t'::('1'::('6'::[])))))),
    KUint16) :: ((('u'::('i'::('n'::('t'::('3'::('2'::[])))))),
    KUint32) :: ((('u'::('i'::('n'::('t'::('6'::('4'::[])))))),
    KUint64) :: [])))))))))

(** val ety_names : (char list * ety) list **)

let ety_names =
  (('a'::('n'::('y'::[]))), EAny) :: ((('d'::('e'::('c'::[]))),
    EDec) :: ((('s'::('t'::('r'::[]))),
    EStr) :: ((('b'::('o'::('o'::('l'::[])))),
    EBool) :: ((('f'::('6'::('4'::[]))),
    EFloat64) :: ((('i'::('n'::('t'::[]))),
    EInt) :: ((('o'::('t'::('h'::('e'::('r'::[]))))), ETOther) :: []))))))

(** val kty_names : (char list * kty) list **)

let kty_names =
  (('s'::('t'::('r'::[]))), KtStr) :: ((('n'::('s'::('t'::('r'::[])))),
    KtNamedStr) :: ((('a'::('n'::('y'::[]))),
    KtAny) :: ((('o'::('t'::('h'::('e'::('r'::[]))))), KtOther) :: [])))

(** val lookup_name : str -> (char list * 'a1) list -> 'a1 option **)

let rec lookup_name a = function
| [] -> None
| p :: l' ->
  let (n0, x) = p in if atom_is a n0 then Some x else lookup_name a l'

(** val nkind_eqb : nkind -> nkind -> bool **)

let nkind_eqb a b =
  match a with
  | KInt -> (match b with
             | KInt -> true
             | _ -> false)
  | KInt8 -> (match b with
              | KInt8 -> true
              | _ -> false)
  | KInt16 -> (match b with
               | KInt16 -> true
               | _ -> false)
  | KInt32 -> (match b with
               | KInt32 -> true
               | _ -> false)
  | KInt64 -> (match b with
               | KInt64 -> true
               | _ -> false)
  | KUint -> (match b with
              | KUint -> true
              | _ -> false)
  | KUint8 -> (match b with
               | KUint8 -> true
               | _ -> false)
  | KUint16 -> (match b with
                | KUint16 -> true
                | _ -> false)
  | KUint32 -> (match b with
                | KUint32 -> true
                | _ -> false)
  | KUint64 -> (match b with
                | KUint64 -> true
                | _ -> false)

(** val kty_eqb : kty -> kty -> bool **)

let kty_eqb a b =
  match a with
  | KtStr -> (match b with
              | KtStr -> true
              | _ -> false)
  | KtNamedStr -> (match b with
                   | KtNamedStr -> true
                   | _ -> false)
  | KtAny -> (match b with
              | KtAny -> true
              | _ -> false)
  | KtOther -> (match b with
                | KtOther -> true
                | _ -> false)

(** val name_of :
    ('a1 -> 'a1 -> bool) -> 'a1 -> (char list * 'a1) list -> str **)

let rec name_of eqb1 x = function
| [] -> bs ('?'::[])
| p :: l' -> let (n0, y) = p in if eqb1 x y then bs n0 else name_of eqb1 x l'

(** val opt_bind : 'a1 option -> ('a1 -> 'a2 option) -> 'a2 option **)

let opt_bind o f =
  match o with
  | Some a -> f a
  | None -> None

(** val opt_map_all : ('a1 -> 'a2 option) -> 'a1 list -> 'a2 list option **)

let rec opt_map_all f = function
| [] -> Some []
| x :: l' ->
  opt_bind (f x) (fun y ->
    opt_bind (opt_map_all f l') (fun ys -> Some (y :: ys)))

(** val dec_of_atoms : str -> str -> dec option **)

let dec_of_atoms c e =
  opt_bind (parse_int c) (fun cz ->
    opt_bind (parse_int e) (fun ez -> Some { coef = cz; dexp = ez }))

(** val gv_of_sexp : nat -> sexp -> gv option **)

let rec gv_of_sexp fuel x =
  match fuel with
  | O -> None
  | S k ->
    (match x with
     | SA a -> if atom_is a ('n'::('i'::('l'::[]))) then Some VNil else None
     | SL l ->
       (match l with
        | [] -> None
        | s :: args ->
          (match s with
           | SA tag ->
             if atom_is tag ('b'::[])
             then (match args with
                   | [] -> None
                   | s0 :: l0 ->
                     (match s0 with
                      | SA n0 ->
                        (match l0 with
                         | [] -> None
                         | s1 :: l1 ->
                           (match s1 with
                            | SA b ->
                              (match l1 with
                               | [] ->
                                 opt_bind (atom_bool n0) (fun n' ->
                                   opt_bind (atom_bool b) (fun b' -> Some
                                     (VBool (n', b'))))
                               | _ :: _ -> None)
                            | SL _ -> None))
                      | SL _ -> None))
             else if atom_is tag ('i'::[])
                  then (match args with
                        | [] -> None
                        | s0 :: l0 ->
                          (match s0 with
                           | SA kd ->
                             (match l0 with
                              | [] -> None
                              | s1 :: l1 ->
                                (match s1 with
                                 | SA n0 ->
                                   (match l1 with
                                    | [] -> None
                                    | s2 :: l2 ->
                                      (match s2 with
                                       | SA z0 ->
                                         (match l2 with
                                          | [] ->
                                            opt_bind
                                              (lookup_name kd nkind_names)
                                              (fun k' ->
                                              opt_bind (atom_bool n0)
                                                (fun n' ->
                                                opt_bind (parse_int z0)
                                                  (fun z' -> Some (VInt (k',
                                                  n', z')))))
                                          | _ :: _ -> None)
                                       | SL _ -> None))
                                 | SL _ -> None))
                           | SL _ -> None))
                  else if atom_is tag ('f'::[])
                       then (match args with
                             | [] -> None
                             | s0 :: l0 ->
                               (match s0 with
                                | SA w ->
                                  (match l0 with
                                   | [] -> None
                                   | s1 :: l1 ->
                                     (match s1 with
                                      | SA n0 ->
                                        (match l1 with
                                         | [] -> None
                                         | v :: l2 ->
                                           (match l2 with
                                            | [] ->
                                              opt_bind (atom_bool w)
                                                (fun w' ->
                                                opt_bind (atom_bool n0)
                                                  (fun n' ->
                                                  opt_bind
                                                    (match v with
                                                     | SA a ->
                                                       if atom_is a
                                                            ('n'::('a'::('n'::[])))
                                                       then Some FNaN
                                                       else if atom_is a
                                                                 ('+'::('i'::('n'::('f'::[]))))
                                                            then Some (FInf
                                                                   false)
                                                            else if atom_is a
                                                                    ('-'::('i'::('n'::('f'::[]))))
                                                                 then 
                                                                   Some (FInf
                                                                    true)
                                                                 else None
                                                     | SL l3 ->
                                                       (match l3 with
                                                        | [] -> None
                                                        | s2 :: l4 ->
                                                          (match s2 with
                                                           | SA c ->
                                                             (match l4 with
                                                              | [] -> None
                                                              | s3 :: l5 ->
                                                                (match s3 with
                                                                 | SA e ->
                                                                   (match l5 with
                                                                    | [] ->
                                                                    option_map
                                                                    (fun x0 ->
                                                                    FFin x0)
                                                                    (dec_of_atoms
                                                                    c e)
                                                                    | _ :: _ ->
                                                                    None)
                                                                 | SL _ ->
                                                                   None))
                                                           | SL _ -> None)))
                                                    (fun f -> Some (VFloat
                                                    (w', n', f)))))
                                            | _ :: _ -> None))
                                      | SL _ -> None))
                                | SL _ -> None))
                       else if atom_is tag ('s'::[])
                            then (match args with
                                  | [] -> None
                                  | s0 :: l0 ->
                                    (match s0 with
                                     | SA n0 ->
                                       (match l0 with
                                        | [] -> None
                                        | s1 :: l1 ->
                                          (match s1 with
                                           | SA h ->
                                             (match l1 with
                                              | [] ->
                                                opt_bind (atom_bool n0)
                                                  (fun n' ->
                                                  opt_bind (atom_hex h)
                                                    (fun s2 -> Some (VStr
                                                    (n', s2))))
                                              | _ :: _ -> None)
                                           | SL _ -> None))
                                     | SL _ -> None))
                            else if atom_is tag ('d'::[])
                                 then (match args with
                                       | [] -> None
                                       | s0 :: l0 ->
                                         (match s0 with
                                          | SA c ->
                                            (match l0 with
                                             | [] -> None
                                             | s1 :: l1 ->
                                               (match s1 with
                                                | SA e ->
                                                  (match l1 with
                                                   | [] ->
                                                     option_map (fun x0 ->
                                                       VDec x0)
                                                       (dec_of_atoms c e)
                                                   | _ :: _ -> None)
                                                | SL _ -> None))
                                          | SL _ -> None))
                                 else if atom_is tag ('p'::[])
                                      then (match args with
                                            | [] -> None
                                            | s0 :: l0 ->
                                              (match s0 with
                                               | SA a ->
                                                 (match l0 with
                                                  | [] ->
                                                    if atom_is a
                                                         ('n'::('i'::('l'::[])))
                                                    then Some (VPtr None)
                                                    else None
                                                  | _ :: _ -> None)
                                               | SL l1 ->
                                                 (match l1 with
                                                  | [] -> None
                                                  | s1 :: l2 ->
                                                    (match s1 with
                                                     | SA a ->
                                                       (match l2 with
                                                        | [] -> None
                                                        | v :: l3 ->
                                                          (match l3 with
                                                           | [] ->
                                                             (match l0 with
                                                              | [] ->
                                                                if atom_is a
                                                                    ('t'::('o'::[]))
                                                                then 
                                                                  option_map
                                                                    (fun g ->
                                                                    VPtr
                                                                    (Some g))
                                                                    (gv_of_sexp
                                                                    k v)
                                                                else None
                                                              | _ :: _ -> None)
                                                           | _ :: _ -> None))
                                                     | SL _ -> None))))
                                      else if atom_is tag ('s'::('l'::[]))
                                           then (match args with
                                                 | [] -> None
                                                 | s0 :: l0 ->
                                                   (match s0 with
                                                    | SA t ->
                                                      (match l0 with
                                                       | [] -> None
                                                       | s1 :: xs ->
                                                         (match s1 with
                                                          | SA n0 ->
                                                            opt_bind
                                                              (lookup_name t
                                                                ety_names)
                                                              (fun t' ->
                                                              opt_bind
                                                                (atom_bool n0)
                                                                (fun n' ->
                                                                opt_bind
                                                                  (opt_map_all
                                                                    (gv_of_sexp
                                                                    k) xs)
                                                                  (fun xs' ->
                                                                  Some
                                                                  (VSlice
                                                                  (t', n',
                                                                  xs')))))
                                                          | SL _ -> None))
                                                    | SL _ -> None))
                                           else if atom_is tag
                                                     ('a'::('r'::[]))
                                                then (match args with
                                                      | [] -> None
                                                      | s0 :: xs ->
                                                        (match s0 with
                                                         | SA t ->
                                                           opt_bind
                                                             (lookup_name t
                                                               ety_names)
                                                             (fun t' ->
                                                             opt_bind
                                                               (opt_map_all
                                                                 (gv_of_sexp
                                                                   k) xs)
                                                               (fun xs' ->
                                                               Some (VArray
                                                               (t', xs'))))
                                                         | SL _ -> None))
                                                else if atom_is tag ('m'::[])
                                                     then (match args with
                                                           | [] -> None
                                                           | s0 :: l0 ->
                                                             (match s0 with
                                                              | SA kt ->
                                                                (match l0 with
                                                                 | [] -> None
                                                                 | s1 :: l1 ->
                                                                   (match s1 with
                                                                    | SA vt ->
                                                                    (match l1 with
                                                                    | [] ->
                                                                    None
                                                                    | s2 :: kvs ->
                                                                    (match s2 with
                                                                    | SA n0 ->
                                                                    opt_bind
                                                                    (lookup_name
                                                                    kt
                                                                    kty_names)
                                                                    (fun kt' ->
                                                                    opt_bind
                                                                    (lookup_name
                                                                    vt
                                                                    ety_names)
                                                                    (fun vt' ->
                                                                    opt_bind
                                                                    (atom_bool
                                                                    n0)
                                                                    (fun n' ->
                                                                    opt_bind
                                                                    (opt_map_all
                                                                    (fun kv ->
                                                                    match kv with
                                                                    | SA _ ->
                                                                    None
                                                                    | SL l2 ->
                                                                    (match l2 with
                                                                    | [] ->
                                                                    None
                                                                    | kx :: l3 ->
                                                                    (match l3 with
                                                                    | [] ->
                                                                    None
                                                                    | vx :: l4 ->
                                                                    (match l4 with
                                                                    | [] ->
                                                                    opt_bind
                                                                    (gv_of_sexp
                                                                    k kx)
                                                                    (fun kg ->
                                                                    opt_bind
                                                                    (gv_of_sexp
                                                                    k vx)
                                                                    (fun vg ->
                                                                    Some (kg,
                                                                    vg)))
                                                                    | _ :: _ ->
                                                                    None))))
                                                                    kvs)
                                                                    (fun kvs' ->
                                                                    Some
                                                                    (VMap
                                                                    (kt',
                                                                    vt', n',
                                                                    kvs'))))))
                                                                    | SL _ ->
                                                                    None))
                                                                    | SL _ ->
                                                                    None))
                                                              | SL _ -> None))
                                                     else if atom_is tag
                                                               ('s'::('t'::[]))
                                                          then opt_bind
                                                                 (opt_map_all
                                                                   (fun f ->
                                                                   match f with
                                                                   | SA _ ->
                                                                    None
                                                                   | SL l0 ->
                                                                    (match l0 with
                                                                    | [] ->
                                                                    None
                                                                    | s0 :: l1 ->
                                                                    (match s0 with
                                                                    | SA nm ->
                                                                    (match l1 with
                                                                    | [] ->
                                                                    None
                                                                    | s1 :: l2 ->
                                                                    (match s1 with
                                                                    | SA ex ->
                                                                    (match l2 with
                                                                    | [] ->
                                                                    None
                                                                    | s2 :: l3 ->
                                                                    (match s2 with
                                                                    | SA ifc ->
                                                                    (match l3 with
                                                                    | [] ->
                                                                    None
                                                                    | v :: l4 ->
                                                                    (match l4 with
                                                                    | [] ->
                                                                    opt_bind
                                                                    (atom_hex
                                                                    nm)
                                                                    (fun nm' ->
                                                                    opt_bind
                                                                    (atom_bool
                                                                    ex)
                                                                    (fun ex' ->
                                                                    opt_bind
                                                                    (atom_bool
                                                                    ifc)
                                                                    (fun ifc' ->
                                                                    opt_bind
                                                                    (gv_of_sexp
                                                                    k v)
                                                                    (fun g ->
                                                                    Some
                                                                    (((nm',
                                                                    ex'),
                                                                    ifc'), g)))))
                                                                    | _ :: _ ->
                                                                    None))
                                                                    | SL _ ->
                                                                    None))
                                                                    | SL _ ->
                                                                    None))
                                                                    | SL _ ->
                                                                    None)))
                                                                   args)
                                                                 (fun fs ->
                                                                 Some
                                                                 (VStruct fs))
                                                          else if atom_is tag
                                                                    ('f'::('n'::[]))
                                                               then (match args with
                                                                    | [] ->
                                                                    None
                                                                    | s0 :: l0 ->
                                                                    (match s0 with
                                                                    | SA n0 ->
                                                                    (match l0 with
                                                                    | [] ->
                                                                    option_map
                                                                    (fun x0 ->
                                                                    VFunc x0)
                                                                    (atom_bool
                                                                    n0)
                                                                    | _ :: _ ->
                                                                    None)
                                                                    | SL _ ->
                                                                    None))
                                                               else if 
                                                                    atom_is
                                                                    tag
                                                                    ('c'::('h'::[]))
                                                                    then 
                                                                    (match args with
                                                                    | [] ->
                                                                    None
                                                                    | s0 :: l0 ->
                                                                    (match s0 with
                                                                    | SA n0 ->
                                                                    (match l0 with
                                                                    | [] ->
                                                                    option_map
                                                                    (fun x0 ->
                                                                    VChan x0)
                                                                    (atom_bool
                                                                    n0)
                                                                    | _ :: _ ->
                                                                    None)
                                                                    | SL _ ->
                                                                    None))
                                                                    else None
           | SL _ -> None)))

(** val sp : str **)

let sp =
  bs (' '::[])

(** val paren : str list -> str **)

let paren items =
  app (bs ('('::[])) (app (concat_str sp items) (bs (')'::[])))

(** val show_dec_atoms : dec -> str list **)

let show_dec_atoms d =
  (show_Z d.coef) :: ((show_Z d.dexp) :: [])

(** val show_gv : gv -> str **)

let rec show_gv = function
| VNil -> bs ('n'::('i'::('l'::[])))
| VBool (n0, b) ->
  paren ((bs ('b'::[])) :: ((show_bool n0) :: ((show_bool b) :: [])))
| VInt (k, n0, z0) ->
  paren
    ((bs ('i'::[])) :: ((name_of nkind_eqb k nkind_names) :: ((show_bool n0) :: (
    (show_Z z0) :: []))))
| VFloat (w, n0, f) ->
  paren
    ((bs ('f'::[])) :: ((show_bool w) :: ((show_bool n0) :: ((match f with
                                                              | FNaN ->
                                                                bs
                                                                  ('n'::('a'::('n'::[])))
                                                              | FInf neg ->
                                                                if neg
                                                                then 
                                                                  bs
                                                                    ('-'::('i'::('n'::('f'::[]))))
                                                                else 
                                                                  bs
                                                                    ('+'::('i'::('n'::('f'::[]))))
                                                              | FFin d ->
                                                                paren
                                                                  (show_dec_atoms
                                                                    d)) :: []))))
| VStr (n0, s) ->
  paren ((bs ('s'::[])) :: ((show_bool n0) :: ((show_hex s) :: [])))
| VDec d -> paren ((bs ('d'::[])) :: (show_dec_atoms d))
| VPtr target ->
  (match target with
   | Some t ->
     paren
       ((bs ('p'::[])) :: ((paren
                             ((bs ('t'::('o'::[]))) :: ((show_gv t) :: []))) :: []))
   | None -> paren ((bs ('p'::[])) :: ((bs ('n'::('i'::('l'::[])))) :: [])))
| VSlice (t, n0, xs) ->
  paren
    ((bs ('s'::('l'::[]))) :: ((name_of ety_eqb t ety_names) :: ((show_bool
                                                                   n0) :: 
    (map show_gv xs))))
| VArray (t, xs) ->
  paren
    ((bs ('a'::('r'::[]))) :: ((name_of ety_eqb t ety_names) :: (map show_gv
                                                                  xs)))
| VMap (kt, vt, n0, kvs) ->
  paren
    ((bs ('m'::[])) :: ((name_of kty_eqb kt kty_names) :: ((name_of ety_eqb
                                                             vt ety_names) :: (
    (show_bool n0) :: (map (fun pat ->
                        let (k, v) = pat in
                        paren ((show_gv k) :: ((show_gv v) :: []))) kvs)))))
| VStruct fs ->
  paren
    ((bs ('s'::('t'::[]))) :: (map (fun pat ->
                                let (y, v) = pat in
                                let (y0, ifc) = y in
                                let (nm, ex) = y0 in
                                paren
                                  ((show_hex nm) :: ((show_bool ex) :: (
                                  (show_bool ifc) :: ((show_gv v) :: [])))))
                                fs))
| VFunc n0 -> paren ((bs ('f'::('n'::[]))) :: ((show_bool n0) :: []))
| VChan n0 -> paren ((bs ('c'::('h'::[]))) :: ((show_bool n0) :: []))

(** val show_outcome : ('a1 -> str) -> 'a1 outcome -> str **)

let show_outcome sh = function
| Ok a -> app (bs ('o'::('k'::(' '::[])))) (sh a)
| Err e ->
  (match e with
   | EKeyNotFound -> bs ('e'::('r'::('r'::(' '::('k'::('n'::('f'::[])))))))
   | EOther _ ->
     bs ('e'::('r'::('r'::(' '::('o'::('t'::('h'::('e'::('r'::[]))))))))))
| Panic _ -> bs ('p'::('a'::('n'::('i'::('c'::[])))))
| OutOfFuel -> bs ('f'::('u'::('e'::('l'::[]))))
| Declined w ->
  app (bs ('d'::('e'::('c'::('l'::('i'::('n'::('e'::('d'::(' '::[]))))))))))
    (bs w)

(** val sexp_size : sexp -> nat **)

let rec sexp_size = function
| SA _ -> S O
| SL l ->
  S
    (let rec go = function
     | [] -> O
     | y :: l' -> add (sexp_size y) (go l')
     in go l)

(** val uni_of_sexp : sexp -> uclass **)

let uni_of_sexp x =
  let tbl =
    match x with
    | SA _ -> []
    | SL l ->
      filter_map (fun e ->
        match e with
        | SA _ -> None
        | SL l0 ->
          (match l0 with
           | [] -> None
           | s :: l1 ->
             (match s with
              | SA r ->
                (match l1 with
                 | [] -> None
                 | s0 :: l2 ->
                   (match s0 with
                    | SA c ->
                      (match l2 with
                       | [] -> opt_bind (parse_int r) (fun rz -> Some (rz, c))
                       | _ :: _ -> None)
                    | SL _ -> None))
              | SL _ -> None))) l
  in
  let cls = fun r ->
    match find_first (fun pat -> let (x0, _) = pat in Z.eqb x0 r) tbl with
    | Some p -> let (_, c) = p in c
    | None -> bs ('o'::[])
  in
  { u_print = (fun r -> atom_is (cls r) ('p'::[])); u_space = (fun r ->
  atom_is (cls r) ('s'::[])) }

(** val eng_of_sexp : sexp -> engines **)

let eng_of_sexp x =
  let entries = match x with
                | SA _ -> []
                | SL l -> l in
  let hexeq = fun a s ->
    match a with
    | SA h -> (match atom_hex h with
               | Some t -> str_eqb t s
               | None -> false)
    | SL _ -> false
  in
  { eng_re_match = (fun p s ->
  match find_first (fun e ->
          match e with
          | SA _ -> false
          | SL l ->
            (match l with
             | [] -> false
             | s0 :: l0 ->
               (match s0 with
                | SA t ->
                  (match l0 with
                   | [] -> false
                   | a :: l1 ->
                     (match l1 with
                      | [] -> false
                      | b :: l2 ->
                        (match l2 with
                         | [] -> false
                         | _ :: l3 ->
                           (match l3 with
                            | [] ->
                              (&&)
                                ((&&) (atom_is t ('r'::('e'::[])))
                                  (hexeq a p)) (hexeq b s)
                            | _ :: _ -> false))))
                | SL _ -> false))) entries with
  | Some s0 ->
    (match s0 with
     | SA _ -> None
     | SL l ->
       (match l with
        | [] -> None
        | _ :: l0 ->
          (match l0 with
           | [] -> None
           | _ :: l1 ->
             (match l1 with
              | [] -> None
              | _ :: l2 ->
                (match l2 with
                 | [] -> None
                 | s4 :: l3 ->
                   (match s4 with
                    | SA r ->
                      (match l3 with
                       | [] ->
                         if atom_is r ('b'::('a'::('d'::[])))
                         then Some None
                         else option_map (fun x0 -> Some x0) (atom_bool r)
                       | _ :: _ -> None)
                    | SL _ -> None))))))
  | None -> None); eng_re_replace = (fun p s tpl ->
  match find_first (fun e ->
          match e with
          | SA _ -> false
          | SL l ->
            (match l with
             | [] -> false
             | s0 :: l0 ->
               (match s0 with
                | SA t ->
                  (match l0 with
                   | [] -> false
                   | a :: l1 ->
                     (match l1 with
                      | [] -> false
                      | b :: l2 ->
                        (match l2 with
                         | [] -> false
                         | c :: l3 ->
                           (match l3 with
                            | [] -> false
                            | _ :: l4 ->
                              (match l4 with
                               | [] ->
                                 (&&)
                                   ((&&)
                                     ((&&) (atom_is t ('r'::('r'::[])))
                                       (hexeq a p)) (hexeq b s)) (hexeq c tpl)
                               | _ :: _ -> false)))))
                | SL _ -> false))) entries with
  | Some s0 ->
    (match s0 with
     | SA _ -> None
     | SL l ->
       (match l with
        | [] -> None
        | _ :: l0 ->
          (match l0 with
           | [] -> None
           | _ :: l1 ->
             (match l1 with
              | [] -> None
              | _ :: l2 ->
                (match l2 with
                 | [] -> None
                 | _ :: l3 ->
                   (match l3 with
                    | [] -> None
                    | s5 :: l4 ->
                      (match s5 with
                       | SA r ->
                         (match l4 with
                          | [] ->
                            if atom_is r ('b'::('a'::('d'::[])))
                            then Some None
                            else option_map (fun x0 -> Some x0) (atom_hex r)
                          | _ :: _ -> None)
                       | SL _ -> None)))))))
  | None -> None); eng_json_marshal = (fun g ->
  match find_first (fun e ->
          match e with
          | SA _ -> false
          | SL l ->
            (match l with
             | [] -> false
             | s :: l0 ->
               (match s with
                | SA t ->
                  (match l0 with
                   | [] -> false
                   | a :: l1 ->
                     (match l1 with
                      | [] -> false
                      | _ :: l2 ->
                        (match l2 with
                         | [] ->
                           (&&) (atom_is t ('j'::('s'::[])))
                             (match gv_of_sexp (sexp_size a) a with
                              | Some g' -> str_eqb (show_gv g') (show_gv g)
                              | None -> false)
                         | _ :: _ -> false)))
                | SL _ -> false))) entries with
  | Some s ->
    (match s with
     | SA _ -> None
     | SL l ->
       (match l with
        | [] -> None
        | _ :: l0 ->
          (match l0 with
           | [] -> None
           | _ :: l1 ->
             (match l1 with
              | [] -> None
              | s2 :: l2 ->
                (match s2 with
                 | SA r ->
                   (match l2 with
                    | [] ->
                      if atom_is r ('b'::('a'::('d'::[])))
                      then Some None
                      else option_map (fun x0 -> Some x0) (atom_hex r)
                    | _ :: _ -> None)
                 | SL _ -> None)))))
  | None -> None); eng_decode = (fun fmt s ->
  match find_first (fun e ->
          match e with
          | SA _ -> false
          | SL l ->
            (match l with
             | [] -> false
             | s0 :: l0 ->
               (match s0 with
                | SA t ->
                  (match l0 with
                   | [] -> false
                   | s1 :: l1 ->
                     (match s1 with
                      | SA f ->
                        (match l1 with
                         | [] -> false
                         | b :: l2 ->
                           (match l2 with
                            | [] -> false
                            | _ :: l3 ->
                              (match l3 with
                               | [] ->
                                 (&&)
                                   ((&&) (atom_is t ('d'::('e'::[])))
                                     (atom_is f fmt)) (hexeq b s)
                               | _ :: _ -> false)))
                      | SL _ -> false))
                | SL _ -> false))) entries with
  | Some s0 ->
    (match s0 with
     | SA _ -> None
     | SL l ->
       (match l with
        | [] -> None
        | _ :: l0 ->
          (match l0 with
           | [] -> None
           | _ :: l1 ->
             (match l1 with
              | [] -> None
              | _ :: l2 ->
                (match l2 with
                 | [] -> None
                 | r :: l3 ->
                   (match l3 with
                    | [] ->
                      (match r with
                       | SA a ->
                         if atom_is a ('b'::('a'::('d'::[])))
                         then Some None
                         else option_map (fun x0 -> Some x0)
                                (gv_of_sexp (S O) r)
                       | SL _ ->
                         option_map (fun x0 -> Some x0)
                           (gv_of_sexp (sexp_size r) r))
                    | _ :: _ -> None))))))
  | None -> None); eng_sprintf = (fun f args ->
  match find_first (fun e ->
          match e with
          | SA _ -> false
          | SL l ->
            (match l with
             | [] -> false
             | s :: l0 ->
               (match s with
                | SA t ->
                  (match l0 with
                   | [] -> false
                   | a :: l1 ->
                     (match l1 with
                      | [] -> false
                      | s0 :: l2 ->
                        (match s0 with
                         | SA _ -> false
                         | SL gs ->
                           (match l2 with
                            | [] -> false
                            | _ :: l3 ->
                              (match l3 with
                               | [] ->
                                 (&&)
                                   ((&&) (atom_is t ('s'::('f'::[])))
                                     (hexeq a f))
                                   (str_eqb
                                     (concat_str sp
                                       (map (fun g ->
                                         match gv_of_sexp (sexp_size g) g with
                                         | Some g' -> show_gv g'
                                         | None -> bs ('?'::[])) gs))
                                     (concat_str sp (map show_gv args)))
                               | _ :: _ -> false)))))
                | SL _ -> false))) entries with
  | Some s ->
    (match s with
     | SA _ -> None
     | SL l ->
       (match l with
        | [] -> None
        | _ :: l0 ->
          (match l0 with
           | [] -> None
           | _ :: l1 ->
             (match l1 with
              | [] -> None
              | _ :: l2 ->
                (match l2 with
                 | [] -> None
                 | s3 :: l3 ->
                   (match s3 with
                    | SA r ->
                      (match l3 with
                       | [] -> atom_hex r
                       | _ :: _ -> None)
                    | SL _ -> None))))))
  | None -> None) }

(** val split_tab : str -> str -> str list **)

let rec split_tab s cur =
  match s with
  | [] -> (rev0 cur) :: []
  | c :: s' ->
    if (=) c (chr (Zpos (XI (XO (XO XH)))))
    then (rev0 cur) :: (split_tab s' [])
    else split_tab s' (c :: cur)

(** val bad_case : str **)

let bad_case =
  bs ('b'::('a'::('d'::('c'::('a'::('s'::('e'::[])))))))

(** val with_env : str -> str -> (uclass -> engines -> str) -> str **)

let with_env unis engs k =
  match sexp_of_str unis with
  | Some u ->
    (match sexp_of_str engs with
     | Some e -> k (uni_of_sexp u) (eng_of_sexp e)
     | None -> bad_case)
  | None -> bad_case

(** val run_eval : str -> str -> str -> str -> str **)

let run_eval q data unis engs =
  with_env unis engs (fun uni eng ->
    match atom_hex q with
    | Some qs ->
      (match opt_bind (sexp_of_str data) (fun x -> gv_of_sexp (sexp_size x) x) with
       | Some g ->
         (match parse_string uni qs with
          | Ok t -> show_outcome show_gv (do_top uni eng t g)
          | OutOfFuel -> bs ('f'::('u'::('e'::('l'::[]))))
          | Declined w ->
            app
              (bs
                ('d'::('e'::('c'::('l'::('i'::('n'::('e'::('d'::(' '::[]))))))))))
              (bs w)
          | _ ->
            bs
              ('p'::('a'::('r'::('s'::('e'::('-'::('e'::('r'::('r'::[]))))))))))
       | None -> bad_case)
    | None -> bad_case)

(** val run_case : str -> str **)

let run_case line =
  match split_tab line [] with
  | [] -> bad_case
  | kind0 :: fields ->
    if atom_is kind0 ('e'::('v'::('a'::('l'::[]))))
    then (match fields with
          | [] -> bad_case
          | q :: l ->
            (match l with
             | [] -> bad_case
             | data :: l0 ->
               (match l0 with
                | [] -> bad_case
                | unis :: l1 ->
                  (match l1 with
                   | [] -> bad_case
                   | engs :: l2 ->
                     (match l2 with
                      | [] -> run_eval q data unis engs
                      | _ :: _ -> bad_case)))))
    else bad_case
