
val xorb : bool -> bool -> bool

val negb : bool -> bool

type nat =
| O
| S of nat

val option_map : ('a1 -> 'a2) -> 'a1 option -> 'a2 option

val fst : ('a1 * 'a2) -> 'a1

val snd : ('a1 * 'a2) -> 'a2

val length : 'a1 list -> nat

val app : 'a1 list -> 'a1 list -> 'a1 list

type comparison =
| Eq
| Lt
| Gt

val compOpp : comparison -> comparison

type uint =
| Nil
| D0 of uint
| D1 of uint
| D2 of uint
| D3 of uint
| D4 of uint
| D5 of uint
| D6 of uint
| D7 of uint
| D8 of uint
| D9 of uint

type signed_int =
| Pos of uint
| Neg of uint

val revapp : uint -> uint -> uint

val rev : uint -> uint

module Little :
 sig
  val double : uint -> uint

  val succ_double : uint -> uint
 end

val add : nat -> nat -> nat

val mul : nat -> nat -> nat

val sub : nat -> nat -> nat

val eqb : bool -> bool -> bool

type positive =
| XI of positive
| XO of positive
| XH

type n =
| N0
| Npos of positive

type z =
| Z0
| Zpos of positive
| Zneg of positive

module Nat :
 sig
  val eqb : nat -> nat -> bool

  val leb : nat -> nat -> bool

  val ltb : nat -> nat -> bool
 end

module Pos :
 sig
  type mask =
  | IsNul
  | IsPos of positive
  | IsNeg
 end

module Coq_Pos :
 sig
  val succ : positive -> positive

  val add : positive -> positive -> positive

  val add_carry : positive -> positive -> positive

  val pred_double : positive -> positive

  type mask = Pos.mask =
  | IsNul
  | IsPos of positive
  | IsNeg

  val succ_double_mask : mask -> mask

  val double_mask : mask -> mask

  val double_pred_mask : positive -> mask

  val sub_mask : positive -> positive -> mask

  val sub_mask_carry : positive -> positive -> mask

  val mul : positive -> positive -> positive

  val iter : ('a1 -> 'a1) -> 'a1 -> positive -> 'a1

  val size : positive -> positive

  val compare_cont : comparison -> positive -> positive -> comparison

  val compare : positive -> positive -> comparison

  val eqb : positive -> positive -> bool

  val iter_op : ('a1 -> 'a1 -> 'a1) -> positive -> 'a1 -> 'a1

  val to_nat : positive -> nat

  val of_succ_nat : nat -> positive

  val to_little_uint : positive -> uint

  val to_uint : positive -> uint
 end

module N :
 sig
  val succ_double : n -> n

  val double : n -> n

  val add : n -> n -> n

  val sub : n -> n -> n

  val mul : n -> n -> n

  val compare : n -> n -> comparison

  val leb : n -> n -> bool

  val pos_div_eucl : positive -> n -> n * n
 end

val zero : char

val one : char

val shift : bool -> char -> char

val ascii_of_pos : positive -> char

val ascii_of_N : n -> char

val n_of_digits : bool list -> n

val n_of_ascii : char -> n

val tl : 'a1 list -> 'a1 list

val nth_error : 'a1 list -> nat -> 'a1 option

val rev0 : 'a1 list -> 'a1 list

val map : ('a1 -> 'a2) -> 'a1 list -> 'a2 list

val flat_map : ('a1 -> 'a2 list) -> 'a1 list -> 'a2 list

val fold_left : ('a1 -> 'a2 -> 'a1) -> 'a2 list -> 'a1 -> 'a1

val fold_right : ('a2 -> 'a1 -> 'a1) -> 'a1 -> 'a2 list -> 'a1

val existsb : ('a1 -> bool) -> 'a1 list -> bool

val forallb : ('a1 -> bool) -> 'a1 list -> bool

val filter : ('a1 -> bool) -> 'a1 list -> 'a1 list

val firstn : nat -> 'a1 list -> 'a1 list

val skipn : nat -> 'a1 list -> 'a1 list

module Z :
 sig
  val double : z -> z

  val succ_double : z -> z

  val pred_double : z -> z

  val pos_sub : positive -> positive -> z

  val add : z -> z -> z

  val opp : z -> z

  val sub : z -> z -> z

  val mul : z -> z -> z

  val pow_pos : z -> positive -> z

  val pow : z -> z -> z

  val compare : z -> z -> comparison

  val sgn : z -> z

  val leb : z -> z -> bool

  val ltb : z -> z -> bool

  val eqb : z -> z -> bool

  val min : z -> z -> z

  val abs : z -> z

  val to_nat : z -> nat

  val to_N : z -> n

  val of_nat : nat -> z

  val of_N : n -> z

  val to_int : z -> signed_int

  val pos_div_eucl : positive -> z -> z * z

  val div_eucl : z -> z -> z * z

  val div : z -> z -> z

  val modulo : z -> z -> z

  val quotrem : z -> z -> z * z

  val quot : z -> z -> z

  val rem : z -> z -> z

  val log2 : z -> z
 end

val eqb0 : char list -> char list -> bool

val list_ascii_of_string : char list -> char list

module NilEmpty :
 sig
  val string_of_uint : uint -> char list
 end

module NilZero :
 sig
  val string_of_uint : uint -> char list

  val string_of_int : signed_int -> char list
 end

type str = char list

val bs : char list -> str

val str_eqb : str -> str -> bool

val byte : char -> z

val chr : z -> char

val is_upper : char -> bool

val is_digit : char -> bool

val lower_ascii : char -> char

val str_lower : str -> str

val equal_fold : str -> str -> bool

val has_prefix : str -> str -> bool

val has_suffix : str -> str -> bool

val contains : str -> str -> bool

val replace_all_fuel : nat -> str -> str -> str -> str

val replace_all : str -> str -> str -> str

val show_Z : z -> str

val digits_val : z -> str -> z option

val parse_int : str -> z option

type err =
| EKeyNotFound
| EOther of char list

type 'a outcome =
| Ok of 'a
| Err of err
| Panic of char list
| OutOfFuel
| Declined of char list

val bind : 'a1 outcome -> ('a1 -> 'a2 outcome) -> 'a2 outcome

val fail : char list -> 'a1 outcome

val find_first : ('a1 -> bool) -> 'a1 list -> 'a1 option

val concat_str : str -> str list -> str

type dec = { coef : z; dexp : z }

val dzero : dec

val pow10 : z -> z

val rescale : dec -> z -> dec

val rescale_pair : dec -> dec -> dec * dec

val dadd : dec -> dec -> dec

val dsub : dec -> dec -> dec

val dmul : dec -> dec -> dec

val dabs : dec -> dec

val dcmp : dec -> dec -> comparison

val deq : dec -> dec -> bool

val dlt : dec -> dec -> bool

val dgt : dec -> dec -> bool

val dle : dec -> dec -> bool

val dge : dec -> dec -> bool

val dis_zero : dec -> bool

val dis_neg : dec -> bool

val division_precision : z

val quo_rem : dec -> dec -> z -> dec * dec

val div_round : dec -> dec -> z -> dec

val ddiv : dec -> dec -> dec

val truncate0 : dec -> dec

val dmod : dec -> dec -> dec

val dsum : dec -> dec list -> dec

val davg : dec -> dec list -> dec

val dmin : dec -> dec list -> dec

val dmax : dec -> dec list -> dec

val dis_integer : dec -> bool

val sint64 : z -> z

val big_int64 : z -> z

val int_part : dec -> z

val strip_zeros : nat -> z -> z -> dec

val dnorm : dec -> dec

val index_any_e : str -> nat -> nat option

val count_dots : str -> nat

val before_dot : str -> str

val after_dot : str -> str option

val in_int32 : z -> bool

val dec_of_string : str -> dec option

type num_result =
| NumOk of dec
| NumReject
| NumUnknown

val all_digits : str -> bool

val strip_leading_zeros : str -> str

val is_sign : char -> bool

val is_hexish : char -> bool

val starts_hex : str -> bool

val numeral : str -> num_result

type ptype =
| PT_String
| PT_Bytes
| PT_Boolean
| PT_Number
| PT_Any
| PT_Object
| PT_Root
| PT_ElementRoot

type iotype =
| IO_Single
| IO_Array
| IO_Variadic

type ioty = ptype * iotype

type fdesc = { fd_key : char list; fd_name : char list; fd_on : ioty;
               fd_ret : ioty; fd_params : ioty list; fd_known : bool }

type nkind =
| KInt
| KInt8
| KInt16
| KInt32
| KInt64
| KUint
| KUint8
| KUint16
| KUint32
| KUint64

val nk_unsigned : nkind -> bool

type fl =
| FNaN
| FInf of bool
| FFin of dec

type ety =
| EAny
| EDec
| EStr
| EBool
| EFloat64
| EInt
| ETOther

type kty =
| KtStr
| KtNamedStr
| KtAny
| KtOther

type gv =
| VNil
| VBool of bool * bool
| VInt of nkind * bool * z
| VFloat of bool * bool * fl
| VStr of bool * str
| VDec of dec
| VPtr of gv option
| VSlice of ety * bool * gv list
| VArray of ety * gv list
| VMap of kty * ety * bool * (gv * gv) list
| VStruct of (((str * bool) * bool) * gv) list
| VFunc of bool
| VChan of bool

val ety_eqb : ety -> ety -> bool

type kind =
| KdInvalid
| KdBool
| KdInt
| KdUint
| KdFloat
| KdString
| KdStruct
| KdMap
| KdSlice
| KdArray
| KdPtr
| KdInterface
| KdFunc
| KdChan

val kind_of : gv -> kind

type rv = { rv_if : bool; rv_v : gv }

val value_of : gv -> rv

val rkind : rv -> kind

val relem : rv -> rv

val deref1 : rv -> rv

val slot : ety -> gv -> rv

val float_is_zero : fl -> bool

val rlen : rv -> nat

val ris_nil : rv -> bool

val is_empty_value : rv -> bool

val is_nil : gv -> bool

val convert_number_check : gv -> bool * dec

val convert_number : gv -> gv

val is_go_string : gv -> bool

val convert_unless_string : gv -> gv

val key_string : gv -> str option

val map_lookup_fold : str -> (gv * gv) list -> gv option

val struct_lookup_fold : str -> (((str * bool) * bool) * gv) list -> gv option

val get_field_by_name : str -> rv -> gv option

val elems_of : gv -> (ety * gv list) option

val filter_map : ('a1 -> 'a2 option) -> 'a1 list -> 'a2 list

val get_values_by_name : str -> gv -> gv outcome

val do_ident : str -> gv -> gv outcome

val get_as_struct_or_slice : gv -> (gv * bool) option

type lot =
| LAnd
| LOr
| LBad of str

type path =
| Path of bool * bool * bool * bool * pathop list * str
and pathop =
| PIdent of str * bool * str
| PFilter of logop * str
| PFunc of func
and func =
| Func of bool * str * param list * str
and param =
| FPNum of dec
| FPStr of str
| FPBool of bool
| FPPath of path
| FPLog of logop
and logop =
| LogOp of bool * bool * lot * operand list * str
and operand =
| OpP of path
| OpL of logop

type top =
| TopP of path
| TopL of logop

val path_us : path -> str

val logop_us : logop -> str

val func_us : func -> str

val pathop_qmark : pathop -> bool

val pathop_is_func : pathop -> bool

val invalid_runes : z list

type uclass = { u_print : (z -> bool); u_space : (z -> bool) }

val rune_error : z

val is_cont : char -> bool

val in_rng : z -> z -> char -> bool

val decode_rune : str -> z * nat

val chars_fuel : nat -> str -> (z * str) list option

val bom : z

val chars : str -> (z * str) list option

type tkind =
| TIdent
| TString
| TChar
| TCh of z

type token = { tk : tkind; ttext : str; tnext : z }

val is_print : uclass -> z -> bool

val is_space : uclass -> z -> bool

val zmem : z -> z list -> bool

val is_ident_rune : uclass -> z -> bool

val is_ws : z -> bool

val peek : (z * str) list -> z

val span_ident : uclass -> (z * str) list -> str * (z * str) list

val digit_val : z -> z

val scan_digits :
  nat -> z -> (z * str) list -> str -> (str * (z * str) list) option

val scan_string :
  nat -> z -> (z * str) list -> str -> nat -> ((str * nat) * (z * str) list)
  option

val skip_line : (z * str) list -> (z * str) list

val skip_block : (z * str) list -> (z * str) list option

val tokens_fuel : uclass -> nat -> (z * str) list -> token list option

val visible : uclass -> token -> bool

val lex : uclass -> str -> token list option

val func_table : fdesc list

val unescape_table : (str * str) list

type cursor =
| CTok of token
| CEOF
| CZero

val scan : token list -> cursor * token list

type 'a pres = ((cursor * token list) * 'a) outcome

val perr : 'a1 pres

val is_ch : token -> z -> bool

val is_ident_tok : token -> bool

val find_fdesc : str -> fdesc list -> fdesc option

val ft_get_by_name : str -> str option

val find_fdesc_key : str -> fdesc list -> fdesc option

val ft_is_bool_func : str -> bool

val apply_replacements : (str * str) list -> str -> str

val unescape : str -> str

val strip_qmark : str -> str * bool

val strip_dquotes : str -> str

val is_digit_rune : z -> bool

val deal_with_numbers : token -> token list -> str * token list

val last_ok_for_group : pathop list -> bool

val ch_str : z -> str

val parse_path : nat -> bool -> bool -> cursor -> token list -> path pres

val path_loop :
  nat -> bool -> bool -> bool -> pathop list -> str -> cursor -> token list
  -> path pres

val parse_func : nat -> cursor -> token list -> func pres

val func_loop :
  nat -> bool -> str -> param list -> str -> cursor -> token list -> func pres

val parse_log : nat -> bool -> cursor -> token list -> logop pres

val log_loop :
  nat -> bool -> bool -> lot -> operand list -> str -> cursor -> token list
  -> logop pres

val top_loop : nat -> top option -> cursor -> token list -> top outcome

val parse_fuel : token list -> nat

val parse_tokens : token list -> top outcome

val parse_string : uclass -> str -> top outcome

type rparam =
| RNum of dec
| RStr of str
| RBool of bool

type engines = { eng_re_match : (str -> str -> bool option option);
                 eng_re_replace : (str -> str -> str -> str option option);
                 eng_json_marshal : (gv -> str option option);
                 eng_decode : (char list -> str -> gv option option);
                 eng_sprintf : (str -> gv list -> str option) }

val numbers : rparam list -> dec list

val strings : rparam list -> str list

val bools : rparam list -> bool list

val string_number : str -> dec option

val len_is : rparam list -> nat -> bool

val params_first_any : rparam list -> rparam outcome

val params_first_number : rparam list -> dec outcome

val params_first_string : rparam list -> str outcome

val params_get_all : rparam list -> gv list

val vbool : bool -> gv

val vstr : str -> gv

val go_eq : gv -> gv -> bool

val rparam_gv : rparam -> gv

val func_equal : rparam list -> gv -> bool outcome

val decimal_bool_func :
  (dec -> dec -> bool) -> rparam list -> gv -> gv outcome

val string_bool_func :
  (str -> str -> bool) -> bool -> rparam list -> gv -> gv outcome

val is_seq_kind : rv -> bool

val func_count : rparam list -> gv -> gv outcome

val gv_is_zero : gv -> bool

val func_any : rparam list -> gv -> gv outcome

val empty_guard : rv -> bool

val func_first : rparam list -> gv -> gv outcome

val func_last : rparam list -> gv -> gv outcome

val func_index : rparam list -> gv -> gv outcome

type agg =
| AggSum
| AggAvg
| AggMin
| AggMax

val run_agg : agg -> dec -> dec list -> dec

val elem_number : gv -> dec option

val all_some : 'a1 option list -> 'a1 list option

val func_decimal_slice : agg -> rparam list -> gv -> gv outcome

type arith =
| AAdd
| ASub
| AMul
| ADiv
| AMod

val func_decimal : arith -> rparam list -> gv -> gv outcome

val any_of_loop : gv -> gv list -> bool

val func_any_of : rparam list -> gv -> gv outcome

val go_slice : str -> z -> z -> str outcome

type spart =
| SLeft
| SRight
| STrimLeft
| STrimRight

val string_part_func : spart -> rparam list -> gv -> gv outcome

val func_replace_all : rparam list -> gv -> gv outcome

val cmp_is_zero : gv -> bool

val func_is_null : rparam list -> gv -> bool outcome

val func_is_empty : rparam list -> gv -> bool outcome

val func_is_null_or_empty : rparam list -> gv -> bool outcome

val negate : bool outcome -> gv outcome

val boolv : bool outcome -> gv outcome

val func_not : gv -> gv outcome

val func_invert : gv -> gv outcome

val func_does_match_regex : engines -> rparam list -> gv -> gv outcome

val func_replace_regex : engines -> rparam list -> gv -> gv outcome

val func_as_json : engines -> rparam list -> gv -> gv outcome

val string_to_object : engines -> char list -> rparam list -> gv -> gv outcome

val func_sprintf : engines -> rparam list -> gv -> gv outcome

val remove_keys : (str -> bool option) -> gv -> gv outcome

val func_remove_keys_by :
  engines -> char list -> rparam list -> gv -> gv outcome

val run_func : engines -> char list -> rparam list -> gv -> gv outcome

val spread_elem : gv -> rparam option

val spread_result : gv -> rparam list outcome

val str_ltb : str -> str -> bool

val insert_kv : (str * gv) -> (str * gv) list -> (str * gv) list

val sorted_values : (gv * gv) list -> gv list option

val flatten_result : gv -> gv list

type node =
| NPath of path
| NOp of pathop
| NFunc of func
| NLog of logop
| NTop of top

val path_ops :
  (pathop -> gv -> gv outcome) -> pathop option -> bool -> pathop list -> gv
  -> err option -> gv outcome

val log_ops : (operand -> gv outcome) -> lot -> operand list -> gv outcome

val filter_elems : (gv -> gv outcome) -> gv list -> gv list outcome

val eval_params : (node -> gv outcome) -> param list -> rparam list outcome

val select_elems : (gv -> gv outcome) -> gv list -> gv list outcome

val eval : uclass -> engines -> nat -> node -> gv -> gv -> gv outcome

val default_fuel : nat

val do_top : uclass -> engines -> top -> gv -> gv outcome

type sexp =
| SA of str
| SL of sexp list

type stok =
| SLp
| SRp
| SAtom of str

val is_sep : char -> bool

val stokens : str -> str -> stok list

val sparse : stok list -> sexp list list -> sexp option

val sexp_of_str : str -> sexp option

val hex_val : char -> z option

val unhex : str -> str option

val hex_digit : z -> char

val hex : str -> str

val atom_hex : str -> str option

val show_hex : str -> str

val atom_bool : str -> bool option

val show_bool : bool -> str

val atom_is : str -> char list -> bool

val nkind_names : (char list * nkind) list

val ety_names : (char list * ety) list

val kty_names : (char list * kty) list

val lookup_name : str -> (char list * 'a1) list -> 'a1 option

val nkind_eqb : nkind -> nkind -> bool

val kty_eqb : kty -> kty -> bool

val name_of : ('a1 -> 'a1 -> bool) -> 'a1 -> (char list * 'a1) list -> str

val opt_bind : 'a1 option -> ('a1 -> 'a2 option) -> 'a2 option

val opt_map_all : ('a1 -> 'a2 option) -> 'a1 list -> 'a2 list option

val dec_of_atoms : str -> str -> dec option

val gv_of_sexp : nat -> sexp -> gv option

val sp : str

val paren : str list -> str

val show_dec_atoms : dec -> str list

val show_gv : gv -> str

val show_outcome : ('a1 -> str) -> 'a1 outcome -> str

val sexp_size : sexp -> nat

val uni_of_sexp : sexp -> uclass

val eng_of_sexp : sexp -> engines

val split_tab : str -> str -> str list

val bad_case : str

val with_env : str -> str -> (uclass -> engines -> str) -> str

val run_eval : str -> str -> str -> str -> str

val run_case : str -> str
