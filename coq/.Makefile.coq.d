Model/Base.vo Model/Base.glob Model/Base.v.beautified Model/Base.required_vo: Model/Base.v 
Model/Base.vio: Model/Base.v 
Model/Base.vos Model/Base.vok Model/Base.required_vos: Model/Base.v 
Model/Dec.vo Model/Dec.glob Model/Dec.v.beautified Model/Dec.required_vo: Model/Dec.v Model/Base.vo
Model/Dec.vio: Model/Dec.v Model/Base.vio
Model/Dec.vos Model/Dec.vok Model/Dec.required_vos: Model/Dec.v Model/Base.vos
Model/Types.vo Model/Types.glob Model/Types.v.beautified Model/Types.required_vo: Model/Types.v Model/Base.vo
Model/Types.vio: Model/Types.v Model/Base.vio
Model/Types.vos Model/Types.vok Model/Types.required_vos: Model/Types.v Model/Base.vos
Generated/FuncTable.vo Generated/FuncTable.glob Generated/FuncTable.v.beautified Generated/FuncTable.required_vo: Generated/FuncTable.v Model/Base.vo Model/Types.vo
Generated/FuncTable.vio: Generated/FuncTable.v Model/Base.vio Model/Types.vio
Generated/FuncTable.vos Generated/FuncTable.vok Generated/FuncTable.required_vos: Generated/FuncTable.v Model/Base.vos Model/Types.vos
Generated/Runes.vo Generated/Runes.glob Generated/Runes.v.beautified Generated/Runes.required_vo: Generated/Runes.v Model/Base.vo
Generated/Runes.vio: Generated/Runes.v Model/Base.vio
Generated/Runes.vos Generated/Runes.vok Generated/Runes.required_vos: Generated/Runes.v Model/Base.vos
Generated/Escapes.vo Generated/Escapes.glob Generated/Escapes.v.beautified Generated/Escapes.required_vo: Generated/Escapes.v Model/Base.vo
Generated/Escapes.vio: Generated/Escapes.v Model/Base.vio
Generated/Escapes.vos Generated/Escapes.vok Generated/Escapes.required_vos: Generated/Escapes.v Model/Base.vos
Generated/BasePaths.vo Generated/BasePaths.glob Generated/BasePaths.v.beautified Generated/BasePaths.required_vo: Generated/BasePaths.v Model/Base.vo
Generated/BasePaths.vio: Generated/BasePaths.v Model/Base.vio
Generated/BasePaths.vos Generated/BasePaths.vok Generated/BasePaths.required_vos: Generated/BasePaths.v Model/Base.vos
Model/GoVal.vo Model/GoVal.glob Model/GoVal.v.beautified Model/GoVal.required_vo: Model/GoVal.v Model/Base.vo Model/Dec.vo
Model/GoVal.vio: Model/GoVal.v Model/Base.vio Model/Dec.vio
Model/GoVal.vos Model/GoVal.vok Model/GoVal.required_vos: Model/GoVal.v Model/Base.vos Model/Dec.vos
Model/Ast.vo Model/Ast.glob Model/Ast.v.beautified Model/Ast.required_vo: Model/Ast.v Model/Base.vo Model/Dec.vo
Model/Ast.vio: Model/Ast.v Model/Base.vio Model/Dec.vio
Model/Ast.vos Model/Ast.vok Model/Ast.required_vos: Model/Ast.v Model/Base.vos Model/Dec.vos
Model/Lexer.vo Model/Lexer.glob Model/Lexer.v.beautified Model/Lexer.required_vo: Model/Lexer.v Model/Base.vo Generated/Runes.vo
Model/Lexer.vio: Model/Lexer.v Model/Base.vio Generated/Runes.vio
Model/Lexer.vos Model/Lexer.vok Model/Lexer.required_vos: Model/Lexer.v Model/Base.vos Generated/Runes.vos
Model/Parser.vo Model/Parser.glob Model/Parser.v.beautified Model/Parser.required_vo: Model/Parser.v Model/Base.vo Model/Dec.vo Model/Types.vo Model/Ast.vo Model/Lexer.vo Generated/FuncTable.vo Generated/Escapes.vo
Model/Parser.vio: Model/Parser.v Model/Base.vio Model/Dec.vio Model/Types.vio Model/Ast.vio Model/Lexer.vio Generated/FuncTable.vio Generated/Escapes.vio
Model/Parser.vos Model/Parser.vok Model/Parser.required_vos: Model/Parser.v Model/Base.vos Model/Dec.vos Model/Types.vos Model/Ast.vos Model/Lexer.vos Generated/FuncTable.vos Generated/Escapes.vos
Model/Printer.vo Model/Printer.glob Model/Printer.v.beautified Model/Printer.required_vo: Model/Printer.v Model/Base.vo Model/Dec.vo Model/Types.vo Model/Ast.vo Model/Lexer.vo Model/Parser.vo
Model/Printer.vio: Model/Printer.v Model/Base.vio Model/Dec.vio Model/Types.vio Model/Ast.vio Model/Lexer.vio Model/Parser.vio
Model/Printer.vos Model/Printer.vok Model/Printer.required_vos: Model/Printer.v Model/Base.vos Model/Dec.vos Model/Types.vos Model/Ast.vos Model/Lexer.vos Model/Parser.vos
Model/Funcs.vo Model/Funcs.glob Model/Funcs.v.beautified Model/Funcs.required_vo: Model/Funcs.v Model/Base.vo Model/Dec.vo Model/Types.vo Model/GoVal.vo
Model/Funcs.vio: Model/Funcs.v Model/Base.vio Model/Dec.vio Model/Types.vio Model/GoVal.vio
Model/Funcs.vos Model/Funcs.vok Model/Funcs.required_vos: Model/Funcs.v Model/Base.vos Model/Dec.vos Model/Types.vos Model/GoVal.vos
Model/Eval.vo Model/Eval.glob Model/Eval.v.beautified Model/Eval.required_vo: Model/Eval.v Model/Base.vo Model/Dec.vo Model/Types.vo Model/GoVal.vo Model/Ast.vo Model/Lexer.vo Model/Parser.vo Model/Funcs.vo Generated/FuncTable.vo
Model/Eval.vio: Model/Eval.v Model/Base.vio Model/Dec.vio Model/Types.vio Model/GoVal.vio Model/Ast.vio Model/Lexer.vio Model/Parser.vio Model/Funcs.vio Generated/FuncTable.vio
Model/Eval.vos Model/Eval.vok Model/Eval.required_vos: Model/Eval.v Model/Base.vos Model/Dec.vos Model/Types.vos Model/GoVal.vos Model/Ast.vos Model/Lexer.vos Model/Parser.vos Model/Funcs.vos Generated/FuncTable.vos
Model/Wire.vo Model/Wire.glob Model/Wire.v.beautified Model/Wire.required_vo: Model/Wire.v Model/Base.vo Model/Dec.vo Model/Types.vo Model/GoVal.vo Model/Ast.vo Model/Lexer.vo Model/Parser.vo Model/Printer.vo Model/Funcs.vo Model/Eval.vo
Model/Wire.vio: Model/Wire.v Model/Base.vio Model/Dec.vio Model/Types.vio Model/GoVal.vio Model/Ast.vio Model/Lexer.vio Model/Parser.vio Model/Printer.vio Model/Funcs.vio Model/Eval.vio
Model/Wire.vos Model/Wire.vok Model/Wire.required_vos: Model/Wire.v Model/Base.vos Model/Dec.vos Model/Types.vos Model/GoVal.vos Model/Ast.vos Model/Lexer.vos Model/Parser.vos Model/Printer.vos Model/Funcs.vos Model/Eval.vos
Spec/Logic.vo Spec/Logic.glob Spec/Logic.v.beautified Spec/Logic.required_vo: Spec/Logic.v 
Spec/Logic.vio: Spec/Logic.v 
Spec/Logic.vos Spec/Logic.vok Spec/Logic.required_vos: Spec/Logic.v 
Proofs/EvalMono.vo Proofs/EvalMono.glob Proofs/EvalMono.v.beautified Proofs/EvalMono.required_vo: Proofs/EvalMono.v Model/Base.vo Model/Dec.vo Model/Types.vo Model/GoVal.vo Model/Ast.vo Model/Lexer.vo Model/Parser.vo Model/Funcs.vo Model/Eval.vo Generated/FuncTable.vo
Proofs/EvalMono.vio: Proofs/EvalMono.v Model/Base.vio Model/Dec.vio Model/Types.vio Model/GoVal.vio Model/Ast.vio Model/Lexer.vio Model/Parser.vio Model/Funcs.vio Model/Eval.vio Generated/FuncTable.vio
Proofs/EvalMono.vos Proofs/EvalMono.vok Proofs/EvalMono.required_vos: Proofs/EvalMono.v Model/Base.vos Model/Dec.vos Model/Types.vos Model/GoVal.vos Model/Ast.vos Model/Lexer.vos Model/Parser.vos Model/Funcs.vos Model/Eval.vos Generated/FuncTable.vos
Proofs/C03.vo Proofs/C03.glob Proofs/C03.v.beautified Proofs/C03.required_vo: Proofs/C03.v Model/Base.vo Model/Dec.vo Model/Types.vo Model/GoVal.vo Model/Ast.vo Model/Lexer.vo Model/Parser.vo Model/Funcs.vo Model/Eval.vo Spec/Logic.vo Proofs/EvalMono.vo
Proofs/C03.vio: Proofs/C03.v Model/Base.vio Model/Dec.vio Model/Types.vio Model/GoVal.vio Model/Ast.vio Model/Lexer.vio Model/Parser.vio Model/Funcs.vio Model/Eval.vio Spec/Logic.vio Proofs/EvalMono.vio
Proofs/C03.vos Proofs/C03.vok Proofs/C03.required_vos: Proofs/C03.v Model/Base.vos Model/Dec.vos Model/Types.vos Model/GoVal.vos Model/Ast.vos Model/Lexer.vos Model/Parser.vos Model/Funcs.vos Model/Eval.vos Spec/Logic.vos Proofs/EvalMono.vos
Properties/C03.vo Properties/C03.glob Properties/C03.v.beautified Properties/C03.required_vo: Properties/C03.v Model/Base.vo Model/Dec.vo Model/Types.vo Model/GoVal.vo Model/Ast.vo Model/Lexer.vo Model/Parser.vo Model/Funcs.vo Model/Eval.vo Spec/Logic.vo Proofs/C03.vo
Properties/C03.vio: Properties/C03.v Model/Base.vio Model/Dec.vio Model/Types.vio Model/GoVal.vio Model/Ast.vio Model/Lexer.vio Model/Parser.vio Model/Funcs.vio Model/Eval.vio Spec/Logic.vio Proofs/C03.vio
Properties/C03.vos Properties/C03.vok Properties/C03.required_vos: Properties/C03.v Model/Base.vos Model/Dec.vos Model/Types.vos Model/GoVal.vos Model/Ast.vos Model/Lexer.vos Model/Parser.vos Model/Funcs.vos Model/Eval.vos Spec/Logic.vos Proofs/C03.vos
