(* Proofs/C10d.v — C10, part 4: the evaluator respects the relation
   (induction on fuel with one lemma per combinator). *)
From Mpath.Model Require Import Base Dec Types GoVal Ast Lexer Parser Funcs Eval.
From Mpath.Generated Require Import FuncTable.
From Mpath.Proofs Require Import DecQ C01 C10a C10b C10c.

Section Mode.
Variables st pt : bool.
Variable uni : uclass.
Variable eng : engines.

Notation R := (R st).
Notation Rv := (Rv st pt).
Notation Rflds := (Rflds st).

(** * Booleans among related values *)
Definition as_bool (v : gv) : option bool := match v with VBool false b => Some b | _ => None end.

Lemma Rv_as_bool r1 r2 : Rv r1 r2 -> as_bool r1 = as_bool r2.
Proof.
  intros H. destruct (Rv_cases st pt r1 r2 H) as [H0|[Oa [Ob [_ [_ [_ [Ca Cb]]]]]]].
  - destruct (R_shape st r1 r2 H0) as [|b0|s|v1 v2 d1 d2 H1 H2 _ _|v1 v2 t1 t2 xs1 xs2 H1 H2 _ _ _ _ _ _|v1 v2 n fs1 fs2 H1 H2 _];
      try reflexivity.
    + destruct v1; try discriminate H1; destruct v2; try discriminate H2; reflexivity.
    + destruct v1; try discriminate H1; destruct v2; try discriminate H2; reflexivity.
    + destruct v1; try discriminate H1; destruct v2; try discriminate H2; reflexivity.
  - assert (E1 : as_bool r1 = None).
    { destruct Ca as [E|E]; rewrite E; [|reflexivity]. destruct (tgt r1); try discriminate Oa; reflexivity. }
    assert (E2 : as_bool r2 = None).
    { destruct Cb as [E|E]; rewrite E; [|reflexivity]. destruct (tgt r2); try discriminate Ob; reflexivity. }
    congruence.
Qed.

Lemma as_bool_some v b : as_bool v = Some b -> v = VBool false b.
Proof. destruct v as [|[|] ?| | | | | | | | | | |]; try discriminate. intros H; injection H as <-; reflexivity. Qed.

(** * opPath.Do *)
Lemma path_ops_rel (ev1 ev2 : pathop -> gv -> outcome gv) ops :
  (forall op, In op ops -> forall d1 d2, Rv d1 d2 -> orel Rv (ev1 op d1) (ev2 op d2)) ->
  forall prev pn d1 d2 le, Rv d1 d2 ->
  orel Rv (path_ops ev1 prev pn ops d1 le) (path_ops ev2 prev pn ops d2 le).
Proof.
  induction ops as [|op rest IH]; intros Hev prev pn d1 d2 le Hd.
  - cbn [path_ops]. destruct le as [[|t]|]; [exact I | exact I | exact Hd].
  - cbn [path_ops].
    destruct (match prev with Some p => pn && negb (pathop_qmark p) && negb (pathop_is_func op) | None => false end); [exact I|].
    pose proof (Hev op (or_introl eq_refl) d1 d2 Hd) as Ho.
    assert (IH' : forall prev pn d1 d2 le, Rv d1 d2 ->
              orel Rv (path_ops ev1 prev pn rest d1 le) (path_ops ev2 prev pn rest d2 le)).
    { apply IH. intros op' Hin. apply Hev. right. exact Hin. }
    destruct (ev1 op d1) as [v1|[|t1]|m1| |w1], (ev2 op d2) as [v2|[|t2]|m2| |w2]; cbn in Ho; try contradiction; try exact I.
    + rewrite (Rv_is_nil st pt v1 v2 Ho). apply IH'. exact Ho.
    + destruct (pathop_qmark op); [|exact I]. apply IH'. apply Rv_nil.
Qed.

(** * opLogicalOperation.Do *)
Lemma log_ops_rel (ev1 ev2 : operand -> outcome gv) t xs :
  (forall x, In x xs -> orel Rv (ev1 x) (ev2 x)) ->
  orel Rv (log_ops ev1 t xs) (log_ops ev2 t xs).
Proof.
  induction xs as [|x rest IH]; intros Hev.
  - cbn [log_ops]. destruct t; [apply Rv_bool | apply Rv_bool | exact I].
  - cbn [log_ops]. eapply orel_bind; [apply Hev; left; reflexivity|].
    intros r1 r2 Hr. pose proof (Rv_as_bool r1 r2 Hr) as Hb.
    assert (IH' : orel Rv (log_ops ev1 t rest) (log_ops ev2 t rest)).
    { apply IH. intros y Hy. apply Hev. right. exact Hy. }
    destruct (as_bool r2) as [b|] eqn:E2.
    + rewrite (as_bool_some r1 b Hb), (as_bool_some r2 b E2).
      destruct t; destruct b; try exact IH'; apply Rv_bool.
    + assert (N1 : forall A (f : bool -> A) (d : A), match r1 with VBool false b => f b | _ => d end = d)
        by (intros; destruct r1 as [|[|] ?| | | | | | | | | | |]; try discriminate Hb; reflexivity).
      assert (N2 : forall A (f : bool -> A) (d : A), match r2 with VBool false b => f b | _ => d end = d)
        by (intros; destruct r2 as [|[|] ?| | | | | | | | | | |]; try discriminate E2; reflexivity).
      rewrite N1, N2. apply Rv_bool.
Qed.

(** * opFilter.Do over an array *)
Lemma filter_elems_rel (ev1 ev2 : gv -> outcome gv) :
  (forall x y, R x y -> orel Rv (ev1 x) (ev2 y)) ->
  forall xs ys, Forall2 R xs ys -> orel (Forall2 R) (filter_elems ev1 xs) (filter_elems ev2 ys).
Proof.
  intros Hev xs ys H. induction H as [|x y xs ys Hxy Hr IH]; [constructor|].
  cbn [filter_elems]. eapply orel_bind; [apply Hev; exact Hxy|].
  intros r1 r2 Hrr. pose proof (Rv_as_bool r1 r2 Hrr) as Hb.
  destruct (as_bool r2) as [b|] eqn:E2.
  - rewrite (as_bool_some r1 b Hb), (as_bool_some r2 b E2).
    eapply orel_bind; [exact IH|]. intros l1 l2 Hl. cbn [orel].
    destruct b; [constructor; assumption | exact Hl].
  - assert (N1 : forall A (f : bool -> A) (d : A), match r1 with VBool false b => f b | _ => d end = d)
      by (intros; destruct r1 as [|[|] ?| | | | | | | | | | |]; try discriminate Hb; reflexivity).
    assert (N2 : forall A (f : bool -> A) (d : A), match r2 with VBool false b => f b | _ => d end = d)
      by (intros; destruct r2 as [|[|] ?| | | | | | | | | | |]; try discriminate E2; reflexivity).
    rewrite N1, N2. exact I.
Qed.

(** * opFunction.Do: the parameters *)
Lemma eval_params_rel (ev1 ev2 : node -> outcome gv) ps :
  (forall p, In p ps ->
     match p with
     | FPPath q => orel Rv (ev1 (NPath q)) (ev2 (NPath q))
     | FPLog l => orel Rv (ev1 (NLog l)) (ev2 (NLog l))
     | _ => True
     end) ->
  orel (Forall2 Rp) (eval_params ev1 ps) (eval_params ev2 ps).
Proof.
  induction ps as [|p rest IH]; intros Hev; [constructor|].
  cbn [eval_params].
  assert (IH' : orel (Forall2 Rp) (eval_params ev1 rest) (eval_params ev2 rest)).
  { apply IH. intros q Hq. apply Hev. right. exact Hq. }
  pose proof (Hev p (or_introl eq_refl)) as Hp.
  eapply orel_bind with (P := Forall2 Rp).
  - destruct p as [d|s|b|q|l].
    + cbn. repeat constructor; apply deqv_refl.
    + cbn. repeat constructor.
    + cbn. repeat constructor.
    + eapply orel_bind; [exact Hp|]. intros r1 r2 Hr. apply (spread_result_rel st pt). exact Hr.
    + eapply orel_bind; [exact Hp|]. intros r1 r2 Hr. apply (spread_result_rel st pt). exact Hr.
  - intros h1 h2 Hh. eapply orel_bind; [exact IH'|]. intros m1 m2 Hm. cbn [orel]. apply Forall2_app; assumption.
Qed.

(** * Select *)
Lemma flatten_rel r1 r2 : R r1 r2 -> Forall2 R (flatten_result r1) (flatten_result r2).
Proof.
  intros H. pose proof H as H0.
  destruct (R_shape st r1 r2 H) as [|b0|s|v1 v2 d1 d2 H1 H2 _ _|v1 v2 t1 t2 xs1 xs2 H1 H2 _ _ _ _ _ Hxs|v1 v2 n fs1 fs2 H1 H2 _].
  - repeat constructor.
  - repeat constructor.
  - repeat constructor.
  - destruct v1; try discriminate H1; destruct v2; try discriminate H2; repeat constructor; exact H0.
  - destruct v1; try discriminate H1; destruct v2; try discriminate H2;
      cbn [elems_of] in H1, H2; injection H1 as _ <-; injection H2 as _ <-; exact Hxs.
  - destruct v1; try discriminate H1; destruct v2; try discriminate H2; repeat constructor; exact H0.
Qed.

Lemma select_elems_rel (ev1 ev2 : gv -> outcome gv) :
  pt = false ->
  (forall x y, R x y -> orel Rv (ev1 x) (ev2 y)) ->
  forall xs ys, Forall2 R xs ys -> orel (Forall2 R) (select_elems ev1 xs) (select_elems ev2 ys).
Proof.
  intros Hpt Hev xs ys H. induction H as [|x y xs ys Hxy Hr IH]; [constructor|].
  cbn [select_elems]. eapply orel_bind; [apply Hev; exact Hxy|].
  intros r1 r2 Hrr. eapply orel_bind; [exact IH|]. intros m1 m2 Hm. cbn [orel].
  apply Forall2_app; [|exact Hm]. apply flatten_rel. apply (Rv_no_pt st pt); assumption.
Qed.

Definition kv_rel (a b : str * gv) : Prop := fst a = fst b /\ R (snd a) (snd b).

Lemma insert_kv_rel k v1 v2 l1 l2 :
  R v1 v2 -> Forall2 kv_rel l1 l2 -> Forall2 kv_rel (insert_kv (k, v1) l1) (insert_kv (k, v2) l2).
Proof.
  intros Hv H. induction H as [|[k1 x1] [k2 x2] r1 r2 [Hk Hx] Hr IH].
  - repeat constructor. exact Hv.
  - cbn [fst snd] in Hk, Hx. subst k2. cbn [insert_kv fst].
    destruct (str_ltb k k1).
    + constructor; [split; [reflexivity | exact Hv]|]. constructor; [split; [reflexivity | exact Hx] | exact Hr].
    + constructor; [split; [reflexivity | exact Hx] | exact IH].
Qed.

Lemma sorted_values_fields kvs fs :
  mfields kvs = Some fs ->
  all_some (map (fun '(k, v) => match key_sort_text k with Some s => Some (s, v) | None => None end) kvs) = Some fs.
Proof.
  revert fs. induction kvs as [|[k v] r IH]; intros fs H; cbn [mfields] in H.
  - injection H as <-. reflexivity.
  - destruct (mkey k) as [s|] eqn:Ek; [|discriminate]. destruct (mfields r) as [l|]; [|discriminate].
    injection H as <-. cbn [map all_some]. rewrite (IH l eq_refl).
    destruct k as [| | | |nm s0| | | | | | | |]; try discriminate Ek.
    cbn [key_sort_text].
    destruct nm; cbn in Ek.
    + destruct s0; [discriminate|]. injection Ek as <-. reflexivity.
    + injection Ek as <-. reflexivity.
Qed.

(** the two maps have the same key texts, so Select answers for both or
    declines both (two keys that print alike: a string and a named string
    with the same contents); when it answers, the values are related in
    order *)
Lemma sorted_values_rel kvs1 kvs2 fs1 fs2 :
  st = false -> mfields kvs1 = Some fs1 -> mfields kvs2 = Some fs2 -> Rflds fs1 fs2 ->
  match sorted_values kvs1, sorted_values kvs2 with
  | Some l1, Some l2 => Forall2 R l1 l2
  | None, None => True
  | _, _ => False
  end.
Proof.
  intros Hst M1 M2 Hf. unfold sorted_values.
  rewrite (sorted_values_fields kvs1 fs1 M1), (sorted_values_fields kvs2 fs2 M2).
  assert (Hk : map fst fs1 = map fst fs2).
  { clear M1 M2. induction Hf as [|[k1 v1] [k2 v2] r1 r2 [Hk _] _ IH]; [reflexivity|].
    cbn [fst] in Hk. unfold keq in Hk. rewrite Hst in Hk. subst k2. cbn [map fst]. rewrite IH. reflexivity. }
  rewrite <- Hk. destruct (str_nodupb (map fst fs1)); [|exact I].
  assert (Hs : Forall2 kv_rel (fold_right insert_kv [] fs1) (fold_right insert_kv [] fs2)).
  { clear M1 M2 Hk. induction Hf as [|[k1 v1] [k2 v2] r1 r2 [Hk [Hv _]] _ IH]; [constructor|].
    cbn [fst snd] in Hk, Hv. unfold keq in Hk. rewrite Hst in Hk. subst k2.
    rewrite !(fcv_false st _ Hst) in Hv. cbn [fold_right]. apply insert_kv_rel; assumption. }
  clear Hf Hk. induction Hs as [|a b r1 r2 [_ Hab] _ IH]; [constructor|]. cbn [map]. constructor; assumption.
Qed.

Definition select_body (ev : gv -> outcome gv) (val : gv) : outcome gv :=
  match rv_v (deref1 (value_of val)) with
  | VSlice _ _ xs | VArray _ xs =>
    do rs <- select_elems ev xs;
    Ok (VSlice EAny (match rs with [] => true | _ => false end) rs)
  | VMap _ _ _ kvs =>
    match sorted_values kvs with
    | Some vs => do rs <- select_elems ev vs;
                 Ok (VSlice EAny (match rs with [] => true | _ => false end) rs)
    | None => Declined "Select over a map whose keys have no modelled printed form, or print alike"
    end
  | _ => fail "unsupported type; expected array or map"
  end.

Lemma select_result_rel rs1 rs2 :
  Forall2 R rs1 rs2 ->
  Rv (VSlice EAny (match rs1 with [] => true | _ => false end) rs1)
     (VSlice EAny (match rs2 with [] => true | _ => false end) rs2).
Proof.
  intros H. apply R_Rv. eapply R_seq; try reflexivity; try exact I; try (intros E; discriminate E); [|exact H].
  destruct H; reflexivity.
Qed.

Lemma select_body_rel (ev1 ev2 : gv -> outcome gv) v1 v2 :
  st = false -> pt = false ->
  (forall x y, R x y -> orel Rv (ev1 x) (ev2 y)) ->
  cls st pt v1 v2 -> orel Rv (select_body ev1 v1) (select_body ev2 v2).
Proof.
  intros Hst Hpt Hev Hc. unfold select_body. rewrite !tgt_deref.
  destruct Hc as [|b|s|d1 d2 Hd|v1 v2 t1 t2 xs1 xs2 H1 H2 Hn A1 A2 T1 T2 Hxs|x y n fs1 fs2 Pa Pb H1 H2 Hf];
    try exact I.
  - assert (E1 : forall A (f : list gv -> A) (g : list (gv * gv) -> A) (d : A),
              match tgt v1 with VSlice _ _ xs | VArray _ xs => f xs | VMap _ _ _ kvs => g kvs | _ => d end = f xs1).
    { intros. destruct v1; try discriminate H1; cbn [elems_of] in H1; injection H1 as _ <-; reflexivity. }
    assert (E2 : forall A (f : list gv -> A) (g : list (gv * gv) -> A) (d : A),
              match tgt v2 with VSlice _ _ xs | VArray _ xs => f xs | VMap _ _ _ kvs => g kvs | _ => d end = f xs2).
    { intros. destruct v2; try discriminate H2; cbn [elems_of] in H2; injection H2 as _ <-; reflexivity. }
    rewrite E1, E2.
    eapply orel_bind; [apply select_elems_rel; eassumption|].
    intros rs1 rs2 Hrs. apply select_result_rel. exact Hrs.
  - destruct (objlike_map_only st pt x n fs1 Hst Hpt Pa H1) as [kt1 [vt1 [kvs1 [-> M1]]]].
    destruct (objlike_map_only st pt y n fs2 Hst Hpt Pb H2) as [kt2 [vt2 [kvs2 [-> M2]]]].
    cbn [tgt].
    pose proof (sorted_values_rel kvs1 kvs2 fs1 fs2 Hst M1 M2 Hf) as Hl.
    destruct (sorted_values kvs1) as [l1|], (sorted_values kvs2) as [l2|]; try contradiction Hl; [|exact I].
    eapply orel_bind; [apply select_elems_rel; eassumption|].
    intros rs1 rs2 Hrs. apply select_result_rel. exact Hrs.
Qed.

(** * The fragment of queries *)
Fixpoint frag (fuel : nat) (n : node) : bool :=
  match fuel with
  | O => true
  | S k =>
    match n with
    | NTop (TopP p) => frag k (NPath p)
    | NTop (TopL l) => frag k (NLog l)
    | NPath (Path _ _ _ _ ops _) => forallb (fun o => frag k (NOp o)) ops
    | NOp (PIdent _ _ _) => true
    | NOp (PFilter l _) => frag k (NLog l)
    | NOp (PFunc f) => frag k (NFunc f)
    | NLog (LogOp _ _ _ xs _) =>
        forallb (fun x => match x with OpP p => frag k (NPath p) | OpL l => frag k (NLog l) end) xs
    | NFunc (Func _ ft ps _) =>
        forallb (fun p => match p with
                          | FPPath q => frag k (NPath q)
                          | FPLog l => frag k (NLog l)
                          | _ => true
                          end) ps &&
        match find_fdesc_key ft func_table with
        | None => true
        | Some d =>
          if String.eqb (fd_key d) "Select" then
            negb st && negb pt &&
            match ps with
            | [FPStr q] => match parse_string uni q with Ok t => frag k (NTop t) | _ => true end
            | _ => false
            end
          else allowed st pt (fd_key d)
        end
    end
  end.

(** * The evaluator respects the relation *)
Theorem eval_rel : forall fuel n c1 c2 o1 o2,
  frag fuel n = true -> Rv c1 c2 -> Rv o1 o2 ->
  orel Rv (eval uni eng fuel n c1 o1) (eval uni eng fuel n c2 o2).
Proof.
  induction fuel as [|k IH]; intros n c1 c2 o1 o2 Hfr Hc Ho; [exact I|].
  destruct n as [p|o|f|l|t]; cbn [eval frag] in *.
  - (* path *)
    destruct p as [inv root isf me ops us].
    destruct (root && isf); [exact I|].
    apply path_ops_rel.
    + intros op Hin d1 d2 Hd. apply IH; [|exact Hd|exact Ho].
      rewrite forallb_forall in Hfr. apply Hfr. exact Hin.
    + assert (Hdata : Rv (if root then o1 else c1) (if root then o2 else c2)) by (destruct root; assumption).
      destruct ops; [apply Rv_convert_unless_string|]; exact Hdata.
  - (* one operation *)
    destruct o as [name q us|l us|f].
    + apply do_ident_rel. exact Hc.
    + pose proof (gass_respects st pt c1 c2 Hc) as Hg.
      destruct (get_as_struct_or_slice c1) as [[v1 [|]]|], (get_as_struct_or_slice c2) as [[v2 b2]|];
        cbn [gass_rel] in Hg; try contradiction; try exact I.
      * destruct Hg as [-> Hg].
        eapply orel_bind; [apply IH; [exact Hfr | apply R_Rv; exact Hg | exact Ho]|].
        intros r1 r2 Hr. pose proof (Rv_as_bool r1 r2 Hr) as Hb.
        destruct (as_bool r2) as [b|] eqn:E2.
        -- rewrite (as_bool_some r1 b Hb), (as_bool_some r2 b E2).
           destruct b; [apply R_Rv; exact Hg | apply Rv_nil].
        -- assert (N1 : match r1 with VBool false true => Ok v1 | _ => Ok VNil end = Ok VNil)
             by (destruct r1 as [|[|] ?| | | | | | | | | | |]; try discriminate Hb; reflexivity).
           assert (N2 : match r2 with VBool false true => Ok v2 | _ => Ok VNil end = Ok VNil)
             by (destruct r2 as [|[|] ?| | | | | | | | | | |]; try discriminate E2; reflexivity).
           rewrite N1, N2. apply Rv_nil.
      * destruct Hg as [-> [xs1 [xs2 [-> [-> Hg]]]]].
        eapply orel_bind.
        -- apply filter_elems_rel; [|exact Hg]. intros x y Hxy. apply IH; [exact Hfr | apply R_Rv; exact Hxy | exact Ho].
        -- intros ys1 ys2 Hys. cbn [orel]. apply R_Rv.
           eapply R_seq; try reflexivity; try exact I; try (intros E; discriminate E). exact Hys.
    + apply IH; assumption.
  - (* function *)
    destruct f as [inv ft ps us].
    apply andb_true_iff in Hfr. destruct Hfr as [Hps Hfr].
    assert (Hpar : orel (Forall2 Rp) (eval_params (fun m => eval uni eng k m c1 o1) ps)
                                     (eval_params (fun m => eval uni eng k m c2 o2) ps)).
    { apply eval_params_rel. intros p Hin. rewrite forallb_forall in Hps. specialize (Hps p Hin).
      destruct p as [dq|q|bq|pq|lq]; try exact I; apply IH; assumption. }
    destruct (find_fdesc_key ft func_table) as [d|].
    2:{ eapply orel_bind; [exact Hpar|]. intros; exact I. }
    destruct (String.eqb (fd_key d) "Select") eqn:Es.
    + apply andb_true_iff in Hfr. destruct Hfr as [Hm Hq]. apply andb_true_iff in Hm. destruct Hm as [Hst Hpt].
      apply negb_true_iff in Hst. apply negb_true_iff in Hpt.
      destruct ps as [|[dq|q|bq|pq|lq] [|p2 rest]]; try discriminate Hq.
      cbn [eval_params bind app]. cbn [params_first_string len_is length Nat.eqb negb strings filter_map bind].
      destruct (parse_string uni q) as [t|e|m| |w]; try exact I.
      change (orel Rv (select_body (fun x => eval uni eng k (NTop t) x x) (convert_number c1))
                      (select_body (fun x => eval uni eng k (NTop t) x x) (convert_number c2))).
      apply select_body_rel; [exact Hst | exact Hpt | | apply cls_of_Rv; exact Hc].
      intros x y Hxy. apply IH; [exact Hq | apply R_Rv; exact Hxy | apply R_Rv; exact Hxy].
    + eapply orel_bind; [exact Hpar|].
      intros rt1 rt2 Hrt. apply run_func_rel; [exact Hfr | apply cls_of_Rv; exact Hc | exact Hrt].
  - (* logical operation *)
    destruct l as [inv isf t xs us].
    apply log_ops_rel. intros x Hin. rewrite forallb_forall in Hfr. specialize (Hfr x Hin).
    destruct x as [p|l]; apply IH; assumption.
  - destruct t as [p|l]; apply IH; assumption.
Qed.

End Mode.
