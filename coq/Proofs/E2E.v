(* Proofs/E2E.v — end to end: the function-level theorems of Proofs/C04.v,
   C05.v and C18.v (about [run_func] on already-resolved arguments) connected to
   the evaluation of whole queries `$.a.F(args)` on documents, for every Go
   carrier of the numbers involved and every way of supplying the arguments
   (a literal, or the value of another rooted path `$.b`). *)
From Coq Require Import QArith Qabs.
From Mpath.Model Require Import Base Dec Types GoVal Ast Lexer Parser Funcs Eval.
From Mpath.Generated Require Import FuncTable.
From Mpath.Proofs Require Import DecQ Strings C04 C05 C06 C06b C17 C18.

Local Open Scope Z_scope.

(* ------------------------------------------------------------------ *)
(** * 0. The AST shapes                                                *)
(* ------------------------------------------------------------------ *)

(** `$.k` — a rooted path of one key.  What the parser produces for it, as a
    query and as a function argument, is [key_path false false k false k "$.k"]
    ([E2E_parser_shapes]); the theorems hold for every value of the decoration
    fields (invalid flag, must-end flag, `?` mark, userStrings). *)
Definition key_path (inv me : bool) (k : str) (q : bool) (u us : str) : path :=
  Path inv true false me [PIdent k q u] us.

(** `$.k.F(ps)` *)
Definition call_path (inv me : bool) (k : str) (q : bool) (u1 : str)
                     (finv : bool) (name : string) (ps : list param) (u2 u3 : str) : path :=
  Path inv true false me [PIdent k q u1; PFunc (Func finv (bs name) ps u2)] u3.

(** key [k] of the document — a map of any key / value type and nil flag, or a
    struct — holds [g]: [obj_row k doc g] of Proofs/C06b.v.  The map form: *)
Lemma map_row k kt vt isnil kvs g :
  map_lookup_fold k kvs = Some g -> obj_row k (VMap kt vt isnil kvs) g.
Proof. apply or_map. Qed.

(** stepping a key of an object yields the held value, converted unless it is
    a Go string *)
Lemma do_ident_row k doc g : obj_row k doc g -> do_ident k doc = Ok (convert_unless_string g).
Proof.
  intros H. destruct H as [kt vt isnil kvs g Hl|fs g Hl].
  - unfold do_ident. cbn. rewrite Hl. reflexivity.
  - unfold do_ident. cbn. unfold get_values_by_name. cbn.
    unfold get_field_by_name. cbn. rewrite Hl. reflexivity.
Qed.

(* ------------------------------------------------------------------ *)
(** * 1. Argument resolution                                           *)
(* ------------------------------------------------------------------ *)

(** what an argument denotes on a document: a literal denotes itself; a path
    `$.k` denotes the number carried by the value under k (any Go carrier), or
    the Go string / bool held there.
    Side conditions: none on the string — a Go string held as data stays a
    string even when it spells a number ([do_ident] does not convert strings),
    so [pd_path_str] needs no [dec_of_string s = None]. *)
Inductive param_denotes (doc : gv) : param -> rparam -> Prop :=
| pd_num d : param_denotes doc (FPNum d) (RNum d)
| pd_str s : param_denotes doc (FPStr s) (RStr s)
| pd_bool b : param_denotes doc (FPBool b) (RBool b)
| pd_path_num inv me k q u us g d :
    obj_row k doc g -> num_carrier g d ->
    param_denotes doc (FPPath (key_path inv me k q u us)) (RNum d)
| pd_path_str inv me k q u us s :
    obj_row k doc (VStr false s) ->
    param_denotes doc (FPPath (key_path inv me k q u us)) (RStr s)
| pd_path_bool inv me k q u us b :
    obj_row k doc (VBool false b) ->
    param_denotes doc (FPPath (key_path inv me k q u us)) (RBool b).

Section E2E.
Variable uni : uclass.
Variable eng : engines.

(** `$.k` evaluates to the converted value under k, whatever the current
    element is (a rooted path reads the document) *)
Lemma eval_key_path fuel inv me k q u us cur doc v :
  do_ident k doc = Ok v ->
  eval uni eng (S (S fuel)) (NPath (key_path inv me k q u us)) cur doc = Ok v.
Proof.
  intros H. unfold key_path. cbn [eval andb path_ops pathop_qmark]. rewrite H. reflexivity.
Qed.

Lemma eval_key_path_row fuel inv me k q u us cur doc g :
  obj_row k doc g ->
  eval uni eng (S (S fuel)) (NPath (key_path inv me k q u us)) cur doc = Ok (convert_unless_string g).
Proof. intros H. apply eval_key_path. apply do_ident_row. exact H. Qed.

Theorem E2E_eval_params : forall fuel cur doc ps rs,
  Forall2 (param_denotes doc) ps rs ->
  eval_params (fun m => eval uni eng (S (S fuel)) m cur doc) ps = Ok rs.
Proof.
  intros fuel cur doc ps rs H. induction H as [|p r ps rs Hp Hr IH]; [reflexivity|].
  cbn [eval_params]. rewrite IH.
  destruct Hp as [d|s|b|inv me k q u us g d Hrow Hc|inv me k q u us s Hrow|inv me k q u us b Hrow];
    try reflexivity.
  - rewrite (eval_key_path_row fuel inv me k q u us cur doc g Hrow).
    rewrite (convert_unless_string_carrier g d Hc). reflexivity.
  - rewrite (eval_key_path_row fuel inv me k q u us cur doc _ Hrow). reflexivity.
  - rewrite (eval_key_path_row fuel inv me k q u us cur doc _ Hrow).
    rewrite (proj2 (convert_bool false b)). reflexivity.
Qed.

(* ------------------------------------------------------------------ *)
(** * 2. `$.a.F(args)`                                                 *)
(* ------------------------------------------------------------------ *)

(** the function node that follows a key is evaluated on the (converted)
    value under the key *)
Lemma eval_key_then_func fuel inv me k q u1 u3 f cur doc v :
  do_ident k doc = Ok v ->
  eval uni eng (S (S fuel)) (NPath (Path inv true false me [PIdent k q u1; PFunc f] u3)) cur doc
  = eval uni eng fuel (NFunc f) v doc.
Proof.
  intros H. cbn [eval andb path_ops pathop_qmark pathop_is_func negb]. rewrite H.
  cbn [path_ops pathop_qmark pathop_is_func negb]. rewrite !andb_false_r.
  cbn [eval].
  destruct (eval uni eng fuel (NFunc f) v doc) as [v'|[|tg]|m| |w]; reflexivity.
Qed.

(** a function node of the table other than Select: arguments resolved with
    the receiver as current element, then [run_func] on the receiver after
    [convert_number] *)
Lemma eval_func_node fuel finv name ps us cur orig :
  plain_function name = true ->
  eval uni eng (S fuel) (NFunc (Func finv (bs name) ps us)) cur orig
  = (do rt <- eval_params (fun m => eval uni eng fuel m cur orig) ps;
     run_func eng name rt (convert_number cur)).
Proof.
  intros Hp. destruct (plain_function_spec name Hp) as [fd [Hf [Hk Hs]]].
  cbn [eval]. destruct (eval_params _ ps) as [rt|e|m| |w]; cbn [bind]; try reflexivity.
  rewrite Hf, Hk, Hs. reflexivity.
Qed.

(** the general form: whatever the value under the key is *)
Theorem E2E_call : forall fuel inv me a q u1 u2 u3 finv name ps rs cur doc g,
  obj_row a doc g -> Forall2 (param_denotes doc) ps rs -> plain_function name = true ->
  eval uni eng (S (S (S (S (S fuel))))) (NPath (call_path inv me a q u1 finv name ps u2 u3)) cur doc
  = run_func eng name rs (convert_number (convert_unless_string g)).
Proof.
  intros fuel inv me a q u1 u2 u3 finv name ps rs cur doc g Hrow Hps Hp. unfold call_path.
  rewrite (eval_key_then_func (S (S (S fuel))) inv me a q u1 u3 _ cur doc _ (do_ident_row a doc g Hrow)).
  rewrite (eval_func_node (S (S fuel)) finv name ps u2 _ doc Hp).
  rewrite (E2E_eval_params fuel _ doc ps rs Hps). reflexivity.
Qed.

(** a number in any Go carrier: the function runs on its decimal *)
Theorem E2E_call_on_number : forall fuel inv me a q u1 u2 u3 finv name ps rs cur doc ga da,
  obj_row a doc ga -> num_carrier ga da ->
  Forall2 (param_denotes doc) ps rs -> plain_function name = true ->
  eval uni eng (S (S (S (S (S fuel))))) (NPath (call_path inv me a q u1 finv name ps u2 u3)) cur doc
  = run_func eng name rs (VDec da).
Proof.
  intros fuel inv me a q u1 u2 u3 finv name ps rs cur doc ga da Hrow Hc Hps Hp.
  rewrite (E2E_call fuel inv me a q u1 u2 u3 finv name ps rs cur doc ga Hrow Hps Hp).
  rewrite (convert_unless_string_carrier ga da Hc). reflexivity.
Qed.

(** the statement in the map form *)
Corollary E2E_call_on_number_map : forall fuel inv me a q u1 u2 u3 finv name ps rs kt vt isnil kvs ga da,
  map_lookup_fold a kvs = Some ga -> num_carrier ga da ->
  Forall2 (param_denotes (VMap kt vt isnil kvs)) ps rs -> plain_function name = true ->
  eval uni eng (S (S (S (S (S fuel))))) (NPath (call_path inv me a q u1 finv name ps u2 u3))
       (VMap kt vt isnil kvs) (VMap kt vt isnil kvs)
  = run_func eng name rs (VDec da).
Proof.
  intros fuel inv me a q u1 u2 u3 finv name ps rs kt vt isnil kvs ga da Hl.
  apply E2E_call_on_number. apply map_row. exact Hl.
Qed.

(** a Go string that is not a numeral: the function runs on the string.
    Side condition [dec_of_string s = None]: the receiver of a function goes
    through convertToDecimalIfNumber ([convert_number]), which turns a numeral
    string into its decimal — see [E2E_call_on_numeric_string]. *)
Theorem E2E_call_on_string : forall fuel inv me a q u1 u2 u3 finv name ps rs cur doc s,
  obj_row a doc (VStr false s) -> dec_of_string s = None ->
  Forall2 (param_denotes doc) ps rs -> plain_function name = true ->
  eval uni eng (S (S (S (S (S fuel))))) (NPath (call_path inv me a q u1 finv name ps u2 u3)) cur doc
  = run_func eng name rs (VStr false s).
Proof.
  intros fuel inv me a q u1 u2 u3 finv name ps rs cur doc s Hrow Hn Hps Hp.
  rewrite (E2E_call fuel inv me a q u1 u2 u3 finv name ps rs cur doc _ Hrow Hps Hp).
  rewrite go_string_unchanged. rewrite (proj1 (convert_string false s Hn)). reflexivity.
Qed.

(** a string (of type string or of a named string type) that spells a number:
    the function runs on that number *)
Theorem E2E_call_on_numeric_string : forall fuel inv me a q u1 u2 u3 finv name ps rs cur doc nm s d,
  obj_row a doc (VStr nm s) -> dec_of_string s = Some d ->
  Forall2 (param_denotes doc) ps rs -> plain_function name = true ->
  eval uni eng (S (S (S (S (S fuel))))) (NPath (call_path inv me a q u1 finv name ps u2 u3)) cur doc
  = run_func eng name rs (VDec d).
Proof.
  intros fuel inv me a q u1 u2 u3 finv name ps rs cur doc nm s d Hrow Hn Hps Hp.
  rewrite (E2E_call fuel inv me a q u1 u2 u3 finv name ps rs cur doc _ Hrow Hps Hp).
  assert (Hc : convert_number (VStr nm s) = VDec d).
  { unfold convert_number, convert_number_check, convert_number_check_base.
    assert (Hv : (if is_empty_value (value_of (VStr nm s)) then value_of (VStr nm s) else deref1 (value_of (VStr nm s))) = value_of (VStr nm s))
      by (destruct (is_empty_value _); reflexivity).
    rewrite Hv. cbn. rewrite Hn. reflexivity. }
  destruct nm.
  - unfold convert_unless_string. cbn [is_go_string]. rewrite Hc. reflexivity.
  - rewrite go_string_unchanged, Hc. reflexivity.
Qed.

Lemma eval_top k p cur orig :
  eval uni eng (S k) (NTop (TopP p)) cur orig = eval uni eng k (NPath p) cur orig.
Proof. reflexivity. Qed.

(** at the level of the library's entry point ([do_top] = Do on the parsed query) *)
Corollary E2E_do_top : forall inv me a q u1 u2 u3 finv name ps rs doc g,
  obj_row a doc g -> Forall2 (param_denotes doc) ps rs -> plain_function name = true ->
  do_top uni eng (TopP (call_path inv me a q u1 finv name ps u2 u3)) doc
  = run_func eng name rs (convert_number (convert_unless_string g)).
Proof.
  intros inv me a q u1 u2 u3 finv name ps rs doc g Hrow Hps Hp. unfold do_top.
  change default_fuel with (S (S (S (S (S (S 4090%nat)))))). generalize 4090%nat. intros n.
  rewrite eval_top. apply E2E_call; assumption.
Qed.

(* ------------------------------------------------------------------ *)
(** * 3. Corollaries                                                   *)
(* ------------------------------------------------------------------ *)

(** the source value of a carrier is the value of its decimal *)
Lemma carrier_source g d q : num_carrier g d -> source_value g = Some q -> (dval d == q)%Q.
Proof.
  intros Hc Hs. destruct (carrier_value g d Hc) as [q' [E V]].
  rewrite Hs in E. injection E as <-. exact V.
Qed.

(** the outcome is the boolean that decides P *)
Definition decides (o : outcome gv) (P : Prop) : Prop :=
  exists b, o = Ok (vbool b) /\ (b = true <-> P).

Section Queries.
(** the decoration of the query: fuel offset, flags, `?` mark, userStrings,
    the current element; [p…] those of a path argument, [r…] of a second one *)
Variables (fuel : nat) (inv me q : bool) (u1 u2 u3 : str) (finv : bool) (cur : gv).
Variables (pinv pme pq : bool) (pu pus : str).
Variables (rinv rme rq : bool) (ru rus : str).

Local Notation query a name ps doc :=
  (eval uni eng (S (S (S (S (S fuel))))) (NPath (call_path inv me a q u1 finv name ps u2 u3)) cur doc).
Local Notation arg b := (FPPath (key_path pinv pme b pq pu pus)).
Local Notation arg' b := (FPPath (key_path rinv rme b rq ru rus)).

Lemma q_num name p r a doc ga da :
  obj_row a doc ga -> num_carrier ga da -> param_denotes doc p r -> plain_function name = true ->
  query a name [p] doc = run_func eng name [r] (VDec da).
Proof.
  intros Hrow Hc Hp Hn.
  apply (E2E_call_on_number fuel inv me a q u1 u2 u3 finv name [p] [r] cur doc ga da Hrow Hc); [|exact Hn].
  constructor; [exact Hp|constructor].
Qed.

Lemma q_str name ps rs a doc s :
  obj_row a doc (VStr false s) -> dec_of_string s = None ->
  Forall2 (param_denotes doc) ps rs -> plain_function name = true ->
  query a name ps doc = run_func eng name rs (VStr false s).
Proof. intros Hrow Hs Hp Hn. apply E2E_call_on_string; assumption. Qed.

Lemma arg_num b doc gb db : obj_row b doc gb -> num_carrier gb db -> param_denotes doc (arg b) (RNum db).
Proof. intros Hrow Hc. exact (pd_path_num doc pinv pme b pq pu pus gb db Hrow Hc). Qed.

(** ** 3a. Arithmetic *)

(** the receiver in any carrier; the argument anything that denotes a number
    of value qb *)
Theorem E2E_arith : forall a p doc ga da db qa qb,
  obj_row a doc ga -> num_carrier ga da -> source_value ga = Some qa ->
  param_denotes doc p (RNum db) -> (dval db == qb)%Q ->
  (exists r, query a "Add" [p] doc = Ok (VDec r) /\ (dval r == qa + qb)%Q) /\
  (exists r, query a "Subtract" [p] doc = Ok (VDec r) /\ (dval r == qa - qb)%Q) /\
  (exists r, query a "Multiply" [p] doc = Ok (VDec r) /\ (dval r == qa * qb)%Q).
Proof.
  intros a p doc ga da db qa qb Hrow Hc Hs Hp Hqb.
  pose proof (carrier_source ga da qa Hc Hs) as Hqa.
  split; [|split].
  - rewrite (q_num "Add" p (RNum db) a doc ga da Hrow Hc Hp eq_refl).
    destruct (add_exact eng [RNum db] da db (params_first_number_lit db)) as [r [Hr Hv]].
    exists r. split; [exact Hr|]. rewrite Hv, Hqa, Hqb. reflexivity.
  - rewrite (q_num "Subtract" p (RNum db) a doc ga da Hrow Hc Hp eq_refl).
    destruct (sub_exact eng [RNum db] da db (params_first_number_lit db)) as [r [Hr Hv]].
    exists r. split; [exact Hr|]. rewrite Hv, Hqa, Hqb. reflexivity.
  - rewrite (q_num "Multiply" p (RNum db) a doc ga da Hrow Hc Hp eq_refl).
    destruct (mul_exact eng [RNum db] da db (params_first_number_lit db)) as [r [Hr Hv]].
    exists r. split; [exact Hr|]. rewrite Hv, Hqa, Hqb. reflexivity.
Qed.

(** `$.a.Add($.b)`, `$.a.Subtract($.b)`, `$.a.Multiply($.b)`: a and b in ANY carriers *)
Theorem E2E_arith_path : forall a b doc ga gb da db qa qb,
  obj_row a doc ga -> obj_row b doc gb -> num_carrier ga da -> num_carrier gb db ->
  source_value ga = Some qa -> source_value gb = Some qb ->
  (exists r, query a "Add" [arg b] doc = Ok (VDec r) /\ (dval r == qa + qb)%Q) /\
  (exists r, query a "Subtract" [arg b] doc = Ok (VDec r) /\ (dval r == qa - qb)%Q) /\
  (exists r, query a "Multiply" [arg b] doc = Ok (VDec r) /\ (dval r == qa * qb)%Q).
Proof.
  intros a b doc ga gb da db qa qb Ha Hb Hca Hcb Hqa Hqb.
  apply (E2E_arith a (arg b) doc ga da db qa qb Ha Hca Hqa (arg_num b doc gb db Hb Hcb)
           (carrier_source gb db qb Hcb Hqb)).
Qed.

(** `$.a.Add(d)` … with a literal *)
Theorem E2E_arith_literal : forall a d doc ga da qa,
  obj_row a doc ga -> num_carrier ga da -> source_value ga = Some qa ->
  (exists r, query a "Add" [FPNum d] doc = Ok (VDec r) /\ (dval r == qa + dval d)%Q) /\
  (exists r, query a "Subtract" [FPNum d] doc = Ok (VDec r) /\ (dval r == qa - dval d)%Q) /\
  (exists r, query a "Multiply" [FPNum d] doc = Ok (VDec r) /\ (dval r == qa * dval d)%Q).
Proof.
  intros a d doc ga da qa Ha Hca Hqa.
  apply (E2E_arith a (FPNum d) doc ga da d qa (dval d) Ha Hca Hqa (pd_num doc d) (Qeq_refl _)).
Qed.

(** Divide, with any argument denoting a non-zero number (the computable side
    condition [coef db <> 0] is the function's own zero-divisor test): within
    half a unit of the 16th decimal place of the exact quotient of the SOURCE
    values *)
Theorem E2E_divide : forall a p doc ga da db qa qb,
  obj_row a doc ga -> num_carrier ga da -> source_value ga = Some qa ->
  param_denotes doc p (RNum db) -> (dval db == qb)%Q -> coef db <> 0 ->
  exists r, query a "Divide" [p] doc = Ok (VDec r) /\
            (Qabs (dval r - qa / qb) <= (1 # 2) * pow10Q (-16))%Q.
Proof.
  intros a p doc ga da db qa qb Hrow Hc Hs Hp Hqb Hz.
  pose proof (carrier_source ga da qa Hc Hs) as Hqa.
  rewrite (q_num "Divide" p (RNum db) a doc ga da Hrow Hc Hp eq_refl).
  destruct (div_half_unit eng [RNum db] da db (params_first_number_lit db) Hz) as [r [Hr Hv]].
  exists r. split; [exact Hr|]. rewrite <- Hqa, <- Hqb. exact Hv.
Qed.

(** ** 3b. Comparisons *)

Theorem E2E_compare : forall a p doc ga da db qa qb,
  obj_row a doc ga -> num_carrier ga da -> source_value ga = Some qa ->
  param_denotes doc p (RNum db) -> (dval db == qb)%Q ->
  decides (query a "Less" [p] doc) (qa < qb)%Q /\
  decides (query a "LessOrEqual" [p] doc) (qa <= qb)%Q /\
  decides (query a "Greater" [p] doc) (qb < qa)%Q /\
  decides (query a "GreaterOrEqual" [p] doc) (qb <= qa)%Q /\
  decides (query a "Equal" [p] doc) (qa == qb)%Q /\
  decides (query a "NotEqual" [p] doc) (~ qa == qb)%Q.
Proof.
  intros a p doc ga da db qa qb Hrow Hc Hs Hp Hqb.
  pose proof (carrier_source ga da qa Hc Hs) as Hqa.
  destruct (comparisons_by_name eng [RNum db] da db (params_first_number_lit db)) as [Hlt [Hle [Hgt Hge]]].
  destruct (equal_numbers eng db da) as [Heq Hne].
  unfold decides.
  split; [|split; [|split; [|split; [|split]]]].
  - rewrite (q_num "Less" p (RNum db) a doc ga da Hrow Hc Hp eq_refl), Hlt.
    eexists; split; [reflexivity|]. rewrite <- Hqa, <- Hqb. apply dlt_iff.
  - rewrite (q_num "LessOrEqual" p (RNum db) a doc ga da Hrow Hc Hp eq_refl), Hle.
    eexists; split; [reflexivity|]. rewrite <- Hqa, <- Hqb. apply dle_iff.
  - rewrite (q_num "Greater" p (RNum db) a doc ga da Hrow Hc Hp eq_refl), Hgt.
    eexists; split; [reflexivity|]. rewrite <- Hqa, <- Hqb. apply dgt_iff.
  - rewrite (q_num "GreaterOrEqual" p (RNum db) a doc ga da Hrow Hc Hp eq_refl), Hge.
    eexists; split; [reflexivity|]. rewrite <- Hqa, <- Hqb. apply dge_iff.
  - rewrite (q_num "Equal" p (RNum db) a doc ga da Hrow Hc Hp eq_refl), Heq.
    eexists; split; [reflexivity|]. rewrite <- Hqa, <- Hqb. apply deq_iff.
  - rewrite (q_num "NotEqual" p (RNum db) a doc ga da Hrow Hc Hp eq_refl), Hne.
    eexists; split; [reflexivity|]. rewrite <- Hqa, <- Hqb.
    pose proof (deq_iff da db) as Hd. destruct (deq da db); cbn [negb]; split; intros H.
    + discriminate.
    + exfalso. apply H. apply Hd. reflexivity.
    + intros E. apply Hd in E. discriminate.
    + reflexivity.
Qed.

(** `$.a.Less($.b)` …: a and b in ANY carriers *)
Theorem E2E_compare_path : forall a b doc ga gb da db qa qb,
  obj_row a doc ga -> obj_row b doc gb -> num_carrier ga da -> num_carrier gb db ->
  source_value ga = Some qa -> source_value gb = Some qb ->
  decides (query a "Less" [arg b] doc) (qa < qb)%Q /\
  decides (query a "LessOrEqual" [arg b] doc) (qa <= qb)%Q /\
  decides (query a "Greater" [arg b] doc) (qb < qa)%Q /\
  decides (query a "GreaterOrEqual" [arg b] doc) (qb <= qa)%Q /\
  decides (query a "Equal" [arg b] doc) (qa == qb)%Q /\
  decides (query a "NotEqual" [arg b] doc) (~ qa == qb)%Q.
Proof.
  intros a b doc ga gb da db qa qb Ha Hb Hca Hcb Hqa Hqb.
  apply (E2E_compare a (arg b) doc ga da db qa qb Ha Hca Hqa (arg_num b doc gb db Hb Hcb)
           (carrier_source gb db qb Hcb Hqb)).
Qed.

(** `$.a.Less(d)` … with a literal *)
Theorem E2E_compare_literal : forall a d doc ga da qa,
  obj_row a doc ga -> num_carrier ga da -> source_value ga = Some qa ->
  decides (query a "Less" [FPNum d] doc) (qa < dval d)%Q /\
  decides (query a "LessOrEqual" [FPNum d] doc) (qa <= dval d)%Q /\
  decides (query a "Greater" [FPNum d] doc) (dval d < qa)%Q /\
  decides (query a "GreaterOrEqual" [FPNum d] doc) (dval d <= qa)%Q /\
  decides (query a "Equal" [FPNum d] doc) (qa == dval d)%Q /\
  decides (query a "NotEqual" [FPNum d] doc) (~ qa == dval d)%Q.
Proof.
  intros a d doc ga da qa Ha Hca Hqa.
  apply (E2E_compare a (FPNum d) doc ga da d qa (dval d) Ha Hca Hqa (pd_num doc d) (Qeq_refl _)).
Qed.

(** ** 3c. Storage invariance *)

Definition comparison_names : list string :=
  ["Less"; "LessOrEqual"; "Greater"; "GreaterOrEqual"; "Equal"; "NotEqual"].
Definition arithmetic_names : list string := ["Add"; "Subtract"; "Multiply"].

(** two documents holding the same numbers (as rationals) in whatever
    carriers, the argument supplied in whatever way (literal or path, possibly
    differently in the two queries): the six comparisons give the same answer *)
Theorem E2E_compare_storage_invariant : forall a p p' doc doc' ga ga' da da' db db' qa qa',
  obj_row a doc ga -> obj_row a doc' ga' -> num_carrier ga da -> num_carrier ga' da' ->
  source_value ga = Some qa -> source_value ga' = Some qa' -> (qa == qa')%Q ->
  param_denotes doc p (RNum db) -> param_denotes doc' p' (RNum db') -> (dval db == dval db')%Q ->
  forall name, In name comparison_names ->
  query a name [p] doc = query a name [p'] doc'.
Proof.
  intros a p p' doc doc' ga ga' da da' db db' qa qa' Ha Ha' Hc Hc' Hs Hs' Hq Hp Hp' Hb name Hin.
  assert (Hva : (dval da == dval da')%Q).
  { rewrite (carrier_source ga da qa Hc Hs), (carrier_source ga' da' qa' Hc' Hs'). exact Hq. }
  pose proof (answers_by_value da da' db db' Hva Hb) as Hans. unfold compare_all in Hans.
  injection Hans as Elt Ele Egt Ege Eeq Ene.
  destruct (comparisons_by_name eng [RNum db] da db (params_first_number_lit db)) as [Hlt [Hle [Hgt Hge]]].
  destruct (comparisons_by_name eng [RNum db'] da' db' (params_first_number_lit db')) as [Hlt' [Hle' [Hgt' Hge']]].
  destruct (equal_numbers eng db da) as [Heq Hne].
  destruct (equal_numbers eng db' da') as [Heq' Hne'].
  unfold comparison_names in Hin. cbn [In] in Hin.
  destruct Hin as [<-|[<-|[<-|[<-|[<-|[<-|[]]]]]]].
  - rewrite (q_num "Less" p (RNum db) a doc ga da Ha Hc Hp eq_refl),
            (q_num "Less" p' (RNum db') a doc' ga' da' Ha' Hc' Hp' eq_refl), Hlt, Hlt', Elt. reflexivity.
  - rewrite (q_num "LessOrEqual" p (RNum db) a doc ga da Ha Hc Hp eq_refl),
            (q_num "LessOrEqual" p' (RNum db') a doc' ga' da' Ha' Hc' Hp' eq_refl), Hle, Hle', Ele. reflexivity.
  - rewrite (q_num "Greater" p (RNum db) a doc ga da Ha Hc Hp eq_refl),
            (q_num "Greater" p' (RNum db') a doc' ga' da' Ha' Hc' Hp' eq_refl), Hgt, Hgt', Egt. reflexivity.
  - rewrite (q_num "GreaterOrEqual" p (RNum db) a doc ga da Ha Hc Hp eq_refl),
            (q_num "GreaterOrEqual" p' (RNum db') a doc' ga' da' Ha' Hc' Hp' eq_refl), Hge, Hge', Ege. reflexivity.
  - rewrite (q_num "Equal" p (RNum db) a doc ga da Ha Hc Hp eq_refl),
            (q_num "Equal" p' (RNum db') a doc' ga' da' Ha' Hc' Hp' eq_refl), Heq, Heq', Eeq. reflexivity.
  - rewrite (q_num "NotEqual" p (RNum db) a doc ga da Ha Hc Hp eq_refl),
            (q_num "NotEqual" p' (RNum db') a doc' ga' da' Ha' Hc' Hp' eq_refl), Hne, Hne', Ene. reflexivity.
Qed.

(** … and the three exact operations give decimals of the same value *)
Theorem E2E_arith_storage_invariant : forall a p p' doc doc' ga ga' da da' db db' qa qa',
  obj_row a doc ga -> obj_row a doc' ga' -> num_carrier ga da -> num_carrier ga' da' ->
  source_value ga = Some qa -> source_value ga' = Some qa' -> (qa == qa')%Q ->
  param_denotes doc p (RNum db) -> param_denotes doc' p' (RNum db') -> (dval db == dval db')%Q ->
  forall name, In name arithmetic_names ->
  exists r r', query a name [p] doc = Ok (VDec r) /\ query a name [p'] doc' = Ok (VDec r') /\
               (dval r == dval r')%Q.
Proof.
  intros a p p' doc doc' ga ga' da da' db db' qa qa' Ha Ha' Hc Hc' Hs Hs' Hq Hp Hp' Hb name Hin.
  assert (Hva : (dval da == dval da')%Q).
  { rewrite (carrier_source ga da qa Hc Hs), (carrier_source ga' da' qa' Hc' Hs'). exact Hq. }
  unfold arithmetic_names in Hin. cbn [In] in Hin.
  destruct Hin as [<-|[<-|[<-|[]]]].
  - exists (dadd da db), (dadd da' db').
    rewrite (q_num "Add" p (RNum db) a doc ga da Ha Hc Hp eq_refl),
            (q_num "Add" p' (RNum db') a doc' ga' da' Ha' Hc' Hp' eq_refl).
    rewrite (add_by_name eng [RNum db] da db (params_first_number_lit db)),
            (add_by_name eng [RNum db'] da' db' (params_first_number_lit db')).
    split; [reflexivity|split; [reflexivity|]]. rewrite !dadd_exact, Hva, Hb. reflexivity.
  - exists (dsub da db), (dsub da' db').
    rewrite (q_num "Subtract" p (RNum db) a doc ga da Ha Hc Hp eq_refl),
            (q_num "Subtract" p' (RNum db') a doc' ga' da' Ha' Hc' Hp' eq_refl).
    rewrite (sub_by_name eng [RNum db] da db (params_first_number_lit db)),
            (sub_by_name eng [RNum db'] da' db' (params_first_number_lit db')).
    split; [reflexivity|split; [reflexivity|]]. rewrite !dsub_exact, Hva, Hb. reflexivity.
  - exists (dmul da db), (dmul da' db').
    rewrite (q_num "Multiply" p (RNum db) a doc ga da Ha Hc Hp eq_refl),
            (q_num "Multiply" p' (RNum db') a doc' ga' da' Ha' Hc' Hp' eq_refl).
    rewrite (mul_by_name eng [RNum db] da db (params_first_number_lit db)),
            (mul_by_name eng [RNum db'] da' db' (params_first_number_lit db')).
    split; [reflexivity|split; [reflexivity|]]. rewrite !dmul_exact, Hva, Hb. reflexivity.
Qed.

(** the same query `$.a.F($.b)` on two documents with the same keys *)
Theorem E2E_storage_invariant_path : forall a b doc doc' ga gb ga' gb' da db da' db' qa qb qa' qb',
  obj_row a doc ga -> obj_row b doc gb -> obj_row a doc' ga' -> obj_row b doc' gb' ->
  num_carrier ga da -> num_carrier gb db -> num_carrier ga' da' -> num_carrier gb' db' ->
  source_value ga = Some qa -> source_value gb = Some qb ->
  source_value ga' = Some qa' -> source_value gb' = Some qb' ->
  (qa == qa')%Q -> (qb == qb')%Q ->
  (forall name, In name comparison_names ->
     query a name [arg b] doc = query a name [arg b] doc') /\
  (forall name, In name arithmetic_names ->
     exists r r', query a name [arg b] doc = Ok (VDec r) /\ query a name [arg b] doc' = Ok (VDec r') /\
                  (dval r == dval r')%Q).
Proof.
  intros a b doc doc' ga gb ga' gb' da db da' db' qa qb qa' qb'
         Ha Hb Ha' Hb' Hca Hcb Hca' Hcb' Hqa Hqb Hqa' Hqb' Ea Eb.
  assert (Hvb : (dval db == dval db')%Q).
  { rewrite (carrier_source gb db qb Hcb Hqb), (carrier_source gb' db' qb' Hcb' Hqb'). exact Eb. }
  split; intros name Hin.
  - apply (E2E_compare_storage_invariant a (arg b) (arg b) doc doc' ga ga' da da' db db' qa qa'
             Ha Ha' Hca Hca' Hqa Hqa' Ea (arg_num b doc gb db Hb Hcb) (arg_num b doc' gb' db' Hb' Hcb') Hvb name Hin).
  - apply (E2E_arith_storage_invariant a (arg b) (arg b) doc doc' ga ga' da da' db db' qa qa'
             Ha Ha' Hca Hca' Hqa Hqa' Ea (arg_num b doc gb db Hb Hcb) (arg_num b doc' gb' db' Hb' Hcb') Hvb name Hin).
Qed.

(** a literal on one side, a path on the other: `$.a.F(d)` on doc and
    `$.a.F($.b)` on doc' whose b carries the value of d *)
Theorem E2E_storage_invariant_literal_vs_path : forall a b d doc doc' ga ga' gb' da da' db' qa qa' qb',
  obj_row a doc ga -> obj_row a doc' ga' -> obj_row b doc' gb' ->
  num_carrier ga da -> num_carrier ga' da' -> num_carrier gb' db' ->
  source_value ga = Some qa -> source_value ga' = Some qa' -> source_value gb' = Some qb' ->
  (qa == qa')%Q -> (dval d == qb')%Q ->
  (forall name, In name comparison_names ->
     query a name [FPNum d] doc = query a name [arg b] doc') /\
  (forall name, In name arithmetic_names ->
     exists r r', query a name [FPNum d] doc = Ok (VDec r) /\ query a name [arg b] doc' = Ok (VDec r') /\
                  (dval r == dval r')%Q).
Proof.
  intros a b d doc doc' ga ga' gb' da da' db' qa qa' qb' Ha Ha' Hb' Hca Hca' Hcb' Hqa Hqa' Hqb' Ea Eb.
  assert (Hvb : (dval d == dval db')%Q).
  { rewrite (carrier_source gb' db' qb' Hcb' Hqb'). exact Eb. }
  split; intros name Hin.
  - apply (E2E_compare_storage_invariant a (FPNum d) (arg b) doc doc' ga ga' da da' d db' qa qa'
             Ha Ha' Hca Hca' Hqa Hqa' Ea (pd_num doc d) (arg_num b doc' gb' db' Hb' Hcb') Hvb name Hin).
  - apply (E2E_arith_storage_invariant a (FPNum d) (arg b) doc doc' ga ga' da da' d db' qa qa'
             Ha Ha' Hca Hca' Hqa Hqa' Ea (pd_num doc d) (arg_num b doc' gb' db' Hb' Hcb') Hvb name Hin).
Qed.

(** ** 3d. Strings *)

(** the receiver a Go string that is not a numeral; the needle anything that
    denotes a string (no condition on the needle: an argument is never
    converted when it is a Go string) *)
Theorem E2E_substring : forall a p doc s n,
  obj_row a doc (VStr false s) -> dec_of_string s = None -> param_denotes doc p (RStr n) ->
  query a "Contains" [p] doc = Ok (vbool (contains s n)) /\
  query a "NotContains" [p] doc = Ok (vbool (negb (contains s n))) /\
  query a "Prefix" [p] doc = Ok (vbool (has_prefix s n)) /\
  query a "NotPrefix" [p] doc = Ok (vbool (negb (has_prefix s n))) /\
  query a "Suffix" [p] doc = Ok (vbool (has_suffix s n)) /\
  query a "NotSuffix" [p] doc = Ok (vbool (negb (has_suffix s n))).
Proof.
  intros a p doc s n Hrow Hs Hp.
  assert (Hps : Forall2 (param_denotes doc) [p] [RStr n]) by (constructor; [exact Hp|constructor]).
  destruct (substring_family eng s n) as [H1 [H2 [H3 [H4 [H5 H6]]]]].
  rewrite (q_str "Contains" [p] [RStr n] a doc s Hrow Hs Hps eq_refl),
          (q_str "NotContains" [p] [RStr n] a doc s Hrow Hs Hps eq_refl),
          (q_str "Prefix" [p] [RStr n] a doc s Hrow Hs Hps eq_refl),
          (q_str "NotPrefix" [p] [RStr n] a doc s Hrow Hs Hps eq_refl),
          (q_str "Suffix" [p] [RStr n] a doc s Hrow Hs Hps eq_refl),
          (q_str "NotSuffix" [p] [RStr n] a doc s Hrow Hs Hps eq_refl).
  repeat split; assumption.
Qed.

(** `$.a.Contains("n")` … *)
Theorem E2E_substring_literal : forall a doc s n,
  obj_row a doc (VStr false s) -> dec_of_string s = None ->
  query a "Contains" [FPStr n] doc = Ok (vbool (contains s n)) /\
  query a "NotContains" [FPStr n] doc = Ok (vbool (negb (contains s n))) /\
  query a "Prefix" [FPStr n] doc = Ok (vbool (has_prefix s n)) /\
  query a "NotPrefix" [FPStr n] doc = Ok (vbool (negb (has_prefix s n))) /\
  query a "Suffix" [FPStr n] doc = Ok (vbool (has_suffix s n)) /\
  query a "NotSuffix" [FPStr n] doc = Ok (vbool (negb (has_suffix s n))).
Proof. intros a doc s n Hrow Hs. apply E2E_substring; [exact Hrow|exact Hs|constructor]. Qed.

(** `$.a.Contains($.b)` … *)
Theorem E2E_substring_path : forall a b doc s n,
  obj_row a doc (VStr false s) -> dec_of_string s = None -> obj_row b doc (VStr false n) ->
  query a "Contains" [arg b] doc = Ok (vbool (contains s n)) /\
  query a "NotContains" [arg b] doc = Ok (vbool (negb (contains s n))) /\
  query a "Prefix" [arg b] doc = Ok (vbool (has_prefix s n)) /\
  query a "NotPrefix" [arg b] doc = Ok (vbool (negb (has_prefix s n))) /\
  query a "Suffix" [arg b] doc = Ok (vbool (has_suffix s n)) /\
  query a "NotSuffix" [arg b] doc = Ok (vbool (negb (has_suffix s n))).
Proof.
  intros a b doc s n Hrow Hs Hb. apply E2E_substring; [exact Hrow|exact Hs|].
  exact (pd_path_str doc pinv pme b pq pu pus n Hb).
Qed.

Theorem E2E_replace_all : forall a pf pr doc s f r,
  obj_row a doc (VStr false s) -> dec_of_string s = None ->
  param_denotes doc pf (RStr f) -> param_denotes doc pr (RStr r) -> f <> [] ->
  query a "ReplaceAll" [pf; pr] doc = Ok (VStr false (replace_all s f r)).
Proof.
  intros a pf pr doc s f r Hrow Hs Hf Hr Hne.
  rewrite (q_str "ReplaceAll" [pf; pr] [RStr f; RStr r] a doc s Hrow Hs); [| |reflexivity].
  - apply replace_all_by_name. exact Hne.
  - constructor; [exact Hf|constructor; [exact Hr|constructor]].
Qed.

(** the four ways of supplying (find, replacement) *)
Theorem E2E_replace_all_four_ways : forall a kf kr doc s f r,
  obj_row a doc (VStr false s) -> dec_of_string s = None ->
  obj_row kf doc (VStr false f) -> obj_row kr doc (VStr false r) -> f <> [] ->
  query a "ReplaceAll" [FPStr f; FPStr r] doc = Ok (VStr false (replace_all s f r)) /\
  query a "ReplaceAll" [FPStr f; arg' kr] doc = Ok (VStr false (replace_all s f r)) /\
  query a "ReplaceAll" [arg kf; FPStr r] doc = Ok (VStr false (replace_all s f r)) /\
  query a "ReplaceAll" [arg kf; arg' kr] doc = Ok (VStr false (replace_all s f r)).
Proof.
  intros a kf kr doc s f r Hrow Hs Hf Hr Hne.
  pose proof (pd_path_str doc pinv pme kf pq pu pus f Hf) as Pf.
  pose proof (pd_path_str doc rinv rme kr rq ru rus r Hr) as Pr.
  repeat split; apply E2E_replace_all; try assumption; constructor.
Qed.

(** ** 3e. A numeric string as the argument *)

(** C04 lists "a numeric string" among the ways of supplying an operand.  A Go
    string under `$.b`, or a string literal, that spells the number db: the
    arithmetic and the four order functions use that number; Equal / NotEqual
    do NOT — a decimal receiver is never equal to a string argument. *)
Theorem E2E_numeric_string_argument : forall a p doc ga da qa t db,
  obj_row a doc ga -> num_carrier ga da -> source_value ga = Some qa ->
  param_denotes doc p (RStr t) -> dec_of_string t = Some db ->
  (exists r, query a "Add" [p] doc = Ok (VDec r) /\ (dval r == qa + dval db)%Q) /\
  (exists r, query a "Subtract" [p] doc = Ok (VDec r) /\ (dval r == qa - dval db)%Q) /\
  (exists r, query a "Multiply" [p] doc = Ok (VDec r) /\ (dval r == qa * dval db)%Q) /\
  decides (query a "Less" [p] doc) (qa < dval db)%Q /\
  decides (query a "LessOrEqual" [p] doc) (qa <= dval db)%Q /\
  decides (query a "Greater" [p] doc) (dval db < qa)%Q /\
  decides (query a "GreaterOrEqual" [p] doc) (dval db <= qa)%Q /\
  query a "Equal" [p] doc = Ok (vbool false) /\
  query a "NotEqual" [p] doc = Ok (vbool true).
Proof.
  intros a p doc ga da qa t db Hrow Hc Hs Hp Ht.
  pose proof (carrier_source ga da qa Hc Hs) as Hqa.
  pose proof (params_first_number_str t db Ht) as Hn.
  destruct (comparisons_by_name eng [RStr t] da db Hn) as [Hlt [Hle [Hgt Hge]]].
  unfold decides.
  split; [|split; [|split; [|split; [|split; [|split; [|split; [|split]]]]]]].
  - rewrite (q_num "Add" p (RStr t) a doc ga da Hrow Hc Hp eq_refl).
    destruct (add_exact eng [RStr t] da db Hn) as [r [Hr Hv]].
    exists r. split; [exact Hr|]. rewrite Hv, Hqa. reflexivity.
  - rewrite (q_num "Subtract" p (RStr t) a doc ga da Hrow Hc Hp eq_refl).
    destruct (sub_exact eng [RStr t] da db Hn) as [r [Hr Hv]].
    exists r. split; [exact Hr|]. rewrite Hv, Hqa. reflexivity.
  - rewrite (q_num "Multiply" p (RStr t) a doc ga da Hrow Hc Hp eq_refl).
    destruct (mul_exact eng [RStr t] da db Hn) as [r [Hr Hv]].
    exists r. split; [exact Hr|]. rewrite Hv, Hqa. reflexivity.
  - rewrite (q_num "Less" p (RStr t) a doc ga da Hrow Hc Hp eq_refl), Hlt.
    eexists; split; [reflexivity|]. rewrite <- Hqa. apply dlt_iff.
  - rewrite (q_num "LessOrEqual" p (RStr t) a doc ga da Hrow Hc Hp eq_refl), Hle.
    eexists; split; [reflexivity|]. rewrite <- Hqa. apply dle_iff.
  - rewrite (q_num "Greater" p (RStr t) a doc ga da Hrow Hc Hp eq_refl), Hgt.
    eexists; split; [reflexivity|]. rewrite <- Hqa. apply dgt_iff.
  - rewrite (q_num "GreaterOrEqual" p (RStr t) a doc ga da Hrow Hc Hp eq_refl), Hge.
    eexists; split; [reflexivity|]. rewrite <- Hqa. apply dge_iff.
  - rewrite (q_num "Equal" p (RStr t) a doc ga da Hrow Hc Hp eq_refl). reflexivity.
  - rewrite (q_num "NotEqual" p (RStr t) a doc ga da Hrow Hc Hp eq_refl). reflexivity.
Qed.

End Queries.
End E2E.
Print Assumptions E2E_eval_params.
Print Assumptions E2E_call.
Print Assumptions E2E_call_on_number.
Print Assumptions E2E_call_on_number_map.
Print Assumptions E2E_call_on_string.
Print Assumptions E2E_call_on_numeric_string.
Print Assumptions E2E_do_top.
Print Assumptions E2E_arith.
Print Assumptions E2E_arith_path.
Print Assumptions E2E_arith_literal.
Print Assumptions E2E_divide.
Print Assumptions E2E_compare.
Print Assumptions E2E_compare_path.
Print Assumptions E2E_compare_literal.
Print Assumptions E2E_compare_storage_invariant.
Print Assumptions E2E_arith_storage_invariant.
Print Assumptions E2E_storage_invariant_path.
Print Assumptions E2E_storage_invariant_literal_vs_path.
Print Assumptions E2E_substring.
Print Assumptions E2E_substring_literal.
Print Assumptions E2E_substring_path.
Print Assumptions E2E_replace_all.
Print Assumptions E2E_replace_all_four_ways.
Print Assumptions E2E_numeric_string_argument.

(* ------------------------------------------------------------------ *)
(** * 4. Through the real parser                                       *)
(* ------------------------------------------------------------------ *)

(** the parser produces exactly the shapes the theorems are stated for *)
Example E2E_parser_shapes :
  parse_string uni_ascii (bs "$.b") =
    Ok (TopP (key_path false false (bs "b") false (bs "b") (bs "$.b"))) /\
  parse_string uni_ascii (bs "$.a.Add($.b)") =
    Ok (TopP (call_path false false (bs "a") false (bs "a") false "Add"
                [FPPath (key_path false false (bs "b") false (bs "b") (bs "$.b"))]
                (bs "Add($.b)") (bs "$.a.Add($.b)"))) /\
  parse_string uni_ascii (bs "$.a.Greater(0.5)") =
    Ok (TopP (call_path false false (bs "a") false (bs "a") false "Greater"
                [FPNum (mkDec 5 (-1))] (bs "Greater(0.5)") (bs "$.a.Greater(0.5)"))) /\
  parse_string uni_ascii (bs "$.s.ReplaceAll($.f,""x"")") =
    Ok (TopP (call_path false false (bs "s") false (bs "s") false "ReplaceAll"
                [FPPath (key_path false false (bs "f") false (bs "f") (bs "$.f")); FPStr (bs "x")]
                (bs "ReplaceAll($.f,""x"")") (bs "$.s.ReplaceAll($.f,""x"")"))) /\
  parse_string uni_ascii (bs "$.s.Contains($.f)") =
    Ok (TopP (call_path false false (bs "s") false (bs "s") false "Contains"
                [FPPath (key_path false false (bs "f") false (bs "f") (bs "$.f"))]
                (bs "Contains($.f)") (bs "$.s.Contains($.f)"))) /\
  parse_string uni_ascii (bs "$.a?.Equal(true)") =
    Ok (TopP (call_path false false (bs "a") true (bs "a?") false "Equal"
                [FPBool true] (bs "Equal(true)") (bs "$.a?.Equal(true)"))).
Proof. repeat split; vm_compute; reflexivity. Qed.

Definition two63 : Z := 9223372036854775808.

(** {"a": uint64(1<<63), "b": float64(0.5), "s": "abcabc", "f": "bc"} *)
Definition ex_doc : gv :=
  jmap [("a", VInt KUint64 false two63); ("b", VFloat false false (FFin (mkDec 5 (-1))));
        ("s", VStr false (bs "abcabc")); ("f", VStr false (bs "bc"))].

(** the same numbers stored differently: a decimal 9223372036854775808.0, a
    pointer to a named float32 written 0.50; as a struct rather than a map *)
Definition ex_doc' : gv :=
  VStruct [(bs "A", true, false, VDec (mkDec (two63 * 10) (-1)));
           (bs "B", true, true, VPtr (Some (VFloat true true (FFin (mkDec 50 (-2))))));
           (bs "S", true, false, VStr false (bs "abcabc")); (bs "F", true, true, VStr false (bs "bc"))].

Example E2E_example :
  C17.run "$.a.Add($.b)" ex_doc = Some (Ok (VDec (mkDec 92233720368547758085 (-1)))) /\
  C17.run "$.a.Add(0.5)" ex_doc = Some (Ok (VDec (mkDec 92233720368547758085 (-1)))) /\
  C17.run "$.a.Greater($.b)" ex_doc = Some (Ok (vbool true)) /\
  C17.run "$.b.Less($.a)" ex_doc = Some (Ok (vbool true)) /\
  C17.run "$.a.Equal($.a)" ex_doc = Some (Ok (vbool true)) /\
  C17.run "$.s.ReplaceAll($.f,""x"")" ex_doc = Some (Ok (VStr false (bs "axax"))) /\
  C17.run "$.s.ReplaceAll(""bc"",$.f)" ex_doc = Some (Ok (VStr false (bs "abcabc"))) /\
  C17.run "$.s.Contains($.f)" ex_doc = Some (Ok (vbool true)) /\
  C17.run "$.s.NotPrefix($.f)" ex_doc = Some (Ok (vbool true)) /\
  C17.run "$.s.Suffix(""bc"")" ex_doc = Some (Ok (vbool true)) /\
  (* the other storage *)
  C17.run "$.a.Add($.b)" ex_doc' = Some (Ok (VDec (mkDec 922337203685477580850 (-2)))) /\
  C17.run "$.a.Greater($.b)" ex_doc' = Some (Ok (vbool true)) /\
  C17.run "$.a.Equal(9223372036854775808)" ex_doc' = C17.run "$.a.Equal(9223372036854775808)" ex_doc /\
  C17.run "$.s.ReplaceAll($.f,""x"")" ex_doc' = Some (Ok (VStr false (bs "axax"))).
Proof. repeat split; vm_compute; reflexivity. Qed.

Lemma Ok_inj {A} (x y : A) : Ok x = Ok y -> x = y.
Proof. intros H. injection H as H. exact H. Qed.

(** the general theorems instantiated on these documents: the hypotheses are
    discharged by computation, the conclusions speak about the parsed queries *)
Example E2E_example_by_theorem :
  (forall t, parse_string uni_ascii (bs "$.a.Multiply($.b)") = Ok t ->
     exists r, do_top uni_ascii no_engines t ex_doc = Ok (VDec r) /\ (dval r == inject_Z two63 * (1 # 2))%Q) /\
  (forall t, parse_string uni_ascii (bs "$.a.Multiply($.b)") = Ok t ->
     exists r, do_top uni_ascii no_engines t ex_doc' = Ok (VDec r) /\ (dval r == inject_Z two63 * (1 # 2))%Q) /\
  (forall t, parse_string uni_ascii (bs "$.s.ReplaceAll($.f,""x"")") = Ok t ->
     do_top uni_ascii no_engines t ex_doc = Ok (VStr false (replace_all (bs "abcabc") (bs "bc") (bs "x")))).
Proof.
  assert (Hmul : forall doc ga gb da db qa,
            obj_row (bs "a") doc ga -> obj_row (bs "b") doc gb -> num_carrier ga da -> num_carrier gb db ->
            source_value ga = Some qa -> (qa == inject_Z two63)%Q -> (dval db == 1 # 2)%Q ->
            forall t, parse_string uni_ascii (bs "$.a.Multiply($.b)") = Ok t ->
            exists r, do_top uni_ascii no_engines t doc = Ok (VDec r) /\ (dval r == inject_Z two63 * (1 # 2))%Q).
  { intros doc ga gb da db qa Ha Hb Hca Hcb Hqa Eqa Hqb t Ht.
    assert (Hp : parse_string uni_ascii (bs "$.a.Multiply($.b)") =
                 Ok (TopP (call_path false false (bs "a") false (bs "a") false "Multiply"
                             [FPPath (key_path false false (bs "b") false (bs "b") (bs "$.b"))]
                             (bs "Multiply($.b)") (bs "$.a.Multiply($.b)")))) by (vm_compute; reflexivity).
    rewrite Hp in Ht. apply Ok_inj in Ht. subst t.
    rewrite (E2E_do_top uni_ascii no_engines false false (bs "a") false (bs "a") (bs "Multiply($.b)")
               (bs "$.a.Multiply($.b)") false "Multiply" _ [RNum db] doc ga Ha
               (Forall2_cons _ _ (pd_path_num doc false false (bs "b") false (bs "b") (bs "$.b") gb db Hb Hcb)
                             (Forall2_nil _)) eq_refl).
    rewrite (convert_unless_string_carrier ga da Hca).
    change (convert_number (VDec da)) with (VDec da).
    destruct (mul_exact no_engines [RNum db] da db (params_first_number_lit db)) as [r [Hr Hv]].
    exists r. split; [exact Hr|].
    rewrite Hv, (carrier_source ga da _ Hca Hqa), Hqb, Eqa. reflexivity. }
  split; [|split].
  - apply (Hmul ex_doc (VInt KUint64 false two63) (VFloat false false (FFin (mkDec 5 (-1)))) (mkDec two63 0) (mkDec 5 (-1)) (inject_Z two63)).
    + apply map_row. vm_compute. reflexivity.
    + apply map_row. vm_compute. reflexivity.
    + constructor.
    + constructor.
    + reflexivity.
    + reflexivity.
    + vm_compute. reflexivity.
  - apply (Hmul ex_doc' (VDec (mkDec (two63 * 10) (-1))) (VPtr (Some (VFloat true true (FFin (mkDec 50 (-2))))))
                 (mkDec (two63 * 10) (-1)) (mkDec 50 (-2)) (dval (mkDec (two63 * 10) (-1)))).
    + apply or_struct. vm_compute. reflexivity.
    + apply or_struct. vm_compute. reflexivity.
    + constructor.
    + constructor.
    + reflexivity.
    + vm_compute. reflexivity.
    + vm_compute. reflexivity.
  - intros t Ht.
    assert (Hp : parse_string uni_ascii (bs "$.s.ReplaceAll($.f,""x"")") =
                 Ok (TopP (call_path false false (bs "s") false (bs "s") false "ReplaceAll"
                             [FPPath (key_path false false (bs "f") false (bs "f") (bs "$.f")); FPStr (bs "x")]
                             (bs "ReplaceAll($.f,""x"")") (bs "$.s.ReplaceAll($.f,""x"")")))) by (vm_compute; reflexivity).
    rewrite Hp in Ht. apply Ok_inj in Ht. subst t.
    assert (Hs : obj_row (bs "s") ex_doc (VStr false (bs "abcabc"))) by (apply map_row; vm_compute; reflexivity).
    assert (Hf : obj_row (bs "f") ex_doc (VStr false (bs "bc"))) by (apply map_row; vm_compute; reflexivity).
    rewrite (E2E_do_top uni_ascii no_engines false false (bs "s") false (bs "s") _ _ false "ReplaceAll" _
               [RStr (bs "bc"); RStr (bs "x")] ex_doc _ Hs
               (Forall2_cons _ _ (pd_path_str ex_doc false false (bs "f") false (bs "f") (bs "$.f") _ Hf)
                  (Forall2_cons _ _ (pd_str ex_doc (bs "x")) (Forall2_nil _))) eq_refl).
    apply replace_all_by_name. discriminate.
Qed.

(* ------------------------------------------------------------------ *)
(** * 5. Where the model departs from the property texts               *)
(* ------------------------------------------------------------------ *)

(** {"a": 12, "k": "12"} — the number held as a numeric string (C04: "a
    numeric string" is one of the ways of supplying an operand).  As an
    ARGUMENT ($.k or the literal "12") it works for arithmetic and for the four
    order functions, but Equal is false and NotEqual true: none of Less, Equal,
    Greater holds, LessOrEqual ≠ Less ∨ Equal, and Equal is not symmetric
    (as a RECEIVER the string is converted, so `$.k.Equal($.a)` is true).
    General form: [E2E_numeric_string_argument]. *)
Definition ns_doc : gv := jmap [("a", VInt KInt false 12); ("k", VStr false (bs "12"))].

Example E2E_equal_numeric_string_refuted :
  C17.run "$.a.Add($.k)" ns_doc = Some (Ok (VDec (mkDec 24 0))) /\
  C17.run "$.a.Less($.k)" ns_doc = Some (Ok (vbool false)) /\
  C17.run "$.a.Greater($.k)" ns_doc = Some (Ok (vbool false)) /\
  C17.run "$.a.Equal($.k)" ns_doc = Some (Ok (vbool false)) /\
  C17.run "$.a.NotEqual($.k)" ns_doc = Some (Ok (vbool true)) /\
  C17.run "$.a.LessOrEqual($.k)" ns_doc = Some (Ok (vbool true)) /\
  C17.run "$.a.GreaterOrEqual($.k)" ns_doc = Some (Ok (vbool true)) /\
  C17.run "$.a.Equal(""12"")" ns_doc = Some (Ok (vbool false)) /\
  C17.run "$.a.LessOrEqual(""12"")" ns_doc = Some (Ok (vbool true)) /\
  C17.run "$.k.Equal($.a)" ns_doc = Some (Ok (vbool true)) /\
  C17.run "$.k.Equal($.k)" ns_doc = Some (Ok (vbool false)) /\
  C17.run "$.a.AnyOf($.k)" ns_doc = Some (Ok (vbool false)).
Proof. repeat split; vm_compute; reflexivity. Qed.

(** the side condition of [E2E_call_on_string] matters: a numeral string as
    the RECEIVER of a string function is converted to a decimal first (C18 is
    stated "on string inputs that are not numerals") *)
Example E2E_numeral_receiver_of_string_function :
  C17.run "$.k.Contains(""1"")" ns_doc = Some (Err (EOther "parameter wasn't string")) /\
  C17.run "$.k.ReplaceAll(""1"",""x"")" ns_doc = Some (Err (EOther "value wasn't string")).
Proof. repeat split; vm_compute; reflexivity. Qed.

Check param_denotes_ind.
Check E2E_eval_params.
Check E2E_call.
Check E2E_call_on_number.
Check E2E_call_on_number_map.
Check E2E_call_on_string.
Check E2E_call_on_numeric_string.
Check E2E_do_top.
Check E2E_arith.
Check E2E_arith_path.
Check E2E_arith_literal.
Check E2E_divide.
Check E2E_compare.
Check E2E_compare_path.
Check E2E_compare_literal.
Check E2E_compare_storage_invariant.
Check E2E_arith_storage_invariant.
Check E2E_storage_invariant_path.
Check E2E_storage_invariant_literal_vs_path.
Check E2E_substring.
Check E2E_substring_literal.
Check E2E_substring_path.
Check E2E_replace_all.
Check E2E_replace_all_four_ways.
Check E2E_numeric_string_argument.
Print Assumptions E2E_parser_shapes.
Print Assumptions E2E_example.
Print Assumptions E2E_example_by_theorem.
Print Assumptions E2E_equal_numeric_string_refuted.
Print Assumptions E2E_numeral_receiver_of_string_function.
