(* Proofs/C12.v -- soundness of the lock-discipline / pool-ownership checker
   of Model/Conc.v with respect to the interleaving semantics.

   Structure:
     A. list and helper lemmas;
     B. a Hoare-style judgement [ok] over action programs (the declarative
        reading of the checker), with weakening and sequencing;
     C. the checker establishes [ok]           (exec_sound, call_n_spec);
     D. [ok] is preserved by the thread-local steps of the semantics, and the
        global invariant [Inv] by every step   (tstep_thread_ok, step_Inv);
     E. the C12 theorems;
     F. examples (vm_compute);
     G. deadlock freedom for a single mutex.

   Coverage: the full action language (straight-line code, AIf, ALoop,
   AReturn, both kinds of defer, ACall with call frames). *)

From Coq Require Import String List Bool Arith Lia.
From Mpath.Model Require Import Conc.
Import ListNotations.
Open Scope string_scope.
Open Scope list_scope.

(* ------------------------------------------------------------------ *)
(* A. Helper lemmas                                                    *)
(* ------------------------------------------------------------------ *)

Lemma mem_In : forall x l, mem x l = true <-> In x l.
Proof.
  intros x l. unfold mem. rewrite existsb_exists. split.
  - intros [y [Hy He]]. apply String.eqb_eq in He. subst. exact Hy.
  - intros Hin. exists x. split; [exact Hin | apply String.eqb_refl].
Qed.

Lemma mem_false : forall x l, mem x l = false -> ~ In x l.
Proof.
  intros x l Hm Hin. apply mem_In in Hin. rewrite Hin in Hm. discriminate.
Qed.

Lemma remove_all_In : forall x y l, In y (remove_all x l) <-> In y l /\ y <> x.
Proof.
  intros x y l. unfold remove_all. rewrite filter_In. split.
  - intros [Hin Hne]. split; [exact Hin|]. intro E. subst.
    rewrite String.eqb_refl in Hne. discriminate.
  - intros [Hin Hne]. split; [exact Hin|].
    destruct (String.eqb_spec x y) as [E|E]; [subst; contradiction | reflexivity].
Qed.

Lemma list_eqb_eq : forall (A : Type) (eqb : A -> A -> bool),
  (forall x y, eqb x y = true -> x = y) ->
  forall l1 l2, list_eqb eqb l1 l2 = true -> l1 = l2.
Proof.
  intros A eqb Heq. induction l1 as [|x l1 IH]; intros [|y l2] H; simpl in H;
    try discriminate; try reflexivity.
  apply andb_true_iff in H. destruct H as [H1 H2].
  apply Heq in H1. apply IH in H2. subst. reflexivity.
Qed.

Lemma dact_eqb_eq : forall d1 d2, dact_eqb d1 d2 = true -> d1 = d2.
Proof.
  intros [a|a] [b|b] H; simpl in H; try discriminate;
    apply String.eqb_eq in H; subst; reflexivity.
Qed.

Lemma string_eqb_eq' : forall x y : string, String.eqb x y = true -> x = y.
Proof. intros x y H. apply String.eqb_eq. exact H. Qed.

Lemma astate_eqb_eq : forall s1 s2, astate_eqb s1 s2 = true -> s1 = s2.
Proof.
  intros [h1 d1 o1] [h2 d2 o2] H. unfold astate_eqb in H. simpl in H.
  apply andb_true_iff in H. destruct H as [H H3].
  apply andb_true_iff in H. destruct H as [H1 H2].
  apply (list_eqb_eq _ _ string_eqb_eq') in H1.
  apply (list_eqb_eq _ _ dact_eqb_eq) in H2.
  apply (list_eqb_eq _ _ string_eqb_eq') in H3.
  subst. reflexivity.
Qed.

Lemma dedupe_In : forall s l, In s (dedupe l) <-> In s l.
Proof.
  intros s l. induction l as [|x l IH]; simpl; [tauto|].
  destruct (amem x l) eqn:Hm.
  - rewrite IH. split; [auto|]. intros [E|Hin]; [|exact Hin]. subst x.
    unfold amem in Hm. apply existsb_exists in Hm. destruct Hm as [y [Hy He]].
    apply astate_eqb_eq in He. subst y. exact Hy.
  - simpl. rewrite IH. tauto.
Qed.

Lemma nth_error_upd_eq : forall (A : Type) (l : list A) i x y,
  nth_error l i = Some y -> nth_error (upd l i x) i = Some x.
Proof.
  intros A l. induction l as [|z l IH]; intros [|i] x y H; simpl in *;
    try discriminate; [reflexivity | eapply IH; exact H].
Qed.

Lemma nth_error_upd_neq : forall (A : Type) (l : list A) i j x,
  i <> j -> nth_error (upd l i x) j = nth_error l j.
Proof.
  intros A l. induction l as [|z l IH]; intros [|i] [|j] x H; simpl;
    try reflexivity; try congruence.
  apply IH. congruence.
Qed.

Lemma take_obj_some : forall p ow x ow',
  take_obj p ow = Some (x, ow') ->
  fst x = p /\ In x ow /\ (forall y, In y ow' -> In y ow) /\
  map fst ow' = remove_one p (map fst ow) /\
  (NoDup ow -> NoDup ow' /\ ~ In x ow').
Proof.
  intros p ow. induction ow as [|z ow IH]; intros x ow' H; simpl in H; [discriminate|].
  destruct (String.eqb_spec p (fst z)) as [E|E].
  - inversion H; subst x ow'. simpl. rewrite E, String.eqb_refl.
    repeat split; auto.
    + apply NoDup_cons_iff in H0. tauto.
    + apply NoDup_cons_iff in H0. tauto.
  - destruct (take_obj p ow) as [[y r]|] eqn:Ht; [|discriminate].
    inversion H; subst x ow'. clear H.
    destruct (IH y r eq_refl) as [H1 [H2 [H3 [H4 H5]]]].
    simpl. destruct (String.eqb_spec p (fst z)) as [E'|_]; [contradiction|].
    repeat split.
    + exact H1.
    + right. exact H2.
    + intros w [Hw|Hw]; [left; exact Hw | right; apply H3; exact Hw].
    + rewrite H4. reflexivity.
    + apply NoDup_cons_iff in H. destruct H as [Hnz Hnd].
      destruct (H5 Hnd) as [Hn _]. constructor; [|exact Hn].
      intro Hin. apply Hnz. apply H3. exact Hin.
    + apply NoDup_cons_iff in H. destruct H as [Hnz Hnd].
      destruct (H5 Hnd) as [_ Hn].
      intros [Hin|Hin]; [|exact (Hn Hin)]. subst z. apply Hnz. exact H2.
Qed.

Lemma take_obj_none : forall p ow, take_obj p ow = None -> ~ In p (map fst ow).
Proof.
  intros p ow. induction ow as [|z ow IH]; intros H; simpl in *; [tauto|].
  destruct (String.eqb_spec p (fst z)) as [E|E]; [discriminate|].
  destruct (take_obj p ow) as [[y r]|] eqn:Ht; [discriminate|].
  intros [Hin|Hin]; [congruence | exact (IH eq_refl Hin)].
Qed.

Lemma run_defers_nil : forall h o, run_defers [] h o = Some (h, o).
Proof. reflexivity. Qed.

(* ------------------------------------------------------------------ *)
(* B. The Hoare-style judgement                                        *)
(* ------------------------------------------------------------------ *)

(* [ok T G k st Q R]: running the control [k] from the abstract state [st]
   is safe (guards held at accesses, no double lock, unlock only of held,
   Put only of owned, callees known); if control falls through the end of
   [k] the state satisfies [Q]; if an [AReturn] is executed the state
   (before the deferred actions) satisfies [R]. *)
Inductive ok (T : table) (G : guard)
  : prog -> astate -> (astate -> Prop) -> (astate -> Prop) -> Prop :=
| ok_nil st (Q R : astate -> Prop) :
    Q st -> ok T G [] st Q R
| ok_lock m k st Q R :
    ~ In m (a_held st) ->
    ok T G k (mkA (m :: a_held st) (a_defers st) (a_owned st)) Q R ->
    ok T G (ALock m :: k) st Q R
| ok_unlock m k st Q R :
    In m (a_held st) ->
    ok T G k (mkA (remove_all m (a_held st)) (a_defers st) (a_owned st)) Q R ->
    ok T G (AUnlock m :: k) st Q R
| ok_defer_unlock m k st Q R :
    ok T G k (mkA (a_held st) (DUnlock m :: a_defers st) (a_owned st)) Q R ->
    ok T G (ADeferUnlock m :: k) st Q R
| ok_read v m k st Q R :
    G v = Some m -> In m (a_held st) ->
    ok T G k st Q R ->
    ok T G (ARead v :: k) st Q R
| ok_write v m k st Q R :
    G v = Some m -> In m (a_held st) ->
    ok T G k st Q R ->
    ok T G (AWrite v :: k) st Q R
| ok_get p k st Q R :
    ok T G k (mkA (a_held st) (a_defers st) (p :: a_owned st)) Q R ->
    ok T G (APoolGet p :: k) st Q R
| ok_put p k st Q R :
    In p (a_owned st) ->
    ok T G k (mkA (a_held st) (a_defers st) (remove_one p (a_owned st))) Q R ->
    ok T G (APoolPut p :: k) st Q R
| ok_defer_put p k st Q R :
    ok T G k (mkA (a_held st) (DPut p :: a_defers st) (a_owned st)) Q R ->
    ok T G (ADeferPoolPut p :: k) st Q R
| ok_return k st (Q R : astate -> Prop) :
    R st -> ok T G (AReturn :: k) st Q R
| ok_if thn els k st (Q' Q R : astate -> Prop) :
    ok T G thn st Q' R -> ok T G els st Q' R ->
    (forall s, Q' s -> ok T G k s Q R) ->
    ok T G (AIf thn els :: k) st Q R
| ok_loop body k st (Q R : astate -> Prop) :
    ok T G body st (eq st) R ->
    ok T G k st Q R ->
    ok T G (ALoop body :: k) st Q R
| ok_call f q k st (Q' Q R : astate -> Prop) :
    lookup f T = Some q ->
    ok T G q (mkA (a_held st) [] (a_owned st)) Q' Q' ->
    (forall s, Q' s -> run_defers (a_defers s) (a_held s) (a_owned s) <> None) ->
    (forall s h' o', Q' s ->
       run_defers (a_defers s) (a_held s) (a_owned s) = Some (h', o') ->
       ok T G k (mkA h' (a_defers st) o') Q R) ->
    ok T G (ACall f :: k) st Q R.

Lemma ok_weaken : forall T G k st Q R,
  ok T G k st Q R ->
  forall Q2 R2 : astate -> Prop,
    (forall s, Q s -> Q2 s) -> (forall s, R s -> R2 s) -> ok T G k st Q2 R2.
Proof.
  intros T G k st Q R H.
  induction H; intros Q2 R2 HQ HR.
  - apply ok_nil. auto.
  - apply ok_lock; auto.
  - apply ok_unlock; auto.
  - apply ok_defer_unlock; auto.
  - eapply ok_read; eauto.
  - eapply ok_write; eauto.
  - apply ok_get; auto.
  - apply ok_put; auto.
  - apply ok_defer_put; auto.
  - apply ok_return; auto.
  - apply ok_if with (Q' := Q'); auto.
  - apply ok_loop; auto.
  - eapply ok_call with (Q' := Q'); eauto.
Qed.

Lemma ok_seq : forall T G a st Q1 R,
  ok T G a st Q1 R ->
  forall b (Q : astate -> Prop),
    (forall s, Q1 s -> ok T G b s Q R) -> ok T G (a ++ b) st Q R.
Proof.
  intros T G a st Q1 R H.
  induction H; intros b Q2 Hb; simpl.
  - apply Hb. assumption.
  - apply ok_lock; auto.
  - apply ok_unlock; auto.
  - apply ok_defer_unlock; auto.
  - eapply ok_read; eauto.
  - eapply ok_write; eauto.
  - apply ok_get; auto.
  - apply ok_put; auto.
  - apply ok_defer_put; auto.
  - apply ok_return; auto.
  - apply ok_if with (Q' := Q'); auto.
  - apply ok_loop; auto.
  - eapply ok_call with (Q' := Q'); eauto.
Qed.

(* ------------------------------------------------------------------ *)
(* C. The checker establishes the judgement                            *)
(* ------------------------------------------------------------------ *)

Definition is_simple (a : act) : bool :=
  match a with AIf _ _ | ALoop _ => false | _ => true end.

(* mutual induction over the nested type act / list act *)
Lemma act_prog_ind : forall (P : act -> Prop) (Pl : prog -> Prop),
  (forall a, is_simple a = true -> P a) ->
  (forall t e, Pl t -> Pl e -> P (AIf t e)) ->
  (forall b, Pl b -> P (ALoop b)) ->
  Pl [] ->
  (forall a k, P a -> Pl k -> Pl (a :: k)) ->
  forall k, Pl k.
Proof.
  intros P Pl Hsimple Hif Hloop Hnil Hcons.
  assert (HP : forall a, P a).
  { exact (fix IH (a : act) : P a :=
      match a as a0 return P a0 with
      | AIf t e =>
          Hif t e
            ((fix L (k : prog) : Pl k :=
                match k as k0 return Pl k0 with
                | [] => Hnil
                | a' :: k' => Hcons a' k' (IH a') (L k')
                end) t)
            ((fix L (k : prog) : Pl k :=
                match k as k0 return Pl k0 with
                | [] => Hnil
                | a' :: k' => Hcons a' k' (IH a') (L k')
                end) e)
      | ALoop b =>
          Hloop b
            ((fix L (k : prog) : Pl k :=
                match k as k0 return Pl k0 with
                | [] => Hnil
                | a' :: k' => Hcons a' k' (IH a') (L k')
                end) b)
      | ALock m => Hsimple (ALock m) eq_refl
      | AUnlock m => Hsimple (AUnlock m) eq_refl
      | ADeferUnlock m => Hsimple (ADeferUnlock m) eq_refl
      | ARead v => Hsimple (ARead v) eq_refl
      | AWrite v => Hsimple (AWrite v) eq_refl
      | APoolGet p => Hsimple (APoolGet p) eq_refl
      | APoolPut p => Hsimple (APoolPut p) eq_refl
      | ADeferPoolPut p => Hsimple (ADeferPoolPut p) eq_refl
      | AReturn => Hsimple AReturn eq_refl
      | ACall f => Hsimple (ACall f) eq_refl
      end). }
  induction k as [|a k IHk]; [exact Hnil | apply Hcons; [apply HP | exact IHk]].
Qed.

Lemma exec_cons : forall acc call a k st,
  exec acc call (a :: k) st =
  match exec_act acc call a st with
  | None => None
  | Some (F1, R1, L1) =>
      match bind_states (exec acc call k) F1 with
      | None => None
      | Some (F2, R2, L2) => Some (dedupe F2, dedupe (R1 ++ R2), L1 ++ L2)
      end
  end.
Proof. reflexivity. Qed.

Lemma exec_act_if : forall acc call t e st,
  exec_act acc call (AIf t e) st =
  match exec acc call t st, exec acc call e st with
  | Some (F1, R1, L1), Some (F2, R2, L2) =>
      Some (dedupe (F1 ++ F2), dedupe (R1 ++ R2), L1 ++ L2)
  | _, _ => None
  end.
Proof. reflexivity. Qed.

Lemma exec_act_loop : forall acc call b st,
  exec_act acc call (ALoop b) st =
  match exec acc call b st with
  | Some (F, R, L) => if forallb (astate_eqb st) F then Some ([st], R, L) else None
  | None => None
  end.
Proof. reflexivity. Qed.

Lemma bind_states_some : forall f l F R L,
  bind_states f l = Some (F, R, L) ->
  forall s, In s l ->
    exists F' R' L', f s = Some (F', R', L') /\ incl F' F /\ incl R' R.
Proof.
  intros f l. induction l as [|x l IH]; intros F R L H s Hin; [contradiction|].
  simpl in H.
  destruct (f x) as [[[F1 R1] L1]|] eqn:Hfx; [|discriminate].
  destruct (bind_states f l) as [[[F2 R2] L2]|] eqn:Hb; [|discriminate].
  inversion H; subst F R L. clear H.
  destruct Hin as [E|Hin].
  - subst x. exists F1, R1, L1. split; [exact Hfx|].
    split; apply incl_appl; apply incl_refl.
  - destruct (IH F2 R2 L2 eq_refl s Hin) as [F' [R' [L' [H1 [H2 H3]]]]].
    exists F', R', L'. split; [exact H1|].
    split; apply incl_appr; assumption.
Qed.

Lemma run_all_some : forall l xs,
  run_all l = Some xs ->
  forall s, In s l ->
    exists x, run_defers (a_defers s) (a_held s) (a_owned s) = Some x /\ In x xs.
Proof.
  induction l as [|y l IH]; intros xs H s Hin; [contradiction|].
  simpl in H.
  destruct (run_defers (a_defers y) (a_held y) (a_owned y)) as [x|] eqn:Hr; [|discriminate].
  destruct (run_all l) as [xs'|] eqn:Ha; [|discriminate].
  inversion H; subst xs. clear H.
  destruct Hin as [E|Hin].
  - subst y. exists x. split; [exact Hr | left; reflexivity].
  - destruct (IH xs' eq_refl s Hin) as [x' [H1 H2]].
    exists x'. split; [exact H1 | right; exact H2].
Qed.

Definition acc_sound (G : guard) (acc : acc_check) : Prop :=
  forall v h, acc v h = true -> exists m, G v = Some m /\ In m h.

Definition call_spec (T : table) (G : guard) (call : callf) : Prop :=
  forall f st F L, call f st = Some (F, L) ->
    exists q (Q' : astate -> Prop),
      lookup f T = Some q /\
      ok T G q (mkA (a_held st) [] (a_owned st)) Q' Q' /\
      forall s, Q' s ->
        exists h' o',
          run_defers (a_defers s) (a_held s) (a_owned s) = Some (h', o') /\
          In (mkA h' (a_defers st) o') F.

Lemma acc_guard_sound : forall G, acc_sound G (acc_guard G).
Proof.
  intros G v h H. unfold acc_guard in H. destruct (G v) as [m|]; [|discriminate].
  exists m. split; [reflexivity | apply mem_In; exact H].
Qed.

Lemma exec_sound : forall T G acc call,
  acc_sound G acc -> call_spec T G call ->
  forall k st F R L,
    exec acc call k st = Some (F, R, L) ->
    ok T G k st (fun s => In s F) (fun s => In s R).
Proof.
  intros T G acc call Hacc Hcall.
  apply (act_prog_ind
    (fun a => forall st F R L, exec_act acc call a st = Some (F, R, L) ->
       forall k (Q R' : astate -> Prop),
         (forall s, In s F -> ok T G k s Q R') ->
         (forall s, In s R -> R' s) ->
         ok T G (a :: k) st Q R')
    (fun k => forall st F R L, exec acc call k st = Some (F, R, L) ->
       ok T G k st (fun s => In s F) (fun s => In s R))).
  - (* simple actions *)
    intros a Hs st F R L H k Q R' HF HR.
    destruct a; try discriminate Hs; simpl in H.
    + (* ALock *)
      destruct (mem m (a_held st)) eqn:Hm; [discriminate|].
      inversion H; subst F R L. apply ok_lock; [apply mem_false; exact Hm|].
      apply HF. left. reflexivity.
    + (* AUnlock *)
      destruct (mem m (a_held st)) eqn:Hm; [|discriminate].
      inversion H; subst F R L. apply ok_unlock; [apply mem_In; exact Hm|].
      apply HF. left. reflexivity.
    + (* ADeferUnlock *)
      inversion H; subst F R L. apply ok_defer_unlock. apply HF. left. reflexivity.
    + (* ARead *)
      destruct (acc v (a_held st)) eqn:Ha; [|discriminate].
      inversion H; subst F R L. destruct (Hacc _ _ Ha) as [m [Hg Hin]].
      apply ok_read with (m := m); [exact Hg | exact Hin|].
      apply HF. left. reflexivity.
    + (* AWrite *)
      destruct (acc v (a_held st)) eqn:Ha; [|discriminate].
      inversion H; subst F R L. destruct (Hacc _ _ Ha) as [m [Hg Hin]].
      apply ok_write with (m := m); [exact Hg | exact Hin|].
      apply HF. left. reflexivity.
    + (* APoolGet *)
      inversion H; subst F R L. apply ok_get. apply HF. left. reflexivity.
    + (* APoolPut *)
      destruct (mem p (a_owned st)) eqn:Hm; [|discriminate].
      inversion H; subst F R L. apply ok_put; [apply mem_In; exact Hm|].
      apply HF. left. reflexivity.
    + (* ADeferPoolPut *)
      inversion H; subst F R L. apply ok_defer_put. apply HF. left. reflexivity.
    + (* AReturn *)
      inversion H; subst F R L. apply ok_return. apply HR. left. reflexivity.
    + (* ACall *)
      destruct (call f st) as [[F0 L0]|] eqn:Hc; [|discriminate].
      inversion H; subst F R L.
      destruct (Hcall _ _ _ _ Hc) as [q [Q' [Hl [Hq Hex]]]].
      apply ok_call with (q := q) (Q' := Q'); [exact Hl | exact Hq | |].
      * intros s Hs' Hn. destruct (Hex s Hs') as [h' [o' [Hr _]]]. congruence.
      * intros s h' o' Hs' Hr. destruct (Hex s Hs') as [h2 [o2 [Hr2 Hin]]].
        rewrite Hr in Hr2. inversion Hr2; subst h2 o2. apply HF. exact Hin.
  - (* AIf *)
    intros t e IHt IHe st F R L H k Q R' HF HR.
    rewrite exec_act_if in H.
    destruct (exec acc call t st) as [[[F1 R1] L1]|] eqn:Ht; [|discriminate].
    destruct (exec acc call e st) as [[[F2 R2] L2]|] eqn:He; [|discriminate].
    inversion H; subst F R L. clear H.
    apply ok_if with (Q' := fun s => In s (dedupe (F1 ++ F2))).
    + apply ok_weaken with (1 := IHt _ _ _ _ Ht).
      * intros s Hs. apply dedupe_In. apply in_or_app. left. exact Hs.
      * intros s Hs. apply HR. apply dedupe_In. apply in_or_app. left. exact Hs.
    + apply ok_weaken with (1 := IHe _ _ _ _ He).
      * intros s Hs. apply dedupe_In. apply in_or_app. right. exact Hs.
      * intros s Hs. apply HR. apply dedupe_In. apply in_or_app. right. exact Hs.
    + exact HF.
  - (* ALoop *)
    intros b IHb st F R L H k Q R' HF HR.
    rewrite exec_act_loop in H.
    destruct (exec acc call b st) as [[[F1 R1] L1]|] eqn:Hb; [|discriminate].
    destruct (forallb (astate_eqb st) F1) eqn:Hall; [|discriminate].
    inversion H; subst F R L. clear H.
    apply ok_loop.
    + apply ok_weaken with (1 := IHb _ _ _ _ Hb).
      * intros s Hs. rewrite forallb_forall in Hall.
        apply astate_eqb_eq. apply Hall. exact Hs.
      * exact HR.
    + apply HF. left. reflexivity.
  - (* [] *)
    intros st F R L H. simpl in H. inversion H; subst F R L.
    apply ok_nil. left. reflexivity.
  - (* a :: k *)
    intros a k IHa IHk st F R L H. rewrite exec_cons in H.
    destruct (exec_act acc call a st) as [[[F1 R1] L1]|] eqn:Ha; [|discriminate].
    destruct (bind_states (exec acc call k) F1) as [[[F2 R2] L2]|] eqn:Hb; [|discriminate].
    inversion H; subst F R L. clear H.
    apply (IHa _ _ _ _ Ha).
    + intros s Hs.
      destruct (bind_states_some _ _ _ _ _ Hb s Hs) as [F' [R' [L' [He [HiF HiR]]]]].
      apply ok_weaken with (1 := IHk _ _ _ _ He).
      * intros s' Hs'. apply dedupe_In. apply HiF. exact Hs'.
      * intros s' Hs'. apply dedupe_In. apply in_or_app. right. apply HiR. exact Hs'.
    + intros s Hs. apply dedupe_In. apply in_or_app. left. exact Hs.
Qed.

Lemma call_n_spec : forall T G acc, acc_sound G acc ->
  forall fuel, call_spec T G (call_n fuel T acc).
Proof.
  intros T G acc Hacc. induction fuel as [|n IH]; intros f st F L H; simpl in H.
  - discriminate.
  - destruct (lookup f T) as [q|] eqn:Hl; [|discriminate].
    destruct (exec acc (call_n n T acc) q (mkA (a_held st) [] (a_owned st)))
      as [[[F1 R1] L1]|] eqn:He; [|discriminate].
    destruct (run_all (F1 ++ R1)) as [xs|] eqn:Hr; [|discriminate].
    inversion H; subst F L. clear H.
    exists q, (fun s => In s (F1 ++ R1)). split; [reflexivity|]. split.
    + apply ok_weaken with (1 := exec_sound T G acc _ Hacc IH _ _ _ _ _ He).
      * intros s Hs. apply in_or_app. left. exact Hs.
      * intros s Hs. apply in_or_app. right. exact Hs.
    + intros s Hs. destruct (run_all_some _ _ Hr s Hs) as [[h' o'] [Hx Hin]].
      exists h', o'. split; [exact Hx|]. apply dedupe_In.
      apply in_map_iff. exists (h', o'). split; [reflexivity | exact Hin].
Qed.

(* ------------------------------------------------------------------ *)
(* D. The judgement is an invariant of the semantics                   *)
(* ------------------------------------------------------------------ *)

Lemma ok_nil_inv : forall T G st Q R, ok T G [] st Q R -> Q st.
Proof. intros T G st Q R H. inversion H; subst. assumption. Qed.

Lemma ok_inv : forall T G a k st Q R,
  ok T G (a :: k) st Q R ->
  match a with
  | ALock m =>
      ~ In m (a_held st) /\
      ok T G k (mkA (m :: a_held st) (a_defers st) (a_owned st)) Q R
  | AUnlock m =>
      In m (a_held st) /\
      ok T G k (mkA (remove_all m (a_held st)) (a_defers st) (a_owned st)) Q R
  | ADeferUnlock m =>
      ok T G k (mkA (a_held st) (DUnlock m :: a_defers st) (a_owned st)) Q R
  | ARead v | AWrite v =>
      exists m, G v = Some m /\ In m (a_held st) /\ ok T G k st Q R
  | APoolGet p =>
      ok T G k (mkA (a_held st) (a_defers st) (p :: a_owned st)) Q R
  | APoolPut p =>
      In p (a_owned st) /\
      ok T G k (mkA (a_held st) (a_defers st) (remove_one p (a_owned st))) Q R
  | ADeferPoolPut p =>
      ok T G k (mkA (a_held st) (DPut p :: a_defers st) (a_owned st)) Q R
  | AReturn => R st
  | AIf thn els =>
      exists Q' : astate -> Prop,
        ok T G thn st Q' R /\ ok T G els st Q' R /\
        (forall s, Q' s -> ok T G k s Q R)
  | ALoop body => ok T G body st (eq st) R /\ ok T G k st Q R
  | ACall f =>
      exists q (Q' : astate -> Prop),
        lookup f T = Some q /\
        ok T G q (mkA (a_held st) [] (a_owned st)) Q' Q' /\
        (forall s, Q' s -> run_defers (a_defers s) (a_held s) (a_owned s) <> None) /\
        (forall s h' o', Q' s ->
           run_defers (a_defers s) (a_held s) (a_owned s) = Some (h', o') ->
           ok T G k (mkA h' (a_defers st) o') Q R)
  end.
Proof.
  intros T G a k st Q R H. inversion H; subst; eauto 10.
Qed.

(* the call stack of a thread, against the abstract held / owned lists *)
Fixpoint stack_ok (T : table) (G : guard) (fs : list frame) (h o : list string) : Prop :=
  match fs with
  | [] => h = [] /\ o = []
  | (k, d) :: rest =>
      exists Q : astate -> Prop,
        ok T G k (mkA h d o) Q Q /\
        forall s, Q s ->
          exists h' o',
            run_defers (a_defers s) (a_held s) (a_owned s) = Some (h', o') /\
            stack_ok T G rest h' o'
  end.

Definition thread_ok (T : table) (G : guard) (i : nat) (t : thread)
  (mtx : string -> option nat) : Prop :=
  exists h,
    (forall m, In m h <-> mtx m = Some i) /\
    stack_ok T G (t_frames t) h (map fst (t_owned t)) /\
    (forall w v, t_acc t = Some (w, v) -> exists m, G v = Some m /\ In m h).

Lemma tstep_thread_ok : forall T G i t sh t' sh',
  tstep T i t sh t' sh' ->
  thread_ok T G i t (s_mtx sh) -> thread_ok T G i t' (s_mtx sh').
Proof.
  intros T G i t sh t' sh' Hs [h [Hh [Hst Hacc]]].
  inversion Hs; subst; simpl in *.
  - (* TLock *)
    destruct Hst as [Q [Hok Hex]]. apply ok_inv in Hok. simpl in Hok.
    destruct Hok as [Hni Hok].
    exists (m :: h). split; [|split].
    + intros m'. unfold set_mtx. destruct (String.eqb_spec m' m) as [E|E].
      * subst m'. split; [reflexivity | intros _; left; reflexivity].
      * simpl. rewrite <- Hh. split; [intros [E'|Hin]; [congruence | exact Hin] | auto].
    + exists Q. split; [exact Hok | exact Hex].
    + intros w v E. discriminate E.
  - (* TUnlock *)
    destruct Hst as [Q [Hok Hex]]. apply ok_inv in Hok. simpl in Hok.
    destruct Hok as [Hin Hok].
    exists (remove_all m h). split; [|split].
    + intros m'. rewrite remove_all_In. unfold set_mtx.
      destruct (String.eqb_spec m' m) as [E|E].
      * split; [intros [_ Hne]; contradiction | intros E'; discriminate E'].
      * rewrite Hh. tauto.
    + exists Q. split; [exact Hok | exact Hex].
    + intros w v E. discriminate E.
  - (* TDeferUnlock *)
    destruct Hst as [Q [Hok Hex]]. apply ok_inv in Hok. simpl in Hok.
    exists h. split; [exact Hh | split; [| intros w v E; discriminate E]].
    exists Q. split; [exact Hok | exact Hex].
  - (* TReadBegin *)
    destruct Hst as [Q [Hok Hex]]. apply ok_inv in Hok. simpl in Hok.
    destruct Hok as [m [Hg [Hin Hok]]].
    exists h. split; [exact Hh | split].
    + exists Q. split; [exact Hok | exact Hex].
    + intros w v0 E. inversion E; subst. exists m. split; assumption.
  - (* TWriteBegin *)
    destruct Hst as [Q [Hok Hex]]. apply ok_inv in Hok. simpl in Hok.
    destruct Hok as [m [Hg [Hin Hok]]].
    exists h. split; [exact Hh | split].
    + exists Q. split; [exact Hok | exact Hex].
    + intros w v0 E. inversion E; subst. exists m. split; assumption.
  - (* TAccEnd *)
    exists h. split; [exact Hh | split; [exact Hst | intros w v E; discriminate E]].
  - (* TGetPooled *)
    destruct Hst as [Q [Hok Hex]]. apply ok_inv in Hok. simpl in Hok.
    exists h. split; [exact Hh | split; [| intros w v E; discriminate E]].
    exists Q. split; [exact Hok | exact Hex].
  - (* TGetNew *)
    destruct Hst as [Q [Hok Hex]]. apply ok_inv in Hok. simpl in Hok.
    exists h. split; [exact Hh | split; [| intros w v E; discriminate E]].
    exists Q. split; [exact Hok | exact Hex].
  - (* TPut *)
    destruct Hst as [Q [Hok Hex]]. apply ok_inv in Hok. simpl in Hok.
    destruct Hok as [Hin Hok].
    destruct (take_obj_some _ _ _ _ H) as [_ [_ [_ [Hmap _]]]].
    exists h. split; [exact Hh | split; [| intros w v E; discriminate E]].
    simpl. rewrite Hmap. exists Q. split; [exact Hok | exact Hex].
  - (* TDeferPut *)
    destruct Hst as [Q [Hok Hex]]. apply ok_inv in Hok. simpl in Hok.
    exists h. split; [exact Hh | split; [| intros w v E; discriminate E]].
    exists Q. split; [exact Hok | exact Hex].
  - (* TReturn *)
    destruct Hst as [Q [Hok Hex]]. apply ok_inv in Hok. simpl in Hok.
    exists h. split; [exact Hh | split; [| intros w v E; discriminate E]].
    exists Q. split; [apply ok_nil; exact Hok | exact Hex].
  - (* TIfThen *)
    destruct Hst as [Q [Hok Hex]]. apply ok_inv in Hok. simpl in Hok.
    destruct Hok as [Q' [Ht [He Hk]]].
    exists h. split; [exact Hh | split; [| intros w v E; discriminate E]].
    exists Q. split; [| exact Hex]. apply ok_seq with (1 := Ht). exact Hk.
  - (* TIfElse *)
    destruct Hst as [Q [Hok Hex]]. apply ok_inv in Hok. simpl in Hok.
    destruct Hok as [Q' [Ht [He Hk]]].
    exists h. split; [exact Hh | split; [| intros w v E; discriminate E]].
    exists Q. split; [| exact Hex]. apply ok_seq with (1 := He). exact Hk.
  - (* TLoopExit *)
    destruct Hst as [Q [Hok Hex]]. apply ok_inv in Hok. simpl in Hok.
    destruct Hok as [Hb Hk].
    exists h. split; [exact Hh | split; [| intros w v E; discriminate E]].
    exists Q. split; [exact Hk | exact Hex].
  - (* TLoopIter *)
    destruct Hst as [Q [Hok Hex]]. apply ok_inv in Hok. simpl in Hok.
    destruct Hok as [Hb Hk].
    exists h. split; [exact Hh | split; [| intros w v E; discriminate E]].
    exists Q. split; [| exact Hex]. apply ok_seq with (1 := Hb).
    intros s Es. subst s. apply ok_loop; assumption.
  - (* TCall *)
    destruct Hst as [Q [Hok Hex]]. apply ok_inv in Hok. simpl in Hok.
    destruct Hok as [q' [Q' [Hl [Hq [Hnn Hk]]]]].
    rewrite H in Hl. inversion Hl; subst q'. clear Hl.
    exists h. split; [exact Hh | split; [| intros w v E; discriminate E]].
    exists Q'. split; [exact Hq|].
    intros s Hs'.
    destruct (run_defers (a_defers s) (a_held s) (a_owned s)) as [[h' o']|] eqn:Hr.
    + exists h', o'. split; [reflexivity|].
      exists Q. split; [apply (Hk s h' o' Hs' Hr) | exact Hex].
    + exfalso. apply (Hnn s Hs'). exact Hr.
  - (* TDeferRun *)
    destruct Hst as [Q [Hok Hex]]. apply ok_nil_inv in Hok.
    destruct (Hex _ Hok) as [h' [o' [Hr Hrest]]]. simpl in Hr.
    exists h. split; [exact Hh | split; [| intros w v E; discriminate E]].
    destruct dx as [m|p]; simpl in *.
    + destruct (mem m h) eqn:Hm; [|discriminate].
      exists (eq (mkA (remove_all m h) d (map fst ow))). split.
      * apply ok_unlock; [apply mem_In; exact Hm|]. apply ok_nil. reflexivity.
      * intros s Es. subst s. simpl. exists h', o'. split; assumption.
    + destruct (mem p (map fst ow)) eqn:Hm; [|discriminate].
      exists (eq (mkA h d (remove_one p (map fst ow)))). split.
      * apply ok_put; [apply mem_In; exact Hm|]. apply ok_nil. reflexivity.
      * intros s Es. subst s. simpl. exists h', o'. split; assumption.
  - (* TPop *)
    destruct Hst as [Q [Hok Hex]]. apply ok_nil_inv in Hok.
    destruct (Hex _ Hok) as [h' [o' [Hr Hrest]]]. simpl in Hr.
    inversion Hr; subst h' o'.
    exists h. split; [exact Hh | split; [exact Hrest | intros w v E; discriminate E]].
Qed.

Lemma tstep_mtx_frame : forall T i t sh t' sh',
  tstep T i t sh t' sh' ->
  forall j, j <> i -> forall m, s_mtx sh' m = Some j <-> s_mtx sh m = Some j.
Proof.
  intros T i t sh t' sh' Hs j Hj m0.
  inversion Hs; subst; simpl; try tauto;
    unfold set_mtx; destruct (String.eqb_spec m0 m) as [E|E]; try tauto;
    subst m0; split; intro E'; congruence.
Qed.

Lemma tstep_mtx_holder : forall T i t sh t' sh',
  tstep T i t sh t' sh' ->
  forall j m, s_mtx sh' m = Some j -> j = i \/ s_mtx sh m = Some j.
Proof.
  intros T i t sh t' sh' Hs j m0 Hm.
  inversion Hs; subst; simpl in *; auto;
    unfold set_mtx in Hm; destruct (String.eqb_spec m0 m) as [E|E]; auto.
  - inversion Hm. left. reflexivity.
  - discriminate Hm.
Qed.

Lemma thread_ok_frame : forall T G j t mtx mtx',
  (forall m, mtx' m = Some j <-> mtx m = Some j) ->
  thread_ok T G j t mtx -> thread_ok T G j t mtx'.
Proof.
  intros T G j t mtx mtx' Hf [h [Hh [Hst Hacc]]].
  exists h. split; [|split; assumption].
  intros m. rewrite Hh. symmetry. apply Hf.
Qed.

(* --- pool objects -------------------------------------------------- *)

Inductive pool_eff : list obj -> list obj -> nat -> list obj -> list obj -> nat -> Prop :=
| pe_same ow fr n : pool_eff ow fr n ow fr n
| pe_pooled ow l1 x l2 n : pool_eff ow (l1 ++ x :: l2) n (x :: ow) (l1 ++ l2) n
| pe_new ow fr n p : pool_eff ow fr n ((p, n) :: ow) fr (S n)
| pe_put ow fr n p x ow' :
    take_obj p ow = Some (x, ow') -> pool_eff ow fr n ow' (x :: fr) n.

Lemma tstep_pool_eff : forall T i t sh t' sh',
  tstep T i t sh t' sh' ->
  pool_eff (t_owned t) (s_free sh) (s_next sh) (t_owned t') (s_free sh') (s_next sh').
Proof.
  intros T i t sh t' sh' Hs. inversion Hs; subst; simpl; try apply pe_same.
  - rewrite H. apply pe_pooled.
  - apply pe_new.
  - eapply pe_put. eassumption.
Qed.

Definition pool_ok (ows : list (list obj)) (fr : list obj) (n : nat) : Prop :=
  (forall x, In x fr -> snd x < n) /\
  (forall i ow x, nth_error ows i = Some ow -> In x ow -> snd x < n) /\
  (forall i j oi oj x, i <> j -> nth_error ows i = Some oi -> nth_error ows j = Some oj ->
     In x oi -> ~ In x oj) /\
  (forall i ow x, nth_error ows i = Some ow -> In x ow -> ~ In x fr) /\
  NoDup fr /\
  (forall i ow, nth_error ows i = Some ow -> NoDup ow).

Lemma nth_upd_cases : forall (A : Type) (l : list A) i j x y z,
  nth_error l i = Some z -> nth_error (upd l i x) j = Some y ->
  (j = i /\ y = x) \/ (j <> i /\ nth_error l j = Some y).
Proof.
  intros A l i j x y z Hi Hj. destruct (Nat.eq_dec j i) as [E|E].
  - left. subst j. rewrite (nth_error_upd_eq _ _ _ _ _ Hi) in Hj.
    inversion Hj. split; reflexivity.
  - right. split; [exact E|]. rewrite nth_error_upd_neq in Hj; [exact Hj | congruence].
Qed.

Lemma upd_same : forall (A : Type) (l : list A) i x,
  nth_error l i = Some x -> upd l i x = l.
Proof.
  intros A l. induction l as [|y l IH]; intros [|i] x H; simpl in *;
    try discriminate; try reflexivity.
  - inversion H. reflexivity.
  - rewrite (IH _ _ H). reflexivity.
Qed.

Lemma map_upd : forall (A B : Type) (f : A -> B) l i x,
  map f (upd l i x) = upd (map f l) i (f x).
Proof.
  intros A B f l. induction l as [|y l IH]; intros [|i] x; simpl;
    try reflexivity. rewrite IH. reflexivity.
Qed.

Lemma upd_length : forall (A : Type) (l : list A) i x, length (upd l i x) = length l.
Proof.
  intros A l. induction l as [|y l IH]; intros [|i] x; simpl; try reflexivity.
  rewrite IH. reflexivity.
Qed.

Lemma pool_preserved : forall ows fr n i ow ow' fr' n',
  pool_ok ows fr n -> nth_error ows i = Some ow ->
  pool_eff ow fr n ow' fr' n' ->
  pool_ok (upd ows i ow') fr' n'.
Proof.
  intros ows fr n i ow ow' fr' n' [P1 [P2 [P3 [P4 [P5 P6]]]]] Hi He.
  inversion He; subst.
  - (* same *) rewrite (upd_same _ _ _ _ Hi). repeat split; assumption.
  - (* pooled *)
    assert (Hxfr : In x (l1 ++ x :: l2)) by (apply in_or_app; right; left; reflexivity).
    assert (Hsub : forall y, In y (l1 ++ l2) -> In y (l1 ++ x :: l2)).
    { intros y Hy. apply in_app_or in Hy. apply in_or_app.
      destruct Hy as [Hy|Hy]; [left; exact Hy | right; right; exact Hy]. }
    repeat split.
    + intros y Hy. apply P1. apply Hsub. exact Hy.
    + intros j oj y Hj Hy.
      destruct (nth_upd_cases _ _ _ _ _ _ _ Hi Hj) as [[Ej Eo]|[Ej Ho]].
      * subst. destruct Hy as [Ey|Hy]; [subst y; apply P1; exact Hxfr | eapply P2; eassumption].
      * eapply P2; eassumption.
    + intros a b oa ob y Hab Ha Hb Hya Hyb.
      destruct (nth_upd_cases _ _ _ _ _ _ _ Hi Ha) as [[Ea Eoa]|[Ea Hoa]];
      destruct (nth_upd_cases _ _ _ _ _ _ _ Hi Hb) as [[Eb Eob]|[Eb Hob]].
      * subst. contradiction.
      * subst. destruct Hya as [Ey|Hya].
        -- subst y. apply (P4 _ _ _ Hob Hyb). exact Hxfr.
        -- apply (P3 _ _ _ _ _ Hab Hi Hob Hya Hyb).
      * subst. destruct Hyb as [Ey|Hyb].
        -- subst y. apply (P4 _ _ _ Hoa Hya). exact Hxfr.
        -- apply (P3 _ _ _ _ _ Hab Hoa Hi Hya Hyb).
      * apply (P3 _ _ _ _ _ Hab Hoa Hob Hya Hyb).
    + intros j oj y Hj Hy Hyf.
      destruct (nth_upd_cases _ _ _ _ _ _ _ Hi Hj) as [[Ej Eo]|[Ej Ho]].
      * subst. destruct Hy as [Ey|Hy].
        -- subst y. apply NoDup_remove_2 in P5. contradiction.
        -- apply (P4 _ _ _ Hi Hy). apply Hsub. exact Hyf.
      * apply (P4 _ _ _ Ho Hy). apply Hsub. exact Hyf.
    + apply NoDup_remove_1 in P5. exact P5.
    + intros j oj Hj.
      destruct (nth_upd_cases _ _ _ _ _ _ _ Hi Hj) as [[Ej Eo]|[Ej Ho]].
      * subst. constructor; [|eapply P6; eassumption].
        intro Hin. apply (P4 _ _ _ Hi Hin). exact Hxfr.
      * eapply P6; eassumption.
  - (* new *)
    repeat split.
    + intros y Hy. apply P1 in Hy. lia.
    + intros j oj y Hj Hy.
      destruct (nth_upd_cases _ _ _ _ _ _ _ Hi Hj) as [[Ej Eo]|[Ej Ho]].
      * subst. destruct Hy as [Ey|Hy]; [subst y; simpl; lia|].
        assert (snd y < n) by (eapply P2; eassumption). lia.
      * assert (snd y < n) by (eapply P2; eassumption). lia.
    + intros a b oa ob y Hab Ha Hb Hya Hyb.
      destruct (nth_upd_cases _ _ _ _ _ _ _ Hi Ha) as [[Ea Eoa]|[Ea Hoa]];
      destruct (nth_upd_cases _ _ _ _ _ _ _ Hi Hb) as [[Eb Eob]|[Eb Hob]].
      * subst. contradiction.
      * subst. destruct Hya as [Ey|Hya].
        -- subst y. apply (P2 _ _ _ Hob) in Hyb. simpl in Hyb. lia.
        -- apply (P3 _ _ _ _ _ Hab Hi Hob Hya Hyb).
      * subst. destruct Hyb as [Ey|Hyb].
        -- subst y. apply (P2 _ _ _ Hoa) in Hya. simpl in Hya. lia.
        -- apply (P3 _ _ _ _ _ Hab Hoa Hi Hya Hyb).
      * apply (P3 _ _ _ _ _ Hab Hoa Hob Hya Hyb).
    + intros j oj y Hj Hy Hyf.
      destruct (nth_upd_cases _ _ _ _ _ _ _ Hi Hj) as [[Ej Eo]|[Ej Ho]].
      * subst. destruct Hy as [Ey|Hy].
        -- subst y. apply P1 in Hyf. simpl in Hyf. lia.
        -- apply (P4 _ _ _ Hi Hy Hyf).
      * apply (P4 _ _ _ Ho Hy Hyf).
    + exact P5.
    + intros j oj Hj.
      destruct (nth_upd_cases _ _ _ _ _ _ _ Hi Hj) as [[Ej Eo]|[Ej Ho]].
      * subst. constructor; [|eapply P6; eassumption].
        intro Hin. apply (P2 _ _ _ Hi) in Hin. simpl in Hin. lia.
      * eapply P6; eassumption.
  - (* put *)
    destruct (take_obj_some _ _ _ _ H) as [_ [Hx [Hsub [_ Hnd]]]].
    destruct (Hnd (P6 _ _ Hi)) as [Hnd' Hnx].
    repeat split.
    + intros y [Ey|Hy]; [subst y; eapply P2; eassumption | apply P1; exact Hy].
    + intros j oj y Hj Hy.
      destruct (nth_upd_cases _ _ _ _ _ _ _ Hi Hj) as [[Ej Eo]|[Ej Ho]].
      * subst. apply (P2 _ _ _ Hi). apply Hsub. exact Hy.
      * eapply P2; eassumption.
    + intros a b oa ob y Hab Ha Hb Hya Hyb.
      destruct (nth_upd_cases _ _ _ _ _ _ _ Hi Ha) as [[Ea Eoa]|[Ea Hoa]];
      destruct (nth_upd_cases _ _ _ _ _ _ _ Hi Hb) as [[Eb Eob]|[Eb Hob]].
      * subst. contradiction.
      * subst. apply (P3 _ _ _ _ _ Hab Hi Hob (Hsub _ Hya) Hyb).
      * subst. apply (P3 _ _ _ _ _ Hab Hoa Hi Hya (Hsub _ Hyb)).
      * apply (P3 _ _ _ _ _ Hab Hoa Hob Hya Hyb).
    + intros j oj y Hj Hy Hyf.
      destruct (nth_upd_cases _ _ _ _ _ _ _ Hi Hj) as [[Ej Eo]|[Ej Ho]].
      * subst. destruct Hyf as [Ey|Hyf].
        -- subst y. contradiction.
        -- apply (P4 _ _ _ Hi (Hsub _ Hy) Hyf).
      * destruct Hyf as [Ey|Hyf].
        -- subst y. apply (P3 i j ow oj x); auto.
        -- apply (P4 _ _ _ Ho Hy Hyf).
    + constructor; [|exact P5]. intro Hin. apply (P4 _ _ _ Hi Hx Hin).
    + intros j oj Hj.
      destruct (nth_upd_cases _ _ _ _ _ _ _ Hi Hj) as [[Ej Eo]|[Ej Ho]].
      * subst. exact Hnd'.
      * eapply P6; eassumption.
Qed.

(* --- the global invariant ------------------------------------------ *)

Definition Inv (T : table) (G : guard) (g : gstate) : Prop :=
  (forall i t, nth_error (g_thr g) i = Some t ->
     thread_ok T G i t (s_mtx (g_sh g))) /\
  (forall m i, s_mtx (g_sh g) m = Some i -> i < length (g_thr g)) /\
  pool_ok (map t_owned (g_thr g)) (s_free (g_sh g)) (s_next (g_sh g)).

Lemma step_Inv : forall T G g i g', step T g i g' -> Inv T G g -> Inv T G g'.
Proof.
  intros T G g i g' Hs [It [Ih Ip]]. inversion Hs; subst. simpl.
  assert (Hlt : i < length (g_thr g)).
  { apply nth_error_Some. congruence. }
  split; [|split]; simpl.
  - intros j tj Hj.
    destruct (nth_upd_cases _ _ _ _ _ _ _ H Hj) as [[Ej Et]|[Ej Ho]].
    + subst. eapply tstep_thread_ok; [eassumption | apply It; assumption].
    + eapply thread_ok_frame; [| apply It; exact Ho].
      eapply tstep_mtx_frame; eassumption.
  - intros m j Hm. rewrite upd_length.
    destruct (tstep_mtx_holder _ _ _ _ _ _ H0 _ _ Hm) as [E|Hm'].
    + subst. exact Hlt.
    + eapply Ih. exact Hm'.
  - rewrite map_upd. eapply pool_preserved.
    + exact Ip.
    + apply map_nth_error. exact H.
    + eapply tstep_pool_eff. eassumption.
Qed.

Lemma run_Inv : forall T G g sched g', run T g sched g' -> Inv T G g -> Inv T G g'.
Proof.
  intros T G g sched g' Hr. induction Hr as [g|g i g1 sched g2 Hs Hr IH]; intro HI.
  - exact HI.
  - apply IH. eapply step_Inv; eassumption.
Qed.

(* --- what the invariant gives -------------------------------------- *)

Lemma Inv_not_racy : forall T G g, Inv T G g -> ~ Racy g.
Proof.
  intros T G g [It _] [i [j [ti [tj [w1 [w2 [v [Hij [Hi [Hj [Ha1 [Ha2 _]]]]]]]]]]]].
  destruct (It _ _ Hi) as [hi [Hhi [_ Hacci]]].
  destruct (It _ _ Hj) as [hj [Hhj [_ Haccj]]].
  destruct (Hacci _ _ Ha1) as [m1 [Hg1 Hin1]].
  destruct (Haccj _ _ Ha2) as [m2 [Hg2 Hin2]].
  rewrite Hg1 in Hg2. inversion Hg2; subst m2.
  apply Hhi in Hin1. apply Hhj in Hin2. rewrite Hin1 in Hin2.
  inversion Hin2. contradiction.
Qed.

Lemma Inv_not_shared : forall T G g, Inv T G g -> ~ Shared g.
Proof.
  intros T G g [_ [_ Ip]] [i [j [ti [tj [x [Hij [Hi [Hj [Hxi Hxj]]]]]]]]].
  destruct Ip as [_ [_ [P3 _]]].
  apply (P3 i j (t_owned ti) (t_owned tj) x Hij); auto using map_nth_error.
Qed.

Lemma Inv_not_crash : forall T G g, Inv T G g -> ~ Crash T g.
Proof.
  intros T G g [It _] [i [t [Hi [Hacc Hc]]]].
  destruct (It _ _ Hi) as [h [Hh [Hst _]]].
  destruct (t_frames t) as [|[k d] rest]; [exact Hc|].
  destruct k as [|a k]; [exact Hc|].
  destruct Hst as [Q [Hok _]]. apply ok_inv in Hok.
  destruct a; try exact Hc; simpl in Hok.
  - destruct Hok as [Hin _]. apply Hc. apply Hh. exact Hin.
  - destruct Hok as [Hin _]. apply take_obj_none in Hc. contradiction.
  - destruct Hok as [q [Q' [Hl _]]]. congruence.
Qed.

Lemma Inv_finished : forall T G g, Inv T G g ->
  forall i t, nth_error (g_thr g) i = Some t -> finished t ->
    (forall m, s_mtx (g_sh g) m <> Some i) /\ t_owned t = [].
Proof.
  intros T G g [It _] i t Hi Hf.
  destruct (It _ _ Hi) as [h [Hh [Hst _]]].
  unfold finished in Hf. rewrite Hf in Hst. simpl in Hst. destruct Hst as [Eh Eo].
  split.
  - intros m Hm. apply Hh in Hm. subst h. contradiction.
  - apply map_eq_nil in Eo. exact Eo.
Qed.

(* --- the initial state --------------------------------------------- *)

Definition init_ok (T : table) (G : guard) (t : thread) : Prop :=
  t_acc t = None /\ t_owned t = [] /\ stack_ok T G (t_frames t) [] [].

Lemma Inv_init : forall T G thr,
  (forall t, In t thr -> init_ok T G t) ->
  Inv T G (mkG thr (mkS (fun _ => None) [] 0)).
Proof.
  intros T G thr Hall. split; [|split]; simpl.
  - intros i t Hi. destruct (Hall t (nth_error_In _ _ Hi)) as [Ha [Ho Hs]].
    exists []. split; [|split].
    + intros m. split; [contradiction | discriminate].
    + rewrite Ho. exact Hs.
    + intros w v E. congruence.
  - intros m i E. discriminate E.
  - assert (Hnil : forall i ow, nth_error (map t_owned thr) i = Some ow -> ow = []).
    { intros i ow Hi. apply nth_error_In in Hi. apply in_map_iff in Hi.
      destruct Hi as [t [Et Hin]]. destruct (Hall t Hin) as [_ [Ho _]]. congruence. }
    repeat split.
    + intros x Hx. contradiction.
    + intros i ow x Hi Hx. rewrite (Hnil _ _ Hi) in Hx. contradiction.
    + intros i j oi oj x _ Hi _ Hx. rewrite (Hnil _ _ Hi) in Hx. contradiction.
    + intros i ow x Hi Hx. rewrite (Hnil _ _ Hi) in Hx. contradiction.
    + constructor.
    + intros i ow Hi. rewrite (Hnil _ _ Hi). constructor.
Qed.

Lemma exec_top_stack_ok : forall fuel T G p L,
  exec_top fuel T (acc_guard G) p = Some L ->
  stack_ok T G [(p, [])] [] [].
Proof.
  intros fuel T G p L H. unfold exec_top in H.
  destruct (exec (acc_guard G) (call_n fuel T (acc_guard G)) p (mkA [] [] []))
    as [[[F R] L0]|] eqn:He; [|discriminate].
  destruct (run_all (F ++ R)) as [xs|] eqn:Hr; [|discriminate].
  destruct (forallb exit_clean xs) eqn:Hc; [|discriminate].
  simpl. exists (fun s => In s (F ++ R)). split.
  - apply ok_weaken with
      (1 := exec_sound T G _ _ (acc_guard_sound G)
              (call_n_spec T G _ (acc_guard_sound G) fuel) _ _ _ _ _ He).
    + intros s Hs. apply in_or_app. left. exact Hs.
    + intros s Hs. apply in_or_app. right. exact Hs.
  - intros s Hs. destruct (run_all_some _ _ Hr s Hs) as [[h' o'] [Hx Hin]].
    rewrite forallb_forall in Hc. apply Hc in Hin.
    destruct h' as [|m h']; [|discriminate Hin].
    destruct o' as [|p' o']; [|discriminate Hin].
    exists [], []. split; [exact Hx | split; reflexivity].
Qed.

Lemma check_prog_init_ok : forall fuel T G p,
  check_prog_with fuel T G p = true -> init_ok T G (thread_of_prog p).
Proof.
  intros fuel T G p H. unfold check_prog_with in H.
  destruct (exec_top fuel T (acc_guard G) p) as [L|] eqn:He; [|discriminate].
  split; [reflexivity | split; [reflexivity|]]. simpl t_frames.
  eapply exec_top_stack_ok. exact He.
Qed.

Lemma lookup_In : forall f T p, lookup f T = Some p -> In (f, p) T.
Proof.
  intros f T. induction T as [|[g q] T IH]; intros p H; simpl in H; [discriminate|].
  destruct (String.eqb_spec f g) as [E|E].
  - inversion H; subst. left. reflexivity.
  - right. apply IH. exact H.
Qed.

Lemma check_table_with_init_ok : forall fuel T G f,
  check_table_with fuel T G = true -> init_ok T G (thread_of_name T f).
Proof.
  intros fuel T G f H. unfold thread_of_name.
  destruct (lookup f T) as [p|] eqn:Hl.
  - apply lookup_In in Hl. unfold check_table_with in H.
    rewrite forallb_forall in H. apply (check_prog_init_ok fuel). apply (H _ Hl).
  - split; [reflexivity | split; [reflexivity | split; reflexivity]].
Qed.

(* ------------------------------------------------------------------ *)
(* E. The C12 theorems                                                 *)
(* ------------------------------------------------------------------ *)

(* The general form: any guard map G under which every program of the table
   passes the checker; threads named after entry points. *)
Theorem C12_check_guard_sound : forall fuel T G,
  check_table_with fuel T G = true ->
  forall (names : list string) (sched : list nat) (g : gstate),
    run T (init T names) sched g ->
    ~ Racy g /\ ~ Shared g /\ ~ Crash T g /\
    (forall i t, nth_error (g_thr g) i = Some t -> finished t ->
       (forall m, s_mtx (g_sh g) m <> Some i) /\ t_owned t = []).
Proof.
  intros fuel T G Hc names sched g Hr.
  assert (HI : Inv T G g).
  { eapply run_Inv; [exact Hr|]. unfold init. apply Inv_init.
    intros t Hin. apply in_map_iff in Hin. destruct Hin as [f [Ef _]]. subst t.
    eapply check_table_with_init_ok. exact Hc. }
  split; [eapply Inv_not_racy; exact HI|].
  split; [eapply Inv_not_shared; exact HI|].
  split; [eapply Inv_not_crash; exact HI|].
  eapply Inv_finished. exact HI.
Qed.

(* C12: if the table passes [check_table], then for any number of threads,
   each running an entry point of the table, and any schedule, no reachable
   state is racy, none has a pool object shared by two threads, no thread is
   ever about to unlock a mutex it does not hold (or Put an object it does
   not own, or call an unknown entry point), and a finished thread holds no
   mutex and no pool object. *)
Theorem C12_check_locked_sound : forall fuel T,
  check_table fuel T = true ->
  forall (names : list string) (sched : list nat) (g : gstate),
    run T (init T names) sched g ->
    ~ Racy g /\ ~ Shared g /\ ~ Crash T g /\
    (forall i t, nth_error (g_thr g) i = Some t -> finished t ->
       (forall m, s_mtx (g_sh g) m <> Some i) /\ t_owned t = []).
Proof.
  intros fuel T Hc. unfold check_table in Hc.
  destruct (logs_of fuel T T) as [L|] eqn:HL; [|discriminate].
  eapply C12_check_guard_sound. exact Hc.
Qed.

(* The same for one program accepted by [check_locked] (calls resolved in
   T), run by any number of threads, possibly next to other accepted
   programs that agree on the guards: here, n copies of p. *)
Theorem C12_check_locked_program_sound : forall fuel T p,
  check_locked fuel T p = true ->
  forall (n : nat) (sched : list nat) (g : gstate),
    run T (init_progs (repeat p n)) sched g ->
    ~ Racy g /\ ~ Shared g /\ ~ Crash T g /\
    (forall i t, nth_error (g_thr g) i = Some t -> finished t ->
       (forall m, s_mtx (g_sh g) m <> Some i) /\ t_owned t = []).
Proof.
  intros fuel T p Hc n sched g Hr. unfold check_locked in Hc.
  destruct (exec_top fuel T acc_any p) as [L|] eqn:HL; [|discriminate].
  assert (HI : Inv T (guard_of L) g).
  { eapply run_Inv; [exact Hr|]. unfold init_progs. apply Inv_init.
    intros t Hin. apply in_map_iff in Hin. destruct Hin as [q [Eq Hq]]. subst t.
    apply repeat_spec in Hq. subst q.
    eapply check_prog_init_ok. exact Hc. }
  split; [eapply Inv_not_racy; exact HI|].
  split; [eapply Inv_not_shared; exact HI|].
  split; [eapply Inv_not_crash; exact HI|].
  eapply Inv_finished. exact HI.
Qed.

(* Mutual exclusion, spelled out: while a thread is inside an access to v,
   it holds the guard of v (so no other thread can be inside an access to v,
   reads included). *)
Theorem C12_access_holds_guard : forall fuel T G,
  check_table_with fuel T G = true ->
  forall (names : list string) (sched : list nat) (g : gstate),
    run T (init T names) sched g ->
    forall i t w v, nth_error (g_thr g) i = Some t -> t_acc t = Some (w, v) ->
      exists m, G v = Some m /\ s_mtx (g_sh g) m = Some i.
Proof.
  intros fuel T G Hc names sched g Hr i t w v Hi Ha.
  assert (HI : Inv T G g).
  { eapply run_Inv; [exact Hr|]. unfold init. apply Inv_init.
    intros t0 Hin. apply in_map_iff in Hin. destruct Hin as [f [Ef _]]. subst t0.
    eapply check_table_with_init_ok. exact Hc. }
  destruct HI as [It _]. destruct (It _ _ Hi) as [h [Hh [_ Hacc]]].
  destruct (Hacc _ _ Ha) as [m [Hg Hin]]. exists m. split; [exact Hg|].
  apply Hh. exact Hin.
Qed.

(* ------------------------------------------------------------------ *)
(* F. Examples                                                         *)
(* ------------------------------------------------------------------ *)

Module Examples.

Definition parse_read_seeker : prog :=
  [APoolGet "scannerPool"; ADeferPoolPut "scannerPool";
   AIf [AReturn] [];
   ALoop [AIf [AReturn] []];
   AIf [AReturn] []].

Definition parse_string : prog := [ACall "ParseReadSeeker"].

Definition cue_validate : prog :=
  [AIf [AReturn] [];
   ALock "cacheMu"; ARead "mpathOpCache"; AUnlock "cacheMu";
   AIf [ACall "ParseString"; AIf [AReturn] [];
        ALock "cacheMu"; AWrite "mpathOpCache"; AUnlock "cacheMu"] [];
   ALock "cacheMu"; ARead "cueValueCache"; AUnlock "cacheMu";
   AIf [AIf [AReturn] [];
        ALock "cacheMu"; AWrite "cueValueCache"; AUnlock "cacheMu"] [];
   AIf [AIf [AReturn] []] []].

Definition tbl : table :=
  [("ParseReadSeeker", parse_read_seeker);
   ("ParseString", parse_string);
   ("CueValidate", cue_validate)].

(* today's programs are accepted *)
Example ex_table_accepted : check_table 3 tbl = true.
Proof. vm_compute. reflexivity. Qed.

Example ex_cue_validate_accepted : check_locked 3 tbl cue_validate = true.
Proof. vm_compute. reflexivity. Qed.

Example ex_table_single_mutex : table_locks_only "cacheMu" tbl = true.
Proof. vm_compute. reflexivity. Qed.

(* the call depth is bounded by the fuel: CueValidate -> ParseString ->
   ParseReadSeeker needs 2 *)
Example ex_fuel_too_small : check_table 1 tbl = false.
Proof. vm_compute. reflexivity. Qed.

(* the same CueValidate with the Lock/Unlock pair around the first write
   removed (the code before the fix of F15) *)
Definition cue_validate_unlocked_write : prog :=
  [AIf [AReturn] [];
   ALock "cacheMu"; ARead "mpathOpCache"; AUnlock "cacheMu";
   AIf [ACall "ParseString"; AIf [AReturn] [];
        AWrite "mpathOpCache"] [];
   ALock "cacheMu"; ARead "cueValueCache"; AUnlock "cacheMu";
   AIf [AIf [AReturn] [];
        ALock "cacheMu"; AWrite "cueValueCache"; AUnlock "cacheMu"] [];
   AIf [AIf [AReturn] []] []].

Example ex_unlocked_write_rejected :
  check_locked 3 tbl cue_validate_unlocked_write = false.
Proof. vm_compute. reflexivity. Qed.

Example ex_unlocked_write_table_rejected :
  check_table 3 [("ParseReadSeeker", parse_read_seeker);
                 ("ParseString", parse_string);
                 ("CueValidate", cue_validate_unlocked_write)] = false.
Proof. vm_compute. reflexivity. Qed.

(* an early return while the lock is held *)
Example ex_return_holding_lock_rejected :
  check_locked 0 [] [ALock "mu"; ARead "x"; AIf [AReturn] []; AUnlock "mu"] = false.
Proof. vm_compute. reflexivity. Qed.

(* ... is fine with defer mu.Unlock() right after the Lock *)
Example ex_defer_unlock_accepted :
  check_locked 0 []
    [ALock "mu"; ADeferUnlock "mu"; ARead "x"; AIf [AReturn] [];
     AIf [AWrite "x"; AReturn] []; ARead "x"] = true.
Proof. vm_compute. reflexivity. Qed.

(* a Get that is not Put back on the early-return path *)
Example ex_get_without_put_rejected :
  check_locked 0 [] [APoolGet "pool"; AIf [AReturn] []; APoolPut "pool"] = false.
Proof. vm_compute. reflexivity. Qed.

Example ex_defer_put_accepted :
  check_locked 0 [] [APoolGet "pool"; ADeferPoolPut "pool"; AIf [AReturn] []] = true.
Proof. vm_compute. reflexivity. Qed.

Example ex_put_without_get_rejected :
  check_locked 0 [] [APoolPut "pool"] = false.
Proof. vm_compute. reflexivity. Qed.

Example ex_double_put_rejected :
  check_locked 0 [] [APoolGet "pool"; ADeferPoolPut "pool"; APoolPut "pool"] = false.
Proof. vm_compute. reflexivity. Qed.

(* locking twice: Go mutexes are not reentrant *)
Example ex_double_lock_rejected :
  check_locked 0 [] [ALock "mu"; ALock "mu"; AUnlock "mu"; AUnlock "mu"] = false.
Proof. vm_compute. reflexivity. Qed.

(* ... also through a call *)
Example ex_double_lock_via_call_rejected :
  check_locked 1 [("f", [ALock "mu"; AUnlock "mu"])]
    [ALock "mu"; ACall "f"; AUnlock "mu"] = false.
Proof. vm_compute. reflexivity. Qed.

Example ex_unlock_unheld_rejected :
  check_locked 0 [] [AUnlock "mu"] = false.
Proof. vm_compute. reflexivity. Qed.

(* every access locked, but by two different mutexes: no common guard *)
Example ex_no_common_guard_rejected :
  check_locked 0 []
    [ALock "a"; ARead "x"; AUnlock "a"; ALock "b"; AWrite "x"; AUnlock "b"] = false.
Proof. vm_compute. reflexivity. Qed.

Example ex_common_guard_accepted :
  check_locked 0 []
    [ALock "a"; ALock "b"; ARead "x"; AUnlock "a"; AWrite "x"; AUnlock "b"] = true.
Proof. vm_compute. reflexivity. Qed.

(* the common guard is computed across the programs of the table *)
Example ex_table_no_common_guard_rejected :
  check_table 0 [("f", [ALock "a"; AWrite "x"; AUnlock "a"]);
                 ("g", [ALock "b"; AWrite "x"; AUnlock "b"])] = false.
Proof. vm_compute. reflexivity. Qed.

(* a loop body must leave the lock state unchanged *)
Example ex_loop_lock_leak_rejected :
  check_locked 0 [] [ALoop [ALock "mu"]; AUnlock "mu"] = false.
Proof. vm_compute. reflexivity. Qed.

Example ex_loop_balanced_accepted :
  check_locked 0 [] [ALoop [ALock "mu"; AWrite "x"; AIf [AUnlock "mu"; AReturn] []; AUnlock "mu"]] = true.
Proof. vm_compute. reflexivity. Qed.

(* recursion is cut by the fuel *)
Example ex_recursive_rejected :
  check_table 10 [("f", [AIf [ACall "f"] []])] = false.
Proof. vm_compute. reflexivity. Qed.

(* the theorem applied to today's table: 3 kinds of threads, any number, any
   schedule *)
Example ex_today_safe :
  forall names sched g, run tbl (init tbl names) sched g ->
    ~ Racy g /\ ~ Shared g /\ ~ Crash tbl g /\
    (forall i t, nth_error (g_thr g) i = Some t -> finished t ->
       (forall m, s_mtx (g_sh g) m <> Some i) /\ t_owned t = []).
Proof. exact (C12_check_locked_sound 3 tbl ex_table_accepted). Qed.

End Examples.

(* ------------------------------------------------------------------ *)
(* G. Deadlock freedom with a single mutex                             *)
(* ------------------------------------------------------------------ *)

(* A thread that satisfies the invariant and is not finished can move,
   unless it waits for a mutex held by another thread. *)
Lemma thread_progress : forall T G i t sh,
  thread_ok T G i t (s_mtx sh) -> ~ finished t ->
  (exists t' sh', tstep T i t sh t' sh') \/
  (exists m k d rest j,
     t_frames t = (ALock m :: k, d) :: rest /\ s_mtx sh m = Some j /\ j <> i).
Proof.
  intros T G i [fs acc ow] sh [h [Hh [Hst _]]] Hnf. unfold finished in Hnf. simpl in *.
  destruct acc as [a|].
  { left. eexists. eexists. apply TAccEnd. }
  destruct fs as [|[k d] rest]; [contradiction Hnf; reflexivity|].
  destruct k as [|a k].
  { left. destruct d as [|dx d]; eexists; eexists; [apply TPop | apply TDeferRun]. }
  destruct Hst as [Q [Hok _]]. apply ok_inv in Hok.
  destruct a; simpl in Hok.
  - (* ALock *)
    destruct Hok as [Hni _].
    destruct (s_mtx sh m) as [j|] eqn:Hm.
    + right. exists m, k, d, rest, j. split; [reflexivity | split; [exact Hm|]].
      intro E. subst j. apply Hni. apply Hh. exact Hm.
    + left. eexists. eexists. apply TLock. exact Hm.
  - (* AUnlock *)
    destruct Hok as [Hin _]. left. eexists. eexists. apply TUnlock. apply Hh. exact Hin.
  - left. eexists. eexists. apply TDeferUnlock.
  - left. eexists. eexists. apply TReadBegin.
  - left. eexists. eexists. apply TWriteBegin.
  - left. eexists. eexists. apply TGetNew.
  - (* APoolPut *)
    destruct Hok as [Hin _].
    destruct (take_obj p ow) as [[x ow']|] eqn:Ht.
    + left. eexists. eexists. eapply TPut. exact Ht.
    + apply take_obj_none in Ht. contradiction.
  - left. eexists. eexists. apply TDeferPut.
  - left. eexists. eexists. apply TReturn.
  - left. eexists. eexists. apply TIfThen.
  - left. eexists. eexists. apply TLoopExit.
  - (* ACall *)
    destruct Hok as [q [Q' [Hl _]]]. left. eexists. eexists. eapply TCall. exact Hl.
Qed.

(* all Lock actions in the remaining control of a thread are on m0 *)
Definition frames_lock_only (m0 : string) (fs : list frame) : bool :=
  forallb (fun fr => prog_locks_only m0 (fst fr)) fs.

Lemma tstep_locks_only : forall T m0 i t sh t' sh',
  table_locks_only m0 T = true ->
  tstep T i t sh t' sh' ->
  frames_lock_only m0 (t_frames t) = true ->
  frames_lock_only m0 (t_frames t') = true.
Proof.
  intros T m0 i t sh t' sh' HT Hs.
  unfold frames_lock_only, prog_locks_only.
  inversion Hs; subst; simpl; intro HF;
    repeat rewrite ?andb_true_iff, ?forallb_app in *; try tauto.
  - (* TLoopIter *) simpl. rewrite !andb_true_iff. tauto.
  - (* TCall *)
    split; [|tauto]. apply lookup_In in H.
    unfold table_locks_only in HT. rewrite forallb_forall in HT.
    apply (HT _ H).
  - (* TDeferRun *) destruct dx; simpl; tauto.
Qed.

Definition LInv (m0 : string) (g : gstate) : Prop :=
  forall i t, nth_error (g_thr g) i = Some t -> frames_lock_only m0 (t_frames t) = true.

Lemma step_LInv : forall T m0 g i g',
  table_locks_only m0 T = true -> step T g i g' -> LInv m0 g -> LInv m0 g'.
Proof.
  intros T m0 g i g' HT Hs HL. inversion Hs; subst. intros j tj Hj. simpl in Hj.
  destruct (nth_upd_cases _ _ _ _ _ _ _ H Hj) as [[Ej Et]|[Ej Ho]].
  - subst. eapply tstep_locks_only; [exact HT | eassumption | apply (HL _ _ H)].
  - apply (HL _ _ Ho).
Qed.

Lemma run_LInv : forall T m0 g sched g',
  table_locks_only m0 T = true -> run T g sched g' -> LInv m0 g -> LInv m0 g'.
Proof.
  intros T m0 g sched g' HT Hr. induction Hr as [g|g i g1 sched g2 Hs Hr IH]; intro HL.
  - exact HL.
  - apply IH. eapply step_LInv; eassumption.
Qed.

Lemma init_LInv : forall T m0 names,
  table_locks_only m0 T = true -> LInv m0 (init T names).
Proof.
  intros T m0 names HT i t Hi. unfold init in Hi. simpl in Hi.
  apply nth_error_In in Hi. apply in_map_iff in Hi. destruct Hi as [f [Ef _]]. subst t.
  unfold thread_of_name. destruct (lookup f T) as [p|] eqn:Hl; [|reflexivity].
  simpl. unfold frames_lock_only. simpl. rewrite andb_true_r.
  apply lookup_In in Hl. unfold table_locks_only in HT. rewrite forallb_forall in HT.
  apply (HT _ Hl).
Qed.

Lemma blocked_on_m0 : forall m0 t m k d rest,
  frames_lock_only m0 (t_frames t) = true ->
  t_frames t = (ALock m :: k, d) :: rest -> m = m0.
Proof.
  intros m0 t m k d rest HL Hf. rewrite Hf in HL.
  unfold frames_lock_only, prog_locks_only in HL. simpl in HL.
  apply andb_true_iff in HL. destruct HL as [HL _].
  apply andb_true_iff in HL. destruct HL as [HL _].
  apply String.eqb_eq. exact HL.
Qed.

(* If the only mutex ever locked is m0 and the table passes the checker,
   then in every reachable state some thread can move, unless all threads
   are finished. *)
Theorem C12_deadlock_free_single_mutex : forall fuel T m0,
  check_table fuel T = true ->
  table_locks_only m0 T = true ->
  forall (names : list string) (sched : list nat) (g : gstate),
    run T (init T names) sched g ->
    (exists i t, nth_error (g_thr g) i = Some t /\ ~ finished t) ->
    exists i, can_move T g i.
Proof.
  intros fuel T m0 Hc HT names sched g Hr [i [t [Hi Hnf]]].
  unfold check_table in Hc.
  destruct (logs_of fuel T T) as [L|] eqn:HLg; [|discriminate].
  assert (HI : Inv T (guard_of L) g).
  { eapply run_Inv; [exact Hr|]. unfold init. apply Inv_init.
    intros t0 Hin. apply in_map_iff in Hin. destruct Hin as [f [Ef _]]. subst t0.
    eapply check_table_with_init_ok. exact Hc. }
  assert (HL : LInv m0 g).
  { eapply run_LInv; [exact HT | exact Hr | apply init_LInv; exact HT]. }
  destruct HI as [It [Ih _]].
  destruct (thread_progress T _ i t (g_sh g) (It _ _ Hi) Hnf)
    as [[t' [sh' Hs]] | [m [k [d [rest [j [Hf [Hm Hji]]]]]]]].
  { exists i. eexists. eapply step_intro; eassumption. }
  assert (Em : m = m0) by (eapply blocked_on_m0; [apply (HL _ _ Hi) | exact Hf]).
  subst m.
  (* the holder j exists, is not finished, and cannot be waiting for m0 *)
  pose proof (Ih _ _ Hm) as Hlt. apply nth_error_Some in Hlt.
  destruct (nth_error (g_thr g) j) as [tj|] eqn:Hj; [|contradiction Hlt; reflexivity].
  assert (Hnfj : ~ finished tj).
  { intro Hfin. destruct (It _ _ Hj) as [hj [Hhj [Hstj _]]].
    unfold finished in Hfin. rewrite Hfin in Hstj. simpl in Hstj.
    destruct Hstj as [Eh _]. apply Hhj in Hm. subst hj. contradiction. }
  destruct (thread_progress T _ j tj (g_sh g) (It _ _ Hj) Hnfj)
    as [[t' [sh' Hs]] | [m' [k' [d' [rest' [j' [Hf' [Hm' Hjj']]]]]]]].
  { exists j. eexists. eapply step_intro; eassumption. }
  assert (Em : m' = m0) by (eapply blocked_on_m0; [apply (HL _ _ Hj) | exact Hf']).
  subst m'. rewrite Hm in Hm'. inversion Hm'. congruence.
Qed.

(* today's table cannot deadlock *)
Example ex_today_deadlock_free :
  forall names sched g, run Examples.tbl (init Examples.tbl names) sched g ->
    (exists i t, nth_error (g_thr g) i = Some t /\ ~ finished t) ->
    exists i, can_move Examples.tbl g i.
Proof.
  exact (C12_deadlock_free_single_mutex 3 Examples.tbl "cacheMu"
           Examples.ex_table_accepted Examples.ex_table_single_mutex).
Qed.

(* ------------------------------------------------------------------ *)
(* H. The bad states are reachable by rejected programs                *)
(* ------------------------------------------------------------------ *)

(* (so the theorems above are not vacuous: the semantics does exhibit races
   and crashes when the discipline is not followed) *)

Ltac step_thread n rule :=
  eapply run_cons;
  [ eapply step_intro with (i := n); [reflexivity | rule] | simpl ].

(* locked read, unlocked write -- the shape of CueValidate before the fix *)
Definition racy_prog : prog :=
  [ALock "mu"; ARead "x"; AUnlock "mu"; AWrite "x"].

Example ex_racy_prog_rejected : check_locked 0 [] racy_prog = false.
Proof. vm_compute. reflexivity. Qed.

Example ex_racy_prog_races :
  exists sched g, run [] (init_progs [racy_prog; racy_prog]) sched g /\ Racy g.
Proof.
  exists [0; 0; 0; 0; 0; 1; 1; 1; 1; 1]. eexists. split.
  - unfold init_progs, racy_prog, thread_of_prog. simpl.
    step_thread 0 ltac:(apply TLock; reflexivity).
    step_thread 0 ltac:(apply TReadBegin).
    step_thread 0 ltac:(apply TAccEnd).
    step_thread 0 ltac:(apply TUnlock; reflexivity).
    step_thread 0 ltac:(apply TWriteBegin).
    step_thread 1 ltac:(apply TLock; reflexivity).
    step_thread 1 ltac:(apply TReadBegin).
    step_thread 1 ltac:(apply TAccEnd).
    step_thread 1 ltac:(apply TUnlock; reflexivity).
    step_thread 1 ltac:(apply TWriteBegin).
    apply run_nil.
  - exists 0, 1. eexists. eexists. exists true, true, "x". simpl.
    split; [discriminate|].
    split; [reflexivity|]. split; [reflexivity|].
    split; [reflexivity|]. split; [reflexivity|]. left. reflexivity.
Qed.

Example ex_unlock_unheld_crashes :
  Crash [] (init_progs [[AUnlock "mu"]]).
Proof.
  exists 0. eexists. split; [reflexivity|]. split; [reflexivity|]. simpl. discriminate.
Qed.

Print Assumptions C12_check_guard_sound.
Print Assumptions C12_check_locked_sound.
Print Assumptions C12_check_locked_program_sound.
Print Assumptions C12_access_holds_guard.
Print Assumptions C12_deadlock_free_single_mutex.
