(* Proofs/C03.v — logical groups are truth-functional. *)
From Mpath.Model Require Import Base Dec Types GoVal Ast Lexer Parser Funcs Eval.
From Mpath.Spec Require Import Logic.
From Mpath.Proofs Require Import EvalMono.

Definition lot_of (is_and : bool) : lot := if is_and then LAnd else LOr.

Definition operand_node (x : operand) : node :=
  match x with OpP p => NPath p | OpL l => NLog l end.

Lemma log_ops_spec (ev : operand -> outcome gv) (is_and : bool) :
  forall xs bs,
    Forall2 (fun x b => ev x = Ok (vbool b)) xs bs ->
    log_ops ev (lot_of is_and) xs = Ok (vbool (group_value is_and bs)).
Proof.
  induction 1 as [|x b xs bs Hx Hrest IH]; simpl.
  - destruct is_and; reflexivity.
  - rewrite Hx; simpl. destruct is_and; simpl in *; destruct b; simpl; auto.
Qed.

Section C03.
Variable uni : uclass.
Variable eng : engines.

Lemma group_one_level fuel inv isf is_and xs us cur orig bs :
  Forall2 (fun x b => eval uni eng fuel (operand_node x) cur orig = Ok (vbool b)) xs bs ->
  eval uni eng (S fuel) (NLog (LogOp inv isf (lot_of is_and) xs us)) cur orig
  = Ok (vbool (group_value is_and bs)).
Proof.
  intros H. cbn [eval].
  apply log_ops_spec.
  induction H as [|x b xs' bs' Hx Hrest IH]; constructor; auto.
  destruct x; exact Hx.
Qed.

(** every successful group evaluation yields a Go bool *)
Lemma log_ops_bool (ev : operand -> outcome gv) t xs v :
  log_ops ev t xs = Ok v -> exists b, v = vbool b.
Proof.
  revert v; induction xs as [|x rest IH]; intros v H; simpl in H.
  - destruct t; inversion H; eauto. 
  - destruct (ev x); simpl in H; try discriminate.
    destruct a; try (inversion H; eauto; fail).
    destruct named; try (inversion H; eauto; fail).
    destruct t; destruct b; try (inversion H; eauto; fail); eauto.
Qed.

Lemma group_result_is_bool fuel l cur orig v :
  eval uni eng fuel (NLog l) cur orig = Ok v -> exists b, v = vbool b.
Proof.
  destruct fuel as [|k]; [discriminate|].
  destruct l as [inv isf t xs us]. cbn [eval]. apply log_ops_bool.
Qed.

(** * Trees of groups *)
Inductive gtree :=
| GLeaf (p : path)
| GNode (is_and inv isf : bool) (us : str) (kids : list gtree).

Fixpoint to_operand (g : gtree) : operand :=
  match g with
  | GLeaf p => OpP p
  | GNode a inv isf us kids => OpL (LogOp inv isf (lot_of a) (map to_operand kids) us)
  end.

Fixpoint gvalue (leaf : path -> bool) (g : gtree) : bool :=
  match g with
  | GLeaf p => leaf p
  | GNode a _ _ _ kids => group_value a (map (gvalue leaf) kids)
  end.

Fixpoint leaves (g : gtree) : list path :=
  match g with
  | GLeaf p => [p]
  | GNode _ _ _ _ kids => flat_map leaves kids
  end.

Fixpoint height (g : gtree) : nat :=
  match g with
  | GLeaf _ => O
  | GNode _ _ _ _ kids => S (fold_right Nat.max O (map height kids))
  end.

Lemma max_fold_le (l : list nat) (x : nat) : In x l -> (x <= fold_right Nat.max O l)%nat.
Proof. induction l as [|y l IH]; simpl; [tauto|]. intros [->|H]; [lia | specialize (IH H); lia]. Qed.

Lemma group_tree cur orig (leaf : path -> bool) (f0 : nat) :
  forall n g, (height g <= n)%nat ->
    (forall p, In p (leaves g) -> eval uni eng f0 (NPath p) cur orig = Ok (vbool (leaf p))) ->
    forall fuel, (f0 + n <= fuel)%nat ->
      eval uni eng fuel (operand_node (to_operand g)) cur orig = Ok (vbool (gvalue leaf g)).
Proof.
  induction n as [|n IH]; intros g Hh Hl fuel Hf.
  - destruct g as [p|a inv isf us kids]; simpl in Hh; [|lia].
    simpl. eapply eval_mono_le; [ | apply Hl; simpl; auto | congruence ]. lia.
  - destruct g as [p|a inv isf us kids].
    + simpl. eapply eval_mono_le; [ | apply Hl; simpl; auto | congruence ]. lia.
    + destruct fuel as [|fuel]; [lia|].
      cbn [to_operand operand_node gvalue].
      apply group_one_level.
      rewrite <- (map_id (map (gvalue leaf) kids)).
      rewrite map_map.
      simpl in Hh.
      assert (Hk : forall k, In k kids -> eval uni eng fuel (operand_node (to_operand k)) cur orig = Ok (vbool (gvalue leaf k))).
      { intros k Hin. apply IH.
        - pose proof (max_fold_le (map height kids) (height k) (in_map _ _ _ Hin)). lia.
        - intros p Hp. apply Hl. simpl. apply in_flat_map. eauto.
        - lia. }
      clear -Hk. induction kids as [|k kids IHk]; simpl; constructor.
      * apply Hk; simpl; auto.
      * apply IHk. intros k' Hin. apply Hk; simpl; auto.
Qed.

(** a group given as a function argument reaches the function as its bool *)
Lemma group_as_argument (ev : node -> outcome gv) l b :
  ev (NLog l) = Ok (vbool b) -> eval_params ev [FPLog l] = Ok [RBool b].
Proof. intros H. simpl. rewrite H. reflexivity. Qed.

End C03.

(** the parser's default: a group that does not start with an identifier is an AND *)
Lemma group_default_and k isf brace first rest :
  is_ch brace 123 || is_ch brace 91 = true ->
  is_ident_tok first = false ->
  parse_log (S k) isf (CTok brace) (first :: rest)
  = log_loop k false isf LAnd [] (ttext brace) (CTok first) rest.
Proof.
  intros Hb Hf. cbn [parse_log]. rewrite Hb. cbn [negb scan]. rewrite Hf. reflexivity.
Qed.
