(* Proofs/E2E2.v — end to end, filters: a whole query `$.xs[@.k.F(arg)]…` over an
   array of rows held in arbitrary Go carriers.  Builds on Proofs/E2E.v (a
   function call after a key, arguments as literal or `$`-path), Proofs/C02.v
   (what a filter keeps), Proofs/C06b.v (a key stepped across rows) and
   Proofs/C17.v (Count). *)
From Coq Require Import QArith Qabs Lia.
From Mpath.Model Require Import Base Dec Types GoVal Ast Lexer Parser Funcs Eval.
From Mpath.Generated Require Import FuncTable.
From Mpath.Proofs Require Import DecQ Strings C04 C05 C06 C06b C17 C18 C02 E2E.

Local Open Scope Z_scope.

(* ------------------------------------------------------------------ *)
(** * 0. The AST shapes                                                *)
(* ------------------------------------------------------------------ *)

(** `@.k.F(ps)` — a predicate of a filter: a path that starts at the element
    under test.  The parser produces [pred_path false true true k false k false
    F ps "F(…)" "@.k.F(…)"] ([E2E2_parser_shapes]); the evaluator reads neither
    the invalid flag, nor the in-filter flag of a path that does not start at
    the root, nor the must-end flag, nor the userStrings: the theorems hold for
    all their values, and for the key with or without `?`. *)
Definition pred_path (inv isf me : bool) (k : str) (q : bool) (u1 : str)
                     (finv : bool) (name : string) (ps : list param) (u2 u3 : str) : path :=
  Path inv false isf me [PIdent k q u1; PFunc (Func finv (bs name) ps u2)] u3.

(** `[p1,…]`, `[AND,p1,…]` (t = LAnd) and `[OR,p1,…]` (t = LOr) *)
Definition filter_op (linv lisf : bool) (t : lot) (preds : list path) (lus fus : str) : pathop :=
  PFilter (LogOp linv lisf t (map OpP preds) lus) fus.

(** `$.a[…]rest` — a rooted path: key a, one filter, then [rest] *)
Definition filter_path (inv me : bool) (a : str) (q : bool) (u : str)
                       (f : pathop) (rest : list pathop) (us : str) : path :=
  Path inv true false me (PIdent a q u :: f :: rest) us.

(** `.Count()` *)
Definition count_op (cinv : bool) (cu : str) : pathop := PFunc (Func cinv (bs "Count") [] cu).

(* ------------------------------------------------------------------ *)
(** * 1. The six comparisons: on decimals, on rationals                *)
(* ------------------------------------------------------------------ *)

(** what the library computes for the comparison named F, receiver v, argument p *)
Definition dec_cmp (F : string) (v p : dec) : bool :=
  if String.eqb F "Less" then dlt v p
  else if String.eqb F "LessOrEqual" then dle v p
  else if String.eqb F "Greater" then dgt v p
  else if String.eqb F "GreaterOrEqual" then dge v p
  else if String.eqb F "Equal" then deq v p
  else if String.eqb F "NotEqual" then negb (deq v p)
  else false.

(** the relation R_F on Q that F stands for: receiver a, argument b *)
Definition cmp_rel (F : string) (a b : Q) : Prop :=
  if String.eqb F "Less" then (a < b)%Q
  else if String.eqb F "LessOrEqual" then (a <= b)%Q
  else if String.eqb F "Greater" then (b < a)%Q
  else if String.eqb F "GreaterOrEqual" then (b <= a)%Q
  else if String.eqb F "Equal" then (a == b)%Q
  else if String.eqb F "NotEqual" then (~ a == b)%Q
  else False.

(** … and its decision *)
Definition cmp_holds (F : string) (a b : Q) : bool :=
  if String.eqb F "Less" then negb (Qle_bool b a)
  else if String.eqb F "LessOrEqual" then Qle_bool a b
  else if String.eqb F "Greater" then negb (Qle_bool a b)
  else if String.eqb F "GreaterOrEqual" then Qle_bool b a
  else if String.eqb F "Equal" then Qeq_bool a b
  else if String.eqb F "NotEqual" then negb (Qeq_bool a b)
  else false.

Lemma cmp_rel_names a b :
  cmp_rel "Less" a b = (a < b)%Q /\ cmp_rel "LessOrEqual" a b = (a <= b)%Q /\
  cmp_rel "Greater" a b = (b < a)%Q /\ cmp_rel "GreaterOrEqual" a b = (b <= a)%Q /\
  cmp_rel "Equal" a b = (a == b)%Q /\ cmp_rel "NotEqual" a b = (~ a == b)%Q.
Proof. repeat split. Qed.

Ltac names H :=
  unfold comparison_names in H; cbn [In] in H;
  destruct H as [<-|[<-|[<-|[<-|[<-|[<-|[]]]]]]].

Lemma negb_true_not b P : (b = true <-> P) -> (negb b = true <-> ~ P).
Proof.
  intros H. destruct b; cbn [negb]; split; intros H'.
  - discriminate.
  - exfalso. apply H'. apply H. reflexivity.
  - intros HP. apply H in HP. discriminate.
  - reflexivity.
Qed.

Theorem cmp_holds_iff F a b : In F comparison_names -> (cmp_holds F a b = true <-> cmp_rel F a b).
Proof.
  intros H. names H; unfold cmp_holds, cmp_rel; cbn [String.eqb Ascii.eqb Bool.eqb].
  - rewrite (negb_true_not _ _ (Qle_bool_iff b a)). split; [apply Qnot_le_lt|apply Qlt_not_le].
  - apply Qle_bool_iff.
  - rewrite (negb_true_not _ _ (Qle_bool_iff a b)). split; [apply Qnot_le_lt|apply Qlt_not_le].
  - apply Qle_bool_iff.
  - apply Qeq_bool_iff.
  - apply negb_true_not. apply Qeq_bool_iff.
Qed.

Lemma dec_cmp_iff F v p : In F comparison_names -> (dec_cmp F v p = true <-> cmp_rel F (dval v) (dval p)).
Proof.
  intros H. names H; unfold dec_cmp, cmp_rel; cbn [String.eqb Ascii.eqb Bool.eqb].
  - apply dlt_iff.
  - apply dle_iff.
  - apply dgt_iff.
  - apply dge_iff.
  - apply deq_iff.
  - apply negb_true_not. apply deq_iff.
Qed.

(** R_F is a relation on values: it respects Qeq *)
Lemma cmp_rel_compat F a a' b b' :
  In F comparison_names -> (a == a')%Q -> (b == b')%Q -> (cmp_rel F a b <-> cmp_rel F a' b').
Proof.
  intros H Ha Hb. names H; unfold cmp_rel; cbn [String.eqb Ascii.eqb Bool.eqb]; rewrite Ha, Hb; reflexivity.
Qed.

Lemma bool_ext (b c : bool) : (b = true <-> c = true) -> b = c.
Proof. destruct b, c; intros [H1 H2]; try reflexivity; [symmetry; apply H1|apply H2]; reflexivity. Qed.

Lemma cmp_holds_compat F a a' b b' :
  In F comparison_names -> (a == a')%Q -> (b == b')%Q -> cmp_holds F a b = cmp_holds F a' b'.
Proof.
  intros H Ha Hb. apply bool_ext.
  rewrite (cmp_holds_iff F a b H), (cmp_holds_iff F a' b' H). apply cmp_rel_compat; assumption.
Qed.

(** the library's answer on decimals is the decision of R_F on the values *)
Lemma dec_cmp_value F v p a b :
  In F comparison_names -> (dval v == a)%Q -> (dval p == b)%Q -> dec_cmp F v p = cmp_holds F a b.
Proof.
  intros H Ha Hb. apply bool_ext.
  rewrite (dec_cmp_iff F v p H), (cmp_holds_iff F a b H). apply cmp_rel_compat; assumption.
Qed.

Lemma cmp_plain F : In F comparison_names -> plain_function F = true.
Proof. intros H. names H; vm_compute; reflexivity. Qed.

(* ------------------------------------------------------------------ *)
(** * 2. Lists: [keep] against maps, Forall2, filter                   *)
(* ------------------------------------------------------------------ *)

Definition has_source (g : gv) (q : Q) : Prop := source_value g = Some q.

Lemma Forall2_keep {A B} (R : A -> B -> Prop) xs ys :
  Forall2 R xs ys -> forall bs, Forall2 R (keep xs bs) (keep ys bs).
Proof.
  induction 1 as [|x y xs ys Hxy Hr IH]; intros [|b bs]; cbn [keep]; try constructor.
  destruct b; [constructor; [exact Hxy|]|]; apply IH.
Qed.

Lemma keep_length_filter {A B} (f : B -> bool) : forall (xs : list A) (qs : list B),
  length xs = length qs -> length (keep xs (map f qs)) = length (filter f qs).
Proof.
  induction xs as [|x xs IH]; intros [|q qs] H; cbn [keep map filter length] in *; try reflexivity; try discriminate.
  injection H as H. destruct (f q); cbn [length]; rewrite (IH qs H); reflexivity.
Qed.

Lemma keep_keep {A B} (f g : B -> bool) : forall (xs : list A) (qs : list B),
  length xs = length qs ->
  keep (keep xs (map f qs)) (map g (keep qs (map f qs))) = keep xs (map (fun q => f q && g q) qs).
Proof.
  induction xs as [|x xs IH]; intros [|q qs] H; cbn [keep map length] in *; try reflexivity; try discriminate.
  injection H as H. destruct (f q); cbn [andb keep map].
  - destruct (g q); rewrite (IH qs H); reflexivity.
  - apply IH. exact H.
Qed.

Lemma filter_nonempty {B} (f : B -> bool) (P : B -> Prop) qs :
  (forall q, f q = true <-> P q) -> Exists P qs -> filter f qs <> [].
Proof.
  intros Hf He. apply Exists_exists in He. destruct He as [q [Hin HP]].
  intros E. assert (Hq : In q (filter f qs)) by (apply filter_In; split; [exact Hin|apply Hf; exact HP]).
  rewrite E in Hq. contradiction.
Qed.

Lemma filter_none_nil {B} (f : B -> bool) (P : B -> Prop) qs :
  (forall q, f q = true <-> P q) -> Forall (fun q => ~ P q) qs -> filter f qs = [].
Proof.
  intros Hf Ha. destruct (filter f qs) as [|q l] eqn:E; [reflexivity|].
  assert (Hq : In q (filter f qs)) by (rewrite E; left; reflexivity).
  apply filter_In in Hq. destruct Hq as [Hin Hfq].
  rewrite Forall_forall in Ha. exfalso. apply (Ha q Hin). apply Hf. exact Hfq.
Qed.

Lemma length_zero_nil {A} (l : list A) : length l = 0%nat -> l = [].
Proof. destruct l; [reflexivity|discriminate]. Qed.

(** flags computed on decimals = flags computed on the source values *)
Lemma flags_by_value (fd : dec -> bool) (fq : Q -> bool) gs ds qs :
  (forall d q, (dval d == q)%Q -> fd d = fq q) ->
  Forall2 num_carrier gs ds -> Forall2 has_source gs qs -> map fd ds = map fq qs.
Proof.
  intros Hf Hc. revert qs. induction Hc as [|g d gs ds Hg Hr IH]; intros qs Hs.
  - inversion Hs. reflexivity.
  - inversion Hs as [|g' q gs' qs' Hq Hrest]; subst. cbn [map].
    rewrite (Hf d q (carrier_source g d q Hg Hq)), (IH qs' Hrest). reflexivity.
Qed.

Lemma flags_compat (f f' : Q -> bool) qs qs' :
  (forall q q', (q == q')%Q -> f q = f' q') -> Forall2 Qeq qs qs' -> map f qs = map f' qs'.
Proof.
  intros Hf H. induction H as [|q q' qs qs' Hq Hr IH]; [reflexivity|].
  cbn [map]. rewrite (Hf q q' Hq), IH. reflexivity.
Qed.

Lemma Forall2_length' {A B} (R : A -> B -> Prop) xs ys : Forall2 R xs ys -> length xs = length ys.
Proof. induction 1; cbn [length]; congruence. Qed.

(* ------------------------------------------------------------------ *)
(** * 3. Evaluation: the predicate, the filter body, the whole path    *)
(* ------------------------------------------------------------------ *)

Section E2E2.
Variable uni : uclass.
Variable eng : engines.

Lemma run_cmp F v p : In F comparison_names ->
  run_func eng F [RNum p] (VDec v) = Ok (vbool (dec_cmp F v p)).
Proof.
  intros H.
  destruct (comparisons_by_name eng [RNum p] v p (params_first_number_lit p)) as [Hlt [Hle [Hgt Hge]]].
  destruct (equal_numbers eng p v) as [Heq Hne].
  names H; [exact Hlt|exact Hle|exact Hgt|exact Hge|exact Heq|exact Hne].
Qed.

(** a path that starts at the current element (`@`): the function node that
    follows the key is evaluated on the (converted) value under the key of the
    ELEMENT, with the original document still in place for `$` *)
Lemma eval_cur_key_then_func fuel inv isf me k q u1 u3 f cur doc v :
  do_ident k cur = Ok v ->
  eval uni eng (S (S fuel)) (NPath (Path inv false isf me [PIdent k q u1; PFunc f] u3)) cur doc
  = eval uni eng fuel (NFunc f) v doc.
Proof.
  intros H. cbn [eval andb path_ops pathop_qmark pathop_is_func negb]. rewrite H.
  cbn [path_ops pathop_qmark pathop_is_func negb]. rewrite !andb_false_r.
  cbn [eval].
  destruct (eval uni eng fuel (NFunc f) v doc) as [v'|[|tg]|m| |w]; reflexivity.
Qed.

(** `@.k.F(arg)` on a row x whose key k holds a numeric carrier; the argument
    is resolved against the DOCUMENT ([param_denotes doc]) *)
Lemma pred_on_row fuel inv isf me k q u1 u2 u3 finv F p db x doc g d :
  In F comparison_names -> obj_row k x g -> num_carrier g d -> param_denotes doc p (RNum db) ->
  eval uni eng (S (S (S (S (S fuel))))) (NPath (pred_path inv isf me k q u1 finv F [p] u2 u3)) x doc
  = Ok (vbool (dec_cmp F d db)).
Proof.
  intros HF Hrow Hc Hp. unfold pred_path.
  rewrite (eval_cur_key_then_func (S (S (S fuel))) inv isf me k q u1 u3 _ x doc _ (do_ident_row k x g Hrow)).
  rewrite (eval_func_node uni eng (S (S fuel)) finv F [p] u2 _ doc (cmp_plain F HF)).
  rewrite (E2E_eval_params uni eng fuel _ doc [p] [RNum db]) by (constructor; [exact Hp|constructor]).
  cbn [bind]. rewrite (convert_unless_string_carrier g d Hc).
  change (convert_number (VDec d)) with (VDec d).
  apply run_cmp. exact HF.
Qed.

(** the body of a filter: one predicate, or two under AND / OR *)
Lemma body_one fuel linv lisf t lus p x doc b :
  t = LAnd \/ t = LOr ->
  eval uni eng fuel (NPath p) x doc = Ok (vbool b) ->
  eval uni eng (S fuel) (NLog (LogOp linv lisf t [OpP p] lus)) x doc = Ok (vbool b).
Proof.
  intros Ht H. cbn [eval log_ops]. rewrite H. cbn [bind vbool].
  destruct Ht as [->| ->]; destruct b; reflexivity.
Qed.

Lemma body_and fuel linv lisf lus p1 p2 x doc b1 b2 :
  eval uni eng fuel (NPath p1) x doc = Ok (vbool b1) ->
  eval uni eng fuel (NPath p2) x doc = Ok (vbool b2) ->
  eval uni eng (S fuel) (NLog (LogOp linv lisf LAnd [OpP p1; OpP p2] lus)) x doc = Ok (vbool (b1 && b2)).
Proof.
  intros H1 H2. cbn [eval log_ops]. rewrite H1. cbn [bind vbool].
  destruct b1; [|reflexivity]. rewrite H2. cbn [bind vbool]. destruct b2; reflexivity.
Qed.

Lemma body_or fuel linv lisf lus p1 p2 x doc b1 b2 :
  eval uni eng fuel (NPath p1) x doc = Ok (vbool b1) ->
  eval uni eng fuel (NPath p2) x doc = Ok (vbool b2) ->
  eval uni eng (S fuel) (NLog (LogOp linv lisf LOr [OpP p1; OpP p2] lus)) x doc = Ok (vbool (b1 || b2)).
Proof.
  intros H1 H2. cbn [eval log_ops]. rewrite H1. cbn [bind vbool].
  destruct b1; [reflexivity|]. rewrite H2. cbn [bind vbool]. destruct b2; reflexivity.
Qed.

(** over all rows: the flag of row i is [fl d_i] *)
Lemma body_flags (ev : gv -> outcome gv) k (fl : dec -> bool) rows gs ds :
  (forall x g d, obj_row k x g -> num_carrier g d -> ev x = Ok (vbool (fl d))) ->
  Forall2 (obj_row k) rows gs -> Forall2 num_carrier gs ds ->
  Forall2 (fun x b => ev x = Ok (vbool b)) rows (map fl ds).
Proof.
  intros Hev Hr. revert ds. induction Hr as [|x g rows gs Hx Hr IH]; intros ds Hc.
  - inversion Hc. constructor.
  - inversion Hc as [|g' d gs' ds' Hg Hrest]; subst. cbn [map]. constructor.
    + apply (Hev x g d Hx Hg).
    + apply IH. exact Hrest.
Qed.

(** ** The array carrier *)

(** an array carrier: a slice or a Go array of any element type, directly or
    behind one pointer — [elems] of Proofs/C17.v.  It is what a filter accepts
    ([as_elems] of Proofs/C02.v) and the key step hands it on unchanged. *)
Lemma elems_as_elems arr rows : elems arr = Some rows -> as_elems arr = Some rows.
Proof.
  intros H.
  destruct (elems_cases arr rows H) as [[t [n ->]]|[[t ->]|[[t [n ->]]|[t ->]]]];
    unfold as_elems, get_as_struct_or_slice; cbn; destruct rows; reflexivity.
Qed.

Lemma elems_unconverted arr rows : elems arr = Some rows -> convert_unless_string arr = arr.
Proof.
  intros H. unfold convert_unless_string.
  assert (Hs : is_go_string arr = false).
  { destruct (elems_cases arr rows H) as [[t [n ->]]|[[t ->]|[[t [n ->]]|[t ->]]]]; reflexivity. }
  rewrite Hs. apply (convert_number_elems arr rows H).
Qed.

(** one step of fuel, without unfolding the evaluator below it *)
Lemma eval_path_unfold k inv root isf me ops us cur orig :
  eval uni eng (S k) (NPath (Path inv root isf me ops us)) cur orig
  = if root && isf then fail "cannot access root data in filter" else
    path_ops (fun o d => eval uni eng k (NOp o) d orig) None false ops
             (match ops with [] => convert_unless_string (if root then orig else cur)
                           | _ => if root then orig else cur end) None.
Proof. reflexivity. Qed.

(** ** The bridging lemma: `$.a[l]rest` *)

(** the key is stepped, the filter runs over the rows with flags [bs], and the
    remaining operations continue on the kept rows (a []any).
    Side condition [is_nil arr = true -> q = true]: the library refuses to
    apply an operation that is not a function to a nil value ("cannot access
    property of nil value") unless the preceding key carries `?`; a nil slice
    is such a value ([E2E2_nil_slice_refuted]). *)
Lemma filter_step fuel inv me a q u l fus rest us cur doc arr rows bs :
  obj_row a doc arr -> elems arr = Some rows -> (is_nil arr = true -> q = true) ->
  Forall2 (fun x b => eval uni eng (S fuel) (NLog l) x doc = Ok (vbool b)) rows bs ->
  eval uni eng (S (S (S fuel))) (NPath (filter_path inv me a q u (PFilter l fus) rest us)) cur doc
  = path_ops (fun o d => eval uni eng (S (S fuel)) (NOp o) d doc) (Some (PFilter l fus)) (is_nil arr)
             rest (VSlice EAny false (keep rows bs)) None.
Proof.
  intros Hrow He Hnil Hb. unfold filter_path.
  rewrite eval_path_unfold. cbn [andb path_ops].
  change (eval uni eng (S (S fuel)) (NOp (PIdent a q u)) doc doc) with (do_ident a doc).
  rewrite (do_ident_row a doc arr Hrow), (elems_unconverted arr rows He).
  cbn [path_ops pathop_qmark pathop_is_func negb orb].
  assert (Hblk : is_nil arr && negb q && true = false).
  { destruct (is_nil arr); [rewrite (Hnil eq_refl)|]; reflexivity. }
  rewrite Hblk.
  rewrite (filter_array uni eng (S fuel) l fus arr doc rows bs (elems_as_elems arr rows He) Hb).
  change (is_nil (VSlice EAny false (keep rows bs))) with false. rewrite orb_false_r. reflexivity.
Qed.

(** ** What follows the filter *)

Lemma tail_none (ev : pathop -> gv -> outcome gv) prev pn v : path_ops ev prev pn [] v None = Ok v.
Proof. reflexivity. Qed.

(** `.Count()`: a function is applied even when a nil value was met on the way *)
Lemma tail_count fuel l fus pn cinv cu kept doc :
  path_ops (fun o d => eval uni eng (S (S fuel)) (NOp o) d doc) (Some (PFilter l fus)) pn
           [count_op cinv cu] (VSlice EAny false kept) None
  = Ok (VDec (mkDec (Z.of_nat (length kept)) 0)).
Proof.
  unfold count_op. cbn [path_ops pathop_qmark pathop_is_func negb]. rewrite andb_false_r.
  change (eval uni eng (S (S fuel)) (NOp (PFunc (Func cinv (bs "Count") [] cu))) (VSlice EAny false kept) doc)
    with (eval uni eng (S fuel) (NFunc (Func cinv (bs "Count") [] cu)) (VSlice EAny false kept) doc).
  rewrite (eval_func_node uni eng fuel cinv "Count" [] cu _ doc eq_refl).
  cbn [eval_params bind].
  rewrite (convert_number_elems (VSlice EAny false kept) kept eq_refl).
  rewrite (count_spec eng EAny false kept). reflexivity.
Qed.

(** the result of stepping key k across the kept rows, whose decimals are [dsk] *)
Definition key_result (dsk : list dec) : outcome gv :=
  match dsk with
  | [] => Err EKeyNotFound
  | _ => Ok (VSlice EAny false (map VDec dsk))
  end.

(** `.k` (with or without `?`): needs a non-nil array before the filter *)
Lemma tail_key fuel l fus k tq tu kept gsk dsk doc :
  Forall2 (obj_row k) kept gsk -> Forall2 num_carrier gsk dsk ->
  path_ops (fun o d => eval uni eng (S (S fuel)) (NOp o) d doc) (Some (PFilter l fus)) false
           [PIdent k tq tu] (VSlice EAny false kept) None
  = key_result dsk.
Proof.
  intros Hr Hc. cbn [path_ops pathop_qmark pathop_is_func negb andb].
  change (eval uni eng (S (S fuel)) (NOp (PIdent k tq tu)) (VSlice EAny false kept) doc)
    with (do_ident k (VSlice EAny false kept)).
  destruct kept as [|x kept'].
  - inversion Hr; subst. inversion Hc; subst.
    rewrite (proj1 (C06b_across_array_none k EAny [] (rp_nil k)) false).
    destruct tq; reflexivity.
  - assert (Hne : x :: kept' <> []) by discriminate.
    destruct (C06b_across_array k EAny (x :: kept') gsk dsk Hne Hr Hc) as [Hs _].
    rewrite (Hs false). cbn [path_ops].
    inversion Hr; subst. inversion Hc; subst. reflexivity.
Qed.

(** a second filter `[l2]`: needs a non-nil array before the first *)
Lemma tail_filter fuel l fus l2 fus2 kept bs2 doc :
  Forall2 (fun x b => eval uni eng (S fuel) (NLog l2) x doc = Ok (vbool b)) kept bs2 ->
  path_ops (fun o d => eval uni eng (S (S fuel)) (NOp o) d doc) (Some (PFilter l fus)) false
           [PFilter l2 fus2] (VSlice EAny false kept) None
  = Ok (VSlice EAny false (keep kept bs2)).
Proof.
  intros H. cbn [path_ops pathop_qmark pathop_is_func negb andb].
  rewrite (filter_array uni eng (S fuel) l2 fus2 (VSlice EAny false kept) doc kept bs2
             (as_elems_slice EAny false kept) H).
  reflexivity.
Qed.

(** ** The flags of a filter body over all rows, in terms of the source values *)

Lemma one_pred_flags fuel linv lisf t lus pinv pisf pme k kq ku finv fu pus F p doc rows gs ds qs db qp :
  t = LAnd \/ t = LOr -> In F comparison_names ->
  Forall2 (obj_row k) rows gs -> Forall2 num_carrier gs ds -> Forall2 has_source gs qs ->
  param_denotes doc p (RNum db) -> (dval db == qp)%Q ->
  Forall2 (fun x b => eval uni eng (S (S (S (S (S (S fuel))))))
                        (NLog (LogOp linv lisf t [OpP (pred_path pinv pisf pme k kq ku finv F [p] fu pus)] lus)) x doc
                      = Ok (vbool b))
          rows (map (fun q => cmp_holds F q qp) qs).
Proof.
  intros Ht HF Hr Hc Hs Hp Hq.
  rewrite <- (flags_by_value (fun d => dec_cmp F d db) (fun q => cmp_holds F q qp) gs ds qs); [| |exact Hc|exact Hs].
  - apply (body_flags _ k (fun d => dec_cmp F d db) rows gs ds); [|exact Hr|exact Hc].
    intros x g d Hx Hg. apply body_one; [exact Ht|].
    apply (pred_on_row fuel pinv pisf pme k kq ku fu pus finv F p db x doc g d HF Hx Hg Hp).
  - intros d q Hd. apply dec_cmp_value; assumption.
Qed.

Lemma two_pred_flags (is_and : bool) fuel linv lisf lus
      pinv pisf pme k kq ku finv fu pus pinv' pisf' pme' kq' ku' finv' fu' pus'
      F1 F2 p1 p2 doc rows gs ds qs db1 db2 qp1 qp2 :
  In F1 comparison_names -> In F2 comparison_names ->
  Forall2 (obj_row k) rows gs -> Forall2 num_carrier gs ds -> Forall2 has_source gs qs ->
  param_denotes doc p1 (RNum db1) -> (dval db1 == qp1)%Q ->
  param_denotes doc p2 (RNum db2) -> (dval db2 == qp2)%Q ->
  Forall2 (fun x b => eval uni eng (S (S (S (S (S (S fuel))))))
                        (NLog (LogOp linv lisf (if is_and then LAnd else LOr)
                                 [OpP (pred_path pinv pisf pme k kq ku finv F1 [p1] fu pus);
                                  OpP (pred_path pinv' pisf' pme' k kq' ku' finv' F2 [p2] fu' pus')] lus)) x doc
                      = Ok (vbool b))
          rows (map (fun q => if is_and then cmp_holds F1 q qp1 && cmp_holds F2 q qp2
                              else cmp_holds F1 q qp1 || cmp_holds F2 q qp2) qs).
Proof.
  intros HF1 HF2 Hr Hc Hs Hp1 Hq1 Hp2 Hq2.
  rewrite <- (flags_by_value (fun d => if is_and then dec_cmp F1 d db1 && dec_cmp F2 d db2
                                       else dec_cmp F1 d db1 || dec_cmp F2 d db2)
                             (fun q => if is_and then cmp_holds F1 q qp1 && cmp_holds F2 q qp2
                                       else cmp_holds F1 q qp1 || cmp_holds F2 q qp2) gs ds qs);
    [| |exact Hc|exact Hs].
  - apply (body_flags _ k _ rows gs ds); [|exact Hr|exact Hc].
    intros x g d Hx Hg.
    pose proof (pred_on_row fuel pinv pisf pme k kq ku fu pus finv F1 p1 db1 x doc g d HF1 Hx Hg Hp1) as E1.
    pose proof (pred_on_row fuel pinv' pisf' pme' k kq' ku' fu' pus' finv' F2 p2 db2 x doc g d HF2 Hx Hg Hp2) as E2.
    destruct is_and; [apply body_and|apply body_or]; assumption.
  - intros d q Hd.
    rewrite (dec_cmp_value F1 d db1 q qp1 HF1 Hd Hq1), (dec_cmp_value F2 d db2 q qp2 HF2 Hd Hq2). reflexivity.
Qed.

(* ------------------------------------------------------------------ *)
(** * 4. The setting                                                   *)
(* ------------------------------------------------------------------ *)

(** [doc] is an object (a map of any key / value type, or a struct) whose key
    [a] holds the array carrier [arr] — a slice or Go array of any element
    type, directly or behind one pointer — of the rows [rows]; every row is an
    object in which key [k] (up to case folding) holds the numeric carrier
    g_i, whose decimal is d_i and whose source value is q_i. *)
Record rows_doc (a k : str) (doc arr : gv) (rows gs : list gv) (ds : list dec) (qs : list Q) : Prop := {
  rd_key : obj_row a doc arr;
  rd_arr : elems arr = Some rows;
  rd_rows : Forall2 (obj_row k) rows gs;
  rd_num : Forall2 num_carrier gs ds;
  rd_src : Forall2 has_source gs qs
}.

Lemma rows_doc_length a k doc arr rows gs ds qs :
  rows_doc a k doc arr rows gs ds qs -> length rows = length qs /\ length ds = length qs.
Proof.
  intros [_ _ Hr Hc Hs].
  rewrite (Forall2_length' _ _ _ Hr), <- (Forall2_length' _ _ _ Hc), (Forall2_length' _ _ _ Hs). split; reflexivity.
Qed.

(** the flag of every row: does its source value stand in R_F to the threshold *)
Definition flags (F : string) (qs : list Q) (qp : Q) : list bool := map (fun q => cmp_holds F q qp) qs.
Definition flags_and (F1 F2 : string) (qs : list Q) (qp1 qp2 : Q) : list bool :=
  map (fun q => cmp_holds F1 q qp1 && cmp_holds F2 q qp2) qs.
Definition flags_or (F1 F2 : string) (qs : list Q) (qp1 qp2 : Q) : list bool :=
  map (fun q => cmp_holds F1 q qp1 || cmp_holds F2 q qp2) qs.

Theorem flags_spec F qs qp : In F comparison_names ->
  Forall2 (fun q b => b = true <-> cmp_rel F q qp) qs (flags F qs qp).
Proof.
  intros H. unfold flags. induction qs as [|q qs IH]; cbn [map]; constructor; [|exact IH].
  apply cmp_holds_iff. exact H.
Qed.

Theorem flags_and_spec F1 F2 qs qp1 qp2 : In F1 comparison_names -> In F2 comparison_names ->
  Forall2 (fun q b => b = true <-> cmp_rel F1 q qp1 /\ cmp_rel F2 q qp2) qs (flags_and F1 F2 qs qp1 qp2).
Proof.
  intros H1 H2. unfold flags_and. induction qs as [|q qs IH]; cbn [map]; constructor; [|exact IH].
  rewrite andb_true_iff, (cmp_holds_iff F1 q qp1 H1), (cmp_holds_iff F2 q qp2 H2). reflexivity.
Qed.

Theorem flags_or_spec F1 F2 qs qp1 qp2 : In F1 comparison_names -> In F2 comparison_names ->
  Forall2 (fun q b => b = true <-> cmp_rel F1 q qp1 \/ cmp_rel F2 q qp2) qs (flags_or F1 F2 qs qp1 qp2).
Proof.
  intros H1 H2. unfold flags_or. induction qs as [|q qs IH]; cbn [map]; constructor; [|exact IH].
  rewrite orb_true_iff, (cmp_holds_iff F1 q qp1 H1), (cmp_holds_iff F2 q qp2 H2). reflexivity.
Qed.

(** the flags depend on the values only *)
Lemma flags_storage F qs qs' qp qp' : In F comparison_names ->
  Forall2 Qeq qs qs' -> (qp == qp')%Q -> flags F qs qp = flags F qs' qp'.
Proof.
  intros H Hq Hp. unfold flags. apply flags_compat; [|exact Hq].
  intros q q' E. apply cmp_holds_compat; assumption.
Qed.

Lemma dval_count n : (dval (mkDec (Z.of_nat n) 0) == inject_Z (Z.of_nat n))%Q.
Proof. rewrite dval_mk. change (pow10Q 0) with 1%Q. ring. Qed.

(* ------------------------------------------------------------------ *)
(** * 5. The theorems                                                  *)
(* ------------------------------------------------------------------ *)

Section Queries.
(** the decoration of the query — fuel offset, invalid / must-end flags, `?`
    marks, userStrings, the current element (the outer path is rooted) —, of
    the filter(s), of the predicate(s), of a `$.lim` argument, of `.Count()`
    and of a trailing `.k`; the names of the two keys *)
Variables (fuel : nat) (inv me xq : bool) (xu us : str) (cur : gv) (a k : str).
Variables (linv lisf : bool) (lus fus : str) (linv' lisf' : bool) (lus' fus' : str).
Variables (pinv pisf pme kq : bool) (ku : str) (finv : bool) (fu pus : str).
Variables (pinv' pisf' pme' kq' : bool) (ku' : str) (finv' : bool) (fu' pus' : str).
Variables (ainv ame aq : bool) (au aus : str).
Variables (cinv : bool) (cu : str) (tq : bool) (tu : str).

(** `@.k.F(p)`, and a second one with its own decoration *)
Local Notation pred F p := (pred_path pinv pisf pme k kq ku finv F [p] fu pus).
Local Notation pred' F p := (pred_path pinv' pisf' pme' k kq' ku' finv' F [p] fu' pus').
(** `$.a[t,preds]rest` evaluated on doc *)
Local Notation query t preds rest doc :=
  (eval uni eng (S (S (S (S (S (S (S (S fuel))))))))
        (NPath (filter_path inv me a xq xu (filter_op linv lisf t preds lus fus) rest us)) cur doc).
(** `$.lim` as an argument *)
Local Notation arg lim := (FPPath (key_path ainv ame lim aq au aus)).
(** the side condition on a nil array carrier (see [filter_step]) *)
Local Notation nil_ok arr := (is_nil arr = true -> xq = true).

(** ** 5.0 The general form: any argument that denotes a number *)

(** `$.a[@.k.F(p)]`: the rows themselves, unchanged and in order, exactly
    those whose source value stands in R_F to the value of the argument; the
    result is a []any *)
Theorem E2E2_filter_compare : forall F p doc arr rows gs ds qs db qp,
  In F comparison_names -> rows_doc a k doc arr rows gs ds qs -> nil_ok arr ->
  param_denotes doc p (RNum db) -> (dval db == qp)%Q ->
  query LAnd [pred F p] [] doc = Ok (VSlice EAny false (keep rows (flags F qs qp))) /\
  Forall2 (fun q b => b = true <-> cmp_rel F q qp) qs (flags F qs qp) /\
  subseq (keep rows (flags F qs qp)) rows.
Proof.
  intros F p doc arr rows gs ds qs db qp HF [Hk Ha Hr Hc Hs] Hn Hp Hq.
  split; [|split; [apply flags_spec; exact HF|apply keep_subseq]].
  unfold filter_op. cbn [map].
  rewrite (filter_step (S (S (S (S (S fuel))))) inv me a xq xu _ fus [] us cur doc arr rows (flags F qs qp) Hk Ha Hn).
  - apply tail_none.
  - apply (one_pred_flags fuel linv lisf LAnd lus pinv pisf pme k kq ku finv fu pus F p doc rows gs ds qs db qp);
      auto.
Qed.

(** ** 5.1 `$.xs[@.k.F(p)]` with a literal threshold *)
Theorem E2E2_filter_compare_literal : forall F p doc arr rows gs ds qs qp,
  In F comparison_names -> rows_doc a k doc arr rows gs ds qs -> nil_ok arr ->
  (dval p == qp)%Q ->
  query LAnd [pred F (FPNum p)] [] doc = Ok (VSlice EAny false (keep rows (flags F qs qp))) /\
  Forall2 (fun q b => b = true <-> cmp_rel F q qp) qs (flags F qs qp) /\
  subseq (keep rows (flags F qs qp)) rows.
Proof.
  intros F p doc arr rows gs ds qs qp HF Hd Hn Hq.
  apply (E2E2_filter_compare F (FPNum p) doc arr rows gs ds qs p qp HF Hd Hn (pd_num doc p) Hq).
Qed.

(** ** 5.2 `$.xs[@.k.F($.lim)]`: the threshold read from the document.
    The `$` inside the predicate's argument is the document, not the row:
    [obj_row lim doc glim]. *)
Theorem E2E2_filter_compare_root_argument : forall F lim glim dlim doc arr rows gs ds qs qp,
  In F comparison_names -> rows_doc a k doc arr rows gs ds qs -> nil_ok arr ->
  obj_row lim doc glim -> num_carrier glim dlim -> source_value glim = Some qp ->
  query LAnd [pred F (arg lim)] [] doc = Ok (VSlice EAny false (keep rows (flags F qs qp))) /\
  Forall2 (fun q b => b = true <-> cmp_rel F q qp) qs (flags F qs qp) /\
  subseq (keep rows (flags F qs qp)) rows.
Proof.
  intros F lim glim dlim doc arr rows gs ds qs qp HF Hd Hn Hl Hc Hs.
  apply (E2E2_filter_compare F (arg lim) doc arr rows gs ds qs dlim qp HF Hd Hn
           (pd_path_num doc ainv ame lim aq au aus glim dlim Hl Hc) (carrier_source glim dlim qp Hc Hs)).
Qed.

(** ** 5.3 `$.xs[@.k.F(p)].Count()`: the number of rows whose source value
    stands in R_F to the threshold, as a decimal of exponent 0 *)
Theorem E2E2_filter_count : forall F p doc arr rows gs ds qs db qp,
  In F comparison_names -> rows_doc a k doc arr rows gs ds qs -> nil_ok arr ->
  param_denotes doc p (RNum db) -> (dval db == qp)%Q ->
  let n := length (filter (fun q => cmp_holds F q qp) qs) in
  query LAnd [pred F p] [count_op cinv cu] doc = Ok (VDec (mkDec (Z.of_nat n) 0)) /\
  (dval (mkDec (Z.of_nat n) 0) == inject_Z (Z.of_nat n))%Q.
Proof.
  intros F p doc arr rows gs ds qs db qp HF Hd Hn Hp Hq n.
  split; [|apply dval_count].
  destruct (rows_doc_length _ _ _ _ _ _ _ _ Hd) as [Hlen _].
  destruct Hd as [Hk Ha Hr Hc Hs].
  unfold filter_op. cbn [map].
  rewrite (filter_step (S (S (S (S (S fuel))))) inv me a xq xu _ fus _ us cur doc arr rows (flags F qs qp) Hk Ha Hn).
  - rewrite tail_count. unfold flags, n. rewrite (keep_length_filter _ rows qs Hlen). reflexivity.
  - apply (one_pred_flags fuel linv lisf LAnd lus pinv pisf pme k kq ku finv fu pus F p doc rows gs ds qs db qp);
      auto.
Qed.

(** ** 5.4 `$.xs[@.k.F(p)].k`: the decimals of the kept rows, in order — or
    "key not found" when no row is kept (an empty []any has no element to
    take the key from).  Side condition: the array carrier is not nil (a key
    is not a function: after a nil value it is refused even though the filter
    itself produced a non-nil result, [E2E2_nil_slice_refuted]). *)
Theorem E2E2_filter_then_key_gen : forall F p doc arr rows gs ds qs db qp,
  In F comparison_names -> rows_doc a k doc arr rows gs ds qs -> is_nil arr = false ->
  param_denotes doc p (RNum db) -> (dval db == qp)%Q ->
  query LAnd [pred F p] [PIdent k tq tu] doc = key_result (keep ds (flags F qs qp)).
Proof.
  intros F p doc arr rows gs ds qs db qp HF [Hk Ha Hr Hc Hs] Hn Hp Hq.
  unfold filter_op. cbn [map].
  rewrite (filter_step (S (S (S (S (S fuel))))) inv me a xq xu _ fus _ us cur doc arr rows (flags F qs qp) Hk Ha).
  - rewrite Hn.
    apply (tail_key _ _ fus k tq tu _ (keep gs (flags F qs qp)) (keep ds (flags F qs qp)) doc);
      apply Forall2_keep; assumption.
  - rewrite Hn. discriminate.
  - apply (one_pred_flags fuel linv lisf LAnd lus pinv pisf pme k kq ku finv fu pus F p doc rows gs ds qs db qp);
      auto.
Qed.

Lemma keep_ds_empty F (ds : list dec) qs qp : length ds = length qs ->
  (Exists (fun q => cmp_rel F q qp) qs -> In F comparison_names -> keep ds (flags F qs qp) <> []) /\
  (Forall (fun q => ~ cmp_rel F q qp) qs -> In F comparison_names -> keep ds (flags F qs qp) = []).
Proof.
  intros Hlen. pose proof (keep_length_filter (fun q => cmp_holds F q qp) ds qs Hlen) as HL.
  fold (flags F qs qp) in HL. split; intros H HF.
  - intros E. rewrite E in HL. symmetry in HL. apply length_zero_nil in HL.
    revert HL. apply (filter_nonempty _ (fun q => cmp_rel F q qp)); [|exact H].
    intros q. apply cmp_holds_iff. exact HF.
  - apply length_zero_nil. rewrite HL.
    rewrite (filter_none_nil _ (fun q => cmp_rel F q qp)); [reflexivity| |exact H].
    intros q. apply cmp_holds_iff. exact HF.
Qed.

(** some row satisfies the predicate: a []any of decimals *)
Theorem E2E2_filter_then_key : forall F p doc arr rows gs ds qs db qp,
  In F comparison_names -> rows_doc a k doc arr rows gs ds qs -> is_nil arr = false ->
  param_denotes doc p (RNum db) -> (dval db == qp)%Q ->
  Exists (fun q => cmp_rel F q qp) qs ->
  query LAnd [pred F p] [PIdent k tq tu] doc = Ok (VSlice EAny false (map VDec (keep ds (flags F qs qp)))) /\
  Forall2 (fun g d => exists q, source_value g = Some q /\ (dval d == q)%Q)
          (keep gs (flags F qs qp)) (keep ds (flags F qs qp)).
Proof.
  intros F p doc arr rows gs ds qs db qp HF Hd Hn Hp Hq He.
  destruct (rows_doc_length _ _ _ _ _ _ _ _ Hd) as [_ Hlen].
  rewrite (E2E2_filter_then_key_gen F p doc arr rows gs ds qs db qp HF Hd Hn Hp Hq).
  split.
  - pose proof (proj1 (keep_ds_empty F ds qs qp Hlen) He HF) as Hne.
    unfold key_result. destruct (keep ds (flags F qs qp)); [contradiction|reflexivity].
  - apply Forall2_keep. apply carriers_same_value. exact (rd_num _ _ _ _ _ _ _ _ Hd).
Qed.

(** no row satisfies it: key not found (with or without `?` on the key) *)
Theorem E2E2_filter_then_key_none : forall F p doc arr rows gs ds qs db qp,
  In F comparison_names -> rows_doc a k doc arr rows gs ds qs -> is_nil arr = false ->
  param_denotes doc p (RNum db) -> (dval db == qp)%Q ->
  Forall (fun q => ~ cmp_rel F q qp) qs ->
  query LAnd [pred F p] [PIdent k tq tu] doc = Err EKeyNotFound.
Proof.
  intros F p doc arr rows gs ds qs db qp HF Hd Hn Hp Hq Ha.
  destruct (rows_doc_length _ _ _ _ _ _ _ _ Hd) as [_ Hlen].
  rewrite (E2E2_filter_then_key_gen F p doc arr rows gs ds qs db qp HF Hd Hn Hp Hq).
  rewrite (proj2 (keep_ds_empty F ds qs qp Hlen) Ha HF). reflexivity.
Qed.

(** ** 5.5 Two predicates on the same key: OR, AND, and the chained form.
    `[p1,p2]` and `[AND,p1,p2]` are the same tree up to userStrings
    ([E2E2_parser_shapes]), so the second statement covers both.  The chained
    form needs a non-nil array carrier (the second filter is not a function). *)
Theorem E2E2_filter_or_and : forall F1 F2 p1 p2 doc arr rows gs ds qs db1 db2 qp1 qp2,
  In F1 comparison_names -> In F2 comparison_names ->
  rows_doc a k doc arr rows gs ds qs -> nil_ok arr ->
  param_denotes doc p1 (RNum db1) -> (dval db1 == qp1)%Q ->
  param_denotes doc p2 (RNum db2) -> (dval db2 == qp2)%Q ->
  (query LOr [pred F1 p1; pred' F2 p2] [] doc = Ok (VSlice EAny false (keep rows (flags_or F1 F2 qs qp1 qp2))) /\
   Forall2 (fun q b => b = true <-> cmp_rel F1 q qp1 \/ cmp_rel F2 q qp2) qs (flags_or F1 F2 qs qp1 qp2)) /\
  (query LAnd [pred F1 p1; pred' F2 p2] [] doc = Ok (VSlice EAny false (keep rows (flags_and F1 F2 qs qp1 qp2))) /\
   Forall2 (fun q b => b = true <-> cmp_rel F1 q qp1 /\ cmp_rel F2 q qp2) qs (flags_and F1 F2 qs qp1 qp2)) /\
  (is_nil arr = false ->
   query LAnd [pred F1 p1] [filter_op linv' lisf' LAnd [pred' F2 p2] lus' fus'] doc
   = Ok (VSlice EAny false (keep rows (flags_and F1 F2 qs qp1 qp2))) /\
   query LAnd [pred F1 p1] [filter_op linv' lisf' LAnd [pred' F2 p2] lus' fus'] doc
   = query LAnd [pred F1 p1; pred' F2 p2] [] doc).
Proof.
  intros F1 F2 p1 p2 doc arr rows gs ds qs db1 db2 qp1 qp2 HF1 HF2 Hd Hn Hp1 Hq1 Hp2 Hq2.
  destruct (rows_doc_length _ _ _ _ _ _ _ _ Hd) as [Hlen _].
  destruct Hd as [Hk Ha Hr Hc Hs].
  assert (Hor : query LOr [pred F1 p1; pred' F2 p2] [] doc
                = Ok (VSlice EAny false (keep rows (flags_or F1 F2 qs qp1 qp2)))).
  { unfold filter_op. cbn [map].
    rewrite (filter_step (S (S (S (S (S fuel))))) inv me a xq xu _ fus [] us cur doc arr rows
               (flags_or F1 F2 qs qp1 qp2) Hk Ha Hn); [apply tail_none|].
    apply (two_pred_flags false fuel linv lisf lus pinv pisf pme k kq ku finv fu pus
             pinv' pisf' pme' kq' ku' finv' fu' pus' F1 F2 p1 p2 doc rows gs ds qs db1 db2 qp1 qp2); assumption. }
  assert (Hand : query LAnd [pred F1 p1; pred' F2 p2] [] doc
                 = Ok (VSlice EAny false (keep rows (flags_and F1 F2 qs qp1 qp2)))).
  { unfold filter_op. cbn [map].
    rewrite (filter_step (S (S (S (S (S fuel))))) inv me a xq xu _ fus [] us cur doc arr rows
               (flags_and F1 F2 qs qp1 qp2) Hk Ha Hn); [apply tail_none|].
    apply (two_pred_flags true fuel linv lisf lus pinv pisf pme k kq ku finv fu pus
             pinv' pisf' pme' kq' ku' finv' fu' pus' F1 F2 p1 p2 doc rows gs ds qs db1 db2 qp1 qp2); assumption. }
  split; [split; [exact Hor|apply flags_or_spec; assumption]|].
  split; [split; [exact Hand|apply flags_and_spec; assumption]|].
  intros Hnn.
  assert (Hch : query LAnd [pred F1 p1] [filter_op linv' lisf' LAnd [pred' F2 p2] lus' fus'] doc
                = Ok (VSlice EAny false (keep rows (flags_and F1 F2 qs qp1 qp2)))).
  { unfold filter_op. cbn [map].
    rewrite (filter_step (S (S (S (S (S fuel))))) inv me a xq xu _ fus _ us cur doc arr rows
               (flags F1 qs qp1) Hk Ha Hn).
    - rewrite Hnn.
      rewrite (tail_filter (S (S (S (S (S fuel))))) _ fus _ fus' (keep rows (flags F1 qs qp1))
                 (flags F2 (keep qs (flags F1 qs qp1)) qp2) doc).
      + unfold flags, flags_and. rewrite (keep_keep _ _ rows qs Hlen). reflexivity.
      + apply (one_pred_flags fuel linv' lisf' LAnd lus' pinv' pisf' pme' k kq' ku' finv' fu' pus' F2 p2 doc
                 (keep rows (flags F1 qs qp1)) (keep gs (flags F1 qs qp1)) (keep ds (flags F1 qs qp1))
                 (keep qs (flags F1 qs qp1)) db2 qp2); auto; apply Forall2_keep; assumption.
    - apply (one_pred_flags fuel linv lisf LAnd lus pinv pisf pme k kq ku finv fu pus F1 p1 doc rows gs ds qs db1 qp1);
        auto. }
  split; [exact Hch|]. rewrite Hch, Hand. reflexivity.
Qed.

(** ** 5.6 Storage invariance.  Two documents whose rows carry the same
    values position by position — in other numeric carriers, other object
    carriers (map / struct, other key case), another array carrier —, the
    thresholds of the same value supplied in whatever way: the SAME flag list
    [bs] (the characteristic vector of the kept positions) describes both
    results; the counts are equal; the `.k` results are lists of decimals
    equal position by position up to [dval]. *)
Theorem E2E2_storage_invariant : forall F p p' doc doc' arr arr' rows rows' gs gs' ds ds' qs qs' db db' qp qp',
  In F comparison_names ->
  rows_doc a k doc arr rows gs ds qs -> rows_doc a k doc' arr' rows' gs' ds' qs' ->
  nil_ok arr -> nil_ok arr' ->
  Forall2 Qeq qs qs' ->
  param_denotes doc p (RNum db) -> param_denotes doc' p' (RNum db') ->
  (dval db == qp)%Q -> (dval db' == qp')%Q -> (qp == qp')%Q ->
  exists bs,
    bs = flags F qs qp /\ bs = flags F qs' qp' /\
    query LAnd [pred F p] [] doc = Ok (VSlice EAny false (keep rows bs)) /\
    query LAnd [pred F p'] [] doc' = Ok (VSlice EAny false (keep rows' bs)) /\
    query LAnd [pred F p] [count_op cinv cu] doc = query LAnd [pred F p'] [count_op cinv cu] doc' /\
    (is_nil arr = false -> is_nil arr' = false ->
     query LAnd [pred F p] [PIdent k tq tu] doc = key_result (keep ds bs) /\
     query LAnd [pred F p'] [PIdent k tq tu] doc' = key_result (keep ds' bs)) /\
    Forall2 (fun d d' => (dval d == dval d')%Q) (keep ds bs) (keep ds' bs).
Proof.
  intros F p p' doc doc' arr arr' rows rows' gs gs' ds ds' qs qs' db db' qp qp'
         HF Hd Hd' Hn Hn' Hqs Hp Hp' Hq Hq' Hqq.
  exists (flags F qs qp).
  pose proof (flags_storage F qs qs' qp qp' HF Hqs Hqq) as Efl.
  split; [reflexivity|]. split; [exact Efl|].
  split; [apply (E2E2_filter_compare F p doc arr rows gs ds qs db qp HF Hd Hn Hp Hq)|].
  split; [rewrite Efl; apply (E2E2_filter_compare F p' doc' arr' rows' gs' ds' qs' db' qp' HF Hd' Hn' Hp' Hq')|].
  split.
  { rewrite (proj1 (E2E2_filter_count F p doc arr rows gs ds qs db qp HF Hd Hn Hp Hq)),
            (proj1 (E2E2_filter_count F p' doc' arr' rows' gs' ds' qs' db' qp' HF Hd' Hn' Hp' Hq')).
    do 4 f_equal.
    destruct (rows_doc_length _ _ _ _ _ _ _ _ Hd) as [Hl _].
    destruct (rows_doc_length _ _ _ _ _ _ _ _ Hd') as [Hl' _].
    rewrite <- (keep_length_filter _ rows qs Hl), <- (keep_length_filter _ rows qs' (eq_trans Hl (Forall2_length' _ _ _ Hqs))).
    fold (flags F qs qp). fold (flags F qs' qp'). rewrite Efl. reflexivity. }
  split.
  { intros Hnn Hnn'. split.
    - apply (E2E2_filter_then_key_gen F p doc arr rows gs ds qs db qp HF Hd Hnn Hp Hq).
    - rewrite Efl. apply (E2E2_filter_then_key_gen F p' doc' arr' rows' gs' ds' qs' db' qp' HF Hd' Hnn' Hp' Hq'). }
  apply Forall2_keep.
  (* d_i and d'_i are the decimals of carriers whose source values are equal *)
  destruct Hd as [_ _ _ Hc Hs]. destruct Hd' as [_ _ _ Hc' Hs'].
  clear - Hc Hs Hc' Hs' Hqs.
  revert gs ds gs' ds' Hc Hs Hc' Hs'.
  induction Hqs as [|q q' qs qs' Hq Hr IH]; intros gs ds gs' ds' Hc Hs Hc' Hs'.
  - inversion Hs; subst. inversion Hs'; subst. inversion Hc; subst. inversion Hc'; subst. constructor.
  - inversion Hs as [|g0 q0 gs0 qs0 Hg0 Hs0]; subst. inversion Hs' as [|g1 q1 gs1 qs1 Hg1 Hs1]; subst.
    inversion Hc as [|g2 d2 gs2 ds2 Hd2 Hc2]; subst. inversion Hc' as [|g3 d3 gs3 ds3 Hd3 Hc3]; subst.
    constructor.
    + rewrite (carrier_source g0 d2 q Hd2 Hg0), (carrier_source g1 d3 q' Hd3 Hg1). exact Hq.
    + apply (IH gs0 ds2 gs1 ds3); assumption.
Qed.

End Queries.

(** at the library's entry point: [do_top] = Do on the parsed query *)
Lemma do_top_path p doc :
  do_top uni eng (TopP p) doc
  = eval uni eng (S (S (S (S (S (S (S (S 4087%nat)))))))) (NPath p) doc doc.
Proof.
  unfold do_top.
  change default_fuel with (S (S (S (S (S (S (S (S (S 4087%nat))))))))). generalize 4087%nat. intros n.
  apply eval_top.
Qed.

End E2E2.

Print Assumptions E2E2_filter_compare.
Print Assumptions E2E2_filter_compare_literal.
Print Assumptions E2E2_filter_compare_root_argument.
Print Assumptions E2E2_filter_count.
Print Assumptions E2E2_filter_then_key_gen.
Print Assumptions E2E2_filter_then_key.
Print Assumptions E2E2_filter_then_key_none.
Print Assumptions E2E2_filter_or_and.
Print Assumptions E2E2_storage_invariant.
Print Assumptions cmp_holds_iff.
Print Assumptions flags_spec.
Print Assumptions flags_and_spec.
Print Assumptions flags_or_spec.
Print Assumptions dec_cmp_value.
Print Assumptions filter_step.

(* ------------------------------------------------------------------ *)
(** * 6. Through the real parser                                       *)
(* ------------------------------------------------------------------ *)

(** the parser produces exactly the shapes the theorems are stated for;
    `[p1,p2]` and `[AND,p1,p2]` differ in userStrings only *)
Example E2E2_parser_shapes :
  parse_string uni_ascii (bs "$.xs[@.k.Greater(2)]") =
    Ok (TopP (filter_path false false (bs "xs") false (bs "xs")
                (filter_op false true LAnd
                   [pred_path false true true (bs "k") false (bs "k") false "Greater" [FPNum (mkDec 2 0)]
                              (bs "Greater(2)") (bs "@.k.Greater(2)")]
                   (bs "[@.k.Greater(2)]") (bs "[@.k.Greater(2)]"))
                [] (bs "$.xs[@.k.Greater(2)]"))) /\
  parse_string uni_ascii (bs "$.xs[@.k.Greater($.lim)]") =
    Ok (TopP (filter_path false false (bs "xs") false (bs "xs")
                (filter_op false true LAnd
                   [pred_path false true true (bs "k") false (bs "k") false "Greater"
                              [FPPath (key_path false false (bs "lim") false (bs "lim") (bs "$.lim"))]
                              (bs "Greater($.lim)") (bs "@.k.Greater($.lim)")]
                   (bs "[@.k.Greater($.lim)]") (bs "[@.k.Greater($.lim)]"))
                [] (bs "$.xs[@.k.Greater($.lim)]"))) /\
  parse_string uni_ascii (bs "$.xs[@.k.Greater(2)].Count()") =
    Ok (TopP (filter_path false false (bs "xs") false (bs "xs")
                (filter_op false true LAnd
                   [pred_path false true true (bs "k") false (bs "k") false "Greater" [FPNum (mkDec 2 0)]
                              (bs "Greater(2)") (bs "@.k.Greater(2)")]
                   (bs "[@.k.Greater(2)]") (bs "[@.k.Greater(2)]"))
                [count_op false (bs "Count()")] (bs "$.xs[@.k.Greater(2)].Count()"))) /\
  parse_string uni_ascii (bs "$.xs[@.k.Greater(2)].k") =
    Ok (TopP (filter_path false false (bs "xs") false (bs "xs")
                (filter_op false true LAnd
                   [pred_path false true true (bs "k") false (bs "k") false "Greater" [FPNum (mkDec 2 0)]
                              (bs "Greater(2)") (bs "@.k.Greater(2)")]
                   (bs "[@.k.Greater(2)]") (bs "[@.k.Greater(2)]"))
                [PIdent (bs "k") false (bs "k")] (bs "$.xs[@.k.Greater(2)].k"))) /\
  parse_string uni_ascii (bs "$.xs[OR,@.k.Less(1),@.k.Greater(3)]") =
    Ok (TopP (filter_path false false (bs "xs") false (bs "xs")
                (filter_op false true LOr
                   [pred_path false true true (bs "k") false (bs "k") false "Less" [FPNum (mkDec 1 0)]
                              (bs "Less(1)") (bs "@.k.Less(1)");
                    pred_path false true true (bs "k") false (bs "k") false "Greater" [FPNum (mkDec 3 0)]
                              (bs "Greater(3)") (bs "@.k.Greater(3)")]
                   (bs "[OR,@.k.Less(1),@.k.Greater(3)]") (bs "[OR,@.k.Less(1),@.k.Greater(3)]"))
                [] (bs "$.xs[OR,@.k.Less(1),@.k.Greater(3)]"))) /\
  parse_string uni_ascii (bs "$.xs[AND,@.k.Less(1),@.k.Greater(3)]") =
    Ok (TopP (filter_path false false (bs "xs") false (bs "xs")
                (filter_op false true LAnd
                   [pred_path false true true (bs "k") false (bs "k") false "Less" [FPNum (mkDec 1 0)]
                              (bs "Less(1)") (bs "@.k.Less(1)");
                    pred_path false true true (bs "k") false (bs "k") false "Greater" [FPNum (mkDec 3 0)]
                              (bs "Greater(3)") (bs "@.k.Greater(3)")]
                   (bs "[AND,@.k.Less(1),@.k.Greater(3)]") (bs "[AND,@.k.Less(1),@.k.Greater(3)]"))
                [] (bs "$.xs[AND,@.k.Less(1),@.k.Greater(3)]"))) /\
  parse_string uni_ascii (bs "$.xs[@.k.Less(1),@.k.Greater(3)]") =
    Ok (TopP (filter_path false false (bs "xs") false (bs "xs")
                (filter_op false true LAnd
                   [pred_path false true true (bs "k") false (bs "k") false "Less" [FPNum (mkDec 1 0)]
                              (bs "Less(1)") (bs "@.k.Less(1)");
                    pred_path false true true (bs "k") false (bs "k") false "Greater" [FPNum (mkDec 3 0)]
                              (bs "Greater(3)") (bs "@.k.Greater(3)")]
                   (bs "[@.k.Less(1),@.k.Greater(3)]") (bs "[@.k.Less(1),@.k.Greater(3)]"))
                [] (bs "$.xs[@.k.Less(1),@.k.Greater(3)]"))) /\
  parse_string uni_ascii (bs "$.xs[@.k.Less(1)][@.k.Greater(3)]") =
    Ok (TopP (filter_path false false (bs "xs") false (bs "xs")
                (filter_op false true LAnd
                   [pred_path false true true (bs "k") false (bs "k") false "Less" [FPNum (mkDec 1 0)]
                              (bs "Less(1)") (bs "@.k.Less(1)")]
                   (bs "[@.k.Less(1)]") (bs "[@.k.Less(1)]"))
                [filter_op false true LAnd
                   [pred_path false true true (bs "k") false (bs "k") false "Greater" [FPNum (mkDec 3 0)]
                              (bs "Greater(3)") (bs "@.k.Greater(3)")]
                   (bs "[@.k.Greater(3)]") (bs "[@.k.Greater(3)]")]
                (bs "$.xs[@.k.Less(1)][@.k.Greater(3)]"))).
Proof. repeat split; vm_compute; reflexivity. Qed.

(** rows [{k: int8 -1}, {K: uint64 2^63}, {k: float64 2.5}, {k: decimal 3}] and
    lim = float64 2.5: once as a []map[string]any inside a map … *)
Definition f25 : gv := VFloat false false (FFin (mkDec 25 (-1))).
Definition ex2_rows_maps : gv :=
  VSlice ETOther false [jmap [("k", VInt KInt8 false (-1))]; jmap [("K", VInt KUint64 false two63)];
                        jmap [("k", f25)]; jmap [("k", VDec (mkDec 3 0))]].
Definition ex2_doc_maps : gv := jmap [("xs", ex2_rows_maps); ("lim", f25)].
(** … once as a [4]struct (fields statically typed or interface-typed)
    inside a struct *)
Definition ex2_rows_structs : gv :=
  VArray ETOther [VStruct [(bs "K", true, false, VInt KInt8 false (-1))];
                  VStruct [(bs "K", true, true, VInt KUint64 false two63)];
                  VStruct [(bs "K", true, true, f25)];
                  VStruct [(bs "K", true, false, VDec (mkDec 3 0))]].
Definition ex2_doc_structs : gv :=
  VStruct [(bs "Xs", true, false, ex2_rows_structs); (bs "Lim", true, false, f25)].

Definition ex2_kept : gv := VSlice EAny false [VDec (mkDec two63 0); VDec (mkDec 25 (-1)); VDec (mkDec 3 0)].

Example E2E2_example :
  C17.run "$.xs[@.k.Greater(2)].Count()" ex2_doc_maps = Some (Ok (VDec (mkDec 3 0))) /\
  C17.run "$.xs[@.k.GreaterOrEqual($.lim)].k" ex2_doc_maps = Some (Ok ex2_kept) /\
  C17.run "$.xs[OR,@.k.Less(0),@.k.Equal(3)].Count()" ex2_doc_maps = Some (Ok (VDec (mkDec 2 0))) /\
  C17.run "$.xs[@.k.Greater(2)].Count()" ex2_doc_structs = Some (Ok (VDec (mkDec 3 0))) /\
  C17.run "$.xs[@.k.GreaterOrEqual($.lim)].k" ex2_doc_structs = Some (Ok ex2_kept) /\
  C17.run "$.xs[OR,@.k.Less(0),@.k.Equal(3)].Count()" ex2_doc_structs = Some (Ok (VDec (mkDec 2 0))) /\
  (* the rows themselves are returned, unchanged *)
  C17.run "$.xs[@.k.Less(2.5),@.k.GreaterOrEqual(0)]" ex2_doc_maps = Some (Ok (VSlice EAny false [])) /\
  C17.run "$.xs[@.k.LessOrEqual($.lim)][@.k.NotEqual(-1)]" ex2_doc_maps
    = Some (Ok (VSlice EAny false [jmap [("k", f25)]])) /\
  C17.run "$.xs[@.k.Greater(5)].k" ex2_doc_structs = Some (Ok (VSlice EAny false [VDec (mkDec two63 0)])) /\
  C17.run "$.xs[@.k.Greater(1e19)].k" ex2_doc_structs = Some (Err EKeyNotFound).
Proof. repeat split; vm_compute; reflexivity. Qed.

(** the general theorem instantiated on the struct document: the hypotheses
    are discharged by computation, the conclusion speaks about the parsed
    query at the library's entry point *)
Example E2E2_example_by_theorem :
  forall t, parse_string uni_ascii (bs "$.xs[@.k.Greater(2)].Count()") = Ok t ->
  do_top uni_ascii no_engines t ex2_doc_structs = Ok (VDec (mkDec 3 0)).
Proof.
  intros t Ht. rewrite (proj1 (proj2 (proj2 E2E2_parser_shapes))) in Ht. apply Ok_inj in Ht. subst t.
  rewrite do_top_path.
  refine (eq_trans (proj1 (E2E2_filter_count uni_ascii no_engines 4087 false false false (bs "xs")
            (bs "$.xs[@.k.Greater(2)].Count()") ex2_doc_structs (bs "xs") (bs "k") false true
            (bs "[@.k.Greater(2)]") (bs "[@.k.Greater(2)]") false true true false (bs "k") false
            (bs "Greater(2)") (bs "@.k.Greater(2)") false (bs "Count()")
            "Greater" (FPNum (mkDec 2 0)) ex2_doc_structs ex2_rows_structs
            _ [VInt KInt8 false (-1); VInt KUint64 false two63; f25; VDec (mkDec 3 0)]
            [mkDec (-1) 0; mkDec two63 0; mkDec 25 (-1); mkDec 3 0]
            [inject_Z (-1); inject_Z two63; dval (mkDec 25 (-1)); dval (mkDec 3 0)]
            (mkDec 2 0) (inject_Z 2) _ _ _ (pd_num _ _) _)) _).
  - right. right. left. reflexivity.
  - constructor.
    + apply or_struct. vm_compute. reflexivity.
    + reflexivity.
    + repeat (apply Forall2_cons; [apply or_struct; vm_compute; reflexivity|]). apply Forall2_nil.
    + repeat constructor.
    + repeat (apply Forall2_cons; [reflexivity|]). apply Forall2_nil.
  - discriminate.
  - vm_compute. reflexivity.
  - vm_compute. reflexivity.
Qed.

(* ------------------------------------------------------------------ *)
(** * 7. Where a side condition is needed                              *)
(* ------------------------------------------------------------------ *)

(** a nil slice under the key (Go: `var xs []map[string]any`): without `?` on
    the key the filter is refused; with `?` the filter and `.Count()` work, but
    a following key or second filter is refused although the first filter
    returned a non-nil empty []any — "a nil value was met" is remembered along
    the path.  Over a non-nil empty slice `.k` answers "key not found". *)
Definition nil_doc : gv := jmap [("xs", VSlice ETOther true [])].
Definition empty_doc : gv := jmap [("xs", VSlice ETOther false [])].

Example E2E2_nil_slice_refuted :
  C17.run "$.xs[@.k.Greater(2)]" nil_doc = Some (Err (EOther "cannot access property of nil value")) /\
  C17.run "$.xs?[@.k.Greater(2)]" nil_doc = Some (Ok (VSlice EAny false [])) /\
  C17.run "$.xs?[@.k.Greater(2)].Count()" nil_doc = Some (Ok (VDec (mkDec 0 0))) /\
  C17.run "$.xs?[@.k.Greater(2)].k" nil_doc = Some (Err (EOther "cannot access property of nil value")) /\
  C17.run "$.xs?[@.k.Greater(2)][@.k.Greater(2)]" nil_doc = Some (Err (EOther "cannot access property of nil value")) /\
  C17.run "$.xs[@.k.Greater(2)]" empty_doc = Some (Ok (VSlice EAny false [])) /\
  C17.run "$.xs[@.k.Greater(2)].k" empty_doc = Some (Err EKeyNotFound) /\
  C17.run "$.xs[@.k.Greater(2)].k?" empty_doc = Some (Err EKeyNotFound).
Proof. repeat split; vm_compute; reflexivity. Qed.

Print Assumptions E2E2_parser_shapes.
Print Assumptions E2E2_example.
Print Assumptions E2E2_example_by_theorem.
Print Assumptions E2E2_nil_slice_refuted.

Check rows_doc.
Check cmp_rel_names.
Check cmp_holds_iff.
Check flags_spec.
Check E2E2_filter_compare.
Check E2E2_filter_compare_literal.
Check E2E2_filter_compare_root_argument.
Check E2E2_filter_count.
Check E2E2_filter_then_key_gen.
Check E2E2_filter_then_key.
Check E2E2_filter_then_key_none.
Check E2E2_filter_or_and.
Check E2E2_storage_invariant.
