(* C13.v — CueValidate accepts a path of plain keys exactly when the schema
   declares it, and reports the kind of the final field (Spec/Walk.v).

   Contents: basic string facts; the loop of opPath.Validate as a named
   function ([path_loop], shared with C14.v) and the unfolding lemma; the cue
   lookups on a well-formed struct; the refinement theorem C13_keys_refine and
   its variants. *)
From Mpath.Model Require Import Base Types Ast Parser Cue Validate.
From Mpath.Generated Require Import FuncTable.
From Mpath.Spec Require Import Walk.

(** * Strings *)
Lemma ascii_eqb_refl c : Ascii.eqb c c = true.
Proof. apply Ascii.eqb_eq. reflexivity. Qed.

Lemma str_eqb_refl a : str_eqb a a = true.
Proof. induction a as [|c a IH]; simpl; [reflexivity|]. rewrite ascii_eqb_refl, IH. reflexivity. Qed.

Lemma str_eqb_eq a b : str_eqb a b = true <-> a = b.
Proof.
  split.
  - revert b. induction a as [|c a IH]; intros [|d b] H; simpl in H; try discriminate; [reflexivity|].
    apply andb_true_iff in H. destruct H as [H1 H2]. apply Ascii.eqb_eq in H1. apply IH in H2. subst. reflexivity.
  - intros ->. apply str_eqb_refl.
Qed.

Lemma str_mem_In s l : str_mem s l = true <-> In s l.
Proof.
  induction l as [|x l IH]; simpl; [split; [discriminate|tauto]|].
  rewrite orb_true_iff, IH, str_eqb_eq. split; intros [H|H]; auto.
Qed.

(** * The loop of opPath.Validate as a named function *)
Section Loop.
Variable tbl : list fdesc.
Variable root : cty.
Variable blocked : list str.

Definition step_op (s : pstate) (o : pathop) : flow :=
  match o with
  | PIdent name _ _ => step_ident root blocked s name
  | PFilter l _ =>
    if st_should_err s then Continue s else
    match st_part s with
    | None => Return (mkPstate (Some [EFilterNoPart]) (st_parts s) (st_part s) (st_ret s) (st_cue s)
                               (st_should_err s) (st_found_first s) (st_prev_unknown s))
    | Some pt =>
      match pt_kind pt with
      | KIdent =>
        match filter_error root (st_cue s) (lr_error (validate_log tbl root blocked l (st_cue s))) with
        | Some e => Return (mkPstate (Some e) (st_parts s) (st_part s) (st_ret s) (st_cue s)
                                     (st_should_err s) (st_found_first s) (st_prev_unknown s))
        | None => Continue s
        end
      | _ =>
        let pt' := mkPart (pt_kind pt) (set_error (pt_error pt) [EFilterOnFunction])
                          (pt_sub_has pt) (pt_sub_errs pt) (pt_type pt) in
        Continue (mkPstate (st_error s) (set_last_part (st_parts s) pt') (Some pt') (st_ret s) (st_cue s)
                           (st_should_err s) (st_found_first s) (st_prev_unknown s))
      end
    end
  | PFunc f =>
    if st_should_err s then Continue s else
    match st_part s with
    | None => Continue (mkPstate (Some [EFuncNotHere]) (st_parts s) (st_part s) (st_ret s) (st_cue s)
                                 (st_should_err s) (st_found_first s) (st_prev_unknown s))
    | Some pt =>
      let '(fp, ty, known, goerr) := validate_func tbl root blocked f (st_cue s) (pt_type pt) in
      Continue (mkPstate (st_error s) (add_part s fp) (Some fp) ty (st_cue s)
                         goerr (st_found_first s)
                         (st_prev_unknown s || (negb known && vty_ty_is ty PT_Object)))
    end
  end.

Definition finish (s : pstate) (returned : bool) : pathres :=
  mkPathres (st_error s) (st_parts s)
            (if returned then None else match rev (st_parts s) with q :: _ => pt_type q | [] => None end).

Fixpoint path_loop (ops : list pathop) (s : pstate) : pathres :=
  match ops with
  | [] => finish s false
  | o :: rest =>
    match step_op s o with
    | Continue s' => path_loop rest s'
    | Return s' => finish s' true
    end
  end.

Definition root_part (sr : bool) : part :=
  mkPart KRoot None false [] (Some (if sr then PT_Root else PT_ElementRoot, IO_Single)).

Definition init_state (sr : bool) (cue : list str) : pstate :=
  mkPstate None [root_part sr] None None (if sr then [] else cue) false false false.

Lemma validate_path_unfold i sr f m ops us cue :
  validate_path tbl root blocked (Path i sr f m ops us) cue =
  match (match cue with [] => Some root | _ :: _ => if sr then Some root else find_value_at_path root cue end) with
  | None => mkPathres (Some [EUndeclared]) [] None
  | Some v =>
    match available_fields v blocked with
    | None => mkPathres (Some [EOtherErr]) [root_part sr] None
    | Some _ => path_loop ops (init_state sr cue)
    end
  end.
Proof. reflexivity. Qed.

Lemma path_loop_app ops1 ops2 s :
  path_loop (ops1 ++ ops2) s =
  (fix go (ops : list pathop) (s : pstate) : pathres :=
     match ops with
     | [] => path_loop ops2 s
     | o :: rest => match step_op s o with Continue s' => go rest s' | Return s' => finish s' true end
     end) ops1 s.
Proof.
  revert s. induction ops1 as [|o ops1 IH]; intros s; simpl; [reflexivity|].
  destruct (step_op s o); [apply IH|reflexivity].
Qed.

End Loop.

(** * Paths of plain keys *)
Definition idents (ks : list str) : list pathop := map (fun k => PIdent k false k) ks.

Definition key_path_text (ks : list str) : str := bs "$" ++ flat_map (fun k => bs "." ++ k) ks.

(** `$.k1.k2…kn` as ParseString builds it *)
Definition key_path (ks : list str) : top :=
  TopP (Path false true false false (idents ks) (key_path_text ks)).

(** any opPath whose operations are keys only (whatever its flags, `?` marks and texts) *)
Fixpoint op_keys (ops : list pathop) : option (list str) :=
  match ops with
  | [] => Some []
  | PIdent k _ _ :: r => match op_keys r with Some ks => Some (k :: ks) | None => None end
  | _ :: _ => None
  end.

Lemma op_keys_idents ks : op_keys (idents ks) = Some ks.
Proof. induction ks as [|k ks IH]; simpl; [reflexivity|]. rewrite IH. reflexivity. Qed.

(** the projection of CueValidate's answer to the specification's verdicts *)
Definition verdict (r : vres) : option Walk.verdict :=
  if v_has_errors r then
    match v_errs r with
    | [EUndeclared] => Some (Reject undeclared)
    | [EIntoPrimitive] => Some (Reject into_primitive)
    | [EAcrossList] => Some (Reject across_list)
    | _ => None
    end
  else if v_err r then None
  else match v_type r with Some ty => Some (Accept ty) | None => None end.

(** * cue lookups on a well-formed struct *)
Definition names (fs : list (flabel * cty)) : list str := map (fun lt => fl_name (fst lt)) fs.

Fixpoint named (k : str) (fs : list (flabel * cty)) : option (flabel * cty) :=
  match fs with
  | [] => None
  | lt :: r => if str_eqb (fl_name (fst lt)) k then Some lt else named k r
  end.

Lemma named_none_find p k fs : named k fs = None -> find_field p k fs = None.
Proof.
  induction fs as [|[l t] fs IH]; simpl; [reflexivity|].
  destruct (str_eqb (fl_name l) k); [discriminate|]. simpl. exact IH.
Qed.

Lemma not_mem_named k fs : str_mem k (names fs) = false -> named k fs = None.
Proof.
  induction fs as [|[l t] fs IH]; simpl; [reflexivity|].
  intros H. apply orb_false_iff in H. destruct H as [H1 H2].
  destruct (str_eqb (fl_name l) k) eqn:E.
  - apply str_eqb_eq in E. subst. rewrite str_eqb_refl in H1. discriminate.
  - apply IH. exact H2.
Qed.

Lemma named_In k fs lt : named k fs = Some lt -> In lt fs /\ fl_name (fst lt) = k.
Proof.
  induction fs as [|x fs IH]; simpl; [discriminate|].
  destruct (str_eqb (fl_name (fst x)) k) eqn:E.
  - intros H. injection H as <-. apply str_eqb_eq in E. auto.
  - intros H. destruct (IH H). auto.
Qed.

Lemma find_field_named p k fs :
  distinct (names fs) = true ->
  find_field p k fs = match named k fs with
                      | Some (l, t) => if p (fl_form l) then Some t else None
                      | None => None
                      end.
Proof.
  induction fs as [|[l t] fs IH]; simpl; [reflexivity|].
  intros H. apply andb_true_iff in H. destruct H as [H1 H2]. apply negb_true_iff in H1.
  destruct (str_eqb (fl_name l) k) eqn:E; simpl.
  - destruct (p (fl_form l)); [reflexivity|].
    apply str_eqb_eq in E. subst k. apply named_none_find. apply not_mem_named. exact H1.
  - apply IH. exact H2.
Qed.

Lemma declared_named k fs :
  distinct (names fs) = true ->
  declared k fs = match named k fs with
                  | Some (l, t) => if fform_eqb (fl_form l) FDef then None else Some t
                  | None => None
                  end.
Proof.
  induction fs as [|[l t] fs IH]; simpl; [reflexivity|].
  intros H. apply andb_true_iff in H. destruct H as [H1 H2]. apply negb_true_iff in H1.
  destruct (str_eqb (fl_name l) k) eqn:E; simpl.
  - destruct (fform_eqb (fl_form l) FDef); simpl; [|reflexivity].
    apply str_eqb_eq in E. subst k. rewrite (IH H2), (not_mem_named _ _ H1). reflexivity.
  - apply IH. exact H2.
Qed.

Lemma wf_struct_inv o fs :
  wf (CStruct o fs) = true ->
  distinct (names fs) = true /\
  (forall l t, In (l, t) fs -> label_ok l = true /\ wf t = true).
Proof.
  simpl. intros H. apply andb_true_iff in H. destruct H as [H H3].
  apply andb_true_iff in H. destruct H as [H1 H2].
  split; [exact H1|].
  clear H1. induction fs as [|[l0 t0] fs IH]; intros l t Hin; [destruct Hin|].
  simpl in H2. apply andb_true_iff in H2. destruct H2 as [H2a H2b].
  apply andb_true_iff in H3. destruct H3 as [H3a H3b].
  destruct Hin as [Heq|Hin].
  - injection Heq as <- <-. auto.
  - apply IH; assumption.
Qed.

(** findValueAtPath's step on a well-formed struct is the specification's [declared] *)
Lemma find_step_struct o fs k :
  wf (CStruct o fs) = true ->
  find_step (CStruct o fs) k =
  match declared k fs with
  | Some t => StepTo t
  | None => if o then StepTo CTop else StepErr
  end.
Proof.
  intros Hwf. destruct (wf_struct_inv _ _ Hwf) as [Hd Hall].
  rewrite (declared_named _ _ Hd).
  assert (Hsel : get_selector (CStruct o fs) k =
                 match named k fs with
                 | Some (l, _) => match fl_form l with FHidden => SelHid k | _ => SelStr k end
                 | None => SelStr k
                 end).
  { unfold get_selector. cbn [lookup]. rewrite (find_field_named _ _ _ Hd).
    destruct (named k fs) as [[l t]|] eqn:En.
    - destruct (named_In _ _ _ En) as [Hin Hname]. simpl in Hname.
      destruct (Hall _ _ Hin) as [Hok _]. unfold label_ok in Hok.
      destruct (fl_form l) eqn:Ef; cbn [form_found];
        try (destruct (has_prefix k underscore && negb (contains k dash) && valid_ident k); reflexivity).
      rewrite Hname in Hok. apply andb_true_iff in Hok. destruct Hok as [Hok H3].
      apply andb_true_iff in Hok. destruct Hok as [H1 H2].
      change (bs "_") with underscore in H1. change (bs "-") with dash in H3.
      rewrite H1, H2, H3. reflexivity.
    - destruct (has_prefix k underscore && negb (contains k dash) && valid_ident k); reflexivity. }
  unfold find_step. rewrite Hsel. clear Hsel.
  destruct (named k fs) as [[l t]|] eqn:En.
  - destruct (fl_form l) eqn:Ef; cbn [lookup any_index incomplete_kind];
      rewrite !(find_field_named _ _ _ Hd), En, Ef; cbn; destruct o; reflexivity.
  - cbn [lookup any_index incomplete_kind].
    rewrite !(find_field_named _ _ _ Hd), En; cbn; destruct o; reflexivity.
Qed.

Lemma find_step_top k : find_step CTop k = StepStop CTop.
Proof.
  unfold find_step, get_selector.
  destruct (has_prefix k underscore && negb (contains k dash) && valid_ident k); reflexivity.
Qed.

Lemma fvap_top ks : find_value_at_path CTop ks = Some CTop.
Proof. destruct ks as [|k ks]; cbn [find_value_at_path]; [reflexivity|]. rewrite find_step_top. reflexivity. Qed.

Lemma find_step_stop v k t : find_step v k = StepStop t -> v = CTop /\ t = CTop.
Proof.
  unfold find_step.
  destruct (lookup v (get_selector v k) false); [discriminate|].
  destruct (lookup v (get_selector v k) true); [discriminate|].
  destruct (any_index v); [discriminate|].
  destruct v; cbn [incomplete_kind]; try discriminate.
  - intros H. injection H as <-. auto.
  - destruct (list_elems (CList open v)) as [|e r]; [discriminate|].
    destruct (lookup e _ false); discriminate.
  - destruct (list_elems (CDeps l)) as [|e r]; [discriminate|].
    destruct (lookup e _ false); discriminate.
Qed.

(** findValueAtPath is compositional: the early return on `_` is not observable *)
Lemma fvap_app v a b :
  find_value_at_path v (a ++ b) =
  match find_value_at_path v a with
  | Some t => find_value_at_path t b
  | None => None
  end.
Proof.
  revert v. induction a as [|k a IH]; intros v; cbn [app find_value_at_path]; [reflexivity|].
  destruct (find_step v k) as [t|t|] eqn:E.
  - apply IH.
  - destruct (find_step_stop _ _ _ E) as [-> ->]. rewrite fvap_top. reflexivity.
  - reflexivity.
Qed.

(** * The kind opPathIdent.Validate reports *)
Lemma kind_not_bottom v : incomplete_kind v <> KBottom.
Proof. destruct v; discriminate. Qed.

Lemma ident_type_wf v : wf v = true -> ident_type v = (None, Some (kind_of v)).
Proof.
  destruct v; try reflexivity.
  - (* list *)
    cbn [wf]. intros H. apply andb_true_iff in H. destruct H as [H1 _]. apply negb_true_iff in H1.
    unfold ident_type. cbn [incomplete_kind].
    assert (Hu : underlying_kind (CList open v) = incomplete_kind v) by (destruct open; reflexivity).
    rewrite Hu. destruct v; try discriminate; reflexivity.
  - (* literal list *)
    destruct l as [|x l]; [discriminate|]. reflexivity.
Qed.

Definition is_prim (v : cty) : bool :=
  match v with CStr | CBytes | CBool | CInt | CFloat | CNumber => true | _ => false end.

Lemma kind_of_prim v : is_prim v = true ->
  vty_single_primitive (Some (kind_of v)) = true.
Proof. destruct v; try discriminate; reflexivity. Qed.

Lemma kind_of_list v : is_list v = true ->
  vty_single_primitive (Some (kind_of v)) = false /\ vty_io_is (Some (kind_of v)) IO_Array = true.
Proof. destruct v; try discriminate; split; reflexivity. Qed.

(** * The loop on keys *)
Section Keys.
Variable root : cty.
Variable blocked : list str.

Fixpoint keys_loop (ks : list str) (s : pstate) : pstate * bool :=
  match ks with
  | [] => (s, false)
  | k :: r =>
    match step_ident root blocked s k with
    | Continue s' => keys_loop r s'
    | Return s' => (s', true)
    end
  end.

Lemma path_loop_keys tbl ops ks s :
  op_keys ops = Some ks ->
  path_loop tbl root blocked ops s = finish (fst (keys_loop ks s)) (snd (keys_loop ks s)).
Proof.
  revert ks s. induction ops as [|o ops IH]; intros ks s Hk.
  - simpl in Hk. injection Hk as <-. reflexivity.
  - destruct o as [k q us'| |]; simpl in Hk; try discriminate.
    destruct (op_keys ops) as [ks'|] eqn:E; [|discriminate]. injection Hk as <-.
    simpl. destruct (step_ident root blocked s k) as [s'|s']; [|reflexivity].
    apply IH. reflexivity.
Qed.

Lemma keys_loop_should_err ks s : st_should_err s = true -> keys_loop ks s = (s, false).
Proof.
  intros H. induction ks as [|k ks IH]; simpl; [reflexivity|].
  unfold step_ident. rewrite H. exact IH.
Qed.

(** parts that carry no error *)
Definition clean_part (p : part) : Prop := pt_error p = None /\ pt_sub_has p = false /\ pt_sub_errs p = [].

Lemma clean_parts_has ps : Forall clean_part ps -> existsb part_has ps = false.
Proof.
  induction 1 as [|p ps [H1 [H2 H3]] _ IH]; cbn [existsb]; [reflexivity|].
  unfold part_has at 1. rewrite H1, H2, IH. reflexivity.
Qed.

Lemma clean_parts_errs ps : Forall clean_part ps -> flat_map part_errs ps = [].
Proof.
  induction 1 as [|p ps [H1 [H2 H3]] _ IH]; cbn [flat_map]; [reflexivity|].
  unfold part_errs at 1. rewrite H1, H3, IH. reflexivity.
Qed.

(** the state after at least one accepted key: the value reached is [cur] *)
Record at_value (s : pstate) (cur : cty) : Prop := mkAt {
  av_error : st_error s = None;
  av_clean : Forall clean_part (st_parts s);
  av_last : exists ps p, st_parts s = ps ++ [p] /\ pt_type p = st_ret s;
  av_part : exists p, st_part s = Some p /\ pt_type p = st_ret s;
  av_should : st_should_err s = false;
  av_unknown : st_prev_unknown s = false;
  av_found : st_found_first s = true;
  av_cue : find_value_at_path root (st_cue s) = Some cur;
  av_ret : st_ret s = Some (kind_of cur);
  av_wf : wf cur = true
}.

(** what the answer built from a final state projects to *)
Definition state_verdict (sr : pstate * bool) : option Walk.verdict :=
  let r := finish (fst sr) (snd sr) in
  verdict (mkVres (is_some (pr_error r)) (path_has r) (pr_type r) (path_errs r)).

Lemma last_app {A} (ps : list A) (p : A) : rev (ps ++ [p]) = p :: rev ps.
Proof. rewrite rev_app_distr. reflexivity. Qed.

Lemma verdict_error_part s c :
  st_error s = None -> Forall clean_part (st_parts s) ->
  forall s' b, st_error s' = None -> st_parts s' = st_parts s ++ [error_part KIdent c] ->
  state_verdict (s', b) =
  match c with
  | EUndeclared => Some (Reject undeclared)
  | EIntoPrimitive => Some (Reject into_primitive)
  | EAcrossList => Some (Reject across_list)
  | _ => None
  end.
Proof.
  intros He Hc s' b He' Hp.
  unfold state_verdict, finish. cbn [fst snd pr_error pr_parts pr_type].
  unfold path_has, path_errs. cbn [pr_error pr_parts].
  rewrite He', Hp. rewrite existsb_app, flat_map_app.
  rewrite (clean_parts_has _ Hc), (clean_parts_errs _ Hc). cbn.
  unfold verdict. cbn. destruct c; reflexivity.
Qed.

(** one key from a struct-valued position (the initial state or after a key) *)
Lemma step_ident_struct s o fs k :
  wf (CStruct o fs) = true ->
  st_error s = None -> Forall clean_part (st_parts s) ->
  st_should_err s = false -> st_prev_unknown s = false ->
  (st_found_first s = true \/ str_mem k blocked = false) ->
  find_value_at_path root (st_cue s) = Some (CStruct o fs) ->
  (st_ret s = None \/ st_ret s = Some (PT_Object, IO_Single)) ->
  match declared k fs with
  | Some t => exists s', step_ident root blocked s k = Continue s' /\ at_value s' t /\ st_cue s' = st_cue s ++ [k]
  | None =>
    if o then exists s', step_ident root blocked s k = Continue s' /\ at_value s' CTop /\ st_cue s' = st_cue s ++ [k]
    else exists s', step_ident root blocked s k = Return s' /\ st_error s' = None /\
                    st_parts s' = st_parts s ++ [error_part KIdent EUndeclared]
  end.
Proof.
  intros Hwf He Hc Hs Hu Hf Hcue Hret.
  assert (Hnp : vty_single_primitive (st_ret s) = false) by (destruct Hret as [-> | ->]; reflexivity).
  assert (Hna : vty_io_is (st_ret s) IO_Array = false) by (destruct Hret as [-> | ->]; reflexivity).
  assert (Hb : negb (st_found_first s) && str_mem k blocked = false).
  { destruct Hf as [-> | ->]; [reflexivity|apply andb_false_r]. }
  unfold step_ident. rewrite Hs, Hu, Hnp, Hna, Hb.
  unfold validate_ident. rewrite fvap_app, Hcue. cbn [find_value_at_path].
  rewrite (find_step_struct _ _ _ Hwf).
  destruct (wf_struct_inv _ _ Hwf) as [Hd Hall].
  assert (Hstep : forall t, wf t = true ->
    exists s', (let '(e, ty) := ident_type t in
                let p := mkPart KIdent e false [] ty in
                let s' := mkPstate (st_error s) (add_part s p) (Some p) ty (st_cue s ++ [k]) false true false in
                if part_has p then Return s' else Continue s') = Continue s' /\
               (find_value_at_path root (st_cue s ++ [k]) = Some t -> at_value s' t) /\
               st_cue s' = st_cue s ++ [k]).
  { intros t Ht. rewrite (ident_type_wf _ Ht). cbn. eexists. split; [reflexivity|]. split; [|reflexivity].
    intros Hfv. constructor; cbn; auto.
    - unfold add_part. apply Forall_app. split; [exact Hc|]. constructor; [|constructor].
      repeat split; reflexivity.
    - unfold add_part. eexists _, _. split; reflexivity.
    - eexists. split; reflexivity. }
  assert (Hfv : forall t, (match declared k fs with Some t0 => StepTo t0 | None => if o then StepTo CTop else StepErr end) = StepTo t ->
                          find_value_at_path root (st_cue s ++ [k]) = Some t).
  { intros t E. rewrite fvap_app, Hcue. cbn [find_value_at_path]. rewrite (find_step_struct _ _ _ Hwf), E. reflexivity. }
  destruct (declared k fs) as [t|] eqn:Ed.
  - assert (Ht : wf t = true).
    { rewrite (declared_named _ _ Hd) in Ed. destruct (named k fs) as [[l t0]|] eqn:En; [|discriminate].
      destruct (fform_eqb (fl_form l) FDef); [discriminate|]. injection Ed as ->.
      destruct (named_In _ _ _ En) as [Hin _]. apply (Hall _ _ Hin). }
    destruct (Hstep t Ht) as [s' [E1 [E2 E3]]]. exists s'. split; [exact E1|]. split; [|exact E3]. apply E2. apply Hfv. reflexivity.
  - destruct o.
    + destruct (Hstep CTop eq_refl) as [s' [E1 [E2 E3]]]. exists s'. split; [exact E1|]. split; [|exact E3]. apply E2. apply Hfv. reflexivity.
    + cbn. eexists. split; [reflexivity|]. cbn. split; [exact He|reflexivity].
Qed.

(** on `_` every further key is accepted as Any *)
Lemma step_ident_top s k : at_value s CTop ->
  exists s', step_ident root blocked s k = Continue s' /\ at_value s' CTop /\ st_cue s' = st_cue s ++ [k].
Proof.
  intros H. destruct H. unfold step_ident. rewrite av_should0, av_unknown0, av_ret0, av_found0. cbn.
  unfold validate_ident. rewrite fvap_app, av_cue0, fvap_top. cbn.
  eexists. split; [reflexivity|]. split; [|reflexivity]. constructor; cbn; auto.
  - unfold add_part. apply Forall_app. split; [exact av_clean0|]. constructor; [|constructor].
    repeat split; reflexivity.
  - unfold add_part. eexists _, _. split; reflexivity.
  - eexists. split; reflexivity.
  - rewrite fvap_app, av_cue0. apply fvap_top.
Qed.

Lemma keys_loop_top ks s : at_value s CTop -> state_verdict (keys_loop ks s) = Some any_forever.
Proof.
  revert s. induction ks as [|k ks IH]; intros s H.
  - destruct H. cbn [keys_loop]. unfold state_verdict, finish. cbn [fst snd pr_error pr_parts pr_type].
    unfold path_has, path_errs. cbn [pr_error pr_parts].
    rewrite av_error0, (clean_parts_has _ av_clean0), (clean_parts_errs _ av_clean0).
    destruct av_last0 as [ps [p [Hp Ht]]]. rewrite Hp, last_app, Ht, av_ret0. reflexivity.
  - cbn [keys_loop].
    destruct (step_ident_top s k H) as [s' [E1 [E2 _]]]. rewrite E1. apply IH. exact E2.
Qed.

Lemma keys_loop_top_at ks s : at_value s CTop ->
  exists s', keys_loop ks s = (s', false) /\ at_value s' CTop /\ st_cue s' = st_cue s ++ ks.
Proof.
  revert s. induction ks as [|k ks IH]; intros s H.
  - exists s. rewrite app_nil_r. auto.
  - cbn [keys_loop]. destruct (step_ident_top s k H) as [s' [E1 [E2 E3]]]. rewrite E1.
    destruct (IH s' E2) as [s'' [F1 [F2 F3]]]. exists s''. split; [exact F1|]. split; [exact F2|].
    rewrite F3, E3, <- app_assoc. reflexivity.
Qed.

Lemma keys_loop_at ks : forall s cur,
  at_value s cur -> state_verdict (keys_loop ks s) = Some (walk cur ks).
Proof.
  induction ks as [|k ks IH]; intros s cur H.
  - destruct H. cbn [keys_loop walk]. unfold state_verdict, finish. cbn [fst snd pr_error pr_parts pr_type].
    unfold path_has, path_errs. cbn [pr_error pr_parts].
    rewrite av_error0, (clean_parts_has _ av_clean0), (clean_parts_errs _ av_clean0).
    destruct av_last0 as [ps [p [Hp Ht]]]. rewrite Hp, last_app, Ht, av_ret0. reflexivity.
  - destruct cur as [ | | | | | | | open e | l | o fs].
    1-6: (destruct H; cbn [keys_loop walk]; unfold step_ident;
          rewrite av_should0, av_unknown0, av_ret0; cbn [kind_of vty_single_primitive is_primitive];
          rewrite keys_loop_should_err by reflexivity;
          rewrite (verdict_error_part s EIntoPrimitive av_error0 av_clean0) by (cbn; first [exact av_error0|reflexivity]);
          reflexivity).
    + (* `_` *) cbn [walk]. apply keys_loop_top. exact H.
    + (* list *)
      destruct H. cbn [keys_loop walk]. unfold step_ident.
      destruct (kind_of_list (CList open e) eq_refl) as [K1 K2].
      rewrite av_should0, av_unknown0, av_ret0, K1, K2.
      rewrite keys_loop_should_err by reflexivity.
      rewrite (verdict_error_part s EAcrossList av_error0 av_clean0) by (cbn; first [exact av_error0|reflexivity]).
      reflexivity.
    + (* literal list *)
      destruct H. cbn [keys_loop walk]. unfold step_ident.
      destruct (kind_of_list (CDeps l) eq_refl) as [K1 K2].
      rewrite av_should0, av_unknown0, av_ret0, K1, K2.
      rewrite keys_loop_should_err by reflexivity.
      rewrite (verdict_error_part s EAcrossList av_error0 av_clean0) by (cbn; first [exact av_error0|reflexivity]).
      reflexivity.
    + (* struct *)
      cbn [keys_loop walk].
      pose proof (step_ident_struct s o fs k (av_wf _ _ H) (av_error _ _ H) (av_clean _ _ H)
                    (av_should _ _ H) (av_unknown _ _ H) (or_introl (av_found _ _ H)) (av_cue _ _ H)
                    (or_intror (av_ret _ _ H))) as Hstep.
      destruct (declared k fs) as [t|].
      * destruct Hstep as [s' [E1 [E2 _]]]. rewrite E1. apply IH. exact E2.
      * destruct o.
        -- destruct Hstep as [s' [E1 [E2 _]]]. rewrite E1. apply keys_loop_top. exact E2.
        -- destruct Hstep as [s' [E1 [E2 E3]]]. rewrite E1.
           rewrite (verdict_error_part s EUndeclared (av_error _ _ H) (av_clean _ _ H) s' true E2 E3). reflexivity.
Qed.

(** from the initial state of a path validated at the root *)
Lemma keys_loop_init sr o fs k ks :
  root = CStruct o fs -> wf root = true -> str_mem k blocked = false ->
  state_verdict (keys_loop (k :: ks) (init_state sr [])) = Some (walk (CStruct o fs) (k :: ks)).
Proof.
  intros Hr Hwf Hb. cbn [keys_loop]. rewrite Hr in Hwf.
  assert (Hcue : find_value_at_path root (st_cue (init_state sr [])) = Some (CStruct o fs)).
  { unfold init_state. cbn. destruct sr; cbn; rewrite Hr; reflexivity. }
  assert (Hclean : Forall clean_part (st_parts (init_state sr []))).
  { cbn. constructor; [|constructor]. repeat split; reflexivity. }
  pose proof (step_ident_struct (init_state sr []) o fs k Hwf eq_refl Hclean eq_refl eq_refl
                (or_intror Hb) Hcue (or_introl eq_refl)) as Hstep.
  cbn [walk].
  destruct (declared k fs) as [t|].
  - destruct Hstep as [s' [E1 [E2 _]]]. rewrite E1. apply keys_loop_at. exact E2.
  - destruct o.
    + destruct Hstep as [s' [E1 [E2 _]]]. rewrite E1. apply keys_loop_top. exact E2.
    + destruct Hstep as [s' [E1 [E2 E3]]]. rewrite E1.
      rewrite (verdict_error_part (init_state sr []) EUndeclared eq_refl Hclean s' true E2 E3). reflexivity.
Qed.

(** the state reached by an accepted path: used by C14 to continue with a function call *)
Lemma keys_loop_accept ks : forall s cur ty,
  at_value s cur -> walk cur ks = Accept ty ->
  exists s' cur', keys_loop ks s = (s', false) /\ at_value s' cur' /\ kind_of cur' = ty /\
                  st_cue s' = st_cue s ++ ks.
Proof.
  induction ks as [|k ks IH]; intros s cur ty H Hw.
  - cbn in Hw. injection Hw as <-. exists s, cur. rewrite app_nil_r. auto.
  - destruct cur as [ | | | | | | | open e | l | o fs]; cbn [walk] in Hw; try discriminate.
    + (* `_` *) injection Hw as <-.
      destruct (keys_loop_top_at (k :: ks) s H) as [s' [E1 [E2 E3]]]. exists s', CTop. auto.
    + (* struct *)
      cbn [keys_loop].
      pose proof (step_ident_struct s o fs k (av_wf _ _ H) (av_error _ _ H) (av_clean _ _ H)
                    (av_should _ _ H) (av_unknown _ _ H) (or_introl (av_found _ _ H)) (av_cue _ _ H)
                    (or_intror (av_ret _ _ H))) as Hstep.
      destruct (declared k fs) as [t|].
      * destruct Hstep as [s' [E1 [E2 E3]]]. rewrite E1.
        destruct (IH s' t ty E2 Hw) as [s'' [cur' [F1 [F2 [F3 F4]]]]]. exists s'', cur'.
        split; [exact F1|]. split; [exact F2|]. split; [exact F3|]. rewrite F4, E3, <- app_assoc. reflexivity.
      * destruct o; [|discriminate]. injection Hw as <-.
        destruct Hstep as [s' [E1 [E2 E3]]]. rewrite E1.
        destruct (keys_loop_top_at ks s' E2) as [s'' [F1 [F2 F3]]]. exists s'', CTop.
        split; [exact F1|]. split; [exact F2|]. split; [reflexivity|]. rewrite F3, E3, <- app_assoc. reflexivity.
Qed.

Lemma keys_loop_init_accept sr o fs k ks ty :
  root = CStruct o fs -> wf root = true -> str_mem k blocked = false ->
  walk (CStruct o fs) (k :: ks) = Accept ty ->
  exists s' cur', keys_loop (k :: ks) (init_state sr []) = (s', false) /\ at_value s' cur' /\
                  kind_of cur' = ty /\ st_cue s' = k :: ks.
Proof.
  intros Hr Hwf Hb Hw. cbn [keys_loop]. rewrite Hr in Hwf.
  assert (Hcue : find_value_at_path root (st_cue (init_state sr [])) = Some (CStruct o fs)).
  { unfold init_state. cbn. destruct sr; cbn; rewrite Hr; reflexivity. }
  assert (Hclean : Forall clean_part (st_parts (init_state sr []))).
  { cbn. constructor; [|constructor]. repeat split; reflexivity. }
  assert (Hc0 : st_cue (init_state sr []) = []) by (destruct sr; reflexivity).
  pose proof (step_ident_struct (init_state sr []) o fs k Hwf eq_refl Hclean eq_refl eq_refl
                (or_intror Hb) Hcue (or_introl eq_refl)) as Hstep.
  cbn [walk] in Hw.
  destruct (declared k fs) as [t|].
  - destruct Hstep as [s' [E1 [E2 E3]]]. rewrite E1.
    destruct (keys_loop_accept ks s' t ty E2 Hw) as [s'' [cur' [F1 [F2 [F3 F4]]]]]. exists s'', cur'.
    split; [exact F1|]. split; [exact F2|]. split; [exact F3|]. rewrite F4, E3, Hc0. reflexivity.
  - destruct o; [|discriminate]. injection Hw as <-.
    destruct Hstep as [s' [E1 [E2 E3]]]. rewrite E1.
    destruct (keys_loop_top_at ks s' E2) as [s'' [F1 [F2 F3]]]. exists s'', CTop.
    split; [exact F1|]. split; [exact F2|]. split; [reflexivity|]. rewrite F3, E3, Hc0. reflexivity.
Qed.

End Keys.

(** * The theorems *)

(** any opPath made of keys only, validated at the top level against any
    descriptor table, with a blocked list that does not contain the first key *)
Theorem C13_keys_refine_gen : forall tbl schema bl i sr f m ops us k ks,
  wf_schema schema = true ->
  op_keys ops = Some (k :: ks) ->
  str_mem k bl = false ->
  verdict (validate_top_gen tbl schema bl (TopP (Path i sr f m ops us))) = Some (walk schema (k :: ks)).
Proof.
  intros tbl schema bl i sr f m ops us k ks Hwf Hops Hb.
  destruct schema as [ | | | | | | | | | o fs]; try discriminate. cbn [wf_schema] in Hwf.
  unfold validate_top_gen, validate_top_with. rewrite validate_path_unfold.
  cbn [available_fields incomplete_kind].
  rewrite (path_loop_keys _ _ _ _ _ _ Hops).
  exact (keys_loop_init (CStruct o fs) bl sr o fs k ks eq_refl Hwf Hb).
Qed.

(** C13: against a schema of the fragment, `$.k1.….kn` is answered as the specification says *)
Theorem C13_keys_refine : forall schema ks,
  wf_schema schema = true -> ks <> [] ->
  verdict (validate_top schema [] (key_path ks)) = Some (walk schema ks).
Proof.
  intros schema [|k ks] Hwf Hne; [congruence|].
  unfold validate_top, key_path.
  apply C13_keys_refine_gen; [exact Hwf|apply op_keys_idents|reflexivity].
Qed.

(** the statement on the property's domain (a key that differs from a declared
    label only by letter case is left unspecified by the property; the theorem
    above shows that CueValidate treats it as any other undeclared key) *)
Corollary C13_keys_refine_domain : forall schema ks,
  wf_schema schema = true -> ks <> [] -> no_case_variant schema ks = true ->
  verdict (validate_top schema [] (key_path ks)) = Some (walk schema ks).
Proof. intros schema ks Hwf Hne _. apply C13_keys_refine; assumption. Qed.

(** with a current step: the blocked root fields are computed from the schema,
    and a path whose first key is not blocked is answered as without a step *)
Theorem C13_keys_refine_step : forall schema cur bl k ks,
  wf_schema schema = true -> cur <> [] ->
  blocked_root_fields schema cur = Ok bl ->
  str_mem k bl = false ->
  exists r, cue_validate schema cur (key_path (k :: ks)) = Ok r /\
            verdict r = Some (walk schema (k :: ks)).
Proof.
  intros schema cur bl k ks Hwf Hne Hbl Hk.
  destruct cur as [|c cur]; [congruence|].
  unfold cue_validate, cue_validate_gen. rewrite Hbl. cbn [bind].
  eexists. split; [reflexivity|].
  unfold key_path. apply C13_keys_refine_gen; [exact Hwf|apply op_keys_idents|exact Hk].
Qed.

(** a blocked first key is refused as "not available" whatever the schema says *)
Theorem C13_blocked_first_key : forall tbl schema bl k ks o fs,
  schema = CStruct o fs ->
  str_mem k bl = true ->
  let r := validate_top_gen tbl schema bl (key_path (k :: ks)) in
  v_has_errors r = true /\ v_errs r = [ENotAvailable] /\ v_type r = None.
Proof.
  intros tbl schema bl k ks o fs -> Hk.
  unfold validate_top_gen, validate_top_with, key_path. rewrite validate_path_unfold.
  cbn [available_fields incomplete_kind].
  rewrite (path_loop_keys _ _ _ _ _ _ (op_keys_idents (k :: ks))).
  cbn [keys_loop]. unfold step_ident. cbn. rewrite Hk. cbn. auto.
Qed.

(** outside the fragment: the empty list literal `[]` (for instance
    `_dependencies: []`) is answered with an error instead of an Array *)
Lemma C13_empty_literal_list_is_error :
  let schema := CStruct false [(mkLabel (bs "e") FRegular, CDeps [])] in
  v_has_errors (validate_top schema [] (key_path [bs "e"])) = true /\
  v_errs (validate_top schema [] (key_path [bs "e"])) = [EOtherErr].
Proof. vm_compute. auto. Qed.

(** outside the fragment: a list of lists is reported as (Any, Single) *)
Lemma C13_list_of_lists_is_any_single :
  let schema := CStruct false [(mkLabel (bs "ll") FRegular, CList true (CList true CInt))] in
  verdict (validate_top schema [] (key_path [bs "ll"])) = Some (Accept (PT_Any, IO_Single)).
Proof. vm_compute. reflexivity. Qed.

Print Assumptions C13_keys_refine_gen.
Print Assumptions C13_keys_refine.
Print Assumptions C13_keys_refine_domain.
Print Assumptions C13_keys_refine_step.
Print Assumptions C13_blocked_first_key.
Print Assumptions C13_empty_literal_list_is_error.
Print Assumptions C13_list_of_lists_is_any_single.
