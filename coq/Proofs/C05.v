(* Proofs/C05.v — comparison and equality decide by value, coherently. *)
From Coq Require Import QArith.
From Mpath.Model Require Import Base Dec Types GoVal Funcs.
From Mpath.Proofs Require Import DecQ.

Section C05.
Variable eng : engines.

Record answers := mkAnswers { a_lt : bool; a_le : bool; a_gt : bool; a_ge : bool; a_eq : bool; a_ne : bool }.

(** the six comparison functions applied to the number v with the numeric argument p *)
Definition compare_all (v p : dec) : answers :=
  mkAnswers (dlt v p) (dle v p) (dgt v p) (dge v p) (deq v p) (negb (deq v p)).

Lemma comparisons_by_name ps v p :
  params_first_number ps = Ok p ->
  run_func eng "Less" ps (VDec v) = Ok (vbool (dlt v p)) /\
  run_func eng "LessOrEqual" ps (VDec v) = Ok (vbool (dle v p)) /\
  run_func eng "Greater" ps (VDec v) = Ok (vbool (dgt v p)) /\
  run_func eng "GreaterOrEqual" ps (VDec v) = Ok (vbool (dge v p)).
Proof.
  intros H. repeat split; cbn [run_func String.eqb Ascii.eqb Bool.eqb]; unfold decimal_bool_func; rewrite H; reflexivity.
Qed.

Lemma equal_numbers p v :
  run_func eng "Equal" [RNum p] (VDec v) = Ok (vbool (deq v p)) /\
  run_func eng "NotEqual" [RNum p] (VDec v) = Ok (vbool (negb (deq v p))).
Proof. split; reflexivity. Qed.

Lemma equal_strings s t :
  run_func eng "Equal" [RStr t] (VStr false s) = Ok (vbool (str_eqb s t)) /\
  run_func eng "NotEqual" [RStr t] (VStr false s) = Ok (vbool (negb (str_eqb s t))).
Proof. split; reflexivity. Qed.

Lemma equal_bools b c :
  run_func eng "Equal" [RBool c] (VBool false b) = Ok (vbool (Bool.eqb b c)) /\
  run_func eng "NotEqual" [RBool c] (VBool false b) = Ok (vbool (negb (Bool.eqb b c))).
Proof. split; reflexivity. Qed.

Lemma str_eqb_eq (s t : str) : str_eqb s t = true <-> s = t.
Proof.
  revert t; induction s as [|c s IH]; intros [|d t]; simpl; split; intros H; try discriminate; auto.
  - apply andb_true_iff in H. destruct H as [Hc Hs]. apply Ascii.eqb_eq in Hc. apply IH in Hs. subst; reflexivity.
  - inversion H; subst. rewrite Ascii.eqb_refl. simpl. apply IH. reflexivity.
Qed.

(** values of different kinds are never equal *)
Lemma cross_kind_never_equal v s b p t c :
  run_func eng "Equal" [RStr t] (VDec v) = Ok (vbool false) /\
  run_func eng "Equal" [RBool c] (VDec v) = Ok (vbool false) /\
  run_func eng "Equal" [RNum p] (VStr false s) = Ok (vbool false) /\
  run_func eng "Equal" [RBool c] (VStr false s) = Ok (vbool false) /\
  run_func eng "Equal" [RNum p] (VBool false b) = Ok (vbool false) /\
  run_func eng "Equal" [RStr t] (VBool false b) = Ok (vbool false).
Proof. repeat split; reflexivity. Qed.

(** AnyOf: true exactly when the input equals one of the arguments *)
Lemma any_of_dec v (nums : list dec) (rest : list gv) :
  (forall x, In x rest -> match x with VDec _ => False | _ => True end) ->
  any_of_loop (VDec v) (map VDec nums ++ rest) = existsb (deq v) nums.
Proof.
  intros Hr. induction nums as [|d nums IH]; simpl.
  - destruct rest as [|x rest']; [reflexivity|]. simpl.
    specialize (Hr x (or_introl eq_refl)). destruct x; try reflexivity. contradiction.
  - destruct (deq v d); [reflexivity|exact IH].
Qed.

Lemma any_of_skip val (l : list gv) (rest : list gv) :
  (forall x, In x l -> go_eq val x = false) ->
  (match val with VDec _ => False | _ => True end) ->
  any_of_loop val (l ++ rest) = any_of_loop val rest.
Proof.
  intros Hl Hv. induction l as [|x l IH]; simpl; [reflexivity|].
  destruct val; try contradiction; (rewrite (Hl x (or_introl eq_refl)); apply IH; intros y Hy; apply Hl; right; exact Hy).
Qed.

Lemma any_of_strs s (strs : list str) (rest : list gv) :
  (forall x, In x rest -> go_eq (VStr false s) x = false) ->
  any_of_loop (VStr false s) (map vstr strs ++ rest) = existsb (str_eqb s) strs.
Proof.
  intros Hr. induction strs as [|t strs IH]; simpl.
  - rewrite <- (app_nil_r rest). rewrite any_of_skip; [reflexivity|exact Hr|exact I].
  - destruct (str_eqb s t); [reflexivity|exact IH].
Qed.

Lemma any_of_numbers ps v :
  run_func eng "AnyOf" ps (VDec v) = Ok (vbool (existsb (deq v) (numbers ps))).
Proof.
  change (run_func eng "AnyOf" ps (VDec v)) with (func_any_of ps (VDec v)).
  unfold func_any_of, params_get_all. rewrite any_of_dec; [reflexivity|].
  intros x Hx. apply in_app_or in Hx. destruct Hx as [Hx|Hx]; apply in_map_iff in Hx; destruct Hx as [y [<- _]]; exact I.
Qed.

Lemma any_of_strings ps s :
  run_func eng "AnyOf" ps (VStr false s) = Ok (vbool (existsb (str_eqb s) (strings ps))).
Proof.
  change (run_func eng "AnyOf" ps (VStr false s)) with (func_any_of ps (VStr false s)).
  unfold func_any_of, params_get_all.
  rewrite any_of_skip; [| |exact I].
  - rewrite any_of_strs; [reflexivity|].
    intros x Hx. apply in_map_iff in Hx. destruct Hx as [y [<- _]]. reflexivity.
  - intros x Hx. apply in_map_iff in Hx. destruct Hx as [y [<- _]]. reflexivity.
Qed.

Lemma any_of_bools ps b :
  run_func eng "AnyOf" ps (VBool false b) = Ok (vbool (existsb (Bool.eqb b) (bools ps))).
Proof.
  change (run_func eng "AnyOf" ps (VBool false b)) with (func_any_of ps (VBool false b)).
  unfold func_any_of, params_get_all.
  rewrite any_of_skip; [| |exact I].
  - rewrite any_of_skip; [| |exact I].
    + f_equal. f_equal. induction (bools ps) as [|c l IH]; simpl; [reflexivity|].
      destruct (Bool.eqb b c); [reflexivity|exact IH].
    + intros x Hx. apply in_map_iff in Hx. destruct Hx as [y [<- _]]. reflexivity.
  - intros x Hx. apply in_map_iff in Hx. destruct Hx as [y [<- _]]. reflexivity.
Qed.

End C05.

(** coherence of the six answers, and independence of the representation *)
Lemma answers_coherent v p :
  let a := compare_all v p in
  ((a_lt a = true /\ a_eq a = false /\ a_gt a = false) \/
   (a_lt a = false /\ a_eq a = true /\ a_gt a = false) \/
   (a_lt a = false /\ a_eq a = false /\ a_gt a = true)) /\
  a_le a = a_lt a || a_eq a /\ a_ge a = a_gt a || a_eq a /\ a_ne a = negb (a_eq a).
Proof.
  cbn. split; [apply dcmp_trichotomy|]. split; [apply dle_lt_or_eq|]. split; [apply dge_gt_or_eq|reflexivity].
Qed.

Lemma answers_by_value v v' p p' :
  (dval v == dval v')%Q -> (dval p == dval p')%Q -> compare_all v p = compare_all v' p'.
Proof.
  intros Hv Hp. pose proof (repr_invariant v v' p p' Hv Hp) as Hc.
  unfold compare_all, dle, dge, dlt, dgt, deq. rewrite Hc. reflexivity.
Qed.

Lemma answers_decide_by_value v p :
  (a_lt (compare_all v p) = true <-> (dval v < dval p)%Q) /\
  (a_eq (compare_all v p) = true <-> (dval v == dval p)%Q) /\
  (a_gt (compare_all v p) = true <-> (dval p < dval v)%Q).
Proof. cbn. split; [apply dlt_iff|]. split; [apply deq_iff|apply dgt_iff]. Qed.
