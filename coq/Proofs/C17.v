(* Proofs/C17.v — the array functions.

   C17: "On arrays, Count is the length and Any is length > 0; First, Last and
   Index(i) return the element at position 0, length−1 and i of a non-empty
   array (numbers as decimals) and an error — not a panic and not some other
   element — when i lies outside 0..length−1; AsArray wraps its input in a
   one-element array; Select(q) returns, in order, the results of running q on
   each element, flattening array results.  AnyOf is true exactly when the
   input equals one of its arguments after array-valued arguments are spread,
   and an aggregate over a key stepped across objects equals the aggregate over
   those same values given directly." *)
From Mpath.Model Require Import Base Dec Types GoVal Ast Lexer Parser Funcs Eval.
From Mpath.Generated Require Import FuncTable.
From Mpath.Proofs Require Import EvalMono Strings C05 C06.

Local Open Scope Z_scope.
Local Arguments Z.pow : simpl never.
Local Arguments int_part : simpl never.

(* ------------------------------------------------------------------ *)
(** * A. What an array is                                               *)
(* ------------------------------------------------------------------ *)

(** the elements of a slice or Go array of any element type, directly or
    behind one pointer (the functions dereference once) *)
Definition elems (cur : gv) : option (list gv) :=
  option_map snd (elems_of (rv_v (deref1 (value_of cur)))).

Lemma elems_slice t n xs : elems (VSlice t n xs) = Some xs.
Proof. reflexivity. Qed.
Lemma elems_array t xs : elems (VArray t xs) = Some xs.
Proof. reflexivity. Qed.
Lemma elems_ptr_slice t n xs : elems (VPtr (Some (VSlice t n xs))) = Some xs.
Proof. reflexivity. Qed.
Lemma elems_ptr_array t xs : elems (VPtr (Some (VArray t xs))) = Some xs.
Proof. reflexivity. Qed.

Lemma elems_cases cur xs :
  elems cur = Some xs ->
  (exists t n, cur = VSlice t n xs) \/ (exists t, cur = VArray t xs) \/
  (exists t n, cur = VPtr (Some (VSlice t n xs))) \/ (exists t, cur = VPtr (Some (VArray t xs))).
Proof.
  unfold elems. intros H.
  destruct cur as [ |nm b|k nm z|w nm f|nm s|d|tg|t n ys|t ys|kt vt n kvs|fs|n|n];
    try (cbn in H; discriminate H).
  - destruct k; cbn in H; discriminate H.
  - destruct tg as [g|]; [|cbn in H; discriminate H].
    destruct g; cbn in H; try discriminate H; injection H as ->; eauto 6.
  - cbn in H. injection H as ->. eauto.
  - cbn in H. injection H as ->. eauto.
Qed.

Lemma elems_inv cur xs :
  elems cur = Some xs -> exists t, elems_of (rv_v (deref1 (value_of cur))) = Some (t, xs).
Proof.
  unfold elems. destruct (elems_of _) as [[t ys]|]; [|discriminate].
  cbn. intros H. injection H as ->. eauto.
Qed.

(** the guard `isEmptyValue(v) && kind is not slice/array` never fires on an array *)
Lemma elems_guard cur xs : elems cur = Some xs -> empty_guard (value_of cur) = false.
Proof.
  intros H.
  destruct (elems_cases cur xs H) as [[t [n ->]]|[[t ->]|[[t [n ->]]|[t ->]]]];
    unfold empty_guard, is_seq_kind; cbn; try apply andb_false_r; reflexivity.
Qed.

Lemma elems_empty_value cur xs :
  elems cur = Some xs -> is_empty_value (value_of cur) = true -> xs = [].
Proof.
  intros H.
  destruct (elems_cases cur xs H) as [[t [n ->]]|[[t ->]|[[t [n ->]]|[t ->]]]]; cbn;
    try discriminate; destruct xs; (reflexivity || discriminate).
Qed.

(** the receiver of a function is number-converted first; arrays are unchanged *)
Lemma convert_number_elems cur xs : elems cur = Some xs -> convert_number cur = cur.
Proof.
  intros H.
  destruct (elems_cases cur xs H) as [[t [n ->]]|[[t ->]|[[t [n ->]]|[t ->]]]];
    unfold convert_number, convert_number_check, convert_number_check_base; cbn;
    repeat match goal with |- context [if ?b then _ else _] => destruct b end; reflexivity.
Qed.

(* ------------------------------------------------------------------ *)
(** * B. Count, Any, First, Last, Index, AsArray                        *)
(* ------------------------------------------------------------------ *)

Section Funcs.
Variable eng : engines.

(** ** Count and Any *)
Theorem count_elems cur xs :
  elems cur = Some xs ->
  run_func eng "Count" [] cur = Ok (VDec (mkDec (Z.of_nat (length xs)) 0)).
Proof.
  intros H. change (run_func eng "Count" [] cur) with (func_count [] cur).
  unfold func_count. change (negb (len_is [] 0)) with false. cbv iota zeta.
  destruct (is_empty_value (value_of cur)) eqn:E.
  - rewrite (elems_empty_value cur xs H E). reflexivity.
  - destruct (elems_inv cur xs H) as [t Ht]. rewrite Ht. reflexivity.
Qed.

Theorem count_spec t n xs :
  run_func eng "Count" [] (VSlice t n xs) = Ok (VDec (mkDec (Z.of_nat (length xs)) 0)).
Proof. apply count_elems. reflexivity. Qed.

Theorem count_spec_array t xs :
  run_func eng "Count" [] (VArray t xs) = Ok (VDec (mkDec (Z.of_nat (length xs)) 0)).
Proof. apply count_elems. reflexivity. Qed.

Theorem any_elems cur xs :
  elems cur = Some xs ->
  run_func eng "Any" [] cur = Ok (vbool (negb (Nat.eqb (length xs) 0))).
Proof.
  intros H. change (run_func eng "Any" [] cur) with (func_any [] cur).
  unfold func_any. change (negb (len_is [] 0)) with false. cbv iota zeta.
  destruct (is_empty_value (value_of cur)) eqn:E.
  - rewrite (elems_empty_value cur xs H E). reflexivity.
  - destruct (elems_inv cur xs H) as [t Ht].
    destruct (rv_v (deref1 (value_of cur))); try discriminate Ht; cbn in Ht; injection Ht as _ ->; reflexivity.
Qed.

Theorem any_spec t n xs :
  run_func eng "Any" [] (VSlice t n xs) = Ok (vbool (negb (Nat.eqb (length xs) 0))).
Proof. apply any_elems. reflexivity. Qed.

Theorem any_spec_array t xs :
  run_func eng "Any" [] (VArray t xs) = Ok (vbool (negb (Nat.eqb (length xs) 0))).
Proof. apply any_elems. reflexivity. Qed.

(** Any is "Count > 0" *)
Corollary any_is_count_positive cur xs :
  elems cur = Some xs ->
  exists c, run_func eng "Count" [] cur = Ok (VDec (mkDec c 0)) /\
            run_func eng "Any" [] cur = Ok (vbool (0 <? c)).
Proof.
  intros H. exists (Z.of_nat (length xs)). split; [apply count_elems; exact H|].
  rewrite (any_elems cur xs H). destruct xs; reflexivity.
Qed.

(** ** First and Last *)
Theorem first_elems cur x xs :
  elems cur = Some (x :: xs) -> run_func eng "First" [] cur = Ok (convert_number x).
Proof.
  intros H. change (run_func eng "First" [] cur) with (func_first [] cur).
  unfold func_first. change (negb (len_is [] 0)) with false. cbv iota zeta.
  rewrite (elems_guard cur _ H). destruct (elems_inv cur _ H) as [t Ht]. rewrite Ht. reflexivity.
Qed.

Theorem first_spec t n x xs :
  run_func eng "First" [] (VSlice t n (x :: xs)) = Ok (convert_number x).
Proof. apply (first_elems _ x xs). reflexivity. Qed.

Lemma nth_error_last (xs : list gv) :
  xs <> [] -> nth_error xs (length xs - 1) = Some (last xs VNil).
Proof.
  induction xs as [|x xs IH]; intros Hne; [contradiction|].
  destruct xs as [|y ys]; [reflexivity|].
  change (last (x :: y :: ys) VNil) with (last (y :: ys) VNil).
  rewrite <- IH by discriminate.
  cbn [length]. replace (S (S (length ys)) - 1)%nat with (S (S (length ys) - 1)) by lia. reflexivity.
Qed.

Theorem last_elems cur xs :
  elems cur = Some xs -> xs <> [] -> run_func eng "Last" [] cur = Ok (convert_number (last xs VNil)).
Proof.
  intros H Hne. change (run_func eng "Last" [] cur) with (func_last [] cur).
  unfold func_last. change (negb (len_is [] 0)) with false. cbv iota zeta.
  rewrite (elems_guard cur _ H). destruct (elems_inv cur _ H) as [t Ht]. rewrite Ht.
  rewrite (nth_error_last xs Hne). destruct xs; [contradiction|reflexivity].
Qed.

Theorem last_spec t n xs :
  xs <> [] -> run_func eng "Last" [] (VSlice t n xs) = Ok (convert_number (last xs VNil)).
Proof. apply last_elems. reflexivity. Qed.

Theorem first_last_empty_elems cur :
  elems cur = Some [] ->
  run_func eng "First" [] cur = Err (EOther "nothing in array") /\
  run_func eng "Last" [] cur = Err (EOther "nothing in array").
Proof.
  intros H.
  change (run_func eng "First" [] cur) with (func_first [] cur).
  change (run_func eng "Last" [] cur) with (func_last [] cur).
  unfold func_first, func_last. change (negb (len_is [] 0)) with false. cbv iota zeta.
  rewrite (elems_guard cur _ H). destruct (elems_inv cur _ H) as [t Ht]. rewrite Ht. split; reflexivity.
Qed.

Theorem first_last_empty_error t n :
  (exists e, run_func eng "First" [] (VSlice t n []) = Err e) /\
  (exists e, run_func eng "Last" [] (VSlice t n []) = Err e).
Proof.
  destruct (first_last_empty_elems (VSlice t n []) eq_refl) as [H1 H2]. split; eauto.
Qed.

(** ** Index *)
Theorem index_elems cur xs p i :
  elems cur = Some xs ->
  denotes_nat p i -> (i < length xs)%nat -> Z.of_nat (length xs) < 2 ^ 63 ->
  run_func eng "Index" [RNum p] cur = Ok (convert_number (nth i xs VNil)).
Proof.
  intros H Hd Hi Hlen. change (run_func eng "Index" [RNum p] cur) with (func_index [RNum p] cur).
  unfold func_index. rewrite params_first_number_single. cbn [bind]. cbv zeta.
  rewrite (elems_guard cur _ H). destruct (elems_inv cur _ H) as [t Ht]. rewrite Ht.
  rewrite (denotes_not_neg p i Hd). unfold dlt. rewrite (denotes_dcmp p i _ Hd).
  rewrite (proj2 (Z.compare_lt_iff (Z.of_nat i) (Z.of_nat (length xs)))) by lia.
  cbn [negb andb].
  assert (Hip : int_part p = Z.of_nat i).
  { unfold int_part. rewrite (denotes_rescale0 p i Hd). apply big_int64_small. lia. }
  rewrite Hip.
  destruct (Z.ltb_spec (Z.of_nat i) 0) as [Hneg|_]; [lia|].
  rewrite Nat2Z.id. rewrite (nth_error_nth' xs VNil Hi). reflexivity.
Qed.

Theorem index_spec t n xs p i :
  denotes_nat p i -> (i < length xs)%nat -> Z.of_nat (length xs) < 2 ^ 63 ->
  run_func eng "Index" [RNum p] (VSlice t n xs) = Ok (convert_number (nth i xs VNil)).
Proof. apply index_elems. reflexivity. Qed.

Theorem index_out_of_range_elems cur xs p i :
  elems cur = Some xs -> denotes_nat p i -> (length xs <= i)%nat ->
  run_func eng "Index" [RNum p] cur = Err (EOther "nothing in array").
Proof.
  intros H Hd Hi. change (run_func eng "Index" [RNum p] cur) with (func_index [RNum p] cur).
  unfold func_index. rewrite params_first_number_single. cbn [bind]. cbv zeta.
  rewrite (elems_guard cur _ H). destruct (elems_inv cur _ H) as [t Ht]. rewrite Ht.
  unfold dlt. rewrite (denotes_dcmp p i _ Hd).
  destruct (Z.compare_spec (Z.of_nat i) (Z.of_nat (length xs))) as [Hc|Hc|Hc]; [| lia |];
    rewrite andb_false_r; reflexivity.
Qed.

Theorem index_out_of_range_error t n xs p i :
  denotes_nat p i -> (length xs <= i)%nat ->
  exists e, run_func eng "Index" [RNum p] (VSlice t n xs) = Err e.
Proof. intros Hd Hi. eexists. apply (index_out_of_range_elems _ xs p i); [reflexivity|exact Hd|exact Hi]. Qed.

Theorem index_negative_elems cur xs p :
  elems cur = Some xs -> dis_neg p = true ->
  run_func eng "Index" [RNum p] cur = Err (EOther "nothing in array").
Proof.
  intros H Hn. change (run_func eng "Index" [RNum p] cur) with (func_index [RNum p] cur).
  unfold func_index. rewrite params_first_number_single. cbn [bind]. cbv zeta.
  rewrite (elems_guard cur _ H). destruct (elems_inv cur _ H) as [t Ht]. rewrite Ht.
  rewrite Hn. reflexivity.
Qed.

Theorem index_negative_error t n xs p :
  dis_neg p = true -> exists e, run_func eng "Index" [RNum p] (VSlice t n xs) = Err e.
Proof. intros Hn. eexists. apply (index_negative_elems _ xs p); [reflexivity|exact Hn]. Qed.

(** every decimal index, integral or not, negative or huge, on an array
    shorter than 2^63: the answer is an element of the array or an error *)
Theorem index_total_elems cur xs p :
  elems cur = Some xs -> Z.of_nat (length xs) < 2 ^ 63 ->
  (exists i, (i < length xs)%nat /\ run_func eng "Index" [RNum p] cur = Ok (convert_number (nth i xs VNil)))
  \/ run_func eng "Index" [RNum p] cur = Err (EOther "nothing in array").
Proof.
  intros H Hlen. change (run_func eng "Index" [RNum p] cur) with (func_index [RNum p] cur).
  unfold func_index. rewrite params_first_number_single. cbn [bind]. cbv zeta.
  rewrite (elems_guard cur _ H). destruct (elems_inv cur _ H) as [t Ht]. rewrite Ht.
  destruct (negb (dis_neg p) && dlt p (mkDec (Z.of_nat (length xs)) 0)) eqn:E; [|right; reflexivity].
  left. apply andb_prop in E. destruct E as [E1 E2]. apply negb_true_iff in E1.
  destruct p as [c e]. unfold dis_neg in E1. cbn [coef] in E1. apply Z.ltb_ge in E1.
  unfold dlt in E2. rewrite dcmp_int in E2.
  assert (Hr : 0 <= coef (rescale (mkDec c e) 0) < Z.of_nat (length xs)).
  { rewrite coef_rescale0. destruct (Z.leb_spec 0 e) as [He|He].
    - pose proof (pow10_pos e He) as Hp.
      destruct (Z.compare_spec (c * 10 ^ e) (Z.of_nat (length xs))) as [Hc|Hc|Hc]; try discriminate E2.
      split; [apply Z.mul_nonneg_nonneg; lia|exact Hc].
    - assert (Hp : 0 < 10 ^ (- e)) by (apply pow10_pos; lia).
      destruct (Z.compare_spec c (Z.of_nat (length xs) * 10 ^ (- e))) as [Hc|Hc|Hc]; try discriminate E2.
      split; [apply Z.quot_pos; lia|].
      apply Z.quot_lt_upper_bound; [lia|lia|]. rewrite Z.mul_comm. exact Hc. }
  exists (Z.to_nat (int_part (mkDec c e))).
  assert (Hip : int_part (mkDec c e) = coef (rescale (mkDec c e) 0))
    by (unfold int_part; apply big_int64_small; lia).
  rewrite Hip.
  assert (Hi : (Z.to_nat (coef (rescale (mkDec c e) 0)) < length xs)%nat) by lia.
  split; [exact Hi|].
  destruct (Z.ltb_spec (coef (rescale (mkDec c e) 0)) 0) as [Hneg|_]; [lia|].
  rewrite (nth_error_nth' xs VNil Hi). reflexivity.
Qed.

(** ** First ≡ Index(0), Last ≡ Index(length − 1) *)
Theorem identities t n xs p0 pl :
  xs <> [] -> Z.of_nat (length xs) < 2 ^ 63 ->
  denotes_nat p0 0 -> denotes_nat pl (length xs - 1) ->
  run_func eng "First" [] (VSlice t n xs) = run_func eng "Index" [RNum p0] (VSlice t n xs) /\
  run_func eng "Last" [] (VSlice t n xs) = run_func eng "Index" [RNum pl] (VSlice t n xs).
Proof.
  intros Hne Hlen H0 Hl. destruct xs as [|x xs]; [contradiction|]. split.
  - rewrite first_spec. rewrite (index_spec t n (x :: xs) p0 0%nat H0); [reflexivity|cbn [length]; lia|exact Hlen].
  - rewrite (last_spec t n (x :: xs) Hne).
    rewrite (index_spec t n (x :: xs) pl _ Hl); [|cbn [length]; lia|exact Hlen].
    do 2 f_equal.
    pose proof (nth_error_last (x :: xs) Hne) as E.
    rewrite (nth_error_nth' (x :: xs) VNil) in E by (cbn [length]; lia).
    injection E as E. symmetry. exact E.
Qed.

(** ** AsArray *)
Theorem as_array_spec ps v : run_func eng "AsArray" ps v = Ok (VSlice EAny false [v]).
Proof. reflexivity. Qed.

Corollary as_array_then_count ps v :
  exists arr, run_func eng "AsArray" ps v = Ok arr /\ elems arr = Some [v] /\
              run_func eng "Count" [] arr = Ok (VDec (mkDec 1 0)).
Proof. eexists. split; [apply as_array_spec|]. split; reflexivity. Qed.

(** numbers come out as decimals: the element returned by First / Last /
    Index is the number-converted one *)
Corollary index_number t n xs p i g d :
  denotes_nat p i -> (i < length xs)%nat -> Z.of_nat (length xs) < 2 ^ 63 ->
  nth i xs VNil = g -> num_carrier g d ->
  run_func eng "Index" [RNum p] (VSlice t n xs) = Ok (VDec d).
Proof.
  intros Hd Hi Hlen Hg Hc. rewrite (index_spec t n xs p i Hd Hi Hlen), Hg.
  rewrite (convert_number_carrier g d Hc). reflexivity.
Qed.

End Funcs.

(* ------------------------------------------------------------------ *)
(** * C. Select                                                         *)
(* ------------------------------------------------------------------ *)

Lemma select_elems_spec (ev : gv -> outcome gv) :
  forall xs rs,
    Forall2 (fun x r => ev x = Ok r) xs rs ->
    select_elems ev xs = Ok (concat (map flatten_result rs)).
Proof.
  induction 1 as [|x r xs rs Hx Hrest IH]; [reflexivity|].
  cbn [select_elems map concat]. rewrite Hx. cbn [bind]. rewrite IH. reflexivity.
Qed.

Lemma select_in_table :
  exists d, find_fdesc_key (bs "Select") func_table = Some d /\ fd_key d = "Select"%string.
Proof. vm_compute; eauto. Qed.

(** array results are spliced in, anything else is one element *)
Lemma flatten_result_cases r :
  (forall xs, elems_of r = Some xs -> flatten_result r = snd xs) /\
  (elems_of r = None -> flatten_result r = [r]).
Proof.
  destruct r; split; intros; cbn in *; try discriminate; try reflexivity;
    match goal with H : Some _ = Some _ |- _ => injection H as <-; reflexivity end.
Qed.

Section Select.
Variable uni : uclass.
Variable eng : engines.

Theorem select_flat_map fuel inv q us t cur cur' orig xs rs :
  parse_string uni q = Ok t ->
  convert_number cur = cur' -> elems cur' = Some xs ->
  Forall2 (fun x r => eval uni eng fuel (NTop t) x x = Ok r) xs rs ->
  eval uni eng (S fuel) (NFunc (Func inv (bs "Select") [FPStr q] us)) cur orig
  = Ok (VSlice EAny (match concat (map flatten_result rs) with [] => true | _ => false end)
               (concat (map flatten_result rs))).
Proof.
  intros Hp Hc He H.
  destruct select_in_table as [d [Hd Hk]].
  cbn [eval eval_params bind app]. rewrite Hd, Hk.
  change (String.eqb "Select" "Select") with true. cbv iota.
  change (params_first_string [RStr q]) with (Ok q : outcome str). cbn [bind].
  rewrite Hp, Hc.
  pose proof (select_elems_spec (fun x => eval uni eng fuel (NTop t) x x) xs rs H) as Hs.
  destruct (elems_inv cur' xs He) as [ty Hty].
  destruct (rv_v (deref1 (value_of cur'))); try discriminate Hty; cbn in Hty; injection Hty as _ ->;
    rewrite Hs; reflexivity.
Qed.

(** directly on an array (which the number conversion leaves alone) *)
Corollary select_flat_map_elems fuel inv q us t cur orig xs rs :
  parse_string uni q = Ok t -> elems cur = Some xs ->
  Forall2 (fun x r => eval uni eng fuel (NTop t) x x = Ok r) xs rs ->
  eval uni eng (S fuel) (NFunc (Func inv (bs "Select") [FPStr q] us)) cur orig
  = Ok (VSlice EAny (match concat (map flatten_result rs) with [] => true | _ => false end)
               (concat (map flatten_result rs))).
Proof.
  intros Hp He H. apply (select_flat_map fuel inv q us t cur cur orig xs rs Hp); [|exact He|exact H].
  apply (convert_number_elems cur xs He).
Qed.

(** `$` and `@` are both the element while q runs: the outer root is invisible *)
Theorem select_binds_element fuel inv q us cur orig orig' :
  eval uni eng (S fuel) (NFunc (Func inv (bs "Select") [FPStr q] us)) cur orig
  = eval uni eng (S fuel) (NFunc (Func inv (bs "Select") [FPStr q] us)) cur orig'.
Proof. reflexivity. Qed.

(** an element whose query fails makes the whole Select fail with that outcome *)
Lemma select_elems_fails (ev : gv -> outcome gv) pre x post rs e :
  Forall2 (fun y r => ev y = Ok r) pre rs -> ev x = Err e ->
  select_elems ev (pre ++ x :: post) = Err e.
Proof.
  intros H Hx. induction H as [|y r pre rs Hy Hrest IH]; cbn [app select_elems].
  - rewrite Hx. reflexivity.
  - rewrite Hy. cbn [bind]. rewrite IH. reflexivity.
Qed.

End Select.

(* ------------------------------------------------------------------ *)
(** * D. AnyOf and the spreading of array-valued arguments              *)
(* ------------------------------------------------------------------ *)

Lemma spread_slice t n xs rs :
  t <> ETOther -> all_some (map spread_elem xs) = Some rs ->
  spread_result (VSlice t n xs) = Ok rs.
Proof. intros Ht H. destruct t; try contradiction; cbn [spread_result]; rewrite H; reflexivity. Qed.

Lemma eval_params_spec (ev : node -> outcome gv) :
  forall ps rss,
    Forall2 (fun p rs => param_here ev p = Ok rs) ps rss ->
    eval_params ev ps = Ok (concat rss).
Proof.
  induction 1 as [|p rs ps rss Hp Hrest IH]; [reflexivity|].
  rewrite eval_params_unfold, Hp. cbn [bind]. rewrite IH. reflexivity.
Qed.

(** a path argument whose value is an array of decimals / strings / bools
    contributes its elements, in order *)
Theorem anyof_spread (ev : node -> outcome gv) q t n xs rs :
  ev (NPath q) = Ok (VSlice t n xs) ->
  t <> ETOther -> all_some (map spread_elem xs) = Some rs ->
  eval_params ev [FPPath q] = Ok rs.
Proof.
  intros He Ht H. cbn [eval_params]. rewrite He. cbn [bind].
  rewrite (spread_slice t n xs rs Ht H). cbn [bind]. rewrite app_nil_r. reflexivity.
Qed.

Lemma param_here_path_slice (ev : node -> outcome gv) q t n xs rs :
  ev (NPath q) = Ok (VSlice t n xs) ->
  t <> ETOther -> all_some (map spread_elem xs) = Some rs ->
  param_here ev (FPPath q) = Ok rs.
Proof. intros He Ht H. unfold param_here. rewrite He. cbn [bind]. apply spread_slice; assumption. Qed.

Lemma all_some_map {A B} (f : A -> B) (g : B -> option A) (l : list A) :
  (forall x, g (f x) = Some x) -> all_some (map g (map f l)) = Some l.
Proof.
  intros H. induction l as [|x l IH]; [reflexivity|]. cbn [map all_some]. rewrite H, IH. reflexivity.
Qed.

Lemma spread_decimals ds : all_some (map spread_elem (map VDec ds)) = Some (map RNum ds).
Proof.
  induction ds as [|d ds IH]; [reflexivity|]. cbn [map all_some spread_elem]. rewrite IH. reflexivity.
Qed.

Lemma numbers_app a b : numbers (a ++ b) = numbers a ++ numbers b.
Proof.
  unfold numbers. induction a as [|x a IH]; [reflexivity|]. cbn [app filter_map].
  destruct x; rewrite IH; reflexivity.
Qed.

Lemma numbers_rnum ds : numbers (map RNum ds) = ds.
Proof. unfold numbers. induction ds as [|d ds IH]; [reflexivity|]. cbn [map filter_map]. rewrite IH. reflexivity. Qed.

Lemma anyof_in_table :
  find_fdesc_key (bs "AnyOf") func_table
  = Some (mkFdesc "AnyOf" "AnyOf" (PT_Any, IO_Single) (PT_Boolean, IO_Single) [(PT_Any, IO_Variadic)] false).
Proof. vm_compute. reflexivity. Qed.

Section AnyOf.
Variable uni : uclass.
Variable eng : engines.

(** AnyOf on a number, with whatever arguments evaluate to the list [rt]
    (literals as themselves, arrays spread) *)
Theorem anyof_eval fuel inv ps us cur orig v rt :
  eval_params (fun m => eval uni eng fuel m cur orig) ps = Ok rt ->
  convert_number cur = VDec v ->
  eval uni eng (S fuel) (NFunc (Func inv (bs "AnyOf") ps us)) cur orig
  = Ok (vbool (existsb (deq v) (numbers rt))).
Proof.
  intros Hp Hc. cbn [eval]. rewrite Hp. cbn [bind]. rewrite anyof_in_table. cbn [fd_key].
  change (String.eqb "AnyOf" "Select") with false. cbv iota. rewrite Hc.
  apply any_of_numbers.
Qed.

Theorem anyof_eval_string fuel inv ps us cur orig s rt :
  eval_params (fun m => eval uni eng fuel m cur orig) ps = Ok rt ->
  convert_number cur = VStr false s ->
  eval uni eng (S fuel) (NFunc (Func inv (bs "AnyOf") ps us)) cur orig
  = Ok (vbool (existsb (str_eqb s) (strings rt))).
Proof.
  intros Hp Hc. cbn [eval]. rewrite Hp. cbn [bind]. rewrite anyof_in_table. cbn [fd_key].
  change (String.eqb "AnyOf" "Select") with false. cbv iota. rewrite Hc.
  apply any_of_strings.
Qed.

Theorem anyof_eval_bool fuel inv ps us cur orig b rt :
  eval_params (fun m => eval uni eng fuel m cur orig) ps = Ok rt ->
  convert_number cur = VBool false b ->
  eval uni eng (S fuel) (NFunc (Func inv (bs "AnyOf") ps us)) cur orig
  = Ok (vbool (existsb (Bool.eqb b) (bools rt))).
Proof.
  intros Hp Hc. cbn [eval]. rewrite Hp. cbn [bind]. rewrite anyof_in_table. cbn [fd_key].
  change (String.eqb "AnyOf" "Select") with false. cbv iota. rewrite Hc.
  apply any_of_bools.
Qed.

(** number literals followed by an array-valued path of decimals: the input
    is compared with the literals and with every element of the array *)
Theorem anyof_literals_and_array fuel inv ls q t n ds us cur orig v :
  eval uni eng fuel (NPath q) cur orig = Ok (VSlice t n (map VDec ds)) -> t <> ETOther ->
  convert_number cur = VDec v ->
  eval uni eng (S fuel) (NFunc (Func inv (bs "AnyOf") (map FPNum ls ++ [FPPath q]) us)) cur orig
  = Ok (vbool (existsb (deq v) (ls ++ ds))).
Proof.
  intros Hq Ht Hc.
  assert (Hp : eval_params (fun m => eval uni eng fuel m cur orig) (map FPNum ls ++ [FPPath q])
               = Ok (map RNum ls ++ map RNum ds)).
  { induction ls as [|l ls IH].
    - apply (anyof_spread _ q t n (map VDec ds) (map RNum ds) Hq Ht). apply spread_decimals.
    - cbn [map app eval_params bind]. rewrite IH. reflexivity. }
  rewrite (anyof_eval fuel inv _ us cur orig v _ Hp Hc).
  rewrite numbers_app, !numbers_rnum. reflexivity.
Qed.

(** … "exactly when the input equals one of them" *)
Corollary anyof_true_iff fuel inv ls q t n ds us cur orig v :
  eval uni eng fuel (NPath q) cur orig = Ok (VSlice t n (map VDec ds)) -> t <> ETOther ->
  convert_number cur = VDec v ->
  (eval uni eng (S fuel) (NFunc (Func inv (bs "AnyOf") (map FPNum ls ++ [FPPath q]) us)) cur orig
   = Ok (vbool true)) <-> (exists d, In d (ls ++ ds) /\ deq v d = true).
Proof.
  intros Hq Ht Hc. rewrite (anyof_literals_and_array fuel inv ls q t n ds us cur orig v Hq Ht Hc).
  rewrite <- existsb_exists. split; intros H; [injection H as H; exact H|rewrite H; reflexivity].
Qed.

End AnyOf.

(* ------------------------------------------------------------------ *)
(** * E. A key stepped across objects, and aggregates over it           *)
(* ------------------------------------------------------------------ *)

(** an object that has key [k] with a number as its value *)
Inductive row (k : str) : gv -> dec -> Prop :=
| row_intro kt vt isnil kvs g d :
    map_lookup_fold k kvs = Some g -> num_carrier g d -> row k (VMap kt vt isnil kvs) d.

Lemma row_field k x d : row k x d -> get_field_by_name k (slot EAny x) = Some (VDec d).
Proof.
  intros H. destruct H as [kt vt isnil kvs g d Hl Hc].
  unfold get_field_by_name. cbn. rewrite Hl. cbn. rewrite (convert_number_carrier g d Hc). reflexivity.
Qed.

Lemma rows_fields k xs ds :
  Forall2 (row k) xs ds ->
  filter_map (fun x => get_field_by_name k (slot EAny x)) xs = map VDec ds.
Proof.
  induction 1 as [|x d xs ds Hx Hrest IH]; [reflexivity|].
  cbn [filter_map map]. rewrite (row_field k x d Hx), IH. reflexivity.
Qed.

(** the projection yields exactly the values of the key, in order, as decimals *)
Theorem aggregate_projection_identity k xs ds isnil :
  xs <> [] -> Forall2 (row k) xs ds ->
  do_ident k (VSlice EAny isnil xs) = Ok (VSlice EAny false (map VDec ds)).
Proof.
  intros Hne H. destruct H as [|x d xs ds Hx Hrest]; [contradiction|].
  pose proof (rows_fields k (x :: xs) (d :: ds) (Forall2_cons _ _ Hx Hrest)) as Hf.
  destruct Hx as [kt vt n kvs g d Hl Hc].
  change (do_ident k (VSlice EAny isnil (VMap kt vt n kvs :: xs))) with
    (match filter_map (fun y => get_field_by_name k (slot EAny y)) (VMap kt vt n kvs :: xs) with
     | [] => Err EKeyNotFound
     | slc => Ok (VSlice EAny false slc)
     end).
  rewrite Hf. reflexivity.
Qed.

(** The hypothesis [xs <> []] cannot be dropped: stepping a key across an
    EMPTY array fails with ErrKeyNotFound, whereas the aggregate of no values
    given directly is 0. *)
Lemma projection_of_empty_array_actual k isnil a :
  do_ident k (VSlice EAny isnil []) = Err EKeyNotFound /\
  func_decimal_slice a [] (VSlice EAny false []) = Ok (VDec dzero).
Proof. split; reflexivity. Qed.

(** objects that lack the key are passed over silently: the projection holds
    the values of the objects that have it *)
Lemma projection_skips_objects_without_key k x d kt vt n kvs :
  row k x d -> map_lookup_fold k kvs = None ->
  do_ident k (VSlice EAny false [x; VMap kt vt n kvs]) = Ok (VSlice EAny false [VDec d]).
Proof.
  intros Hx Hl. pose proof (row_field k x d Hx) as Hf.
  destruct Hx as [kt' vt' n' kvs' g d Hl' Hc].
  change (do_ident k (VSlice EAny false [VMap kt' vt' n' kvs'; VMap kt vt n kvs])) with
    (match filter_map (fun y => get_field_by_name k (slot EAny y)) [VMap kt' vt' n' kvs'; VMap kt vt n kvs] with
     | [] => Err EKeyNotFound
     | slc => Ok (VSlice EAny false slc)
     end).
  cbn [filter_map]. rewrite Hf.
  assert (Hn : get_field_by_name k (slot EAny (VMap kt vt n kvs)) = None)
    by (unfold get_field_by_name; cbn; rewrite Hl; reflexivity).
  rewrite Hn. reflexivity.
Qed.

Lemma all_some_decimals ds : all_some (map elem_number (map VDec ds)) = Some ds.
Proof. apply all_some_map. reflexivity. Qed.

(** what the aggregate of decimals given directly is *)
Definition agg_value (a : agg) (ds : list dec) : dec :=
  match ds with [] => dzero | [d] => d | d :: rest => run_agg a d rest end.

Lemma aggregate_direct a ds isnil :
  func_decimal_slice a [] (VSlice EAny isnil (map VDec ds)) = Ok (VDec (agg_value a ds)).
Proof.
  unfold func_decimal_slice. cbn [numbers strings filter_map app]. rewrite all_some_decimals.
  cbn [option_map]. destruct ds as [|d [|d' ds]]; reflexivity.
Qed.

Definition agg_name (a : agg) : string :=
  match a with AggSum => "Sum" | AggAvg => "Average" | AggMin => "Minimum" | AggMax => "Maximum" end.

Lemma run_agg_by_name eng a ps v : run_func eng (agg_name a) ps v = func_decimal_slice a ps v.
Proof. destruct a; reflexivity. Qed.

Lemma agg_in_table a :
  exists d, find_fdesc_key (bs (agg_name a)) func_table = Some d /\ fd_key d = agg_name a.
Proof. destruct a; vm_compute; eauto. Qed.

Section Aggregates.
Variable uni : uclass.
Variable eng : engines.

(** the corollary for Sum (and the other three): aggregating the projection
    is aggregating the values themselves *)
Corollary sum_over_projection k xs ds isnil :
  xs <> [] -> Forall2 (row k) xs ds ->
  exists proj,
    do_ident k (VSlice EAny isnil xs) = Ok proj /\
    run_func eng "Sum" [] proj = func_decimal_slice AggSum [] (VSlice EAny false (map VDec ds)) /\
    run_func eng "Sum" [] proj = Ok (VDec (agg_value AggSum ds)).
Proof.
  intros Hne H. eexists. split; [apply (aggregate_projection_identity k xs ds isnil Hne H)|].
  split; [reflexivity|]. apply (aggregate_direct AggSum ds false).
Qed.

(** the same inside a query: `@.k.Agg()` on the array of objects *)
Theorem aggregate_over_key fuel a k u1 u2 u3 inv me finv xs ds isnil orig :
  xs <> [] -> Forall2 (row k) xs ds ->
  eval uni eng (S (S (S fuel)))
       (NPath (Path inv false false me [PIdent k false u1; PFunc (Func finv (bs (agg_name a)) [] u2)] u3))
       (VSlice EAny isnil xs) orig
  = run_func eng (agg_name a) [] (VSlice EAny false (map VDec ds)).
Proof.
  intros Hne H.
  destruct (agg_in_table a) as [d [Hd Hk]].
  assert (Hsel : String.eqb (agg_name a) "Select" = false) by (destruct a; reflexivity).
  cbn [eval andb path_ops pathop_qmark].
  rewrite (aggregate_projection_identity k xs ds isnil Hne H).
  cbn [eval_params bind]. rewrite Hd, Hk, Hsel.
  assert (Hc : convert_number (VSlice EAny false (map VDec ds)) = VSlice EAny false (map VDec ds))
    by (apply (convert_number_elems _ (map VDec ds)); reflexivity).
  rewrite Hc. rewrite run_agg_by_name, aggregate_direct. reflexivity.
Qed.

(** Select("$.k") over the objects yields the same array as stepping `.k` *)
Theorem select_key_is_projection fuel inv q us pinv pme u1 u2 k xs ds isnil orig :
  parse_string uni q = Ok (TopP (Path pinv true false pme [PIdent k false u1] u2)) ->
  xs <> [] -> Forall2 (row k) xs ds ->
  eval uni eng (S (S (S (S fuel)))) (NFunc (Func inv (bs "Select") [FPStr q] us)) (VSlice EAny isnil xs) orig
  = do_ident k (VSlice EAny isnil xs).
Proof.
  intros Hp Hne H.
  rewrite (aggregate_projection_identity k xs ds isnil Hne H).
  rewrite (select_flat_map_elems uni eng (S (S (S fuel))) inv q us _ (VSlice EAny isnil xs) orig xs (map VDec ds) Hp eq_refl).
  - assert (Hfl : concat (map flatten_result (map VDec ds)) = map VDec ds).
    { clear. induction ds as [|d ds IH]; [reflexivity|]. cbn [map concat flatten_result app]. rewrite IH. reflexivity. }
    rewrite Hfl. destruct H as [|x d xs ds Hx Hrest]; [contradiction|reflexivity].
  - clear Hne. induction H as [|x d xs ds Hx Hrest IH]; cbn [map]; constructor; [|exact IH].
    destruct Hx as [kt vt n kvs g d Hl Hc].
    cbn [eval andb path_ops pathop_qmark].
    rewrite (as_map_value k kt vt n kvs g d Hl Hc). reflexivity.
Qed.

End Aggregates.

(* ------------------------------------------------------------------ *)
(** * F. Parsed queries on a concrete document                          *)
(* ------------------------------------------------------------------ *)

Definition run (q : string) (doc : gv) : option (outcome gv) :=
  match parse_string uni_ascii (bs q) with
  | Ok t => Some (do_top uni_ascii no_engines t doc)
  | _ => None
  end.

Definition obj (kvs : list (string * gv)) : gv :=
  VMap KtStr EAny false (map (fun kv => (VStr false (bs (fst kv)), snd kv)) kvs).
Definition arr (xs : list gv) : gv := VSlice EAny false xs.
Definition num (z : Z) : gv := VFloat false false (FFin (mkDec z 0)).   (* a JSON number *)

(** {"xs": [{"k": 1}, {"k": 2}, {"k": 4}], "ys": [10, 20, 30], "e": [], "n": 20, "zs": [[1, 2], [], [3]]} *)
Definition doc : gv :=
  obj [("xs", arr [obj [("k", num 1)]; obj [("k", num 2)]; obj [("k", num 4)]]);
       ("ys", arr [num 10; num 20; num 30]);
       ("e", arr []);
       ("n", num 20);
       ("zs", arr [arr [num 1; num 2]; arr []; arr [num 3]])].

Example ex_select_vs_projection :
  run "$.xs.Select(""$.k"").Sum()" doc = Some (Ok (VDec (mkDec 7 0))) /\
  run "$.xs.k.Sum()" doc = Some (Ok (VDec (mkDec 7 0))) /\
  run "$.xs.Select(""$.k"")" doc = run "$.xs.k" doc /\
  run "$.xs.k" doc = Some (Ok (arr [VDec (mkDec 1 0); VDec (mkDec 2 0); VDec (mkDec 4 0)])).
Proof. repeat split; vm_compute; reflexivity. Qed.

Example ex_count_any :
  run "$.ys.Count()" doc = Some (Ok (VDec (mkDec 3 0))) /\
  run "$.e.Count()" doc = Some (Ok (VDec (mkDec 0 0))) /\
  run "$.ys.Any()" doc = Some (Ok (vbool true)) /\
  run "$.e.Any()" doc = Some (Ok (vbool false)).
Proof. repeat split; vm_compute; reflexivity. Qed.

Example ex_first_last_index :
  run "$.ys.First()" doc = Some (Ok (VDec (mkDec 10 0))) /\
  run "$.ys.Last()" doc = Some (Ok (VDec (mkDec 30 0))) /\
  run "$.ys.Index(1)" doc = Some (Ok (VDec (mkDec 20 0))) /\
  run "$.ys.Index(3)" doc = Some (Err (EOther "nothing in array")) /\
  run "$.ys.Index(-1)" doc = Some (Err (EOther "nothing in array")) /\
  run "$.e.First()" doc = Some (Err (EOther "nothing in array")) /\
  run "$.e.Last()" doc = Some (Err (EOther "nothing in array")) /\
  run "$.e.Index(0)" doc = Some (Err (EOther "nothing in array")).
Proof. repeat split; vm_compute; reflexivity. Qed.

Example ex_as_array_select_flatten :
  run "$.n.AsArray()" doc = Some (Ok (arr [VDec (mkDec 20 0)])) /\
  run "$.zs.Select(""@"")" doc = Some (Ok (arr [num 1; num 2; num 3])) /\
  run "$.zs.Select(""@.Count()"")" doc
    = Some (Ok (arr [VDec (mkDec 2 0); VDec (mkDec 0 0); VDec (mkDec 1 0)])).
Proof. repeat split; vm_compute; reflexivity. Qed.

Example ex_anyof_spread :
  run "$.n.AnyOf(1, $.ys)" doc = Some (Ok (vbool true)) /\
  run "$.n.AnyOf(1, 2)" doc = Some (Ok (vbool false)) /\
  run "$.n.AnyOf($.xs.k)" doc = Some (Ok (vbool false)) /\
  run "$.n.AnyOf($.xs.k, 20.0)" doc = Some (Ok (vbool true)).
Proof. repeat split; vm_compute; reflexivity. Qed.

Print Assumptions count_spec.
Print Assumptions count_spec_array.
Print Assumptions any_spec.
Print Assumptions any_spec_array.
Print Assumptions first_spec.
Print Assumptions last_spec.
Print Assumptions first_last_empty_error.
Print Assumptions index_spec.
Print Assumptions index_out_of_range_error.
Print Assumptions index_negative_error.
Print Assumptions index_total_elems.
Print Assumptions identities.
Print Assumptions as_array_spec.
Print Assumptions select_in_table.
Print Assumptions select_flat_map.
Print Assumptions select_flat_map_elems.
Print Assumptions anyof_spread.
Print Assumptions anyof_eval.
Print Assumptions anyof_eval_string.
Print Assumptions anyof_eval_bool.
Print Assumptions anyof_literals_and_array.
Print Assumptions anyof_true_iff.
Print Assumptions aggregate_projection_identity.
Print Assumptions sum_over_projection.
Print Assumptions aggregate_over_key.
Print Assumptions select_key_is_projection.
