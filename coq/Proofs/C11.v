(* Proofs/C11.v — evaluation changes neither its data nor the operation, and
   its results do not depend on what else was evaluated, or in what order.

   The model is purely functional, so "does not mutate" holds of it by
   construction.  What needs proof is that the model's determinism is not an
   artefact: the places where the Go code COULD be effectful or
   order-dependent are
     A. ranging over a Go map (random iteration order; the model iterates an
        association list in ONE order): opPathIdent.Do's key search, Select
        over a map, removeKeysBy;
     B. `append` onto a slice that may have spare capacity (func_decimalSlice):
        a micro-model of slices with capacity (Model/Store.v);
     C. a sequence of calls: each result is a function of its own call. *)
From Mpath.Model Require Import Base Dec Types GoVal Ast Lexer Parser Funcs Eval Store.
From Coq Require Import Permutation.

(* ------------------------------------------------------------------ *)
(** * A1. The key search of opPathIdent.Do / getFieldValueByNameFromStruct *)

(** equal_fold is an equivalence (re-proved here: this file depends on the
    model only) *)
Lemma c11_str_eqb_refl a : str_eqb a a = true.
Proof. induction a as [|c a IH]; cbn; [reflexivity|]. rewrite Ascii.eqb_refl. exact IH. Qed.

Lemma c11_str_eqb_eq a b : str_eqb a b = true -> a = b.
Proof.
  revert b; induction a as [|c a IH]; intros [|d b] H; cbn in H; try discriminate; [reflexivity|].
  apply andb_true_iff in H. destruct H as [Hc Hr].
  apply Ascii.eqb_eq in Hc. rewrite Hc, (IH _ Hr). reflexivity.
Qed.

Lemma c11_fold_lower a b : equal_fold a b = true -> str_lower a = str_lower b.
Proof. apply c11_str_eqb_eq. Qed.

Lemma c11_fold_sym a b : equal_fold a b = true -> equal_fold b a = true.
Proof. intros H. unfold equal_fold. rewrite (c11_fold_lower _ _ H). apply c11_str_eqb_refl. Qed.

Lemma c11_fold_trans a b c : equal_fold a b = true -> equal_fold b c = true -> equal_fold a c = true.
Proof. intros H1 H2. unfold equal_fold. rewrite (c11_fold_lower _ _ H1). exact H2. Qed.

(** Sibling keys pairwise not fold-equal: no key that converts to a string
    is fold-equal to a LATER key that converts to a string.  (Keys that do not
    convert are skipped by the Go loop and do not count.) *)
Fixpoint fold_distinct_keys (kvs : list (gv * gv)) : Prop :=
  match kvs with
  | [] => True
  | kv :: rest =>
      (forall s kv' s', key_string (fst kv) = Some s -> In kv' rest ->
                        key_string (fst kv') = Some s' -> equal_fold s s' = false)
      /\ fold_distinct_keys rest
  end.

(** ... which is the same as: at any two DIFFERENT positions *)
Definition fold_distinct_positions (kvs : list (gv * gv)) : Prop :=
  forall i j kv1 kv2 s1 s2, i <> j ->
    nth_error kvs i = Some kv1 -> nth_error kvs j = Some kv2 ->
    key_string (fst kv1) = Some s1 -> key_string (fst kv2) = Some s2 ->
    equal_fold s1 s2 = false.

Lemma fold_distinct_keys_positions kvs : fold_distinct_keys kvs <-> fold_distinct_positions kvs.
Proof.
  unfold fold_distinct_positions. induction kvs as [|kv rest IH]; cbn [fold_distinct_keys].
  - split; [|intros _; exact I]. intros _ i j kv1 kv2 s1 s2 _ H1. destruct i; discriminate H1.
  - split.
    + intros [Hhd Htl] i j kv1 kv2 s1 s2 Hij H1 H2 Hs1 Hs2.
      destruct i as [|i], j as [|j]; cbn [nth_error] in H1, H2.
      * exfalso; apply Hij; reflexivity.
      * injection H1 as <-. apply (Hhd s1 kv2 s2 Hs1 (nth_error_In _ _ H2) Hs2).
      * injection H2 as <-.
        destruct (equal_fold s1 s2) eqn:E; [|reflexivity].
        rewrite <- (Hhd s2 kv1 s1 Hs2 (nth_error_In _ _ H1) Hs1). symmetry. apply c11_fold_sym; exact E.
      * apply (proj1 IH Htl i j kv1 kv2 s1 s2); try assumption. intros ->; apply Hij; reflexivity.
    + intros H. split.
      * intros s kv' s' Hs Hin Hs'. destruct (In_nth_error _ _ Hin) as [j Hj].
        apply (H 0%nat (S j) kv kv' s s'); [discriminate | reflexivity | exact Hj | exact Hs | exact Hs'].
      * apply (proj2 IH). intros i j kv1 kv2 s1 s2 Hij H1 H2.
        apply (H (S i) (S j) kv1 kv2 s1 s2); [intros E; apply Hij; injection E as ->; reflexivity | exact H1 | exact H2].
Qed.

Lemma map_lookup_some_in name kvs v :
  map_lookup_fold name kvs = Some v ->
  exists k s, In (k, v) kvs /\ key_string k = Some s /\ equal_fold s name = true.
Proof.
  induction kvs as [|[k1 v1] r IH]; cbn [map_lookup_fold]; intros H; [discriminate H|].
  destruct (key_string k1) as [s1|] eqn:Ek.
  - destruct (equal_fold s1 name) eqn:Ef.
    + injection H as <-. exists k1, s1. split; [left; reflexivity | split; assumption].
    + destruct (IH H) as (k & s & Hin & Hk & Hf). exists k, s. split; [right; exact Hin | split; assumption].
  - destruct (IH H) as (k & s & Hin & Hk & Hf). exists k, s. split; [right; exact Hin | split; assumption].
Qed.

Lemma map_lookup_none_all name kvs :
  map_lookup_fold name kvs = None ->
  forall k v s, In (k, v) kvs -> key_string k = Some s -> equal_fold s name = false.
Proof.
  induction kvs as [|[k1 v1] r IH]; cbn [map_lookup_fold]; intros H k v s Hin Hk; [destruct Hin|].
  destruct Hin as [E|Hin].
  - injection E as -> ->. rewrite Hk in H. destruct (equal_fold s name); [discriminate H | reflexivity].
  - destruct (key_string k1) as [s1|]; [destruct (equal_fold s1 name); [discriminate H|]|];
      apply (IH H k v s Hin Hk).
Qed.

Lemma map_lookup_all_none name kvs :
  (forall k v s, In (k, v) kvs -> key_string k = Some s -> equal_fold s name = false) ->
  map_lookup_fold name kvs = None.
Proof.
  induction kvs as [|[k1 v1] r IH]; cbn [map_lookup_fold]; intros H; [reflexivity|].
  destruct (key_string k1) as [s1|] eqn:Ek.
  - rewrite (H k1 v1 s1 (or_introl eq_refl) Ek). apply IH. intros k v s Hin. apply (H k v s). right; exact Hin.
  - apply IH. intros k v s Hin. apply (H k v s). right; exact Hin.
Qed.

(** with distinct keys, a matching entry ANYWHERE in the list is the one found *)
Lemma map_lookup_in name kvs k v s :
  fold_distinct_keys kvs -> In (k, v) kvs -> key_string k = Some s -> equal_fold s name = true ->
  map_lookup_fold name kvs = Some v.
Proof.
  induction kvs as [|[k1 v1] r IH]; cbn [map_lookup_fold fold_distinct_keys]; intros Hd Hin Hk Hf; [destruct Hin|].
  destruct Hd as [Hhd Htl]. destruct Hin as [E|Hin].
  - injection E as -> ->. rewrite Hk, Hf. reflexivity.
  - destruct (key_string k1) as [s1|] eqn:Ek; [|apply IH; assumption].
    destruct (equal_fold s1 name) eqn:Ef; [|apply IH; assumption].
    exfalso. cbn [fst] in Hhd.
    pose proof (Hhd s1 (k, v) s Ek Hin Hk) as Hne.
    rewrite (c11_fold_trans s1 name s Ef (c11_fold_sym _ _ Hf)) in Hne. discriminate Hne.
Qed.

Theorem map_lookup_perm : forall name kvs kvs',
  Permutation kvs kvs' -> fold_distinct_keys kvs ->
  map_lookup_fold name kvs = map_lookup_fold name kvs'.
Proof.
  intros name kvs kvs' Hp Hd.
  destruct (map_lookup_fold name kvs') as [v'|] eqn:E'.
  - destruct (map_lookup_some_in name kvs' v' E') as (k & s & Hin & Hk & Hf).
    apply (map_lookup_in name kvs k v' s Hd); [|exact Hk|exact Hf].
    apply (Permutation_in _ (Permutation_sym Hp)). exact Hin.
  - apply map_lookup_all_none. intros k v s Hin Hk.
    apply (map_lookup_none_all name kvs' E' k v s); [|exact Hk].
    apply (Permutation_in _ Hp). exact Hin.
Qed.

(** the position form of the hypothesis *)
Corollary map_lookup_perm_positions : forall name kvs kvs',
  Permutation kvs kvs' -> fold_distinct_positions kvs ->
  map_lookup_fold name kvs = map_lookup_fold name kvs'.
Proof.
  intros name kvs kvs' Hp Hd. apply map_lookup_perm; [exact Hp|].
  apply fold_distinct_keys_positions; exact Hd.
Qed.

Corollary do_ident_perm : forall name kt vt n kvs kvs',
  Permutation kvs kvs' -> fold_distinct_keys kvs ->
  do_ident name (VMap kt vt n kvs) = do_ident name (VMap kt vt n kvs').
Proof.
  intros name kt vt n kvs kvs' Hp Hd.
  change (do_ident name (VMap kt vt n kvs))
    with (match map_lookup_fold name kvs with Some x => Ok (convert_unless_string x) | None => Err EKeyNotFound end).
  change (do_ident name (VMap kt vt n kvs'))
    with (match map_lookup_fold name kvs' with Some x => Ok (convert_unless_string x) | None => Err EKeyNotFound end).
  rewrite (map_lookup_perm name kvs kvs' Hp Hd). reflexivity.
Qed.

(** the hypothesis is itself order-independent *)
Lemma fold_distinct_keys_perm kvs kvs' :
  Permutation kvs kvs' -> fold_distinct_keys kvs -> fold_distinct_keys kvs'.
Proof.
  intros Hp. induction Hp as [|x l l' Hp IH|x y l|l l' l'' Hp1 IH1 Hp2 IH2]; cbn [fold_distinct_keys].
  - intros _; exact I.
  - intros [Hhd Htl]. split; [|exact (IH Htl)].
    intros s kv' s' Hs Hin. apply (Hhd s kv' s' Hs). apply (Permutation_in _ (Permutation_sym Hp)). exact Hin.
  - intros [Hy [Hx Hl]]. split; [|split].
    + intros s kv' s' Hs [E|Hin] Hs'.
      * subst kv'. destruct (equal_fold s s') eqn:E; [|reflexivity].
        rewrite <- (Hy s' x s Hs' (or_introl eq_refl) Hs). symmetry. apply c11_fold_sym; exact E.
      * apply (Hx s kv' s' Hs Hin Hs').
    + intros s kv' s' Hs Hin. apply (Hy s kv' s' Hs). right; exact Hin.
    + exact Hl.
  - intros H. exact (IH2 (IH1 H)).
Qed.

(* ------------------------------------------------------------------ *)
(** * A2. The recorded finding: with keys that collide under folding, the
    result DOES depend on the iteration order *)
Definition collide_kvs : list (gv * gv) :=
  [ (VStr false (bs "a"), VInt KInt false 1); (VStr false (bs "A"), VInt KInt false 2) ].

Example collision_order_dependent_refuted :
  Permutation collide_kvs (rev collide_kvs) /\
  do_ident (bs "a") (VMap KtStr EAny false collide_kvs) = Ok (VDec (mkDec 1 0)) /\
  do_ident (bs "a") (VMap KtStr EAny false (rev collide_kvs)) = Ok (VDec (mkDec 2 0)) /\
  do_ident (bs "a") (VMap KtStr EAny false collide_kvs)
    <> do_ident (bs "a") (VMap KtStr EAny false (rev collide_kvs)).
Proof.
  split; [apply Permutation_rev|].
  split; [vm_compute; reflexivity|].
  split; [vm_compute; reflexivity|].
  vm_compute. intros H. discriminate H.
Qed.

(** and the hypothesis of [map_lookup_perm] is what fails on it *)
Example collision_not_fold_distinct : ~ fold_distinct_keys collide_kvs.
Proof.
  intros [H _].
  specialize (H (bs "a") (VStr false (bs "A"), VInt KInt false 2) (bs "A") eq_refl (or_introl eq_refl) eq_refl).
  vm_compute in H. discriminate H.
Qed.

(* ------------------------------------------------------------------ *)
(** * A3. Select over a map visits the values in key order, whatever the
    iteration order *)

(** str_ltb (the order of sort.Slice on Value.String()) is a strict total
    order on byte strings *)
Lemma byte_inj x y : byte x = byte y -> x = y.
Proof.
  unfold byte. intros H. apply N2Z.inj in H.
  rewrite <- (ascii_N_embedding x), <- (ascii_N_embedding y), H. reflexivity.
Qed.

Lemma str_ltb_irrefl a : str_ltb a a = false.
Proof. induction a as [|x a IH]; cbn [str_ltb]; [reflexivity|]. rewrite Z.ltb_irrefl. exact IH. Qed.

Lemma str_ltb_trans a b c : str_ltb a b = true -> str_ltb b c = true -> str_ltb a c = true.
Proof.
  revert b c. induction a as [|x a IH]; intros [|y b] [|z c] Hab Hbc; cbn [str_ltb] in *;
    try discriminate; try reflexivity.
  destruct (Z.ltb_spec (byte x) (byte y)) as [Hxy|Hxy].
  - destruct (Z.ltb_spec (byte y) (byte z)) as [Hyz|Hyz].
    + destruct (Z.ltb_spec (byte x) (byte z)); [reflexivity | lia].
    + destruct (Z.ltb_spec (byte z) (byte y)) as [Hzy|Hzy]; [discriminate Hbc|].
      destruct (Z.ltb_spec (byte x) (byte z)); [reflexivity | lia].
  - destruct (Z.ltb_spec (byte y) (byte x)) as [Hyx|Hyx]; [discriminate Hab|].
    destruct (Z.ltb_spec (byte y) (byte z)) as [Hyz|Hyz].
    + destruct (Z.ltb_spec (byte x) (byte z)); [reflexivity | lia].
    + destruct (Z.ltb_spec (byte z) (byte y)) as [Hzy|Hzy]; [discriminate Hbc|].
      destruct (Z.ltb_spec (byte x) (byte z)); [reflexivity|].
      destruct (Z.ltb_spec (byte z) (byte x)); [lia|].
      apply (IH b c Hab Hbc).
Qed.

Lemma str_ltb_total a b : str_ltb a b = false -> str_ltb b a = false -> a = b.
Proof.
  revert b. induction a as [|x a IH]; intros [|y b] Hab Hba; cbn [str_ltb] in *;
    try discriminate; [reflexivity|].
  destruct (Z.ltb_spec (byte x) (byte y)) as [Hxy|Hxy]; [discriminate Hab|].
  destruct (Z.ltb_spec (byte y) (byte x)) as [Hyx|Hyx]; [discriminate Hba|].
  assert (Hb : byte x = byte y) by lia. rewrite (byte_inj x y Hb). rewrite (IH b Hab Hba). reflexivity.
Qed.

Lemma str_ltb_asym a b : str_ltb a b = true -> str_ltb b a = false.
Proof.
  intros H. destruct (str_ltb b a) eqn:E; [|reflexivity].
  rewrite <- (str_ltb_irrefl a). symmetry. apply (str_ltb_trans a b a H E).
Qed.

(** insertion commutes for two entries with comparable keys — on ANY list,
    sorted or not *)
Lemma insert_kv_comm_lt a b l :
  str_ltb (fst a) (fst b) = true -> insert_kv a (insert_kv b l) = insert_kv b (insert_kv a l).
Proof.
  intros Hab. pose proof (str_ltb_asym _ _ Hab) as Hba.
  induction l as [|x l IH]; cbn [insert_kv].
  - rewrite Hab, Hba. reflexivity.
  - destruct (str_ltb (fst b) (fst x)) eqn:Ebx.
    + rewrite (str_ltb_trans _ _ _ Hab Ebx). cbn [insert_kv]. rewrite Hab, Hba, Ebx. reflexivity.
    + cbn [insert_kv]. destruct (str_ltb (fst a) (fst x)) eqn:Eax.
      * cbn [insert_kv]. rewrite Hba, Ebx. reflexivity.
      * cbn [insert_kv]. rewrite Ebx, IH. reflexivity.
Qed.

Lemma insert_kv_comm a b l :
  fst a <> fst b -> insert_kv a (insert_kv b l) = insert_kv b (insert_kv a l).
Proof.
  intros Hne. destruct (str_ltb (fst a) (fst b)) eqn:Eab.
  - apply insert_kv_comm_lt; exact Eab.
  - destruct (str_ltb (fst b) (fst a)) eqn:Eba.
    + symmetry. apply insert_kv_comm_lt; exact Eba.
    + exfalso. apply Hne. apply str_ltb_total; assumption.
Qed.

(** insertion sort of entries with distinct keys is a function of the SET of
    entries *)
Lemma insertion_sort_perm l l' :
  Permutation l l' -> NoDup (map fst l) ->
  fold_right insert_kv [] l = fold_right insert_kv [] l'.
Proof.
  intros Hp. induction Hp as [|x l l' Hp IH|x y l|l l' l'' Hp1 IH1 Hp2 IH2]; intros Hnd.
  - reflexivity.
  - cbn [fold_right]. cbn [map] in Hnd. apply NoDup_cons_iff in Hnd. destruct Hnd as [_ Hnd].
    rewrite (IH Hnd). reflexivity.
  - cbn [fold_right]. cbn [map] in Hnd. apply insert_kv_comm.
    apply NoDup_cons_iff in Hnd. destruct Hnd as [Hnin _]. intros E. apply Hnin. left. symmetry. exact E.
  - rewrite (IH1 Hnd). apply IH2.
    apply (Permutation_NoDup (Permutation_map fst Hp1) Hnd).
Qed.

(** the keys of [kvs], in list order, print as the texts [ss] (a string key —
    named or plain — as its contents, an unnamed integer or boolean as
    fmt.Sprint prints it, the nil interface as the empty text) *)
Definition key_str_of (k : gv) : option str := key_sort_text k.

Definition str_keys (kvs : list (gv * gv)) (ss : list str) : Prop :=
  map (fun kv => key_sort_text (fst kv)) kvs = map Some ss.

Definition sv_entry : gv * gv -> option (str * gv) :=
  fun '(k, v) => match key_sort_text k with Some s => Some (s, v) | None => None end.

Lemma sorted_values_unfold kvs :
  sorted_values kvs =
  match all_some (map sv_entry kvs) with
  | Some l => if str_nodupb (map fst l) then Some (map snd (fold_right insert_kv [] l)) else None
  | None => None
  end.
Proof. reflexivity. Qed.

Lemma all_some_map_some {A} (xs : list A) : all_some (map Some xs) = Some xs.
Proof. induction xs as [|x xs IH]; cbn [map all_some]; [reflexivity|]. rewrite IH. reflexivity. Qed.

Lemma c11_str_mem_In s l : str_mem s l = true <-> In s l.
Proof.
  induction l as [|x l IH]; cbn [str_mem In]; [split; [discriminate | intros []]|].
  rewrite orb_true_iff, IH. split; intros [H|H]; auto.
  - left. symmetry. apply c11_str_eqb_eq. exact H.
  - left. subst x. apply c11_str_eqb_refl.
Qed.

(** the boolean test of the model is NoDup *)
Lemma str_nodupb_NoDup l : str_nodupb l = true <-> NoDup l.
Proof.
  induction l as [|x l IH]; cbn [str_nodupb]; [split; [constructor | reflexivity]|].
  rewrite andb_true_iff, negb_true_iff, IH, NoDup_cons_iff. split; intros [Hx Hl]; split; try exact Hl.
  - intros Hin. apply c11_str_mem_In in Hin. rewrite Hin in Hx. discriminate Hx.
  - destruct (str_mem x l) eqn:E; [|reflexivity]. exfalso. apply Hx, c11_str_mem_In. exact E.
Qed.

Lemma str_keys_entries kvs ss :
  str_keys kvs ss -> exists l, map sv_entry kvs = map Some l /\ map fst l = ss.
Proof.
  unfold str_keys. revert ss. induction kvs as [|[k v] r IH]; intros [|s ss] H; cbn [map] in H; try discriminate H.
  - exists []. split; reflexivity.
  - injection H as Hk Hr. destruct (IH ss Hr) as (l & Hl & Hf).
    cbn [fst] in Hk.
    exists ((s, v) :: l). cbn [map sv_entry fst]. rewrite Hk, Hl, Hf. split; reflexivity.
Qed.

Theorem sorted_values_perm : forall kvs kvs' ss,
  Permutation kvs kvs' -> str_keys kvs ss -> NoDup ss ->
  sorted_values kvs = sorted_values kvs'.
Proof.
  intros kvs kvs' ss Hp Hk Hnd.
  destruct (str_keys_entries kvs ss Hk) as (l & Hl & Hf).
  pose proof (Permutation_map sv_entry Hp) as Hpm. rewrite Hl in Hpm.
  destruct (@Permutation_map_inv _ _ Some (map sv_entry kvs') l (Permutation_sym Hpm)) as (l' & Hl' & Hpl).
  rewrite !sorted_values_unfold, Hl, Hl', !all_some_map_some.
  assert (Hnl : NoDup (map fst l)) by (rewrite Hf; exact Hnd).
  assert (Hnl' : NoDup (map fst l')) by (apply (Permutation_NoDup (Permutation_map fst Hpl) Hnl)).
  apply str_nodupb_NoDup in Hnl'. pose proof Hnl as Hnb. apply str_nodupb_NoDup in Hnb. rewrite Hnb, Hnl'.
  rewrite (insertion_sort_perm l l'); [reflexivity | exact Hpl | exact Hnl].
Qed.

(** ... and it is defined: the model does not decline such a map *)
Lemma sorted_values_defined kvs ss : str_keys kvs ss -> NoDup ss -> exists vs, sorted_values kvs = Some vs.
Proof.
  intros Hk Hnd. destruct (str_keys_entries kvs ss Hk) as (l & Hl & Hf).
  rewrite sorted_values_unfold, Hl, all_some_map_some.
  rewrite <- Hf in Hnd. apply str_nodupb_NoDup in Hnd. rewrite Hnd. eexists; reflexivity.
Qed.

(** ... and only such a map: the model answers exactly when every key has a
    modelled printed form and the forms are pairwise different *)
Lemma sorted_values_defined_iff kvs :
  (exists vs, sorted_values kvs = Some vs) <-> (exists ss, str_keys kvs ss /\ NoDup ss).
Proof.
  split.
  - intros [vs H]. rewrite sorted_values_unfold in H.
    destruct (all_some (map sv_entry kvs)) as [l|] eqn:El; [|discriminate H].
    destruct (str_nodupb (map fst l)) eqn:En; [|discriminate H].
    exists (map fst l). split; [|apply str_nodupb_NoDup; exact En].
    unfold str_keys. clear H En. revert l El. induction kvs as [|[k v] r IH]; intros l El; cbn [map all_some] in El.
    + injection El as <-. reflexivity.
    + cbn [sv_entry] in El. destruct (key_sort_text k) as [s|] eqn:Ek; [|discriminate El].
      destruct (all_some (map sv_entry r)) as [l0|]; [|discriminate El]. injection El as <-.
      cbn [map fst]. rewrite Ek, (IH l0 eq_refl). reflexivity.
  - intros (ss & Hk & Hnd). exact (sorted_values_defined kvs ss Hk Hnd).
Qed.

(** the hypothesis in the form "every key has a printed form": strings,
    unnamed integers and booleans, the nil interface *)
Lemma str_keys_intro kvs :
  Forall (fun kv => key_sort_text (fst kv) <> None) kvs ->
  exists ss, str_keys kvs ss.
Proof.
  unfold str_keys. induction 1 as [|[k v] r Hk _ (ss & IH)]; [exists []; reflexivity|].
  cbn [fst] in Hk. destruct (key_sort_text k) as [s|] eqn:Ek; [|contradiction Hk; reflexivity].
  exists (s :: ss). cbn [map fst]. rewrite Ek, IH. reflexivity.
Qed.

(** ... and in the form "all keys are strings" *)
Lemma str_keys_intro_strings kvs :
  Forall (fun kv => exists n s, fst kv = VStr n s) kvs ->
  exists ss, str_keys kvs ss.
Proof.
  intros H. apply str_keys_intro. apply (Forall_impl _ (P := fun kv => exists n s, fst kv = VStr n s)); [|exact H].
  intros kv (n & s & E). rewrite E. discriminate.
Qed.

(** two keys that print alike — Go maps cannot hold two equal keys of one
    type, but a map[any]V can hold a string and a named string with equal
    contents, or the number 1 and the string "1": Go orders those by the name
    of the type; the model, which does not carry type names, declines *)
Example sorted_values_needs_distinct :
  let kvs := [ (VStr false (bs "k"), VInt KInt false 1); (VStr true (bs "k"), VInt KInt false 2) ] in
  sorted_values kvs = None /\ sorted_values (rev kvs) = None.
Proof. vm_compute. split; reflexivity. Qed.

Example sorted_values_declines_alike :
  sorted_values [ (VInt KInt false 1, VStr false (bs "x")); (VStr false (bs "1"), VStr false (bs "y")) ] = None.
Proof. vm_compute. reflexivity. Qed.

(** keys of several kinds in one map[any]V: both iteration orders give the
    values in the order of the printed keys, "" < "10" < "9" < "b" < "true" *)
Example sorted_values_mixed_keys :
  let kvs := [ (VInt KInt false 10, VStr false (bs "ten"));
               (VStr false (bs "b"), VStr false (bs "bee"));
               (VBool false true, VStr false (bs "yes"));
               (VInt KInt false 9, VStr false (bs "nine"));
               (VNil, VStr false (bs "nil")) ] in
  let sorted := [ VStr false (bs "nil"); VStr false (bs "ten"); VStr false (bs "nine");
                  VStr false (bs "bee"); VStr false (bs "yes") ] in
  sorted_values kvs = Some sorted /\ sorted_values (rev kvs) = Some sorted /\
  map (fun kv => key_sort_text (fst kv)) kvs =
    [ Some (bs "10"); Some (bs "b"); Some (bs "true"); Some (bs "9"); Some (bs "") ] /\
  (str_ltb (bs "") (bs "10") && str_ltb (bs "10") (bs "9") && str_ltb (bs "9") (bs "b") && str_ltb (bs "b") (bs "true"))%bool = true.
Proof. vm_compute. repeat split; reflexivity. Qed.

(* ------------------------------------------------------------------ *)
(** * A4. removeKeysBy: the output is the input filtered, in the input's
    order; the input is not touched (the Go code copies the map first) *)

(** an entry survives: its key does not convert to a string, or [keep] says so *)
Definition rk_survives (keep : str -> option bool) (kv : gv * gv) : bool :=
  match key_string (fst kv) with
  | None => true
  | Some s => match keep s with Some true => true | _ => false end
  end.

(** [keep] answers on this entry (no regexp-oracle miss) *)
Definition rk_answered (keep : str -> option bool) (kv : gv * gv) : bool :=
  match key_string (fst kv) with
  | None => true
  | Some s => match keep s with Some _ => true | None => false end
  end.

Definition rk_step (keep : str -> option bool) (acc : option (list (gv * gv))) (kv : gv * gv) :=
  match acc with
  | None => None
  | Some l =>
    match key_string (fst kv) with
    | None => Some (l ++ [kv])
    | Some ks => match keep ks with
                 | None => None
                 | Some true => Some (l ++ [kv])
                 | Some false => Some l
                 end
    end
  end.

Lemma remove_keys_unfold keep kt vt n kvs :
  remove_keys keep (VMap kt vt n kvs) =
  match fold_left (rk_step keep) kvs (Some []) with
  | Some l => Ok (VMap kt vt false l)
  | None => Declined "regexp oracle miss"
  end.
Proof. reflexivity. Qed.

Lemma rk_fold_none keep kvs : fold_left (rk_step keep) kvs None = None.
Proof. induction kvs as [|kv r IH]; [reflexivity | exact IH]. Qed.

Lemma rk_fold keep kvs acc :
  fold_left (rk_step keep) kvs (Some acc) =
  if forallb (rk_answered keep) kvs then Some (acc ++ filter (rk_survives keep) kvs) else None.
Proof.
  revert acc. induction kvs as [|kv r IH]; intros acc; cbn [fold_left forallb filter].
  - rewrite app_nil_r. reflexivity.
  - unfold rk_step at 2, rk_answered at 1, rk_survives at 1.
    destruct (key_string (fst kv)) as [s|].
    + destruct (keep s) as [[|]|]; cbn [andb].
      * rewrite IH, <- app_assoc. reflexivity.
      * rewrite IH. reflexivity.
      * apply rk_fold_none.
    + cbn [andb]. rewrite IH, <- app_assoc. reflexivity.
Qed.

(** the general form: any [keep], oracle misses included *)
Theorem remove_keys_spec_gen : forall keep kt vt n kvs,
  remove_keys keep (VMap kt vt n kvs) =
  if forallb (rk_answered keep) kvs
  then Ok (VMap kt vt false (filter (rk_survives keep) kvs))
  else Declined "regexp oracle miss".
Proof.
  intros keep kt vt n kvs. rewrite remove_keys_unfold, rk_fold.
  destruct (forallb (rk_answered keep) kvs); reflexivity.
Qed.

(** [keep] total (the Prefix and Suffix variants always; the Regex variant
    when the oracle answers) *)
Theorem remove_keys_spec : forall (keepb : str -> bool) keep kt vt n kvs,
  (forall s, keep s = Some (keepb s)) ->
  remove_keys keep (VMap kt vt n kvs) =
  Ok (VMap kt vt false
        (filter (fun kv => match key_string (fst kv) with None => true | Some s => keepb s end) kvs)).
Proof.
  intros keepb keep kt vt n kvs Hk. rewrite remove_keys_spec_gen.
  assert (Ha : forallb (rk_answered keep) kvs = true).
  { apply forallb_forall. intros kv _. unfold rk_answered.
    destruct (key_string (fst kv)) as [s|]; [rewrite Hk|]; reflexivity. }
  rewrite Ha. f_equal. f_equal. apply filter_ext. intros kv. unfold rk_survives.
  destruct (key_string (fst kv)) as [s|]; [rewrite Hk; destruct (keepb s)|]; reflexivity.
Qed.

Lemma Permutation_filter {A} (p : A -> bool) l l' :
  Permutation l l' -> Permutation (filter p l) (filter p l').
Proof.
  induction 1 as [|x l l' Hp IH|x y l|l l' l'' Hp1 IH1 Hp2 IH2]; cbn [filter].
  - apply perm_nil.
  - destruct (p x); [apply perm_skip|]; exact IH.
  - destruct (p x), (p y); try apply Permutation_refl. apply perm_swap.
  - exact (perm_trans IH1 IH2).
Qed.

Lemma forallb_perm {A} (p : A -> bool) l l' : Permutation l l' -> forallb p l = forallb p l'.
Proof.
  induction 1 as [|x l l' Hp IH|x y l|l l' l'' Hp1 IH1 Hp2 IH2]; cbn [forallb].
  - reflexivity.
  - rewrite IH; reflexivity.
  - destruct (p x), (p y); reflexivity.
  - rewrite IH1; exact IH2.
Qed.

(** outcomes equal up to the order of a map's entries *)
Definition same_up_to_map_order (a b : outcome gv) : Prop :=
  match a, b with
  | Ok (VMap kt vt n l), Ok (VMap kt' vt' n' l') => kt = kt' /\ vt = vt' /\ n = n' /\ Permutation l l'
  | _, _ => a = b
  end.

Theorem remove_keys_perm : forall keep kt vt n kvs kvs',
  Permutation kvs kvs' ->
  same_up_to_map_order (remove_keys keep (VMap kt vt n kvs)) (remove_keys keep (VMap kt vt n kvs')).
Proof.
  intros keep kt vt n kvs kvs' Hp. rewrite !remove_keys_spec_gen.
  rewrite <- (forallb_perm (rk_answered keep) kvs kvs' Hp).
  destruct (forallb (rk_answered keep) kvs); cbn [same_up_to_map_order]; [|reflexivity].
  repeat split; try reflexivity. apply Permutation_filter. exact Hp.
Qed.

(** the same, for a total [keep], in the explicit form *)
Corollary remove_keys_perm_total : forall (keepb : str -> bool) keep kt vt n kvs kvs',
  (forall s, keep s = Some (keepb s)) -> Permutation kvs kvs' ->
  exists out out',
    remove_keys keep (VMap kt vt n kvs) = Ok (VMap kt vt false out) /\
    remove_keys keep (VMap kt vt n kvs') = Ok (VMap kt vt false out') /\
    Permutation out out'.
Proof.
  intros keepb keep kt vt n kvs kvs' Hk Hp.
  eexists; eexists. split; [apply (remove_keys_spec keepb keep); exact Hk|].
  split; [apply (remove_keys_spec keepb keep); exact Hk|].
  apply Permutation_filter. exact Hp.
Qed.

(* ------------------------------------------------------------------ *)
(** * B. func_decimalSlice cannot write into the caller's backing array *)
Local Open Scope nat_scope.

Lemma upd_same st a l : upd st a l a = l.
Proof. unfold upd. rewrite Nat.eqb_refl. reflexivity. Qed.

Lemma upd_other st a l b : b <> a -> upd st a l b = st b.
Proof. intros H. unfold upd. destruct (Nat.eqb_spec b a) as [E|_]; [destruct (H E) | reflexivity]. Qed.

Lemma write_at_nil l i : write_at l i [] = l.
Proof. unfold write_at. cbn [length app]. rewrite Nat.add_0_r. apply firstn_skipn. Qed.

Lemma firstn_len_app {A} (l1 l2 : list A) : firstn (length l1) (l1 ++ l2) = l1.
Proof. rewrite firstn_app, firstn_all, Nat.sub_diag. cbn [firstn]. apply app_nil_r. Qed.

(** a read depends only on the slice's own backing array *)
Lemma read_frame st st' s : st' (s_arr s) = st (s_arr s) -> read st' s = read st s.
Proof. intros H. unfold read. rewrite H. reflexivity. Qed.

(** append onto a capacity-0 slice: nothing is written anywhere unless it
    allocates, and then only the fresh array is *)
Lemma append_empty_frame st zb xs fresh extra a :
  a <> fresh -> fst (go_append st (empty_slice zb) xs fresh extra) a = st a.
Proof.
  intros Ha. unfold go_append, empty_slice. cbn [s_len s_cap s_arr s_off Nat.add].
  destruct xs as [|x xs]; cbn [length Nat.leb fst].
  - rewrite write_at_nil. unfold upd. destruct (Nat.eqb_spec a zb) as [->|_]; reflexivity.
  - apply upd_other; exact Ha.
Qed.

(** what the copy reads as, and the two shapes its header can take *)
Lemma append_empty_result st zb xs fresh extra :
  let r := go_append st (empty_slice zb) xs fresh extra in
  (xs = [] /\ snd r = empty_slice zb) \/
  (xs <> [] /\ snd r = mkSlice fresh 0 (length xs) (length xs + extra) /\
   fst r fresh = xs ++ repeat 0%Z extra).
Proof.
  unfold go_append, empty_slice. cbn [s_len s_cap s_arr s_off Nat.add].
  destruct xs as [|x xs]; cbn [length Nat.leb fst snd].
  - left. split; reflexivity.
  - right. split; [discriminate|]. split; [reflexivity|].
    rewrite upd_same. unfold read. cbn [s_len firstn app]. reflexivity.
Qed.

(** Frame: the whole computation leaves every array other than the two fresh
    ones exactly as it was *)
Theorem current_store_frame : forall st zb v ps fresh1 extra1 fresh2 extra2 a,
  a <> fresh1 -> a <> fresh2 ->
  fst (decimal_slice_current st zb v ps fresh1 extra1 fresh2 extra2) a = st a.
Proof.
  intros st zb v ps fresh1 extra1 fresh2 extra2 a Ha1 Ha2.
  unfold decimal_slice_current.
  pose proof (append_empty_frame st zb (read st v) fresh1 extra1 a Ha1) as Hf1.
  pose proof (append_empty_result st zb (read st v) fresh1 extra1) as Hr. cbv zeta in Hr.
  destruct (go_append st (empty_slice zb) (read st v) fresh1 extra1) as [st1 n].
  cbn [fst snd] in Hf1, Hr.
  destruct Hr as [[_ Hn]|[_ [Hn _]]]; subst n.
  - rewrite <- Hf1. apply append_empty_frame; exact Ha2.
  - rewrite <- Hf1. unfold go_append. cbn [s_len s_cap s_arr s_off].
    destruct (Nat.leb _ _); cbn [fst]; apply upd_other; assumption.
Qed.

(** The result reads as the caller's elements followed by the parameters *)
Theorem current_result : forall st zb v ps fresh1 extra1 fresh2 extra2,
  let r := decimal_slice_current st zb v ps fresh1 extra1 fresh2 extra2 in
  read (fst r) (snd r) = read st v ++ ps.
Proof.
  intros st zb v ps fresh1 extra1 fresh2 extra2. cbv zeta.
  unfold decimal_slice_current.
  pose proof (append_empty_result st zb (read st v) fresh1 extra1) as Hr. cbv zeta in Hr.
  destruct (go_append st (empty_slice zb) (read st v) fresh1 extra1) as [st1 n].
  cbn [fst snd] in Hr.
  destruct Hr as [[He Hn]|[_ [Hn Hc]]]; subst n.
  - (* nothing to copy: the second append starts from the empty slice *)
    rewrite He. cbn [app].
    unfold go_append, empty_slice. cbn [s_len s_cap s_arr s_off Nat.add].
    destruct ps as [|p ps]; cbn [length Nat.leb fst snd].
    + reflexivity.
    + unfold read at 1. cbn [s_len s_off s_arr skipn]. rewrite upd_same.
      unfold read. cbn [s_len firstn app].
      f_equal. apply firstn_len_app.
  - set (rv := read st v) in *.
    unfold go_append. cbn [s_len s_cap s_arr s_off Nat.add].
    destruct (Nat.leb_spec (length rv + length ps) (length rv + extra1)) as [Hfit|Hgrow]; cbn [fst snd].
    + (* the parameters fit into the copy's spare capacity: written in place,
         into the fresh array *)
      unfold read. cbn [s_len s_off s_arr skipn]. rewrite upd_same, Hc.
      unfold write_at.
      rewrite firstn_len_app.
      rewrite app_assoc, <- app_length. apply firstn_len_app.
    + unfold read at 1. cbn [s_len s_off s_arr skipn]. rewrite upd_same.
      unfold read. cbn [s_len s_off s_arr skipn]. rewrite Hc.
      rewrite firstn_len_app.
      rewrite app_assoc, <- app_length. apply firstn_len_app.
Qed.

(** B1.  [v] is the slice handed to the function, [w] ANY other slice header
    the caller holds — no relation between the two is assumed: [w] may share
    [v]'s array, overlap it, or extend past [v]'s length into its spare
    capacity.  The only side condition is that the allocator's ids are not
    the ids of arrays the caller's slices live in. *)
Theorem current_is_pure : forall st zb v w ps fresh1 extra1 fresh2 extra2,
  s_arr v <> fresh1 -> s_arr v <> fresh2 ->
  s_arr w <> fresh1 -> s_arr w <> fresh2 ->
  let r := decimal_slice_current st zb v ps fresh1 extra1 fresh2 extra2 in
  read (fst r) w = read st w /\
  read (fst r) v = read st v /\
  read (fst r) (snd r) = read st v ++ ps.
Proof.
  intros st zb v w ps fresh1 extra1 fresh2 extra2 Hv1 Hv2 Hw1 Hw2. cbv zeta.
  split; [|split].
  - apply read_frame. apply current_store_frame; assumption.
  - apply read_frame. apply current_store_frame; assumption.
  - apply current_result.
Qed.

(** ... for any number of caller slices at once *)
Corollary current_is_pure_all : forall st zb v (ws : list slice) ps fresh1 extra1 fresh2 extra2,
  Forall (fun s => s_arr s <> fresh1 /\ s_arr s <> fresh2) (v :: ws) ->
  let r := decimal_slice_current st zb v ps fresh1 extra1 fresh2 extra2 in
  Forall (fun s => read (fst r) s = read st s) (v :: ws) /\
  read (fst r) (snd r) = read st v ++ ps.
Proof.
  intros st zb v ws ps fresh1 extra1 fresh2 extra2 H. cbv zeta. split; [|apply current_result].
  apply Forall_forall. intros s Hs. destruct (proj1 (Forall_forall _ _) H s Hs) as [H1 H2].
  apply read_frame. apply current_store_frame; assumption.
Qed.

(** ... and so is a second evaluation on the same data: same elements in,
    same elements out *)
Corollary current_repeatable : forall st zb v ps f1 e1 f2 e2 zb' f1' e1' f2' e2',
  s_arr v <> f1 -> s_arr v <> f2 ->
  let r := decimal_slice_current st zb v ps f1 e1 f2 e2 in
  let r' := decimal_slice_current (fst r) zb' v ps f1' e1' f2' e2' in
  read (fst r') (snd r') = read (fst r) (snd r).
Proof.
  intros st zb v ps f1 e1 f2 e2 zb' f1' e1' f2' e2' H1 H2. cbv zeta.
  rewrite !current_result. f_equal.
  apply read_frame. apply current_store_frame; assumption.
Qed.

(** B2.  Appending straight onto the caller's slice writes into its spare
    capacity: full = [1;2;3;4], v = full[:2], w = full[:4]; Sum(9) on v. *)
Definition alias_store : store := fun a => if Nat.eqb a 0 then [1; 2; 3; 4]%Z else [].
Definition alias_v : slice := mkSlice 0 0 2 4.
Definition alias_w : slice := mkSlice 0 0 4 4.

Example aliasing_refuted :
  slice_ok alias_store alias_v /\ slice_ok alias_store alias_w /\
  s_arr alias_v <> 1 /\ s_arr alias_w <> 1 /\
  read alias_store alias_w = [1; 2; 3; 4]%Z /\
  read (fst (decimal_slice_aliasing alias_store alias_v [9%Z] 1 0)) alias_w = [1; 2; 9; 4]%Z /\
  read (fst (decimal_slice_aliasing alias_store alias_v [9%Z] 1 0)) alias_w <> read alias_store alias_w.
Proof.
  repeat split; try (vm_compute; lia); try (vm_compute; reflexivity); try discriminate.
Qed.

(** the current code on the same input leaves [w] alone (an instance of B1) *)
Example aliasing_fixed :
  read (fst (decimal_slice_current alias_store 7 alias_v [9%Z] 1 0 2 0)) alias_w = read alias_store alias_w /\
  read (fst (decimal_slice_current alias_store 7 alias_v [9%Z] 1 0 2 0))
       (snd (decimal_slice_current alias_store 7 alias_v [9%Z] 1 0 2 0)) = [1; 2; 9]%Z.
Proof. split; vm_compute; reflexivity. Qed.
Local Close Scope nat_scope.

(** The bug in general, not only on the example: whenever the parameters fit
    into the caller's spare capacity, the aliasing variant stores them in the
    caller's own array, right after the caller's elements — where any longer
    slice of the caller sees them. *)
Theorem aliasing_writes_callers_array : forall st v ps fresh extra,
  (s_len v + length ps <= s_cap v)%nat ->
  (s_off v + s_cap v <= length (st (s_arr v)))%nat ->
  let r := decimal_slice_aliasing st v ps fresh extra in
  s_arr (snd r) = s_arr v /\
  read (fst r) (mkSlice (s_arr v) (s_off v) (s_len v + length ps) (s_cap v)) = read st v ++ ps.
Proof.
  intros st v ps fresh extra Hfit Hok. cbv zeta.
  unfold decimal_slice_aliasing, go_append.
  destruct (Nat.leb_spec (s_len v + length ps) (s_cap v)) as [_|Hc]; [|lia].
  cbn [fst snd s_arr]. split; [reflexivity|].
  unfold read. cbn [s_arr s_off s_len]. rewrite upd_same. unfold write_at.
  set (arr := st (s_arr v)) in *.
  rewrite skipn_app, (firstn_length_le arr (n := s_off v + s_len v)) by lia.
  replace (s_off v - (s_off v + s_len v))%nat with 0%nat by lia. cbn [skipn].
  rewrite <- firstn_skipn_comm.
  assert (Hl : length (firstn (s_len v) (skipn (s_off v) arr)) = s_len v).
  { rewrite firstn_length, skipn_length. lia. }
  rewrite app_assoc.
  replace (s_len v + length ps)%nat with (length (firstn (s_len v) (skipn (s_off v) arr) ++ ps))
    by (rewrite app_length, Hl; reflexivity).
  apply firstn_len_app.
Qed.

(* ------------------------------------------------------------------ *)
(** * C. History independence, as far as a pure model can state it: the
    i-th result of a sequence of evaluations is the result of the i-th call
    alone, whatever the other calls were and however often they were made *)
Theorem C11_results_are_per_call : forall uni eng (cs : list (top * gv)) i c,
  nth_error cs i = Some c ->
  nth_error (map (fun c => do_top uni eng (fst c) (snd c)) cs) i = Some (do_top uni eng (fst c) (snd c)).
Proof. intros uni eng cs i c H. exact (map_nth_error (fun c => do_top uni eng (fst c) (snd c)) i cs H). Qed.

(** running the calls in another order yields the same results in that order *)
Theorem C11_results_follow_the_order : forall uni eng (cs cs' : list (top * gv)),
  Permutation cs cs' ->
  Permutation (map (fun c => do_top uni eng (fst c) (snd c)) cs)
              (map (fun c => do_top uni eng (fst c) (snd c)) cs').
Proof. intros uni eng cs cs' H. apply Permutation_map. exact H. Qed.

(** the same call any number of times: the same result every time *)
Theorem C11_repeat : forall uni eng t data n,
  map (fun c => do_top uni eng (fst c) (snd c)) (repeat (t, data) n) = repeat (do_top uni eng t data) n.
Proof. intros uni eng t data n. induction n as [|n IH]; cbn [repeat map fst snd]; [reflexivity|]. rewrite IH. reflexivity. Qed.

(* ------------------------------------------------------------------ *)
Print Assumptions fold_distinct_keys_positions.
Print Assumptions map_lookup_perm.
Print Assumptions map_lookup_perm_positions.
Print Assumptions do_ident_perm.
Print Assumptions fold_distinct_keys_perm.
Print Assumptions collision_order_dependent_refuted.
Print Assumptions collision_not_fold_distinct.
Print Assumptions str_ltb_irrefl.
Print Assumptions str_ltb_trans.
Print Assumptions str_ltb_total.
Print Assumptions insertion_sort_perm.
Print Assumptions sorted_values_perm.
Print Assumptions sorted_values_defined.
Print Assumptions sorted_values_defined_iff.
Print Assumptions str_keys_intro.
Print Assumptions sorted_values_needs_distinct.
Print Assumptions sorted_values_declines_alike.
Print Assumptions sorted_values_mixed_keys.
Print Assumptions remove_keys_spec_gen.
Print Assumptions remove_keys_spec.
Print Assumptions remove_keys_perm.
Print Assumptions remove_keys_perm_total.
Print Assumptions current_store_frame.
Print Assumptions current_result.
Print Assumptions current_is_pure.
Print Assumptions current_is_pure_all.
Print Assumptions current_repeatable.
Print Assumptions aliasing_refuted.
Print Assumptions aliasing_fixed.
Print Assumptions aliasing_writes_callers_array.
Print Assumptions C11_results_are_per_call.
Print Assumptions C11_results_follow_the_order.
Print Assumptions C11_repeat.
