(* Proofs/C10.v — C10: the result of a query depends only on the logical
   content of the data, not on its Go representation.

   Parts: C10a (decimals by value), C10b (the relation, the primitives),
   C10c (the functions), C10d (the evaluator), this file (the carrier-free
   abstraction, the class of supported documents, the theorems, and the
   carrier-dependences found in the model, each as a [_refuted] example). *)
From Mpath.Model Require Import Base Dec Types GoVal Ast Lexer Parser Funcs Eval.
From Mpath.Generated Require Import FuncTable.
From Mpath.Spec Require Import Json.
From Mpath.Proofs Require Import DecQ C01 C10a C10b C10c C10d.

Section Mode.
Variables st pt : bool.

Notation R := (R st).
Notation Rv := (Rv st pt).
Notation Rf := (Rf st).
Notation Rflds := (Rflds st).
Notation objv := (objv st).
Notation fcv := (fcv st).

(** * Forgetting the carrier.  Keys are case-folded when structs are admitted
    ([st]); numbers are compared by value; a pointer is transparent. *)
Definition kx (s : str) : str := if st then str_lower s else s.

Fixpoint absx (g : gv) : jv :=
  match g with
  | VNil => JNull
  | VBool _ b => JBool b
  | VInt _ _ z => JNum (dnorm (mkDec z 0))
  | VFloat _ _ (FFin d) => JNum (dnorm d)
  | VDec d => JNum (dnorm d)
  | VStr _ s => JStr s
  | VPtr (Some x) => absx x
  | VSlice _ _ xs => JArr (map absx xs)
  | VArray _ xs => JArr (map absx xs)
  | VMap _ _ _ kvs =>
      JObj ((fix go (l : list (gv * gv)) : list (str * jv) :=
               match l with
               | [] => []
               | (VStr _ s, v) :: r => (kx s, absx v) :: go r
               | _ :: r => go r
               end) kvs)
  | VStruct fs =>
      JObj ((fix go (l : list (str * bool * bool * gv)) : list (str * jv) :=
               match l with
               | [] => []
               | (n, e, _, v) :: r => if e then (kx n, absx v) :: go r else go r
               end) fs)
  | _ => JNull
  end.

Fixpoint akvs (l : list (gv * gv)) : list (str * jv) :=
  match l with
  | [] => []
  | (VStr _ s, v) :: r => (kx s, absx v) :: akvs r
  | _ :: r => akvs r
  end.

Fixpoint aflds (l : list (str * bool * bool * gv)) : list (str * jv) :=
  match l with
  | [] => []
  | (n, e, _, v) :: r => if e then (kx n, absx v) :: aflds r else aflds r
  end.

Definition absf (fs : list (str * gv)) : list (str * jv) := map (fun kv => (kx (fst kv), absx (snd kv))) fs.

Lemma absx_map kt vt n kvs : absx (VMap kt vt n kvs) = JObj (akvs kvs).
Proof. reflexivity. Qed.
Lemma absx_struct fs : absx (VStruct fs) = JObj (aflds fs).
Proof. reflexivity. Qed.

Lemma akvs_mfields kvs fs : mfields kvs = Some fs -> akvs kvs = absf fs.
Proof.
  revert fs. induction kvs as [|[k v] r IH]; intros fs H; cbn [mfields] in H.
  - injection H as <-. reflexivity.
  - destruct (mkey k) as [s|] eqn:Ek; [|discriminate]. destruct (mfields r) as [l|]; [|discriminate].
    injection H as <-. cbn [absf map fst snd]. fold (absf l). rewrite <- (IH l eq_refl).
    destruct k as [| | | |nm s0| | | | | | | |]; try discriminate Ek. cbn [akvs].
    destruct nm; cbn in Ek.
    + destruct s0; [discriminate|]. injection Ek as <-. reflexivity.
    + injection Ek as <-. reflexivity.
Qed.

Lemma aflds_sfields fs : aflds fs = absf (sfields fs).
Proof.
  induction fs as [|[[[n e] i] v] r IH]; [reflexivity|].
  cbn [aflds sfields]. destruct e; [|exact IH]. cbn [absf map fst snd]. fold (absf (sfields r)). rewrite IH. reflexivity.
Qed.

Lemma absx_objv v n fs : objv v = Some (n, fs) -> absx v = JObj (absf fs).
Proof.
  destruct v as [| | | | | | | | |kt vt m kvs|fs0| |]; try discriminate; cbn [C10b.objv].
  - destruct (mfields kvs) as [l|] eqn:El; [|discriminate]. cbn [option_map]. intros H; injection H as _ <-.
    rewrite absx_map, (akvs_mfields kvs l El). reflexivity.
  - destruct (st && existsb nzw fs0); [|discriminate]. intros H; injection H as _ <-.
    rewrite absx_struct, aflds_sfields. reflexivity.
Qed.

Lemma absx_numv v d : numv v = Some d -> absx v = JNum (dnorm d).
Proof.
  destruct v as [| | | i nm f | | | | | | | | |]; try discriminate; cbn [numv].
  - intros H; injection H as <-; reflexivity.
  - destruct f; try discriminate. intros H; injection H as <-; reflexivity.
  - intros H; injection H as <-; reflexivity.
Qed.

Lemma absx_elems v t xs : elems_of v = Some (t, xs) -> absx v = JArr (map absx xs).
Proof. destruct v; try discriminate; cbn [elems_of]; intros H; injection H as _ <-; reflexivity. Qed.

(** number conversion of a stored field does not change its abstraction *)
Lemma absx_cnv a : nn a -> absx (cnv a) = absx a.
Proof.
  destruct a as [| | | i nm f | nm s | | | | | | | |]; try reflexivity; intros H.
  - destruct f; reflexivity.
  - cbn in H. cbn [cnv]. rewrite H. reflexivity.
Qed.

Lemma absx_cus a : nn a -> is_ptr (convert_unless_string a) = false -> absx (convert_unless_string a) = absx a.
Proof.
  intros Hn Hp. destruct (is_ptr a) eqn:Ea.
  - destruct a as [| | | | | |o| | | | | |]; try discriminate Ea.
    unfold convert_unless_string in *. cbn [is_go_string] in *.
    destruct o as [x|]; [|discriminate Hp].
    destruct x as [| | | i nm f | nm s | | | | | | | |]; try discriminate Hp; try reflexivity.
    + destruct f; try discriminate Hp; reflexivity.
    + exfalso. cbn in Hn. unfold convert_number, convert_number_check in Hp. cbn in Hp. rewrite Hn in Hp. discriminate Hp.
  - destruct (cus_cases a) as [E|E]; rewrite E; [reflexivity|].
    rewrite (convert_number_cnv a Ea). apply absx_cnv. exact Hn.
Qed.

(** * Related values have the same abstraction *)
Lemma kx_keq a b : keq st a b -> kx a = kx b.
Proof. unfold keq, kx. destruct st; intros H; [exact H | exact H]. Qed.

Lemma absf_aux fs1 fs2 :
  Forall2 (fun a b : str * gv => keq st (fst a) (fst b) /\
             (absx (fcv (snd a)) = absx (fcv (snd b)) /\
              (is_ptr (fcv (snd a)) = false /\ is_ptr (fcv (snd b)) = false) /\
              (st = true -> nn (snd a) /\ nn (snd b)))) fs1 fs2 ->
  absf fs1 = absf fs2.
Proof.
  induction 1 as [|[k1 x1] [k2 x2] r1 r2 [Hk [Hax [[P1 P2] Hnn]]] Hr IHr]; [reflexivity|].
  cbn [absf map fst snd] in *. fold (absf r1). fold (absf r2). rewrite IHr. f_equal.
  rewrite (kx_keq k1 k2 Hk). f_equal.
  unfold C10b.fcv in Hax, P1, P2. destruct st.
  - destruct (Hnn eq_refl) as [N1 N2].
    rewrite (absx_cus x1 N1 P1), (absx_cus x2 N2 P2) in Hax. exact Hax.
  - exact Hax.
Qed.

Theorem R_abs : forall a b, R a b -> absx a = absx b.
Proof.
  fix IH 3. intros a b H.
  destruct H as [|b0|s|v1 v2 d1 d2 H1 H2 Hd He|v1 v2 t1 t2 xs1 xs2 H1 H2 Hn A1 A2 T1 T2 Hxs|v1 v2 n fs1 fs2 H1 H2 Hf].
  - reflexivity.
  - reflexivity.
  - reflexivity.
  - rewrite (absx_numv v1 d1 H1), (absx_numv v2 d2 H2), (dnorm_unique d1 d2 Hd). reflexivity.
  - rewrite (absx_elems v1 t1 xs1 H1), (absx_elems v2 t2 xs2 H2). f_equal. clear H1 H2 T1 T2.
    induction Hxs as [|x y r1 r2 Hxy Hr IHr]; [reflexivity|]. cbn [map]. f_equal; [exact (IH x y Hxy) | exact IHr].
  - rewrite (absx_objv v1 n fs1 H1), (absx_objv v2 n fs2 H2). f_equal. clear H1 H2.
    apply absf_aux.
    induction Hf as [|x y r1 r2 Hab Hr IHr]; [constructor|].
    destruct Hab as [Hk [Hx Hnn]].
    constructor; [|exact IHr].
    split; [exact Hk|].
    split; [exact (IH _ _ Hx)|].
    split; [exact (R_not_ptr st _ _ Hx) | exact Hnn].
Qed.

Theorem Rv_abs a b : Rv a b -> absx a = absx b.
Proof.
  intros [H [Pa Pb]]. apply R_abs in H.
  assert (Ta : absx (tgt a) = absx a).
  { destruct a as [| | | | | |o| | | | | |]; try reflexivity. destruct o; [reflexivity | destruct Pa]. }
  assert (Tb : absx (tgt b) = absx b).
  { destruct b as [| | | | | |o| | | | | |]; try reflexivity. destruct o; [reflexivity | destruct Pb]. }
  rewrite <- Ta, <- Tb. exact H.
Qed.


(** * The supported documents (a unary class; the relation [R] of C10b is the
    general, binary statement) *)
Definition pnumv (x : gv) : option dec :=
  match x with VInt _ _ z => Some (mkDec z 0) | VFloat _ _ (FFin d) => Some d | _ => None end.
(** a number in a field position: any numeric carrier, a decimal, or a pointer to an int or float *)
Definition fnumv (v : gv) : option dec :=
  match v with VPtr (Some x) => pnumv x | _ => numv v end.

Inductive sup : gv -> Prop :=
| sup_nil : sup VNil
| sup_bool b : sup (VBool false b)
| sup_str s : sup (VStr false s)
| sup_int k nm z : sup (VInt k nm z)
| sup_float i nm d : sup (VFloat i nm (FFin d))
| sup_slice t xs : t <> EDec -> Forall sup xs -> sup (VSlice t false xs)
| sup_array t xs : t <> EDec -> arr_ok (VArray t xs) -> Forall sup xs -> sup (VArray t xs)
| sup_map kt vt kvs :
    Forall (fun kv : gv * gv => mkey (fst kv) <> None /\
              ((sup (snd kv) /\ (st = true -> nn (snd kv))) \/ (st = true /\ fnumv (snd kv) <> None))) kvs ->
    sup (VMap kt vt false kvs)
| sup_struct fs :
    st = true -> existsb nzw fs = true ->
    Forall (fun f : str * bool * bool * gv => snd (fst (fst f)) = true ->
              ((sup (snd f) /\ (st = true -> nn (snd f))) \/ (st = true /\ fnumv (snd f) <> None))) fs ->
    sup (VStruct fs).

Definition supf (v : gv) : Prop :=
  (sup v /\ (st = true -> nn v)) \/ (st = true /\ fnumv v <> None).

(** what the evaluator is handed: a supported value, or (mode [pt]) a pointer
    to a supported non-empty object *)
Definition supported (v : gv) : Prop :=
  sup v \/
  (pt = true /\ exists x, v = VPtr (Some x) /\ sup x /\ is_obj x = true /\
                          match x with VMap _ _ _ [] => False | _ => True end).

(** ** Size, for the induction *)
Fixpoint gsize (g : gv) : nat :=
  match g with
  | VPtr (Some x) => S (gsize x)
  | VSlice _ _ xs => S ((fix go (l : list gv) : nat := match l with [] => O | x :: r => (gsize x + go r)%nat end) xs)
  | VArray _ xs => S ((fix go (l : list gv) : nat := match l with [] => O | x :: r => (gsize x + go r)%nat end) xs)
  | VMap _ _ _ kvs => S ((fix go (l : list (gv * gv)) : nat := match l with [] => O | (_, v) :: r => (gsize v + go r)%nat end) kvs)
  | VStruct fs => S ((fix go (l : list (str * bool * bool * gv)) : nat := match l with [] => O | (_, _, _, v) :: r => (gsize v + go r)%nat end) fs)
  | _ => 1%nat
  end.

Fixpoint lsize (l : list gv) : nat := match l with [] => O | x :: r => (gsize x + lsize r)%nat end.
Fixpoint fsize (l : list (str * gv)) : nat := match l with [] => O | (_, v) :: r => (gsize v + fsize r)%nat end.
Fixpoint ksize (l : list (gv * gv)) : nat := match l with [] => O | (_, v) :: r => (gsize v + ksize r)%nat end.
Fixpoint ssize (l : list (str * bool * bool * gv)) : nat := match l with [] => O | (_, _, _, v) :: r => (gsize v + ssize r)%nat end.

Lemma gsize_slice t n xs : gsize (VSlice t n xs) = S (lsize xs).
Proof. reflexivity. Qed.
Lemma gsize_array t xs : gsize (VArray t xs) = S (lsize xs).
Proof. reflexivity. Qed.
Lemma gsize_map kt vt n kvs : gsize (VMap kt vt n kvs) = S (ksize kvs).
Proof. reflexivity. Qed.
Lemma gsize_struct fs : gsize (VStruct fs) = S (ssize fs).
Proof. reflexivity. Qed.

Lemma gsize_elems v t xs : elems_of v = Some (t, xs) -> gsize v = S (lsize xs).
Proof. destruct v; try discriminate; cbn [elems_of]; intros H; injection H as _ <-; reflexivity. Qed.

Lemma ksize_mfields kvs fs : mfields kvs = Some fs -> ksize kvs = fsize fs.
Proof.
  revert fs. induction kvs as [|[k v] r IH]; intros fs H; cbn [mfields] in H.
  - injection H as <-. reflexivity.
  - destruct (mkey k); [|discriminate]. destruct (mfields r) as [l|]; [|discriminate].
    injection H as <-. cbn. rewrite (IH l eq_refl). reflexivity.
Qed.

Lemma ssize_sfields fs : (fsize (sfields fs) <= ssize fs)%nat.
Proof.
  induction fs as [|[[[n e] i] v] r IH]; [apply le_n|]. cbn [sfields ssize]. destruct e; cbn [fsize]; lia.
Qed.

Lemma gsize_objv v n fs : objv v = Some (n, fs) -> (fsize fs < gsize v)%nat.
Proof.
  destruct v as [| | | | | | | | |kt vt m kvs|fs0| |]; try discriminate; cbn [C10b.objv].
  - destruct (mfields kvs) as [l|] eqn:El; [|discriminate]. cbn [option_map]. intros H; injection H as _ <-.
    rewrite gsize_map, (ksize_mfields kvs l El). lia.
  - destruct (st && existsb nzw fs0); [|discriminate]. intros H; injection H as _ <-.
    rewrite gsize_struct. pose proof (ssize_sfields fs0). lia.
Qed.

(** ** What a supported value looks like, by the head of its abstraction *)
Lemma sup_objv v : sup v -> is_obj v = true -> exists fs, objv v = Some (false, fs) /\ Forall (fun kv => supf (snd kv)) fs.
Proof.
  intros Hs Ho. destruct Hs as [| | | | | | |kt vt kvs Hk|fs Hst Hw Hf]; try discriminate Ho.
  - assert (Hm : exists fs, mfields kvs = Some fs /\ Forall (fun kv => supf (snd kv)) fs).
    { clear Ho. induction Hk as [|[k v] r [Hkey Hv] _ IH]; [exists []; split; [reflexivity | constructor]|].
      destruct IH as [gs [Hm Hg]]. cbn [fst snd] in Hkey, Hv. destruct (mkey k) as [s|] eqn:Ek; [|contradiction Hkey; reflexivity].
      exists ((s, v) :: gs). split; [cbn [mfields]; rewrite Ek, Hm; reflexivity|]. constructor; [exact Hv | exact Hg]. }
    destruct Hm as [gs [Hm Hg]]. exists gs. split; [cbn [C10b.objv]; rewrite Hm; reflexivity | exact Hg].
  - exists (sfields fs). split; [cbn [C10b.objv]; rewrite Hst, Hw; reflexivity|]. clear Hw Ho.
    induction Hf as [|[[[n e] i] v] r Hv _ IH]; [constructor|]. cbn [sfields].
    cbn [fst snd] in Hv. destruct e; [constructor; [apply Hv; reflexivity | exact IH] | exact IH].
Qed.

Lemma sup_not_ptr v : sup v -> is_ptr v = false.
Proof. destruct 1; reflexivity. Qed.

Definition head_ok (v : gv) : Prop :=
  match absx v with
  | JNull => v = VNil
  | JBool b => v = VBool false b
  | JStr s => v = VStr false s
  | JNum _ => exists d, numv v = Some d /\ is_dec v = false
  | JArr _ => exists t xs, elems_of v = Some (t, xs) /\ seq_nil v = false /\ arr_ok v /\ tag_ok t xs /\ Forall sup xs
  | JObj _ => is_obj v = true
  end.

Lemma sup_head v : sup v -> head_ok v.
Proof.
  intros Hs. unfold head_ok.
  destruct Hs as [|b|s|k nm z|i nm d|t xs Ht Hxs|t xs Ht Ha Hxs|kt vt kvs Hk|fs Hst Hw Hf]; cbn [absx].
  - reflexivity.
  - reflexivity.
  - reflexivity.
  - eexists; split; reflexivity.
  - eexists; split; reflexivity.
  - exists t, xs. repeat split; try assumption. intros E; contradiction.
  - exists t, xs. repeat split; try assumption. intros E; contradiction.
  - reflexivity.
  - reflexivity.
Qed.

(** ** Field positions *)
Lemma fcv_true v : st = true -> fcv v = convert_unless_string v.
Proof. intros H. unfold C10b.fcv. rewrite H. reflexivity. Qed.
Lemma fcv_false' v : st = false -> fcv v = v.
Proof. intros H. unfold C10b.fcv. rewrite H. reflexivity. Qed.

Lemma numv_cus v d : numv v = Some d -> convert_unless_string v = VDec d.
Proof.
  intros H. unfold convert_unless_string.
  assert (Hg : is_go_string v = false) by (destruct v; try discriminate H; reflexivity).
  assert (Hp : is_ptr v = false) by (destruct v; try discriminate H; reflexivity).
  rewrite Hg, (convert_number_cnv v Hp). apply numv_cnv. exact H.
Qed.

Lemma fnumv_facts v d : fnumv v = Some d -> convert_unless_string v = VDec d /\ absx v = JNum (dnorm d) /\ nn v.
Proof.
  intros H. destruct (is_ptr v) eqn:Ep.
  - destruct v as [| | | | | |o| | | | | |]; try discriminate Ep. destruct o as [x|]; [|discriminate H].
    cbn [fnumv] in H. destruct x as [| | k nm z | i nm f | | | | | | | | |]; try discriminate H; cbn [pnumv] in H.
    + injection H as <-. repeat split.
    + destruct f; try discriminate H. injection H as <-. repeat split.
  - assert (Hn : numv v = Some d) by (destruct v; try discriminate Ep; exact H).
    split; [apply numv_cus; exact Hn|]. split; [apply absx_numv; exact Hn|].
    destruct v; try discriminate Hn; exact I.
Qed.

Lemma supf_num v x : supf v -> absx v = JNum x -> exists d, fnumv v = Some d.
Proof.
  intros [[Hs _]|[_ Hf]] Ha.
  - pose proof (sup_head v Hs) as Hh. unfold head_ok in Hh. rewrite Ha in Hh. destruct Hh as [d [Hn _]].
    exists d. pose proof (sup_not_ptr v Hs) as Hp. destruct v; try discriminate Hp; exact Hn.
  - destruct (fnumv v) as [d|]; [exists d; reflexivity | contradiction Hf; reflexivity].
Qed.

Lemma kx_keq_conv a b : kx a = kx b -> keq st a b.
Proof. unfold keq, kx. destruct st; intros H; exact H. Qed.

(** ** The bridge: supported values with equal abstractions are related *)
Lemma sup_R_n : forall n v1 v2, (gsize v1 < n)%nat -> sup v1 -> sup v2 -> absx v1 = absx v2 -> R v1 v2.
Proof.
  induction n as [|n IH]; intros v1 v2 Hsz S1 S2 Ha; [inversion Hsz|].
  pose proof (sup_head v1 S1) as H1. pose proof (sup_head v2 S2) as H2. unfold head_ok in H1, H2.
  rewrite Ha in H1. destruct (absx v2) as [|b|d|s|ys|kvs] eqn:E2.
  - subst. constructor.
  - subst. constructor.
  - destruct H1 as [d1 [N1 D1]], H2 as [d2 [N2 D2]].
    apply R_num with (d1 := d1) (d2 := d2); try assumption; [|congruence].
    apply dnorm_eq_iff. rewrite (absx_numv v1 d1 N1) in Ha. rewrite (absx_numv v2 d2 N2) in E2. congruence.
  - subst. constructor.
  - destruct H1 as [t1 [xs1 [El1 [Nl1 [A1 [T1 F1]]]]]], H2 as [t2 [xs2 [El2 [Nl2 [A2 [T2 F2]]]]]].
    eapply R_seq; try eassumption; [congruence|].
    rewrite (absx_elems v1 t1 xs1 El1) in Ha. rewrite (absx_elems v2 t2 xs2 El2) in E2.
    assert (Hm : map absx xs1 = map absx xs2) by congruence.
    rewrite (gsize_elems v1 t1 xs1 El1) in Hsz.
    assert (Hl : (lsize xs1 < n)%nat) by lia. clear -IH Hm F1 F2 Hl.
    revert xs2 F2 Hm. induction F1 as [|x r Hx Hr IHr]; intros xs2 F2 Hm; destruct xs2 as [|y r2]; try discriminate Hm; [constructor|].
    cbn [map] in Hm. injection Hm as Hxy Hrest. inversion F2 as [|y' r2' Hy Hr2]; subst.
    cbn [lsize] in Hl. constructor; [apply IH; [lia | assumption | assumption | exact Hxy] | apply IHr; [lia | assumption | exact Hrest]].
  - destruct (sup_objv v1 S1 H1) as [fs1 [O1 Fs1]], (sup_objv v2 S2 H2) as [fs2 [O2 Fs2]].
    eapply R_obj; try eassumption.
    rewrite (absx_objv v1 false fs1 O1) in Ha. rewrite (absx_objv v2 false fs2 O2) in E2.
    assert (Hm : absf fs1 = absf fs2) by congruence.
    pose proof (gsize_objv v1 false fs1 O1) as Hfs.
    assert (Hl : (fsize fs1 < n)%nat) by lia. clear -IH Hm Fs1 Fs2 Hl.
    revert fs2 Fs2 Hm. induction Fs1 as [|[k1 x1] r Hx Hr IHr]; intros fs2 Fs2 Hm; destruct fs2 as [|[k2 x2] r2]; try discriminate Hm; [constructor|].
    cbn [absf map fst snd] in Hm. injection Hm as Hk Hxy Hrest. inversion Fs2 as [|y' r2' Hy Hr2]; subst.
    cbn [fsize] in Hl. cbn [snd] in Hx, Hy.
    constructor; [|apply IHr; [lia | assumption | exact Hrest]].
    cbn [fst snd]. split; [apply kx_keq_conv; exact Hk|].
    (* the field itself *)
    destruct (absx x2) as [|b|d|s|ys|kvs] eqn:Ex2.
    3:{ destruct (supf_num x1 d Hx Hxy) as [d1 F1], (supf_num x2 d Hy Ex2) as [d2 F2].
        destruct (fnumv_facts x1 d1 F1) as [C1 [A1 N1]], (fnumv_facts x2 d2 F2) as [C2 [A2 N2]].
        assert (Hst : st = true \/ st = false) by (destruct st; [left|right]; reflexivity).
        split; [|intros _; split; assumption].
        destruct Hst as [Hst|Hst].
        - rewrite !(fcv_true _ Hst), C1, C2. apply R_num with (d1 := d1) (d2 := d2); try reflexivity.
          apply dnorm_eq_iff. congruence.
        - rewrite !(fcv_false' _ Hst).
          destruct Hx as [[Sx _]|[Hc _]]; [|congruence]. destruct Hy as [[Sy _]|[Hc _]]; [|congruence].
          apply IH; [lia | assumption | assumption | congruence]. }
    all: assert (Sx : sup x1 /\ (st = true -> nn x1))
           by (destruct Hx as [Hx|[_ Hf]]; [exact Hx|]; exfalso;
               destruct (fnumv x1) as [d1|] eqn:F1; [|contradiction Hf; reflexivity];
               destruct (fnumv_facts x1 d1 F1) as [_ [A1 _]]; congruence).
    all: assert (Sy : sup x2 /\ (st = true -> nn x2))
           by (destruct Hy as [Hy|[_ Hf]]; [exact Hy|]; exfalso;
               destruct (fnumv x2) as [d2|] eqn:F2; [|contradiction Hf; reflexivity];
               destruct (fnumv_facts x2 d2 F2) as [_ [A2 _]]; congruence).
    all: destruct Sx as [Sx Nx], Sy as [Sy Ny].
    all: assert (HR : R x1 x2) by (apply IH; [lia | assumption | assumption | congruence]).
    all: split; [|intros Hst; split; [apply Nx | apply Ny]; exact Hst].
    all: unfold C10b.fcv; destruct st; [apply R_convert_unless_string|]; exact HR.
Qed.

Theorem sup_R v1 v2 : sup v1 -> sup v2 -> absx v1 = absx v2 -> R v1 v2.
Proof. intros S1 S2 Ha. apply (sup_R_n (S (gsize v1))); [apply le_n | assumption | assumption | exact Ha]. Qed.

Lemma absx_ptr x : absx (VPtr (Some x)) = absx x.
Proof. reflexivity. Qed.

Theorem supported_Rv v1 v2 : supported v1 -> supported v2 -> absx v1 = absx v2 -> Rv v1 v2.
Proof.
  intros S1 S2 Ha.
  assert (T : forall v, supported v -> sup (tgt v) /\ absx (tgt v) = absx v /\ pok pt v).
  { intros v [Hs|[Hpt [x [-> [Hs [Ho Hne]]]]]].
    - pose proof (sup_not_ptr v Hs) as Hp. rewrite (tgt_not_ptr v Hp).
      split; [exact Hs|]. split; [reflexivity | apply pok_not_ptr; exact Hp].
    - cbn [tgt]. split; [exact Hs|]. split; [reflexivity|]. cbn [C10b.pok]. split; [exact Hpt|].
      destruct Hs; try discriminate Ho; [|exact I].
      split; [reflexivity|]. destruct kvs; [contradiction Hne | discriminate]. }
  destruct (T v1 S1) as [Q1 [A1 P1]], (T v2 S2) as [Q2 [A2 P2]].
  split; [|split; assumption]. apply sup_R; [assumption | assumption | congruence].
Qed.


(** whatever encoding/json decodes into an [any] is supported, in every mode *)
Lemma json_carrier_nn g : json_carrier g -> nn g.
Proof. destruct 1; try exact I. exact Hs. Qed.

Lemma json_carrier_sup : forall g, json_carrier g -> sup g.
Proof.
  fix IH 2. intros g H. destruct H as [|b|d|s Hs|xs Hxs|kvs Hkvs].
  - constructor.
  - constructor.
  - constructor.
  - constructor.
  - constructor; [discriminate|]. induction Hxs as [|x r Hx Hr IHr]; constructor; [exact (IH x Hx) | exact IHr].
  - constructor. induction Hkvs as [|kv r [Hk Hv] Hr IHr]; constructor; [|exact IHr].
    split.
    + destruct Hk as [k Hk]. rewrite Hk. discriminate.
    + left. split; [exact (IH _ Hv) | intros _; apply json_carrier_nn; exact Hv].
Qed.

Lemma json_carrier_supported g : json_carrier g -> supported g.
Proof. intros H. left. apply json_carrier_sup. exact H. Qed.

(** * The theorems *)
Variable uni : uclass.

(** outcomes agree: same error class, or values with the same abstraction *)
Definition out_rel (o1 o2 : outcome gv) : Prop := orel (fun a b => absx a = absx b) o1 o2.

(** the admitted queries: [frag] (C10d) at every fuel *)
Definition in_fragment (n : node) : Prop := forall fuel, frag st pt uni fuel n = true.

(** the general, relational form *)
Theorem C10_relational : forall eng fuel n c1 c2 o1 o2,
  frag st pt uni fuel n = true -> Rv c1 c2 -> Rv o1 o2 ->
  orel Rv (eval uni eng fuel n c1 o1) (eval uni eng fuel n c2 o2).
Proof. intros eng. apply eval_rel. Qed.

Theorem C10_carrier_independent_fuel : forall eng fuel n cur1 cur2 orig1 orig2,
  frag st pt uni fuel n = true ->
  supported cur1 -> supported cur2 -> supported orig1 -> supported orig2 ->
  absx cur1 = absx cur2 -> absx orig1 = absx orig2 ->
  out_rel (eval uni eng fuel n cur1 orig1) (eval uni eng fuel n cur2 orig2).
Proof.
  intros eng fuel n cur1 cur2 orig1 orig2 Hf S1 S2 S3 S4 Ha Hb. unfold out_rel.
  apply (orel_weaken Rv); [apply Rv_abs|].
  apply eval_rel; [exact Hf | apply supported_Rv; assumption | apply supported_Rv; assumption].
Qed.

Theorem C10_carrier_independent : forall eng fuel n cur1 cur2 orig1 orig2,
  in_fragment n ->
  supported cur1 -> supported cur2 -> supported orig1 -> supported orig2 ->
  absx cur1 = absx cur2 -> absx orig1 = absx orig2 ->
  out_rel (eval uni eng fuel n cur1 orig1) (eval uni eng fuel n cur2 orig2).
Proof. intros eng fuel n c1 c2 o1 o2 Hf. apply C10_carrier_independent_fuel. apply Hf. Qed.

(** one document supplied in two representations *)
Corollary C10_do_top : forall eng t g1 g2,
  frag st pt uni default_fuel (NTop t) = true ->
  supported g1 -> supported g2 -> absx g1 = absx g2 ->
  out_rel (do_top uni eng t g1) (do_top uni eng t g2).
Proof.
  intros eng t g1 g2 Hf S1 S2 Ha. unfold do_top.
  generalize dependent default_fuel. intros fuel Hf.
  exact (C10_carrier_independent_fuel eng fuel (NTop t) g1 g2 g1 g2 Hf S1 S2 S1 S2 Ha Ha).
Qed.

(** in particular: a value is returned for one representation iff it is for
    the other, and ErrKeyNotFound likewise *)
Lemma out_rel_verdict r1 r2 :
  out_rel r1 r2 ->
  (forall v1, r1 = Ok v1 -> exists v2, r2 = Ok v2 /\ absx v1 = absx v2) /\
  (r1 = Err EKeyNotFound -> r2 = Err EKeyNotFound).
Proof.
  unfold out_rel. intros H. split.
  - intros v1 E. subst r1. destruct r2 as [v2|[|t2]|m2| |w2]; try contradiction.
    exists v2. split; [reflexivity | exact H].
  - intros E. subst r1. destruct r2 as [v2|[|t2]|m2| |w2]; try contradiction. reflexivity.
Qed.

Corollary C10_same_verdict : forall eng t g1 g2,
  frag st pt uni default_fuel (NTop t) = true ->
  supported g1 -> supported g2 -> absx g1 = absx g2 ->
  (forall v1, do_top uni eng t g1 = Ok v1 -> exists v2, do_top uni eng t g2 = Ok v2 /\ absx v1 = absx v2) /\
  (do_top uni eng t g1 = Err EKeyNotFound -> do_top uni eng t g2 = Err EKeyNotFound).
Proof.
  intros eng t g1 g2 Hf S1 S2 Ha.
  exact (out_rel_verdict _ _ (C10_do_top eng t g1 g2 Hf S1 S2 Ha)).
Qed.

End Mode.

(** * The two instances of interest *)

(** (A) objects as maps OR structs, keys up to letter case, the document
    possibly handed over by pointer: the functions of [common_funcs]. *)
Definition C10_structs_and_pointers := C10_carrier_independent true true.
(** (B) objects as maps only (any key and value type tags, named-string and
    interface keys), keys exact, no pointer: additionally AsArray, Sum,
    Minimum, Maximum, RemoveKeysBy*, and Select with a literal sub-query. *)
Definition C10_maps_only := C10_carrier_independent false false.

(** * Examples *)
Definition run (q : string) (g : gv) : option (outcome gv) :=
  match parse_string uni_ascii (bs q) with Ok t => Some (do_top uni_ascii no_engines t g) | _ => None end.
Definition qfrag (st pt : bool) (q : string) : bool :=
  match parse_string uni_ascii (bs q) with Ok t => frag st pt uni_ascii default_fuel (NTop t) | _ => false end.
Definition oabs (st : bool) (o : option (outcome gv)) : option (outcome jv) :=
  match o with
  | Some (Ok v) => Some (Ok (absx st v))
  | Some (Err e) => Some (Err (match e with EKeyNotFound => EKeyNotFound | EOther _ => EOther "" end))
  | Some (Panic _) => Some (Panic "")
  | Some OutOfFuel => Some OutOfFuel
  | Some (Declined _) => Some (Declined "")
  | None => None
  end.

Definition K (s : string) : gv := VStr false (bs s).
Definition F (z : Z) : gv := VFloat false false (FFin (mkDec z 0)).
Definition M (kvs : list (gv * gv)) : gv := VMap KtStr EAny false kvs.
Definition A (xs : list gv) : gv := VSlice EAny false xs.
Definition fld (n : string) (v : gv) : str * bool * bool * gv := (bs n, true, false, v).

Ltac sup_go :=
  lazymatch goal with
  | |- sup _ VNil => apply sup_nil
  | |- sup _ (VBool false _) => apply sup_bool
  | |- sup _ (VStr false _) => apply sup_str
  | |- sup _ (VInt _ _ _) => apply sup_int
  | |- sup _ (VFloat _ _ _) => apply sup_float
  | |- sup _ (VSlice _ _ _) => apply sup_slice; sup_go
  | |- sup _ (VArray _ _) => apply sup_array; sup_go
  | |- sup _ (VMap _ _ _ _) => apply sup_map; sup_go
  | |- sup _ (VStruct _) => apply sup_struct; sup_go
  | |- sup _ _ => progress unfold K, F, M, A; sup_go
  | |- Forall _ [] => constructor
  | |- Forall _ (_ :: _) => constructor; cbn [fst snd]; sup_go
  | |- _ /\ _ => split; sup_go
  | |- _ \/ _ => first [solve [left; sup_go] | solve [right; sup_go]]
  | |- false = true -> _ => let H := fresh in intros H; discriminate H
  | |- _ -> _ => intros; sup_go
  | |- _ <> _ => vm_compute; discriminate
  | |- nn _ => first [exact I | vm_compute; reflexivity]
  | |- arr_ok _ => first [exact I | vm_compute; reflexivity]
  | |- True => exact I
  | |- _ = _ => vm_compute; reflexivity
  end.

(** one document, as encoding/json decodes it ... *)
Definition doc_json : gv :=
  M [(K "items", A [M [(K "name", K "bolt"); (K "qty", F 2); (K "tags", A [K "a"; K "b"])];
                    M [(K "name", K "nut"); (K "qty", F 5); (K "tags", A [])]]);
     (K "rate", VFloat false false (FFin (mkDec 15 (-1))));
     (K "ok", VBool false true);
     (K "note", VNil)].

(** ... and as Go structs with typed slices, a named integer type, a decimal
    and an int8, handed over by pointer *)
Definition item (name : string) (qty : Z) (tags : list gv) : gv :=
  VStruct [fld "Name" (K name); fld "Qty" (VInt KInt32 true qty); fld "Tags" (VSlice EStr false tags);
           (bs "cache", false, false, VInt KInt false 7)].
Definition doc_go : gv :=
  VPtr (Some (VStruct [fld "Items" (VSlice ETOther false [item "bolt" 2 [K "a"; K "b"]; item "nut" 5 []]);
                       fld "Rate" (VDec (mkDec 150 (-2)));
                       fld "OK" (VBool false true);
                       (bs "Note", true, true, VNil)])).

Example C10_example_docs :
  supported true true doc_json /\ supported true true doc_go /\ absx true doc_json = absx true doc_go.
Proof.
  split; [left; unfold doc_json; sup_go|].
  split; [|vm_compute; reflexivity].
  right. split; [reflexivity|]. eexists. split; [reflexivity|]. split; [unfold item, fld; sup_go|]. split; [reflexivity | exact I].
Qed.

(** the queries below are in the fragment of mode (A); the two renderings
    give the same answers (computed), as the theorem says they must *)
Definition example_queries : list string :=
  ["$.items[@.qty.GreaterOrEqual(5)].name.First()"; "$.ITEMS.Count()"; "$.rate.Multiply(2)";
   "$.items[AND,@.tags.Count().Greater(0),@.name.Prefix(""b"")].qty"; "$.items[OR,@.qty.Less(1),{AND,@.qty.Equal(5),$.ok}].name"; "$.items.tags.Any()";
   "$.note?.x"; "$.missing"; "$.items.Last().tags.IsEmpty()";
   "$.items[@.qty.AnyOf(1,2,3)].name.Index(0).Left(2)"; "$.ok.Not()"; "$.rate.Divide(4).Modulo(1)";
   "$.items.qty.First().Equal($.items[@.name.Equal(""bolt"")].qty.First())"]%string.

Example C10_example_queries :
  forallb (qfrag true true) example_queries = true /\
  map (fun q => oabs true (run q doc_json)) example_queries
  = map (fun q => oabs true (run q doc_go)) example_queries.
Proof. split; vm_compute; reflexivity. Qed.

(** ... and by the theorem, without running the second evaluation *)
Example C10_example_by_theorem : forall eng t,
  frag true true uni_ascii default_fuel (NTop t) = true ->
  out_rel true (do_top uni_ascii eng t doc_json) (do_top uni_ascii eng t doc_go).
Proof.
  intros eng t Hf. destruct C10_example_docs as [S1 [S2 Ha]].
  exact (C10_do_top true true uni_ascii eng t doc_json doc_go Hf S1 S2 Ha).
Qed.

(** mode (B): a JSON object against a typed Go map with a named string key
    type; Select, Sum, Average, RemoveKeysByPrefix are admitted *)
Definition prices_json : gv := M [(K "apple", F 3); (K "pear", F 4); (K "fig", F 5)].
Definition prices_go : gv :=
  VMap KtNamedStr EInt false [(VStr true (bs "apple"), VInt KInt false 3); (VStr true (bs "pear"), VInt KUint8 false 4);
                              (VStr true (bs "fig"), VInt KInt64 true 5)].
Definition map_queries : list string :=
  ["$.Sum()"; "$.Average()"; "$.Maximum(10)"; "$.RemoveKeysByPrefix(""p"").Sum(1)";
   "$.Select(""$.Multiply(2)"")"; "$.Select(""$[@.Greater(3)]"").Count()"; "$.apple.AsArray().Sum($.pear)"]%string.

Example C10_example_maps :
  supported false false prices_json /\ supported false false prices_go /\
  absx false prices_json = absx false prices_go /\
  forallb (qfrag false false) map_queries = true /\
  map (fun q => oabs false (run q prices_json)) map_queries
  = map (fun q => oabs false (run q prices_go)) map_queries.
Proof.
  split; [left; unfold prices_json; sup_go|].
  split; [left; unfold prices_go; sup_go|].
  split; [vm_compute; reflexivity|]. split; vm_compute; reflexivity.
Qed.

(** * Carrier-dependences of the model: what [supported] and [in_fragment]
    must exclude.  Each example gives two renderings with the same
    abstraction and a query on which the answers differ. *)
Definition P (x : gv) : gv := VPtr (Some x).
Definition D (z : Z) : gv := VDec (mkDec z 0).

Definition differs (st : bool) (q : string) (d1 d2 : gv) (r1 r2 : outcome jv) : Prop :=
  absx st d1 = absx st d2 /\ oabs st (run q d1) = Some r1 /\ oabs st (run q d2) = Some r2.

Ltac differ := unfold differs; split; [|split]; vm_compute; reflexivity.

Definition n1 : jv := JNum (mkDec 1 0).
Definition n0 : jv := JNum (mkDec 0 0).
Definition eo : outcome jv := Err (EOther "").

(** ** known: named string / bool types; a pointer inside an interface slot *)
Example named_string_refuted :
  differs true "$.a.Equal(""x"")" (M [(K "a", VStr true (bs "x"))]) (M [(K "a", K "x")]) (Ok (JBool false)) (Ok (JBool true)).
Proof. differ. Qed.
Example named_bool_refuted :
  differs true "$.a.Not()" (M [(K "a", VBool true true)]) (M [(K "a", VBool false true)]) eo (Ok (JBool false)).
Proof. differ. Qed.
Example ptr_in_interface_slot_refuted :
  differs true "$.a" (A [P (M [(K "a", F 1)])]) (A [M [(K "a", F 1)]]) (Err EKeyNotFound) (Ok (JArr [n1])).
Proof. differ. Qed.

(** ** pointers: only a pointer to a non-empty object handed to the
    evaluator, or a pointer to an int/float/decimal in a field, is transparent *)
(** a typed slice of pointers: the filter re-boxes the elements as []any *)
Example ptr_elements_after_filter_refuted :
  differs true "$[@.a.Equal(1)].a" (VSlice ETOther false [P (M [(K "a", F 1)])]) (VSlice ETOther false [M [(K "a", F 1)]])
          (Err EKeyNotFound) (Ok (JArr [n1])).
Proof. differ. Qed.
(** a pointer field of the elements of an array: the projection boxes it *)
Example ptr_field_projection_refuted :
  differs true "$.items.child.name"
          (M [(K "items", A [M [(K "child", P (M [(K "name", K "x")]))]])])
          (M [(K "items", A [M [(K "child", M [(K "name", K "x")])]])])
          (Err EKeyNotFound) (Ok (JArr [JStr (bs "x")])).
Proof. differ. Qed.
Example ptr_to_string_refuted :
  differs true "$.a.Equal(""x"")" (M [(K "a", P (K "x"))]) (M [(K "a", K "x")]) (Ok (JBool false)) (Ok (JBool true)).
Proof. differ. Qed.
(** a pointer to a decimal.Decimal is no longer a carrier-dependence (repo fix
    4453c04, the type assertion at the head of convertToDecimalIfNumberAndCheck):
    the two renderings have the same abstraction and the answers agree.  Formerly
    [ptr_to_decimal_refuted], with answers false / true. *)
Definition agrees (st : bool) (q : string) (d1 d2 : gv) (r : outcome jv) : Prop :=
  absx st d1 = absx st d2 /\ oabs st (run q d1) = Some r /\ oabs st (run q d2) = Some r.
Example ptr_to_decimal_agrees :
  agrees true "$.a.Equal(1)" (M [(K "a", P (D 1))]) (M [(K "a", D 1)]) (Ok (JBool true)).
Proof. unfold agrees; split; [|split]; vm_compute; reflexivity. Qed.
Example ptr_to_slice_sum_refuted :
  differs false "$.a.Sum()" (M [(K "a", P (A [F 1]))]) (M [(K "a", A [F 1])]) (Ok n0) (Ok n1).
Proof. differ. Qed.
Example ptr_to_slice_argument_refuted :
  differs true "$.b.AnyOf($.a)" (M [(K "a", P (A [F 1])); (K "b", F 1)]) (M [(K "a", A [F 1]); (K "b", F 1)]) eo (Ok (JBool true)).
Proof. differ. Qed.
Example ptr_to_map_sum_refuted :
  differs false "$.a.Sum()" (M [(K "a", P (M [(K "x", F 1)]))]) (M [(K "a", M [(K "x", F 1)])]) (Ok n0) (Ok n1).
Proof. differ. Qed.
Example ptr_to_empty_map_refuted :
  differs true "$.a.First()" (M [(K "a", P (M []))]) (M [(K "a", M [])]) eo (Ok n0).
Proof. differ. Qed.
Example nil_ptr_vs_nil_refuted :
  differs true "$.a.First()" (M [(K "a", VPtr None)]) (M [(K "a", VNil)]) (Ok n0) eo.
Proof. differ. Qed.
(** AsArray boxes its receiver: excluded when the document may come by pointer *)
Example asarray_of_pointer_refuted :
  differs true "$.AsArray().a" (P (M [(K "a", F 1)])) (M [(K "a", F 1)]) (Err EKeyNotFound) (Ok (JArr [n1])).
Proof. differ. Qed.

(** ** structs against maps *)
Example empty_struct_refuted :
  differs true "$.a.First()" (M [(K "a", VStruct [])]) (M [(K "a", M [])]) eo (Ok n0).
Proof. differ. Qed.
Example zero_struct_any_refuted :
  differs true "$.Any()" (VStruct [fld "A" (F 0)]) (M [(K "a", F 0)]) (Ok (JBool true)) (Ok (JBool false)).
Proof. differ. Qed.
Example zero_struct_isempty_refuted :
  differs true "$.IsEmpty()" (VStruct [fld "A" (F 0)]) (M [(K "a", F 0)]) (Ok (JBool true)) (Ok (JBool false)).
Proof. differ. Qed.
(** with an interface-typed field holding a zero the struct is NOT the zero
    value (reflect.IsZero and cmp.Equal agree): it is supported and answers like the map *)
Example iface_zero_struct_agrees :
  supported true true (VStruct [(bs "A", true, true, F 0)]) /\
  absx true (VStruct [(bs "A", true, true, F 0)]) = absx true (M [(K "a", F 0)]) /\
  map (fun q => oabs true (run q (VStruct [(bs "A", true, true, F 0)]))) ["$.Any()"; "$.IsEmpty()"]%string
  = map (fun q => oabs true (run q (M [(K "a", F 0)]))) ["$.Any()"; "$.IsEmpty()"]%string.
Proof. split; [left; sup_go|]. split; vm_compute; reflexivity. Qed.
Example struct_sum_refuted :
  differs true "$.Sum()" (VStruct [fld "A" (F 1)]) (M [(K "a", F 1)]) (Ok n0) (Ok n1).
Proof. differ. Qed.
Example struct_select_refuted :
  differs true "$.Select(""$"")" (VStruct [fld "A" (F 1)]) (M [(K "a", F 1)]) eo (Ok (JArr [n1])).
Proof. differ. Qed.
Example struct_remove_keys_refuted :
  differs true "$.RemoveKeysByPrefix(""b"")" (VStruct [fld "A" (F 1)]) (M [(K "a", F 1)]) eo (Ok (JObj [(bs "a", n1)])).
Proof. differ. Qed.
(** a string spelling a number, projected out of an array of structs / of maps *)
Example numeral_string_projection_refuted :
  differs true "$.a" (A [VStruct [fld "A" (K "12")]]) (A [M [(K "a", K "12")]])
          (Ok (JArr [JStr (bs "12")])) (Ok (JArr [JNum (mkDec 12 0)])).
Proof. differ. Qed.
(** with keys compared up to case: Select orders by the raw key, RemoveKeysBy* tests it *)
Example select_key_case_refuted :
  differs true "$.Select(""$"")" (M [(K "a", F 1); (K "B", F 2)]) (M [(K "A", F 1); (K "b", F 2)])
          (Ok (JArr [JNum (mkDec 2 0); n1])) (Ok (JArr [n1; JNum (mkDec 2 0)])).
Proof. differ. Qed.
Example remove_keys_case_refuted :
  differs true "$.RemoveKeysByPrefix(""a"")" (M [(K "a", F 1)]) (M [(K "A", F 1)]) (Ok (JObj [])) (Ok (JObj [(bs "a", n1)])).
Proof. differ. Qed.

(** ** decimal.Decimal where the evaluator sees it unconverted (an element, the root) *)
Example decimal_element_filter_refuted :
  differs true "$[@[@.Greater(0)].IsNotNull()]" (A [D 1]) (A [F 1]) (Ok (JArr [n1])) eo.
Proof. differ. Qed.

(** ** nil containers, Go arrays *)
Example nil_slice_refuted :
  differs true "$.a.b" (M [(K "a", VSlice EAny true [])]) (M [(K "a", A [])]) eo (Err EKeyNotFound).
Proof. differ. Qed.
Example nil_map_refuted :
  differs true "$.a.IsNull()" (M [(K "a", VMap KtStr EAny true [])]) (M [(K "a", M [])]) (Ok (JBool true)) (Ok (JBool false)).
Proof. differ. Qed.
Example zero_array_isempty_refuted :
  differs true "$.a.IsEmpty()" (M [(K "a", VArray EInt [VInt KInt false 0; VInt KInt false 0])])
          (M [(K "a", VSlice EInt false [VInt KInt false 0; VInt KInt false 0])]) (Ok (JBool true)) (Ok (JBool false)).
Proof. differ. Qed.

(** the queries of these examples that the fragment of the matching mode
    admits (so the exclusion has to be, and is, in [supported]) ... *)
Example refuted_in_fragment :
  forallb (qfrag true true)
    ["$.a.Equal(""x"")"; "$.a.Not()"; "$.a"; "$[@.a.Equal(1)].a"; "$.items.child.name"; "$.a.Equal(1)";
     "$.b.AnyOf($.a)"; "$.a.First()"; "$.Any()"; "$.IsEmpty()"; "$[@[@.Greater(0)].IsNotNull()]"; "$.a.b";
     "$.a.IsNull()"; "$.a.IsEmpty()"]%string = true /\
  forallb (qfrag false true) ["$.a.Sum()"; "$.AsArray().a"]%string = false /\
  forallb (fun q => negb (qfrag true false q))
    ["$.Sum()"; "$.Select(""$"")"; "$.RemoveKeysByPrefix(""b"")"]%string = true /\
  forallb (qfrag false false) ["$.a.Sum()"; "$.AsArray().a"; "$.Sum()"; "$.Select(""$"")"; "$.RemoveKeysByPrefix(""b"")"]%string = true.
Proof. split; [|split; [|split]]; vm_compute; reflexivity. Qed.

(** ... and the functions outside every fragment: AsJSON, Sprintf and the
    Parse* family render or read carrier text by design *)
Example never_admitted :
  forallb (fun k => negb (allowed false false k) && negb (allowed true true k))
    ["AsJSON"; "Sprintf"; "ParseJSON"; "ParseXML"; "ParseYAML"; "ParseTOML"]%string = true.
Proof. vm_compute. reflexivity. Qed.

(** [in_fragment] (every fuel) for a parsed query *)
Example C10_in_fragment_example : forall t,
  parse_string uni_ascii (bs "$.items[@.qty.GreaterOrEqual(5)].name.First()") = Ok t ->
  in_fragment true true uni_ascii (NTop t).
Proof.
  intros t H. vm_compute in H. injection H as <-. intros fuel.
  do 12 (destruct fuel as [|fuel]; [vm_compute; reflexivity|]). vm_compute. reflexivity.
Qed.

Print Assumptions C10_relational.
Print Assumptions C10_carrier_independent_fuel.
Print Assumptions C10_carrier_independent.
Print Assumptions C10_do_top.
Print Assumptions C10_same_verdict.
Print Assumptions C10_structs_and_pointers.
Print Assumptions C10_maps_only.
Print Assumptions R_abs.
Print Assumptions supported_Rv.
Print Assumptions C10_example_queries.
Print Assumptions C10_example_by_theorem.
Print Assumptions C10_example_maps.
Print Assumptions json_carrier_supported.
Print Assumptions C10_in_fragment_example.
Print Assumptions refuted_in_fragment.
