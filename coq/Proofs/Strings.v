(* Proofs/Strings.v — the string functions mean what their names say.

   A. has_prefix / has_suffix / contains  <->  the list-level definitions.
   B. string_bool_func (Contains, Prefix, Suffix and their Not* twins).
   C. Left / Right / TrimLeft / TrimRight (string_part_func).
   D. ReplaceAll (replace_all, func_replace_all).

   No axioms; every main theorem is checked with Print Assumptions at the end. *)
From Mpath.Model Require Import Base Dec GoVal Funcs.

Local Open Scope Z_scope.

(* ------------------------------------------------------------------ *)
(** * A. Substring family                                               *)
(* ------------------------------------------------------------------ *)

Lemma has_prefix_nil : forall s : str, has_prefix s [] = true.
Proof. intros s. destruct s; reflexivity. Qed.

Lemma has_prefix_nil_l : forall c (p : str), has_prefix [] (c :: p) = false.
Proof. reflexivity. Qed.

Lemma has_prefix_cons : forall c (p : str) d (s : str),
  has_prefix (d :: s) (c :: p) = Ascii.eqb c d && has_prefix s p.
Proof. reflexivity. Qed.

Theorem has_prefix_iff : forall s p : str,
  has_prefix s p = true <-> exists rest, s = p ++ rest.
Proof.
  intros s p. revert s.
  induction p as [|c p IH]; intros s.
  - split.
    + intros _. exists s. reflexivity.
    + intros _. apply has_prefix_nil.
  - destruct s as [|d s].
    + rewrite has_prefix_nil_l. split.
      * intros H. discriminate H.
      * intros [rest H]. discriminate H.
    + rewrite has_prefix_cons, andb_true_iff, Ascii.eqb_eq, IH. split.
      * intros [Hc [rest Hr]]. exists rest. subst d s. reflexivity.
      * intros [rest Hr]. injection Hr as Hd Hs. split.
        -- symmetry. exact Hd.
        -- exists rest. exact Hs.
Qed.

Theorem has_suffix_iff : forall s p : str,
  has_suffix s p = true <-> exists pre, s = pre ++ p.
Proof.
  intros s p. unfold has_suffix. rewrite has_prefix_iff. split.
  - intros [rest H]. exists (rev rest).
    rewrite <- (rev_involutive s). rewrite H.
    rewrite rev_app_distr, rev_involutive. reflexivity.
  - intros [pre H]. exists (rev pre). rewrite H. apply rev_app_distr.
Qed.

Lemma contains_nil_l : forall n : str, contains [] n = has_prefix [] n || false.
Proof. reflexivity. Qed.

Lemma contains_cons : forall c (s n : str),
  contains (c :: s) n = has_prefix (c :: s) n || contains s n.
Proof. reflexivity. Qed.

Lemma has_prefix_contains : forall s n : str,
  has_prefix s n = true -> contains s n = true.
Proof.
  intros s n H. destruct s as [|c s].
  - rewrite contains_nil_l, H. reflexivity.
  - rewrite contains_cons, H. reflexivity.
Qed.

Theorem contains_iff : forall s n : str,
  contains s n = true <-> exists pre post, s = pre ++ n ++ post.
Proof.
  intros s n. split.
  - induction s as [|c s IH]; intros H.
    + rewrite contains_nil_l, orb_false_r in H.
      apply has_prefix_iff in H. destruct H as [rest H].
      exists [], rest. exact H.
    + rewrite contains_cons in H. apply orb_true_iff in H.
      destruct H as [H|H].
      * apply has_prefix_iff in H. destruct H as [rest H].
        exists [], rest. exact H.
      * destruct (IH H) as [pre [post E]].
        exists (c :: pre), post. rewrite E. reflexivity.
  - intros [pre [post E]]. revert s E.
    induction pre as [|c pre IH]; intros s E.
    + apply has_prefix_contains. apply has_prefix_iff.
      exists post. exact E.
    + subst s. rewrite <- app_comm_cons, contains_cons.
      apply orb_true_iff. right. apply IH. reflexivity.
Qed.

(** Negative forms, convenient for the Not* functions. *)
Corollary contains_false_iff : forall s n : str,
  contains s n = false <-> forall pre post, s <> pre ++ n ++ post.
Proof.
  intros s n. rewrite <- not_true_iff_false, contains_iff. split.
  - intros H pre post E. apply H. exists pre, post. exact E.
  - intros H [pre [post E]]. exact (H pre post E).
Qed.

(* ------------------------------------------------------------------ *)
(** * B. string_bool_func                                               *)
(* ------------------------------------------------------------------ *)

Theorem params_first_string_single : forall p : str,
  params_first_string [RStr p] = Ok p.
Proof. reflexivity. Qed.

Theorem string_bool_func_spec : forall f invert ps (s p : str),
  params_first_string ps = Ok p ->
  string_bool_func f invert ps (VStr false s)
  = Ok (VBool false (xorb invert (f s p))).
Proof.
  intros f invert ps s p Hp.
  unfold string_bool_func. rewrite Hp. reflexivity.
Qed.

Theorem negation_exact : forall f ps (s p : str),
  params_first_string ps = Ok p ->
  exists b,
    string_bool_func f false ps (VStr false s) = Ok (VBool false b) /\
    string_bool_func f true  ps (VStr false s) = Ok (VBool false (negb b)).
Proof.
  intros f ps s p Hp. exists (f s p).
  rewrite (string_bool_func_spec f false ps s p Hp).
  rewrite (string_bool_func_spec f true ps s p Hp).
  rewrite xorb_false_l, xorb_true_l. split; reflexivity.
Qed.

(** The six dispatch targets of run_func, with a single string literal. *)
Corollary contains_func_true_iff : forall s p : str,
  string_bool_func contains false [RStr p] (VStr false s) = Ok (VBool false true)
  <-> exists pre post, s = pre ++ p ++ post.
Proof.
  intros s p.
  rewrite (string_bool_func_spec contains false [RStr p] s p (params_first_string_single p)).
  rewrite <- contains_iff. rewrite xorb_false_l. split.
  - intros H. injection H as H. exact H.
  - intros H. rewrite H. reflexivity.
Qed.

Corollary not_contains_func_true_iff : forall s p : str,
  string_bool_func contains true [RStr p] (VStr false s) = Ok (VBool false true)
  <-> ~ exists pre post, s = pre ++ p ++ post.
Proof.
  intros s p.
  rewrite (string_bool_func_spec contains true [RStr p] s p (params_first_string_single p)).
  rewrite <- contains_iff. rewrite xorb_true_l. split.
  - intros H. injection H as H. intros C. rewrite C in H. discriminate H.
  - intros H. destruct (contains s p).
    + exfalso. apply H. reflexivity.
    + reflexivity.
Qed.

Corollary prefix_func_true_iff : forall s p : str,
  string_bool_func has_prefix false [RStr p] (VStr false s) = Ok (VBool false true)
  <-> exists rest, s = p ++ rest.
Proof.
  intros s p.
  rewrite (string_bool_func_spec has_prefix false [RStr p] s p (params_first_string_single p)).
  rewrite <- has_prefix_iff. rewrite xorb_false_l. split.
  - intros H. injection H as H. exact H.
  - intros H. rewrite H. reflexivity.
Qed.

Corollary suffix_func_true_iff : forall s p : str,
  string_bool_func has_suffix false [RStr p] (VStr false s) = Ok (VBool false true)
  <-> exists pre, s = pre ++ p.
Proof.
  intros s p.
  rewrite (string_bool_func_spec has_suffix false [RStr p] s p (params_first_string_single p)).
  rewrite <- has_suffix_iff. rewrite xorb_false_l. split.
  - intros H. injection H as H. exact H.
  - intros H. rewrite H. reflexivity.
Qed.

(* ------------------------------------------------------------------ *)
(** * D. ReplaceAll                                                     *)
(* ------------------------------------------------------------------ *)

Lemma replace_all_fuel_S : forall k c (s f r : str),
  replace_all_fuel (S k) (c :: s) f r
  = if has_prefix (c :: s) f
    then r ++ replace_all_fuel k (skipn (length f) (c :: s)) f r
    else c :: replace_all_fuel k s f r.
Proof. reflexivity. Qed.

Lemma replace_all_fuel_nil : forall k (f r : str), replace_all_fuel k [] f r = [].
Proof. intros k f r. destruct k; reflexivity. Qed.

Lemma skipn_nonempty_shrinks : forall (f : str) c (s : str),
  f <> [] -> (length (skipn (length f) (c :: s)) < length (c :: s))%nat.
Proof.
  intros f c s Hf. rewrite skipn_length.
  destruct f as [|d f]; [congruence|]. cbn [length]. lia.
Qed.

(** The fuel of replace_all suffices: any fuel above the length gives the same result. *)
Lemma replace_all_fuel_enough : forall f r : str, f <> [] ->
  forall (k1 k2 : nat) (s : str),
    (length s < k1)%nat -> (length s < k2)%nat ->
    replace_all_fuel k1 s f r = replace_all_fuel k2 s f r.
Proof.
  intros f r Hf. induction k1 as [|k1 IH]; intros k2 s H1 H2; [lia|].
  destruct k2 as [|k2]; [lia|].
  destruct s as [|c s]; [reflexivity|].
  rewrite !replace_all_fuel_S.
  pose proof (skipn_nonempty_shrinks f c s Hf) as Hsk.
  cbn [length] in H1, H2, Hsk.
  destruct (has_prefix (c :: s) f).
  - f_equal. apply IH; lia.
  - f_equal. apply IH; lia.
Qed.

Theorem replace_all_nil : forall f r : str, replace_all [] f r = [].
Proof. reflexivity. Qed.

(** Unfolding equation of replace_all (the definitional fuel never runs out). *)
Lemma replace_all_cons : forall (f r : str) c (s : str), f <> [] ->
  replace_all (c :: s) f r
  = if has_prefix (c :: s) f
    then r ++ replace_all (skipn (length f) (c :: s)) f r
    else c :: replace_all s f r.
Proof.
  intros f r c s Hf. unfold replace_all.
  change (S (length (c :: s))) with (S (S (length s))).
  rewrite replace_all_fuel_S.
  pose proof (skipn_nonempty_shrinks f c s Hf) as Hsk.
  cbn [length] in Hsk.
  destruct (has_prefix (c :: s) f).
  - f_equal. apply replace_all_fuel_enough; [exact Hf|lia|lia].
  - reflexivity.
Qed.

Lemma replace_all_fuel_no_occurrence : forall (f r : str) k (s : str),
  contains s f = false -> replace_all_fuel k s f r = s.
Proof.
  intros f r. induction k as [|k IH]; intros s H; [reflexivity|].
  destruct s as [|c s]; [reflexivity|].
  rewrite replace_all_fuel_S.
  rewrite contains_cons in H. apply orb_false_iff in H. destruct H as [H1 H2].
  rewrite H1. f_equal. apply IH. exact H2.
Qed.

(** The hypothesis [f <> []] is not needed (for f = [] the premise
    [contains s f = false] is absurd); it is kept to match the Go precondition. *)
Theorem replace_all_no_occurrence : forall s f r : str,
  f <> [] -> contains s f = false -> replace_all s f r = s.
Proof.
  intros s f r _ H. unfold replace_all. apply replace_all_fuel_no_occurrence. exact H.
Qed.

Lemma skipn_length_app : forall (f b : str), skipn (length f) (f ++ b) = b.
Proof.
  intros f b. induction f as [|c f IH]; [reflexivity|]. exact IH.
Qed.

(** Replacement at a match: one step. *)
Lemma replace_all_match : forall f b r : str, f <> [] ->
  replace_all (f ++ b) f r = r ++ replace_all b f r.
Proof.
  intros f b r Hf.
  assert (Hp : has_prefix (f ++ b) f = true).
  { apply has_prefix_iff. exists b. reflexivity. }
  pose proof (skipn_length_app f b) as Hs.
  destruct f as [|c f]; [congruence|].
  rewrite <- app_comm_cons in *.
  rewrite replace_all_cons by exact Hf.
  rewrite Hp, Hs. reflexivity.
Qed.

(** "No occurrence of f starts at a position < length a in a ++ f ++ b":
    every decomposition of the subject around an occurrence of f has a prefix
    at least as long as a.  Then the leftmost occurrence is the one after a,
    it is replaced, and replacement continues non-overlapping in b. *)
Theorem replace_all_first : forall a b f r : str,
  f <> [] ->
  (forall pre post, a ++ f ++ b = pre ++ f ++ post -> (length a <= length pre)%nat) ->
  replace_all (a ++ f ++ b) f r = a ++ r ++ replace_all b f r.
Proof.
  intros a b f r Hf. induction a as [|c a IH]; intros Hfirst.
  - rewrite !app_nil_l. apply replace_all_match. exact Hf.
  - rewrite <- !app_comm_cons.
    rewrite replace_all_cons by exact Hf.
    destruct (has_prefix (c :: a ++ f ++ b) f) eqn:Hp.
    + exfalso. apply has_prefix_iff in Hp. destruct Hp as [rest Hrest].
      specialize (Hfirst [] rest). rewrite <- app_comm_cons in Hfirst.
      specialize (Hfirst Hrest). cbn [length] in Hfirst. lia.
    + f_equal. apply IH. intros pre post E.
      specialize (Hfirst (c :: pre) post).
      rewrite <- !app_comm_cons in Hfirst. rewrite E in Hfirst.
      specialize (Hfirst eq_refl). cbn [length] in Hfirst. lia.
Qed.

(** The same under the computable side condition: f does not occur in
    [a ++ removelast f], i.e. no occurrence of f starts within a. *)
Lemma first_occurrence_of_contains : forall a b f : str,
  f <> [] ->
  contains (a ++ removelast f) f = false ->
  forall pre post, a ++ f ++ b = pre ++ f ++ post -> (length a <= length pre)%nat.
Proof.
  intros a b f Hf Hc pre post E.
  destruct (Nat.le_gt_cases (length a) (length pre)) as [Hle|Hgt]; [exact Hle|].
  exfalso.
  rewrite (app_removelast_last "000"%char Hf) in E at 1.
  (* a ++ (removelast f ++ [last]) ++ b = pre ++ f ++ post *)
  assert (E' : (a ++ removelast f) ++ ([last f "000"%char] ++ b) = (pre ++ f) ++ post).
  { rewrite <- !app_assoc. rewrite <- !app_assoc in E. exact E. }
  assert (Hlen : length f = S (length (removelast f))).
  { rewrite (app_removelast_last "000"%char Hf) at 1.
    rewrite app_length. cbn [length]. lia. }
  apply app_eq_app in E'. destruct E' as [l [[E1 E2]|[E1 E2]]].
  - (* a ++ removelast f = (pre ++ f) ++ l : an occurrence *)
    assert (Ht : contains (a ++ removelast f) f = true).
    { apply contains_iff. exists pre, l. rewrite E1, <- app_assoc. reflexivity. }
    rewrite Ht in Hc. discriminate Hc.
  - (* pre ++ f = (a ++ removelast f) ++ l : too long *)
    pose proof E1 as E1'.
    apply (f_equal (@length _)) in E1.
    rewrite !app_length in E1.
    apply (f_equal (@length _)) in E2.
    rewrite !app_length in E2. cbn [length] in E2.
    destruct l as [|x l].
    + (* then a ++ removelast f = pre ++ f itself: an occurrence again *)
      assert (Ht : contains (a ++ removelast f) f = true).
      { apply contains_iff. exists pre, []. rewrite !app_nil_r in *.
        symmetry. exact E1'. }
      rewrite Ht in Hc. discriminate Hc.
    + cbn [length] in E1. lia.
Qed.

Corollary replace_all_first_contains : forall a b f r : str,
  f <> [] ->
  contains (a ++ removelast f) f = false ->
  replace_all (a ++ f ++ b) f r = a ++ r ++ replace_all b f r.
Proof.
  intros a b f r Hf Hc. apply replace_all_first; [exact Hf|].
  apply first_occurrence_of_contains; assumption.
Qed.

Theorem func_replace_all_spec : forall f r s : str,
  f <> [] ->
  func_replace_all [RStr f; RStr r] (VStr false s) = Ok (VStr false (replace_all s f r)).
Proof.
  intros f r s Hf. destruct f as [|c f]; [congruence|]. reflexivity.
Qed.

(* ------------------------------------------------------------------ *)
(** * C. Left / Right / TrimLeft / TrimRight                            *)
(* ------------------------------------------------------------------ *)

(** ** Decimal facts (only what string_part_func uses) *)

Lemma pow10_pos : forall k, 0 <= k -> 0 < 10 ^ k.
Proof. intros k Hk. apply Z.pow_pos_nonneg; lia. Qed.

(** Rescale(0): the integer value for e >= 0, truncation toward zero for e < 0. *)
Lemma coef_rescale0 : forall c e,
  coef (rescale (mkDec c e) 0) = if 0 <=? e then c * 10 ^ e else Z.quot c (10 ^ (- e)).
Proof.
  intros c e. unfold rescale, pow10. cbn [coef dexp].
  destruct (Z.eqb_spec 0 e) as [He|He].
  - subst e. cbn [coef]. rewrite Z.pow_0_r.
    change (0 <=? 0) with true. cbv iota. lia.
  - destruct (Z.ltb_spec e 0) as [Hlt|Hge]; cbn [coef].
    + destruct (Z.leb_spec 0 e) as [H0|H0]; [lia|].
      rewrite Z.sub_0_l. reflexivity.
    + destruct (Z.leb_spec 0 e) as [H0|H0]; [|lia].
      rewrite Z.sub_0_r. reflexivity.
Qed.

(** Comparison with an integer constant. *)
Lemma dcmp_int : forall c e L,
  dcmp (mkDec c e) (mkDec L 0)
  = if 0 <=? e then (c * 10 ^ e ?= L) else (c ?= L * 10 ^ (- e)).
Proof.
  intros c e L. unfold dcmp, rescale_pair. cbn [coef dexp].
  destruct (Z.leb_spec 0 e) as [H0|H0].
  - rewrite Z.min_r by lia.
    rewrite coef_rescale0.
    destruct (Z.leb_spec 0 e) as [_|H1]; [|lia].
    reflexivity.
  - rewrite Z.min_l by lia.
    unfold rescale, pow10. cbn [coef dexp].
    rewrite Z.eqb_refl. cbn [coef].
    destruct (Z.eqb_spec e 0) as [He|He]; [lia|].
    destruct (Z.ltb_spec 0 e) as [Hlt|Hge]; [lia|].
    cbn [coef]. rewrite Z.sub_0_l. reflexivity.
Qed.

Lemma big_int64_small : forall x, 0 <= x < 2 ^ 63 -> big_int64 x = x.
Proof.
  intros x Hx. unfold big_int64, sint64. cbv zeta.
  destruct (Z.ltb_spec x 0) as [Hlt|_]; [lia|].
  rewrite (Z.abs_eq x) by lia.
  rewrite (Z.mod_small x (2 ^ 64)) by lia.
  rewrite (Z.mod_small (x + 2 ^ 63) (2 ^ 64)) by lia.
  lia.
Qed.

Lemma int_part_int : forall L, 0 <= L < 2 ^ 63 -> int_part (mkDec L 0) = L.
Proof.
  intros L HL. unfold int_part. rewrite coef_rescale0.
  change (0 <=? 0) with true. cbv iota.
  rewrite Z.pow_0_r, Z.mul_1_r. apply big_int64_small. exact HL.
Qed.

(** The clamped count always lies in [0, len] — for ANY non-negative decimal,
    whatever its exponent (this is what rules out the slice panics). *)
Lemma clamp_range : forall p L,
  dis_neg p = false -> 0 <= L < 2 ^ 63 ->
  0 <= int_part (if dgt p (mkDec L 0) then mkDec L 0 else p) <= L.
Proof.
  intros [c e] L Hneg HL.
  unfold dis_neg in Hneg. cbn [coef] in Hneg.
  apply Z.ltb_ge in Hneg.
  destruct (dgt (mkDec c e) (mkDec L 0)) eqn:G.
  - rewrite int_part_int by exact HL. lia.
  - unfold dgt in G. rewrite dcmp_int in G.
    unfold int_part. rewrite coef_rescale0.
    destruct (Z.leb_spec 0 e) as [H0|H0].
    + pose proof (pow10_pos e H0) as Hp.
      assert (Hle : c * 10 ^ e <= L).
      { destruct (Z.compare_spec (c * 10 ^ e) L) as [Hc|Hc|Hc];
          [lia|lia|discriminate G]. }
      assert (Hnn : 0 <= c * 10 ^ e) by (apply Z.mul_nonneg_nonneg; lia).
      rewrite big_int64_small by lia. lia.
    + assert (Hk : 0 <= - e) by lia.
      pose proof (pow10_pos (- e) Hk) as Hp.
      assert (Hle : c <= L * 10 ^ (- e)).
      { destruct (Z.compare_spec c (L * 10 ^ (- e))) as [Hc|Hc|Hc];
          [lia|lia|discriminate G]. }
      assert (Hq : Z.quot c (10 ^ (- e)) <= L).
      { rewrite <- (Z.quot_mul L (10 ^ (- e))) by lia.
        apply Z.quot_le_mono; [exact Hp|exact Hle]. }
      assert (Hnn : 0 <= Z.quot c (10 ^ (- e))) by (apply Z.quot_pos; lia).
      rewrite big_int64_small by lia. lia.
Qed.

(** ** The parameter list *)

Lemma params_first_number_single : forall p, params_first_number [RNum p] = Ok p.
Proof. reflexivity. Qed.

Lemma params_first_number_no_panic : forall ps m, params_first_number ps <> Panic m.
Proof.
  intros ps m. unfold params_first_number, fail.
  destruct (negb (len_is ps 1)); [discriminate|].
  destruct (numbers ps) as [|d ds]; [|discriminate].
  destruct (filter_map string_number (strings ps)); discriminate.
Qed.

(** ** Go slicing inside the bounds *)

Lemma go_slice_ok : forall (s : str) lo hi,
  0 <= lo <= hi -> hi <= Z.of_nat (length s) ->
  go_slice s lo hi = Ok (firstn (Z.to_nat (hi - lo)) (skipn (Z.to_nat lo) s)).
Proof.
  intros s lo hi H1 H2. unfold go_slice.
  assert (Hc : (0 <=? lo) && (lo <=? hi) && (hi <=? Z.of_nat (length s)) = true).
  { rewrite !andb_true_iff, !Z.leb_le. lia. }
  rewrite Hc. reflexivity.
Qed.

(** ** What each of the four functions returns for an effective count k <= len *)

Definition part (w : spart) (k : nat) (s : str) : str :=
  match w with
  | SLeft => firstn k s
  | SRight => last_n k s
  | STrimLeft => skipn k s
  | STrimRight => firstn (length s - k) s
  end.

Lemma string_part_func_core : forall w ps p (s : str) (k : nat),
  params_first_number ps = Ok p ->
  dis_integer p = true -> dis_neg p = false ->
  int_part (if dgt p (mkDec (Z.of_nat (length s)) 0)
            then mkDec (Z.of_nat (length s)) 0 else p) = Z.of_nat k ->
  (k <= length s)%nat ->
  string_part_func w ps (VStr false s) = Ok (VStr false (part w k s)).
Proof.
  intros w ps p s k Hps Hint Hneg Hi Hk.
  unfold string_part_func. rewrite Hps. cbn [bind].
  rewrite Hint, Hneg. cbn [negb]. cbv zeta. rewrite Hi.
  unfold vstr.
  destruct w; cbn [part].
  - (* SLeft *)
    destruct (Z.ltb_spec (Z.of_nat (length s)) (Z.of_nat k)) as [Hlt|_]; [lia|].
    rewrite go_slice_ok by lia. cbn [bind]. do 2 f_equal.
    replace (Z.to_nat (Z.of_nat k - 0)) with k by lia.
    replace (Z.to_nat 0) with 0%nat by lia.
    reflexivity.
  - (* SRight *)
    destruct (Z.ltb_spec (Z.of_nat (length s)) (Z.of_nat k)) as [Hlt|_]; [lia|].
    rewrite go_slice_ok by lia. cbn [bind]. do 2 f_equal.
    unfold last_n.
    replace (Z.to_nat (Z.of_nat (length s) - (Z.of_nat (length s) - Z.of_nat k)))
      with k by lia.
    replace (Z.to_nat (Z.of_nat (length s) - Z.of_nat k))
      with (length s - k)%nat by lia.
    apply firstn_all2. rewrite skipn_length. lia.
  - (* STrimLeft *)
    destruct (Z.leb_spec (Z.of_nat (length s)) (Z.of_nat k)) as [Hle|Hgt].
    + cbn [bind]. do 2 f_equal. symmetry. apply skipn_all2. lia.
    + rewrite go_slice_ok by lia. cbn [bind]. do 2 f_equal.
      rewrite Nat2Z.id. apply firstn_all2. rewrite skipn_length. lia.
  - (* STrimRight *)
    destruct (Z.leb_spec (Z.of_nat (length s)) (Z.of_nat k)) as [Hle|Hgt].
    + cbn [bind]. do 2 f_equal.
      replace (length s - k)%nat with 0%nat by lia. reflexivity.
    + rewrite go_slice_ok by lia. cbn [bind]. do 2 f_equal.
      replace (Z.to_nat (Z.of_nat (length s) - Z.of_nat k - 0))
        with (length s - k)%nat by lia.
      replace (Z.to_nat 0) with 0%nat by lia.
      reflexivity.
Qed.

(** ** Decimals that denote a natural number *)

Definition natdec (n : nat) : dec := mkDec (Z.of_nat n) 0.

(** p = c * 10^e is the natural number n.  For e < 0 the equation is stated
    on the coefficient side so that it stays within the integers. *)
Definition denotes_nat (p : dec) (n : nat) : Prop :=
  (0 <= dexp p /\ coef p * 10 ^ dexp p = Z.of_nat n) \/
  (dexp p < 0 /\ coef p = Z.of_nat n * 10 ^ (- dexp p)).

Lemma natdec_denotes : forall n, denotes_nat (natdec n) n.
Proof.
  intros n. left. unfold natdec. cbn [coef dexp].
  rewrite Z.pow_0_r. lia.
Qed.

Lemma denotes_rescale0 : forall p n, denotes_nat p n -> coef (rescale p 0) = Z.of_nat n.
Proof.
  intros [c e] n Hd. unfold denotes_nat in Hd. cbn [coef dexp] in Hd.
  rewrite coef_rescale0.
  destruct Hd as [[He Hv]|[He Hv]].
  - destruct (Z.leb_spec 0 e) as [_|H0]; [exact Hv|lia].
  - destruct (Z.leb_spec 0 e) as [H0|_]; [lia|].
    rewrite Hv. apply Z.quot_mul.
    assert (Hp : 0 < 10 ^ (- e)) by (apply pow10_pos; lia). lia.
Qed.

Lemma denotes_dcmp : forall p n L,
  denotes_nat p n -> dcmp p (mkDec L 0) = (Z.of_nat n ?= L).
Proof.
  intros [c e] n L Hd. unfold denotes_nat in Hd. cbn [coef dexp] in Hd.
  rewrite dcmp_int.
  destruct Hd as [[He Hv]|[He Hv]].
  - destruct (Z.leb_spec 0 e) as [_|H0]; [|lia]. rewrite Hv. reflexivity.
  - destruct (Z.leb_spec 0 e) as [H0|_]; [lia|].
    rewrite Hv. symmetry. apply Zmult_compare_compat_r.
    apply Z.lt_gt. apply pow10_pos. lia.
Qed.

Lemma denotes_is_integer : forall p n, denotes_nat p n -> dis_integer p = true.
Proof.
  intros [c e] n Hd. unfold denotes_nat in Hd. cbn [coef dexp] in Hd.
  unfold dis_integer, pow10. cbn [coef dexp].
  destruct Hd as [[He Hv]|[He Hv]].
  - destruct (Z.leb_spec 0 e) as [_|H0]; [reflexivity|lia].
  - destruct (Z.leb_spec 0 e) as [H0|_]; [reflexivity|].
    rewrite Hv. rewrite Z.rem_mul.
    + reflexivity.
    + assert (Hp : 0 < 10 ^ (- e)) by (apply pow10_pos; lia). lia.
Qed.

Lemma denotes_not_neg : forall p n, denotes_nat p n -> dis_neg p = false.
Proof.
  intros [c e] n Hd. unfold denotes_nat in Hd. cbn [coef dexp] in Hd.
  unfold dis_neg. cbn [coef]. apply Z.ltb_ge.
  destruct Hd as [[He Hv]|[He Hv]].
  - pose proof (pow10_pos e He) as Hp. nia.
  - assert (Hp : 0 < 10 ^ (- e)) by (apply pow10_pos; lia).
    rewrite Hv. apply Z.mul_nonneg_nonneg; lia.
Qed.

Lemma denotes_clamp : forall p n (L : nat),
  denotes_nat p n -> Z.of_nat L < 2 ^ 63 ->
  int_part (if dgt p (mkDec (Z.of_nat L) 0) then mkDec (Z.of_nat L) 0 else p)
  = Z.of_nat (Nat.min n L).
Proof.
  intros p n L Hd HL.
  unfold dgt. rewrite (denotes_dcmp p n (Z.of_nat L) Hd).
  destruct (Z.compare_spec (Z.of_nat n) (Z.of_nat L)) as [Hc|Hc|Hc].
  - unfold int_part. rewrite (denotes_rescale0 p n Hd).
    rewrite big_int64_small by lia. lia.
  - unfold int_part. rewrite (denotes_rescale0 p n Hd).
    rewrite big_int64_small by lia. lia.
  - rewrite int_part_int by lia. lia.
Qed.

(** ** The four functions, for any decimal denoting n *)

Theorem string_part_func_spec_gen : forall w p (n : nat) (s : str),
  denotes_nat p n -> Z.of_nat (length s) < 2 ^ 63 ->
  string_part_func w [RNum p] (VStr false s)
  = Ok (VStr false (part w (Nat.min n (length s)) s)).
Proof.
  intros w p n s Hd Hlen.
  apply (string_part_func_core w [RNum p] p s (Nat.min n (length s))).
  - apply params_first_number_single.
  - exact (denotes_is_integer p n Hd).
  - exact (denotes_not_neg p n Hd).
  - apply denotes_clamp; assumption.
  - lia.
Qed.

Theorem left_spec_gen : forall p (n : nat) (s : str),
  denotes_nat p n -> Z.of_nat (length s) < 2 ^ 63 ->
  string_part_func SLeft [RNum p] (VStr false s)
  = Ok (VStr false (firstn (Nat.min n (length s)) s)).
Proof. intros p n s Hd Hlen. exact (string_part_func_spec_gen SLeft p n s Hd Hlen). Qed.

Theorem right_spec_gen : forall p (n : nat) (s : str),
  denotes_nat p n -> Z.of_nat (length s) < 2 ^ 63 ->
  string_part_func SRight [RNum p] (VStr false s)
  = Ok (VStr false (last_n (Nat.min n (length s)) s)).
Proof. intros p n s Hd Hlen. exact (string_part_func_spec_gen SRight p n s Hd Hlen). Qed.

Theorem trim_left_spec_gen : forall p (n : nat) (s : str),
  denotes_nat p n -> Z.of_nat (length s) < 2 ^ 63 ->
  string_part_func STrimLeft [RNum p] (VStr false s)
  = Ok (VStr false (skipn (Nat.min n (length s)) s)).
Proof. intros p n s Hd Hlen. exact (string_part_func_spec_gen STrimLeft p n s Hd Hlen). Qed.

Theorem trim_right_spec_gen : forall p (n : nat) (s : str),
  denotes_nat p n -> Z.of_nat (length s) < 2 ^ 63 ->
  string_part_func STrimRight [RNum p] (VStr false s)
  = Ok (VStr false (firstn (length s - Nat.min n (length s)) s)).
Proof. intros p n s Hd Hlen. exact (string_part_func_spec_gen STrimRight p n s Hd Hlen). Qed.

(** ** ... and for the plain integer literal n *)

Theorem left_spec : forall (s : str) (n : nat),
  Z.of_nat (length s) < 2 ^ 63 ->
  string_part_func SLeft [RNum (natdec n)] (VStr false s)
  = Ok (VStr false (firstn (Nat.min n (length s)) s)).
Proof. intros s n Hlen. exact (left_spec_gen (natdec n) n s (natdec_denotes n) Hlen). Qed.

Theorem right_spec : forall (s : str) (n : nat),
  Z.of_nat (length s) < 2 ^ 63 ->
  string_part_func SRight [RNum (natdec n)] (VStr false s)
  = Ok (VStr false (last_n (Nat.min n (length s)) s)).
Proof. intros s n Hlen. exact (right_spec_gen (natdec n) n s (natdec_denotes n) Hlen). Qed.

Theorem trim_left_spec : forall (s : str) (n : nat),
  Z.of_nat (length s) < 2 ^ 63 ->
  string_part_func STrimLeft [RNum (natdec n)] (VStr false s)
  = Ok (VStr false (skipn (Nat.min n (length s)) s)).
Proof. intros s n Hlen. exact (trim_left_spec_gen (natdec n) n s (natdec_denotes n) Hlen). Qed.

Theorem trim_right_spec : forall (s : str) (n : nat),
  Z.of_nat (length s) < 2 ^ 63 ->
  string_part_func STrimRight [RNum (natdec n)] (VStr false s)
  = Ok (VStr false (firstn (length s - Nat.min n (length s)) s)).
Proof. intros s n Hlen. exact (trim_right_spec_gen (natdec n) n s (natdec_denotes n) Hlen). Qed.

(** Left and TrimLeft (resp. TrimRight and Right) split the string. *)
Corollary left_trim_left_partition : forall (s : str) (k : nat),
  part SLeft k s ++ part STrimLeft k s = s.
Proof. intros s k. cbn [part]. apply firstn_skipn. Qed.

Corollary trim_right_right_partition : forall (s : str) (k : nat),
  part STrimRight k s ++ part SRight k s = s.
Proof. intros s k. cbn [part]. unfold last_n. apply firstn_skipn. Qed.

(** ** Error cases *)

Theorem negative_count_is_error : forall w p (s : str),
  dis_neg p = true -> dis_integer p = true ->
  exists e, string_part_func w [RNum p] (VStr false s) = Err e.
Proof.
  intros w p s Hneg Hint. unfold string_part_func.
  rewrite params_first_number_single. cbn [bind].
  rewrite Hint, Hneg. cbn [negb]. unfold fail. eexists. reflexivity.
Qed.

Theorem fractional_count_is_error : forall w p (s : str),
  dis_integer p = false ->
  exists e, string_part_func w [RNum p] (VStr false s) = Err e.
Proof.
  intros w p s Hint. unfold string_part_func.
  rewrite params_first_number_single. cbn [bind].
  rewrite Hint. cbn [negb]. unfold fail. eexists. reflexivity.
Qed.

(** ** No slice-bounds panic, for any parameter list and any value *)

Theorem string_part_func_never_panics : forall w ps val m,
  (forall s, val = VStr false s -> Z.of_nat (length s) < 2 ^ 63) ->
  string_part_func w ps val <> Panic m.
Proof.
  intros w ps val m Hlen.
  destruct (params_first_number ps) as [p|e|m'| |why] eqn:Hps.
  - destruct (dis_integer p) eqn:Hint.
    + destruct (dis_neg p) eqn:Hneg.
      * unfold string_part_func. rewrite Hps. cbn [bind].
        rewrite Hint, Hneg. cbn [negb]. unfold fail. discriminate.
      * destruct val as [ |nm b|k nm z|i32 nm f|nm s|d|t|t nl xs|t xs|kt vt nl kvs|fs|nl|nl];
          try (unfold string_part_func; rewrite Hps; cbn [bind];
               rewrite Hint, Hneg; cbn [negb]; unfold fail; discriminate).
        destruct nm;
          try (unfold string_part_func; rewrite Hps; cbn [bind];
               rewrite Hint, Hneg; cbn [negb]; unfold fail; discriminate).
        specialize (Hlen s eq_refl).
        pose proof (clamp_range p (Z.of_nat (length s)) Hneg
                      (conj (Nat2Z.is_nonneg (length s)) Hlen)) as Hr.
        remember (int_part (if dgt p (mkDec (Z.of_nat (length s)) 0)
                            then mkDec (Z.of_nat (length s)) 0 else p)) as i eqn:Hi.
        rewrite (string_part_func_core w ps p s (Z.to_nat i) Hps Hint Hneg).
        -- discriminate.
        -- rewrite <- Hi. rewrite Z2Nat.id by lia. reflexivity.
        -- lia.
    + unfold string_part_func. rewrite Hps. cbn [bind].
      rewrite Hint. cbn [negb]. unfold fail. discriminate.
  - unfold string_part_func. rewrite Hps. cbn [bind]. discriminate.
  - exfalso. exact (params_first_number_no_panic ps m' Hps).
  - unfold string_part_func. rewrite Hps. cbn [bind]. discriminate.
  - unfold string_part_func. rewrite Hps. cbn [bind]. discriminate.
Qed.

(** For a non-negative integral count of ANY magnitude and exponent the result
    is one of the four parts with an effective count between 0 and the length. *)
Theorem string_part_func_total : forall w ps p (s : str),
  params_first_number ps = Ok p ->
  dis_integer p = true -> dis_neg p = false ->
  Z.of_nat (length s) < 2 ^ 63 ->
  exists k, (k <= length s)%nat /\
    string_part_func w ps (VStr false s) = Ok (VStr false (part w k s)).
Proof.
  intros w ps p s Hps Hint Hneg Hlen.
  pose proof (clamp_range p (Z.of_nat (length s)) Hneg
                (conj (Nat2Z.is_nonneg (length s)) Hlen)) as Hr.
  remember (int_part (if dgt p (mkDec (Z.of_nat (length s)) 0)
                      then mkDec (Z.of_nat (length s)) 0 else p)) as i eqn:Hi.
  exists (Z.to_nat i). split; [lia|].
  apply (string_part_func_core w ps p s (Z.to_nat i) Hps Hint Hneg).
  - rewrite <- Hi. rewrite Z2Nat.id by lia. reflexivity.
  - lia.
Qed.

(* ------------------------------------------------------------------ *)
(** * Assumption audit                                                  *)
(* ------------------------------------------------------------------ *)
Print Assumptions has_prefix_iff.
Print Assumptions has_suffix_iff.
Print Assumptions contains_iff.
Print Assumptions params_first_string_single.
Print Assumptions string_bool_func_spec.
Print Assumptions negation_exact.
Print Assumptions contains_func_true_iff.
Print Assumptions not_contains_func_true_iff.
Print Assumptions prefix_func_true_iff.
Print Assumptions suffix_func_true_iff.
Print Assumptions replace_all_fuel_enough.
Print Assumptions replace_all_nil.
Print Assumptions replace_all_no_occurrence.
Print Assumptions replace_all_first.
Print Assumptions replace_all_first_contains.
Print Assumptions func_replace_all_spec.
Print Assumptions left_spec.
Print Assumptions right_spec.
Print Assumptions trim_left_spec.
Print Assumptions trim_right_spec.
Print Assumptions left_spec_gen.
Print Assumptions right_spec_gen.
Print Assumptions trim_left_spec_gen.
Print Assumptions trim_right_spec_gen.
Print Assumptions negative_count_is_error.
Print Assumptions fractional_count_is_error.
Print Assumptions string_part_func_never_panics.
Print Assumptions string_part_func_total.
