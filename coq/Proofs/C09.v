(* Proofs/C09.v — Sprint output parses again: what survives and what does not.

   1.  struct_eq: equality of operation trees up to the userString fields and
       the invalid / must_end flags; evaluation does not see the difference
       (C09_same_result, C09_same_result_top).
   2.  String literals.  (a) the generated escape / unescape tables are
       mutually inverse rule by rule (C09_escape_unescape_tables); (b) escape
       and unescape are single passes independent of the rule order (Go
       iterates over a map): C09_escape_order_independent,
       C09_unescape_order_independent; unescape (escape v) = v on clean
       strings (C09_unescape_escape, ..._any_order), on the larger class
       wclean (C09_unescape_escape_weak) and on every value unescape can
       produce (C09_unescape_escape_on_image); (c) the printed literal is one
       string token whose value is v (C09_literal_lex, C09_literal_roundtrip,
       lit_ok_ascii, lit_ok_utf8); (d,e) complete statement for every string
       token the scanner accepts, any UTF-8 content
       (C09_string_token_roundtrip).
   3.  Numeric literals: numeral (dec_to_string d) = NumOk d for canonical d
       within the 15-digit window (C09_number_roundtrip).
   4.  `?` marks (C09_key_roundtrip).
   5/6. Reparse, fixed point and userString for key-only paths
       (C09_keypath_reparse, C09_keypath_struct_eq, C09_keypath_userstring)
       and for paths of keys and calls of known functions with literal
       arguments (C09_litfunc_reparse, C09_litfunc_userstring).
   Findings (_refuted examples) at the end: path / group arguments are printed
   with their userString, which glues tokens together.

   No axioms; Print Assumptions for every C09_* statement at the end. *)
From Coq Require Import Permutation.
From Coq Require DecimalString DecimalPos DecimalFacts.
From Mpath.Model Require Import Base Dec Types GoVal Ast Lexer Parser Printer Funcs Eval.
From Mpath.Generated Require Import FuncTable Escapes Runes.

Local Open Scope Z_scope.

(* ================================================================== *)
(** * 1. Structural equality and evaluation                            *)
(* ================================================================== *)

(** Equal up to: every [us]; [invalid] of Path / Func / LogOp; [must_end] of
    Path.  Everything else — root flag, is_filter flags, keys and their `?`
    marks, function keys, parameters (numbers by Leibniz equality of [dec]),
    group types, nesting, order — must coincide. *)
Inductive struct_eq_path : path -> path -> Prop :=
| SE_Path : forall inv inv' root isf me me' ops ops' us us',
    Forall2 struct_eq_pathop ops ops' ->
    struct_eq_path (Path inv root isf me ops us) (Path inv' root isf me' ops' us')
with struct_eq_pathop : pathop -> pathop -> Prop :=
| SE_Ident : forall name q us us', struct_eq_pathop (PIdent name q us) (PIdent name q us')
| SE_Filter : forall l l' us us', struct_eq_logop l l' -> struct_eq_pathop (PFilter l us) (PFilter l' us')
| SE_PFunc : forall f f', struct_eq_func f f' -> struct_eq_pathop (PFunc f) (PFunc f')
with struct_eq_func : func -> func -> Prop :=
| SE_Func : forall inv inv' ft ps ps' us us',
    Forall2 struct_eq_param ps ps' ->
    struct_eq_func (Func inv ft ps us) (Func inv' ft ps' us')
with struct_eq_param : param -> param -> Prop :=
| SE_Num : forall d, struct_eq_param (FPNum d) (FPNum d)
| SE_Str : forall s, struct_eq_param (FPStr s) (FPStr s)
| SE_Bool : forall b, struct_eq_param (FPBool b) (FPBool b)
| SE_FPPath : forall p p', struct_eq_path p p' -> struct_eq_param (FPPath p) (FPPath p')
| SE_FPLog : forall l l', struct_eq_logop l l' -> struct_eq_param (FPLog l) (FPLog l')
with struct_eq_logop : logop -> logop -> Prop :=
| SE_LogOp : forall inv inv' isf t xs xs' us us',
    Forall2 struct_eq_operand xs xs' ->
    struct_eq_logop (LogOp inv isf t xs us) (LogOp inv' isf t xs' us')
with struct_eq_operand : operand -> operand -> Prop :=
| SE_OpP : forall p p', struct_eq_path p p' -> struct_eq_operand (OpP p) (OpP p')
| SE_OpL : forall l l', struct_eq_logop l l' -> struct_eq_operand (OpL l) (OpL l').

Inductive struct_eq_top : top -> top -> Prop :=
| SE_TopP : forall p p', struct_eq_path p p' -> struct_eq_top (TopP p) (TopP p')
| SE_TopL : forall l l', struct_eq_logop l l' -> struct_eq_top (TopL l) (TopL l').

Inductive struct_eq_node : node -> node -> Prop :=
| SE_NPath : forall p p', struct_eq_path p p' -> struct_eq_node (NPath p) (NPath p')
| SE_NOp : forall o o', struct_eq_pathop o o' -> struct_eq_node (NOp o) (NOp o')
| SE_NFunc : forall f f', struct_eq_func f f' -> struct_eq_node (NFunc f) (NFunc f')
| SE_NLog : forall l l', struct_eq_logop l l' -> struct_eq_node (NLog l) (NLog l')
| SE_NTop : forall t t', struct_eq_top t t' -> struct_eq_node (NTop t) (NTop t').

Definition struct_eq := struct_eq_top.

(** ** struct_eq is an equivalence (reflexivity needs a size measure because
    the trees nest through lists). *)
Fixpoint size_path (p : path) : nat :=
  match p with Path _ _ _ _ ops _ => S (fold_right (fun o n => (size_pathop o + n)%nat) O ops) end
with size_pathop (o : pathop) : nat :=
  match o with PIdent _ _ _ => 1%nat | PFilter l _ => S (size_logop l) | PFunc f => S (size_func f) end
with size_func (f : func) : nat :=
  match f with Func _ _ ps _ => S (fold_right (fun p n => (size_param p + n)%nat) O ps) end
with size_param (p : param) : nat :=
  match p with FPPath q => S (size_path q) | FPLog l => S (size_logop l) | _ => 1%nat end
with size_logop (l : logop) : nat :=
  match l with LogOp _ _ _ xs _ => S (fold_right (fun x n => (size_operand x + n)%nat) O xs) end
with size_operand (x : operand) : nat :=
  match x with OpP p => S (size_path p) | OpL l => S (size_logop l) end.

Lemma Forall2_refl_bounded {A} (R : A -> A -> Prop) (sz : A -> nat) (n : nat) (l : list A) :
  (forall x, (sz x < n)%nat -> R x x) ->
  (fold_right (fun x m => (sz x + m)%nat) O l < n)%nat ->
  Forall2 R l l.
Proof.
  intros HR. induction l as [|x l IH]; intros Hlt; constructor; cbn [fold_right] in Hlt.
  - apply HR. lia.
  - apply IH. lia.
Qed.

Lemma struct_eq_refl_bounded : forall n,
  (forall p, (size_path p < n)%nat -> struct_eq_path p p) /\
  (forall o, (size_pathop o < n)%nat -> struct_eq_pathop o o) /\
  (forall f, (size_func f < n)%nat -> struct_eq_func f f) /\
  (forall p, (size_param p < n)%nat -> struct_eq_param p p) /\
  (forall l, (size_logop l < n)%nat -> struct_eq_logop l l) /\
  (forall x, (size_operand x < n)%nat -> struct_eq_operand x x).
Proof.
  induction n as [|n IH]; [repeat split; intros; lia|].
  destruct IH as (IHp & IHo & IHf & IHa & IHl & IHx).
  repeat split.
  - intros [inv root isf me ops us] Hs. cbn [size_path] in Hs. constructor.
    eapply Forall2_refl_bounded; [exact IHo|]. lia.
  - intros [name q us|l us|f] Hs; cbn [size_pathop] in Hs; constructor.
    + apply IHl. lia.
    + apply IHf. lia.
  - intros [inv ft ps us] Hs. cbn [size_func] in Hs. constructor.
    eapply Forall2_refl_bounded; [exact IHa|]. lia.
  - intros [d|s|b|q|l] Hs; cbn [size_param] in Hs; constructor.
    + apply IHp. lia.
    + apply IHl. lia.
  - intros [inv isf t xs us] Hs. cbn [size_logop] in Hs. constructor.
    eapply Forall2_refl_bounded; [exact IHx|]. lia.
  - intros [p|l] Hs; cbn [size_operand] in Hs; constructor.
    + apply IHp. lia.
    + apply IHl. lia.
Qed.

Lemma struct_eq_path_refl p : struct_eq_path p p.
Proof. apply (proj1 (struct_eq_refl_bounded (S (size_path p)))). lia. Qed.
Lemma struct_eq_logop_refl l : struct_eq_logop l l.
Proof. apply (proj1 (proj2 (proj2 (proj2 (proj2 (struct_eq_refl_bounded (S (size_logop l)))))))). lia. Qed.
Theorem C09_struct_eq_refl t : struct_eq t t.
Proof. destruct t; constructor; [apply struct_eq_path_refl|apply struct_eq_logop_refl]. Qed.

(** ** The evaluator's list helpers respect pointwise-equal evaluators *)
Lemma se_pathop_qmark o o' : struct_eq_pathop o o' -> pathop_qmark o = pathop_qmark o'.
Proof. intros H; inversion H; reflexivity. Qed.
Lemma se_pathop_is_func o o' : struct_eq_pathop o o' -> pathop_is_func o = pathop_is_func o'.
Proof. intros H; inversion H; reflexivity. Qed.

Definition prev_rel (a b : option pathop) : Prop :=
  match a, b with
  | Some o, Some o' => pathop_qmark o = pathop_qmark o'
  | None, None => True
  | _, _ => False
  end.

Lemma path_ops_se (ev ev' : pathop -> gv -> outcome gv) :
  (forall o o' d, struct_eq_pathop o o' -> ev o d = ev' o' d) ->
  forall ops ops', Forall2 struct_eq_pathop ops ops' ->
  forall prev prev' pn data le, prev_rel prev prev' ->
    path_ops ev prev pn ops data le = path_ops ev' prev' pn ops' data le.
Proof.
  intros Hev ops ops' HF. induction HF as [|o o' ops ops' Ho HF IH]; intros prev prev' pn data le Hp.
  - reflexivity.
  - cbn [path_ops].
    assert (Hb : match prev with Some p => pn && negb (pathop_qmark p) && negb (pathop_is_func o) | None => false end
               = match prev' with Some p => pn && negb (pathop_qmark p) && negb (pathop_is_func o') | None => false end).
    { destruct prev as [p|], prev' as [p'|]; cbn [prev_rel] in Hp; try contradiction; [|reflexivity].
      rewrite Hp, (se_pathop_is_func _ _ Ho). reflexivity. }
    rewrite Hb, (Hev o o' data Ho), (se_pathop_qmark _ _ Ho).
    destruct (match prev' with Some p => pn && negb (pathop_qmark p) && negb (pathop_is_func o') | None => false end); [reflexivity|].
    assert (Hp' : prev_rel (Some o) (Some o')) by (exact (se_pathop_qmark _ _ Ho)).
    destruct (ev' o' data) as [v|e|m| |w]; try reflexivity.
    + apply IH. exact Hp'.
    + destruct e; [|reflexivity]. destruct (pathop_qmark o'); [|reflexivity]. apply IH. exact Hp'.
Qed.

Lemma log_ops_se (ev ev' : operand -> outcome gv) :
  (forall x x', struct_eq_operand x x' -> ev x = ev' x') ->
  forall t xs xs', Forall2 struct_eq_operand xs xs' -> log_ops ev t xs = log_ops ev' t xs'.
Proof.
  intros Hev t xs xs' HF. induction HF as [|x x' xs xs' Hx HF IH]; [reflexivity|].
  cbn [log_ops]. rewrite (Hev x x' Hx), IH. reflexivity.
Qed.

Lemma filter_elems_ext (ev ev' : gv -> outcome gv) :
  (forall x, ev x = ev' x) -> forall xs, filter_elems ev xs = filter_elems ev' xs.
Proof.
  intros Hev xs. induction xs as [|x xs IH]; [reflexivity|].
  cbn [filter_elems]. rewrite (Hev x), IH. reflexivity.
Qed.

Lemma eval_params_se (ev : node -> outcome gv) :
  (forall m m', struct_eq_node m m' -> ev m = ev m') ->
  forall ps ps', Forall2 struct_eq_param ps ps' -> eval_params ev ps = eval_params ev ps'.
Proof.
  intros Hev ps ps' HF. induction HF as [|p p' ps ps' Hp HF IH]; [reflexivity|].
  cbn [eval_params]. rewrite IH.
  destruct Hp as [d|s|b|q q' Hq|l l' Hl]; try reflexivity.
  - rewrite (Hev (NPath q) (NPath q')) by (constructor; exact Hq). reflexivity.
  - rewrite (Hev (NLog l) (NLog l')) by (constructor; exact Hl). reflexivity.
Qed.

(** ** C09_same_result *)
Theorem C09_same_result : forall uni eng fuel n n' cur orig,
  struct_eq_node n n' -> eval uni eng fuel n cur orig = eval uni eng fuel n' cur orig.
Proof.
  intros uni eng. induction fuel as [|k IH]; intros n n' cur orig Hn; [reflexivity|].
  destruct Hn as [p p' Hp|o o' Ho|f f' Hf|l l' Hl|t t' Ht].
  - destruct Hp as [inv inv' root isf me me' ops ops' us us' Hops].
    cbn [eval].
    destruct (root && isf); [reflexivity|].
    assert (Hd : match ops with [] => convert_unless_string (if root then orig else cur) | _ => if root then orig else cur end
               = match ops' with [] => convert_unless_string (if root then orig else cur) | _ => if root then orig else cur end).
    { destruct Hops; reflexivity. }
    rewrite Hd.
    apply path_ops_se; [|exact Hops|exact I].
    intros o o' d Ho. apply IH. constructor. exact Ho.
  - destruct Ho as [name q us us'|l l' us us' Hl|f f' Hf]; cbn [eval].
    + reflexivity.
    + destruct (get_as_struct_or_slice cur) as [[val [|]]|]; [| |reflexivity].
      * rewrite (IH (NLog l) (NLog l') val orig) by (constructor; exact Hl). reflexivity.
      * destruct val; try reflexivity.
        rewrite (filter_elems_ext (fun x => eval uni eng k (NLog l) x orig) (fun x => eval uni eng k (NLog l') x orig));
          [reflexivity|].
        intros x. apply IH. constructor. exact Hl.
    + apply IH. constructor. exact Hf.
  - destruct Hf as [inv inv' ft ps ps' us us' Hps]. cbn [eval].
    rewrite (eval_params_se (fun m => eval uni eng k m cur orig)) with (ps' := ps');
      [reflexivity| |exact Hps].
    intros m m' Hm. apply IH. exact Hm.
  - destruct Hl as [inv inv' isf t xs xs' us us' Hxs]. cbn [eval].
    apply log_ops_se; [|exact Hxs].
    intros x x' Hx. destruct Hx as [p p' Hp|l l' Hl]; apply IH; constructor; assumption.
  - destruct Ht as [p p' Hp|l l' Hl]; cbn [eval]; apply IH; constructor; assumption.
Qed.

(** The same, for whole operations as Do runs them. *)
Corollary C09_same_result_top : forall uni eng t t' data,
  struct_eq t t' -> do_top uni eng t data = do_top uni eng t' data.
Proof.
  intros uni eng t t' data Ht. unfold do_top. apply C09_same_result. constructor. exact Ht.
Qed.

(* ================================================================== *)
(** * 2. String literals: escape / unescape                            *)
(* ================================================================== *)

(** ** Small tools *)
Lemma str_eqb_eq : forall a b : str, str_eqb a b = true <-> a = b.
Proof.
  induction a as [|x a IH]; intros [|y b]; cbn [str_eqb]; split; intros H; try discriminate; try reflexivity.
  - apply andb_true_iff in H. destruct H as [H1 H2].
    apply Ascii.eqb_eq in H1. apply IH in H2. subst. reflexivity.
  - injection H as -> ->. apply andb_true_iff. split; [apply Ascii.eqb_refl|apply IH; reflexivity].
Qed.

Lemma str_eqb_refl (a : str) : str_eqb a a = true.
Proof. apply str_eqb_eq. reflexivity. Qed.

Lemma str_mem_In : forall (x : str) l, str_mem x l = true <-> In x l.
Proof.
  intros x l. induction l as [|y l IH]; cbn [str_mem In]; [split; [discriminate|tauto]|].
  rewrite orb_true_iff, str_eqb_eq, IH. split; intros [H|H]; auto.
Qed.

Fixpoint nodup_b (l : list str) : bool :=
  match l with [] => true | x :: l' => negb (str_mem x l') && nodup_b l' end.

Lemma nodup_b_sound l : nodup_b l = true -> NoDup l.
Proof.
  induction l as [|x l IH]; cbn [nodup_b]; intros H; constructor;
    apply andb_true_iff in H; destruct H as [H1 H2].
  - intros Hin. apply str_mem_In in Hin. rewrite Hin in H1. discriminate.
  - apply IH. exact H2.
Qed.

(** All 256 bytes: facts about one byte and the generated tables are decided
    by enumeration, so they are re-checked whenever the tables change. *)
Definition all_bytes : list ascii := map ascii_of_nat (seq 0 256).

Lemma all_bytes_complete (c : ascii) : In c all_bytes.
Proof.
  rewrite <- (ascii_nat_embedding c). apply in_map. apply in_seq.
  pose proof (nat_ascii_bounded c). lia.
Qed.

Lemma forall_bytes (P : ascii -> bool) : forallb P all_bytes = true -> forall c, P c = true.
Proof. intros H c. exact (proj1 (forallb_forall P all_bytes) H c (all_bytes_complete c)). Qed.

Definition bslash : ascii := Eval compute in chr 92.
Definition dquote : ascii := Eval compute in chr 34.
Definition lfchar : ascii := Eval compute in chr 10.

(** ** replace_all: unfolding (the definitional fuel never runs out) *)
Lemma c9_replace_all_fuel_S : forall k c (s f r : str),
  replace_all_fuel (S k) (c :: s) f r
  = if has_prefix (c :: s) f
    then r ++ replace_all_fuel k (skipn (length f) (c :: s)) f r
    else c :: replace_all_fuel k s f r.
Proof. reflexivity. Qed.

Lemma c9_replace_all_fuel_enough : forall f r : str, f <> [] ->
  forall (k1 k2 : nat) (s : str),
    (length s < k1)%nat -> (length s < k2)%nat ->
    replace_all_fuel k1 s f r = replace_all_fuel k2 s f r.
Proof.
  intros f r Hf. induction k1 as [|k1 IH]; intros k2 s H1 H2; [lia|].
  destruct k2 as [|k2]; [lia|].
  destruct s as [|c s]; [reflexivity|].
  rewrite !c9_replace_all_fuel_S.
  assert (Hsk : (length (skipn (length f) (c :: s)) < length (c :: s))%nat).
  { rewrite skipn_length. destruct f as [|d f]; [congruence|]. cbn [length]. lia. }
  cbn [length] in H1, H2, Hsk.
  destruct (has_prefix (c :: s) f).
  - f_equal. apply IH; lia.
  - f_equal. apply IH; lia.
Qed.

Lemma c9_replace_all_cons : forall (f r : str) c (s : str), f <> [] ->
  replace_all (c :: s) f r
  = if has_prefix (c :: s) f
    then r ++ replace_all (skipn (length f) (c :: s)) f r
    else c :: replace_all s f r.
Proof.
  intros f r c s Hf. unfold replace_all.
  change (S (length (c :: s))) with (S (S (length s))).
  rewrite c9_replace_all_fuel_S.
  assert (Hsk : (length (skipn (length f) (c :: s)) < length (c :: s))%nat).
  { rewrite skipn_length. destruct f as [|d f]; [congruence|]. cbn [length]. lia. }
  cbn [length] in Hsk.
  destruct (has_prefix (c :: s) f).
  - f_equal. apply c9_replace_all_fuel_enough; [exact Hf|lia|lia].
  - reflexivity.
Qed.

Lemma c9_has_prefix_nil (s : str) : has_prefix s [] = true.
Proof. destruct s; reflexivity. Qed.

(** one single-byte rule = a byte-wise substitution *)
Lemma replace_all_byte (x : ascii) (t s : str) :
  replace_all s [x] t = flat_map (fun c => if Ascii.eqb c x then t else [c]) s.
Proof.
  induction s as [|c s IH]; [reflexivity|].
  rewrite c9_replace_all_cons by discriminate.
  cbn [has_prefix length skipn flat_map]. rewrite c9_has_prefix_nil, andb_true_r.
  rewrite (Ascii.eqb_sym c x).
  destruct (Ascii.eqb x c); rewrite IH; reflexivity.
Qed.

(** one two-byte rule [b; x] -> [y]: a left-to-right pass *)
Fixpoint unesc_pass (f : ascii -> option ascii) (s : str) : str :=
  match s with
  | [] => []
  | c :: s' =>
    match s' with
    | [] => [c]
    | d :: s'' =>
      if Ascii.eqb c bslash then
        match f d with
        | Some y => y :: unesc_pass f s''
        | None => c :: unesc_pass f s'
        end
      else c :: unesc_pass f s'
    end
  end.

Definition one_rule (x y : ascii) (d : ascii) : option ascii :=
  if Ascii.eqb d x then Some y else None.

Lemma replace_all_two (x y : ascii) : forall n (s : str), (length s <= n)%nat ->
  replace_all s [bslash; x] [y] = unesc_pass (one_rule x y) s.
Proof.
  induction n as [|n IH]; intros s Hn.
  - destruct s; [reflexivity|cbn [length] in Hn; lia].
  - destruct s as [|c s']; [reflexivity|].
    rewrite c9_replace_all_cons by discriminate.
    destruct s' as [|d s''].
    + cbn [has_prefix unesc_pass]. rewrite andb_false_r. reflexivity.
    + cbn [length] in Hn.
      cbn [has_prefix length skipn unesc_pass]. rewrite c9_has_prefix_nil, andb_true_r.
      unfold one_rule at 1. rewrite (Ascii.eqb_sym c bslash), (Ascii.eqb_sym d x).
      destruct (Ascii.eqb bslash c); cbn [andb].
      * destruct (Ascii.eqb x d).
        -- cbn [app]. f_equal. apply IH. lia.
        -- f_equal. apply IH. cbn [length]. lia.
      * f_equal. apply IH. cbn [length]. lia.
Qed.

Lemma pass_cons_nb f c (r : str) : Ascii.eqb c bslash = false ->
  unesc_pass f (c :: r) = c :: unesc_pass f r.
Proof. intros H. destruct r as [|d r]; [reflexivity|]. cbn [unesc_pass]. rewrite H. reflexivity. Qed.

Lemma pass_bs_none f (r : str) :
  match r with e :: _ => f e = None | [] => True end ->
  unesc_pass f (bslash :: r) = bslash :: unesc_pass f r.
Proof.
  intros H. destruct r as [|e r]; [reflexivity|].
  cbn [unesc_pass]. rewrite H. reflexivity.
Qed.

Lemma pass_bs_some f e y (r : str) : f e = Some y ->
  unesc_pass f (bslash :: e :: r) = y :: unesc_pass f r.
Proof. intros H. cbn [unesc_pass]. rewrite H. reflexivity. Qed.

(** the head of a one-rule pass is the produced byte or the old head *)
Lemma pass_one_head x y (s : str) :
  match unesc_pass (one_rule x y) s with
  | e :: _ => e = y \/ exists s', s = e :: s'
  | [] => True
  end.
Proof.
  destruct s as [|c [|d s'']]; [exact I|right; eexists; reflexivity|].
  cbn [unesc_pass]. destruct (Ascii.eqb c bslash).
  - unfold one_rule. destruct (Ascii.eqb d x); [left; reflexivity|right; eexists; reflexivity].
  - right; eexists; reflexivity.
Qed.

(** adding one rule in front of a pass, when its product is not consumed by
    the other rules *)
Lemma pass_compose (f : ascii -> option ascii) (x y : ascii) :
  Ascii.eqb y bslash = false -> f y = None -> f bslash = None ->
  forall n (s : str), (length s <= n)%nat ->
    unesc_pass f (unesc_pass (one_rule x y) s)
    = unesc_pass (fun d => if Ascii.eqb d x then Some y else f d) s.
Proof.
  intros Hyb Hfy Hfb. induction n as [|n IH]; intros s Hn.
  - destruct s; [reflexivity|cbn [length] in Hn; lia].
  - destruct s as [|c [|d s'']]; [reflexivity|reflexivity|].
    cbn [length] in Hn.
    destruct (Ascii.eqb c bslash) eqn:Hc.
    + apply Ascii.eqb_eq in Hc. subst c.
      destruct (Ascii.eqb d x) eqn:Hdx.
      * rewrite (pass_bs_some (one_rule x y) d y) by (unfold one_rule; rewrite Hdx; reflexivity).
        rewrite (pass_bs_some _ d y) by (rewrite Hdx; reflexivity).
        rewrite pass_cons_nb by exact Hyb. f_equal. apply IH. lia.
      * rewrite (pass_bs_none (one_rule x y)) by (unfold one_rule; rewrite Hdx; reflexivity).
        destruct (f d) as [y'|] eqn:Hfd.
        -- assert (Hdb : Ascii.eqb d bslash = false).
           { destruct (Ascii.eqb d bslash) eqn:E; [|reflexivity].
             apply Ascii.eqb_eq in E. subst d. rewrite Hfb in Hfd. discriminate. }
           rewrite (pass_cons_nb (one_rule x y)) by exact Hdb.
           rewrite (pass_bs_some f d y') by exact Hfd.
           rewrite (pass_bs_some _ d y') by (rewrite Hdx; exact Hfd).
           f_equal. apply IH. lia.
        -- rewrite (pass_bs_none f).
           ++ rewrite (pass_bs_none _ (d :: s'')) by (rewrite Hdx; exact Hfd).
              f_equal. apply IH. cbn [length]. lia.
           ++ pose proof (pass_one_head x y (d :: s'')) as Hh.
              destruct (unesc_pass (one_rule x y) (d :: s'')) as [|e r]; [exact I|].
              destruct Hh as [->|[s' Hs']]; [exact Hfy|].
              injection Hs' as <- _. exact Hfd.
    + rewrite (pass_cons_nb (one_rule x y)) by exact Hc.
      rewrite pass_cons_nb by exact Hc.
      rewrite (pass_cons_nb _ c) by exact Hc.
      f_equal. apply IH. cbn [length]. lia.
Qed.

(** ** Tables: lookup, well-formedness (stable under permutation) *)
Definition key_is (k : str) (r : str * str) : bool := str_eqb (fst r) k.

Lemma find_key_iff (tbl : list (str * str)) : NoDup (map fst tbl) ->
  forall k r, find (key_is k) tbl = Some r <-> In r tbl /\ fst r = k.
Proof.
  intros Hnd k r. split.
  - intros H. apply find_some in H. destruct H as [H1 H2]. split; [exact H1|].
    apply str_eqb_eq. exact H2.
  - induction tbl as [|r0 tbl IH]; intros [Hin Hk]; [contradiction|].
    cbn [find]. inversion Hnd as [|? ? Hnotin Hnd']; subst.
    destruct Hin as [->|Hin].
    + unfold key_is at 1. rewrite str_eqb_refl. reflexivity.
    + unfold key_is at 1. destruct (str_eqb (fst r0) (fst r)) eqn:E.
      * apply str_eqb_eq in E. exfalso. apply Hnotin. rewrite E. apply in_map. exact Hin.
      * apply IH; [exact Hnd'|split; [exact Hin|reflexivity]].
Qed.

Lemma find_key_perm (tbl tbl' : list (str * str)) :
  NoDup (map fst tbl) -> Permutation tbl tbl' ->
  forall k, find (key_is k) tbl' = find (key_is k) tbl.
Proof.
  intros Hnd Hp k.
  assert (Hnd' : NoDup (map fst tbl')).
  { eapply Permutation_NoDup; [apply Permutation_map; exact Hp|exact Hnd]. }
  destruct (find (key_is k) tbl) as [r|] eqn:E.
  - apply (find_key_iff tbl Hnd) in E. destruct E as [Hin Hk].
    apply (find_key_iff tbl' Hnd'). split; [|exact Hk].
    eapply Permutation_in; [exact Hp|exact Hin].
  - destruct (find (key_is k) tbl') as [r'|] eqn:E'; [|reflexivity].
    apply (find_key_iff tbl' Hnd') in E'. destruct E' as [Hin Hk].
    apply (Permutation_in _ (Permutation_sym Hp)) in Hin.
    pose proof (find_none _ _ E _ Hin) as Hf. unfold key_is in Hf.
    rewrite Hk, str_eqb_refl in Hf. discriminate.
Qed.

(** *** escape-like tables: single byte -> string *)
Definition esc_shape (r : str * str) : bool :=
  match fst r with [_] => true | _ => false end.
Definition esc_compat (r r' : str * str) : bool :=
  str_eqb (fst r) (fst r') ||
  match fst r' with [x'] => negb (existsb (Ascii.eqb x') (snd r)) | _ => true end.

Record esc_wf (tbl : list (str * str)) : Prop := {
  esc_wf_shape : forall r, In r tbl -> esc_shape r = true;
  esc_wf_nodup : NoDup (map fst tbl);
  esc_wf_compat : forall r r', In r tbl -> In r' tbl -> esc_compat r r' = true }.

Definition esc_wf_b (tbl : list (str * str)) : bool :=
  forallb esc_shape tbl && nodup_b (map fst tbl) &&
  forallb (fun r => forallb (esc_compat r) tbl) tbl.

Lemma esc_wf_b_sound tbl : esc_wf_b tbl = true -> esc_wf tbl.
Proof.
  unfold esc_wf_b. intros H. apply andb_true_iff in H. destruct H as [H H3].
  apply andb_true_iff in H. destruct H as [H1 H2]. constructor.
  - exact (proj1 (forallb_forall _ _) H1).
  - apply nodup_b_sound. exact H2.
  - intros r r' Hr Hr'.
    exact (proj1 (forallb_forall _ _) (proj1 (forallb_forall _ _) H3 r Hr) r' Hr').
Qed.

Lemma esc_wf_perm tbl tbl' : Permutation tbl tbl' -> esc_wf tbl -> esc_wf tbl'.
Proof.
  intros Hp [H1 H2 H3]. pose proof (Permutation_sym Hp) as Hp'. constructor.
  - intros r Hr. apply H1. eapply Permutation_in; eassumption.
  - eapply Permutation_NoDup; [apply Permutation_map; exact Hp|exact H2].
  - intros r r' Hr Hr'. apply H3; eapply Permutation_in; eassumption.
Qed.

Lemma esc_wf_tail r tbl : esc_wf (r :: tbl) -> esc_wf tbl.
Proof.
  intros [H1 H2 H3]. constructor.
  - intros r0 Hr0. apply H1. right. exact Hr0.
  - cbn [map] in H2. inversion H2; assumption.
  - intros r0 r' Hr0 Hr'. apply H3; right; assumption.
Qed.

Definition esc_char (tbl : list (str * str)) (c : ascii) : str :=
  match find (key_is [c]) tbl with Some r => snd r | None => [c] end.

Theorem escape_like_bytewise : forall tbl, esc_wf tbl ->
  forall s, apply_replacements tbl s = flat_map (esc_char tbl) s.
Proof.
  induction tbl as [|r tbl IH]; intros Hwf s.
  - cbn [apply_replacements fold_left]. unfold esc_char. cbn [find].
    induction s as [|c s IHs]; [reflexivity|]. cbn [flat_map app]. rewrite <- IHs. reflexivity.
  - pose proof (esc_wf_tail _ _ Hwf) as Hwf'.
    destruct r as [o t].
    unfold apply_replacements. cbn [fold_left].
    change (fold_left (fun acc '(o0, n) => replace_all acc o0 n) tbl (replace_all s o t))
      with (apply_replacements tbl (replace_all s o t)).
    rewrite (IH Hwf').
    pose proof (esc_wf_shape _ Hwf (o, t) (or_introl eq_refl)) as Hsh.
    unfold esc_shape in Hsh. cbn [fst] in Hsh.
    destruct o as [|x [|? ?]]; try discriminate. clear Hsh.
    rewrite replace_all_byte.
    (* no byte of t is a source of a later rule *)
    assert (Ht : flat_map (esc_char tbl) t = t).
    { assert (Hall : forall x', In x' t -> esc_char tbl x' = [x']).
      { intros x' Hx'. unfold esc_char.
        destruct (find (key_is [x']) tbl) as [r'|] eqn:E; [exfalso|reflexivity].
        apply (find_key_iff tbl (esc_wf_nodup _ Hwf')) in E. destruct E as [Hin Hk].
        pose proof (esc_wf_compat _ Hwf ([x], t) r' (or_introl eq_refl) (or_intror Hin)) as Hc.
        unfold esc_compat in Hc. cbn [fst snd] in Hc. rewrite Hk in Hc.
        apply orb_true_iff in Hc. destruct Hc as [Hc|Hc].
        - apply str_eqb_eq in Hc.
          pose proof (esc_wf_nodup _ Hwf) as Hnd. cbn [map fst] in Hnd.
          inversion Hnd as [|? ? Hnotin _]; subst. apply Hnotin.
          rewrite Hc, <- Hk. apply in_map. exact Hin.
        - apply negb_true_iff in Hc.
          assert (Hex : existsb (Ascii.eqb x') t = true).
          { apply existsb_exists. exists x'. split; [exact Hx'|apply Ascii.eqb_refl]. }
          rewrite Hex in Hc. discriminate. }
      clear - Hall. induction t as [|a t IHt]; [reflexivity|].
      cbn [flat_map]. rewrite (Hall a (or_introl eq_refl)). cbn [app]. f_equal.
      apply IHt. intros x' Hx'. apply Hall. right. exact Hx'. }
    induction s as [|c s IHs]; [reflexivity|].
    cbn [flat_map]. rewrite flat_map_app, IHs. f_equal.
    unfold esc_char at 2. cbn [find]. unfold key_is at 1. cbn [fst str_eqb].
    rewrite andb_true_r, (Ascii.eqb_sym x c).
    destruct (Ascii.eqb c x); [exact Ht|].
    cbn [flat_map]. rewrite app_nil_r. reflexivity.
Qed.

Lemma esc_char_perm tbl tbl' : esc_wf tbl -> Permutation tbl tbl' ->
  forall c, esc_char tbl' c = esc_char tbl c.
Proof.
  intros Hwf Hp c. unfold esc_char.
  rewrite (find_key_perm tbl tbl' (esc_wf_nodup _ Hwf) Hp). reflexivity.
Qed.

(** *** unescape-like tables: backslash + byte -> byte *)
Definition unesc_shape (r : str * str) : bool :=
  match fst r, snd r with
  | [b; x], [y] => Ascii.eqb b bslash && negb (Ascii.eqb x bslash) && negb (Ascii.eqb y bslash)
  | _, _ => false
  end.
Definition unesc_compat (r r' : str * str) : bool :=
  str_eqb (fst r) (fst r') ||
  match snd r, fst r' with [y], [_; x'] => negb (Ascii.eqb y x') | _, _ => true end.

Record unesc_wf (tbl : list (str * str)) : Prop := {
  unesc_wf_shape : forall r, In r tbl -> unesc_shape r = true;
  unesc_wf_nodup : NoDup (map fst tbl);
  unesc_wf_compat : forall r r', In r tbl -> In r' tbl -> unesc_compat r r' = true }.

Definition unesc_wf_b (tbl : list (str * str)) : bool :=
  forallb unesc_shape tbl && nodup_b (map fst tbl) &&
  forallb (fun r => forallb (unesc_compat r) tbl) tbl.

Lemma unesc_wf_b_sound tbl : unesc_wf_b tbl = true -> unesc_wf tbl.
Proof.
  unfold unesc_wf_b. intros H. apply andb_true_iff in H. destruct H as [H H3].
  apply andb_true_iff in H. destruct H as [H1 H2]. constructor.
  - exact (proj1 (forallb_forall _ _) H1).
  - apply nodup_b_sound. exact H2.
  - intros r r' Hr Hr'.
    exact (proj1 (forallb_forall _ _) (proj1 (forallb_forall _ _) H3 r Hr) r' Hr').
Qed.

Lemma unesc_wf_perm tbl tbl' : Permutation tbl tbl' -> unesc_wf tbl -> unesc_wf tbl'.
Proof.
  intros Hp [H1 H2 H3]. pose proof (Permutation_sym Hp) as Hp'. constructor.
  - intros r Hr. apply H1. eapply Permutation_in; eassumption.
  - eapply Permutation_NoDup; [apply Permutation_map; exact Hp|exact H2].
  - intros r r' Hr Hr'. apply H3; eapply Permutation_in; eassumption.
Qed.

Lemma unesc_wf_tail r tbl : unesc_wf (r :: tbl) -> unesc_wf tbl.
Proof.
  intros [H1 H2 H3]. constructor.
  - intros r0 Hr0. apply H1. right. exact Hr0.
  - cbn [map] in H2. inversion H2; assumption.
  - intros r0 r' Hr0 Hr'. apply H3; right; assumption.
Qed.

Definition unesc_look (tbl : list (str * str)) (d : ascii) : option ascii :=
  match find (key_is [bslash; d]) tbl with
  | Some r => match snd r with [y] => Some y | _ => None end
  | None => None
  end.

Lemma unesc_pass_ext_n f g : (forall d, f d = g d) ->
  forall n (s : str), (length s <= n)%nat -> unesc_pass f s = unesc_pass g s.
Proof.
  intros Hfg. induction n as [|n IH]; intros s Hn.
  - destruct s; [reflexivity|cbn [length] in Hn; lia].
  - destruct s as [|c [|d s'']]; [reflexivity|reflexivity|]. cbn [length] in Hn.
    destruct (Ascii.eqb c bslash) eqn:Hc.
    + apply Ascii.eqb_eq in Hc. subst c. destruct (f d) as [y|] eqn:Hfd.
      * rewrite (pass_bs_some f d y) by exact Hfd.
        rewrite (pass_bs_some g d y) by (rewrite <- Hfg; exact Hfd).
        f_equal. apply IH. lia.
      * rewrite (pass_bs_none f) by exact Hfd.
        rewrite (pass_bs_none g) by (rewrite <- Hfg; exact Hfd).
        f_equal. apply IH. cbn [length]. lia.
    + rewrite (pass_cons_nb f), (pass_cons_nb g) by exact Hc. f_equal. apply IH. cbn [length]. lia.
Qed.

Lemma unesc_pass_ext f g : (forall d, f d = g d) -> forall s, unesc_pass f s = unesc_pass g s.
Proof. intros Hfg s. exact (unesc_pass_ext_n f g Hfg (length s) s (le_n _)). Qed.

Lemma unesc_pass_none_n : forall n (s : str), (length s <= n)%nat -> unesc_pass (fun _ => None) s = s.
Proof.
  induction n as [|n IH]; intros s Hn.
  - destruct s; [reflexivity|cbn [length] in Hn; lia].
  - destruct s as [|c [|d s'']]; [reflexivity|reflexivity|]. cbn [length] in Hn.
    destruct (Ascii.eqb c bslash) eqn:Hc.
    + apply Ascii.eqb_eq in Hc. subst c.
      rewrite pass_bs_none by reflexivity. f_equal. apply IH. cbn [length]. lia.
    + rewrite pass_cons_nb by exact Hc. f_equal. apply IH. cbn [length]. lia.
Qed.

Lemma unesc_pass_none : forall s, unesc_pass (fun _ => None) s = s.
Proof. intros s. exact (unesc_pass_none_n (length s) s (le_n _)). Qed.

Theorem unescape_like_pass : forall tbl, unesc_wf tbl ->
  forall s, apply_replacements tbl s = unesc_pass (unesc_look tbl) s.
Proof.
  induction tbl as [|r tbl IH]; intros Hwf s.
  - cbn [apply_replacements fold_left]. symmetry. apply unesc_pass_none.
  - pose proof (unesc_wf_tail _ _ Hwf) as Hwf'.
    destruct r as [o t].
    unfold apply_replacements. cbn [fold_left].
    change (fold_left (fun acc '(o0, n) => replace_all acc o0 n) tbl (replace_all s o t))
      with (apply_replacements tbl (replace_all s o t)).
    rewrite (IH Hwf').
    pose proof (unesc_wf_shape _ Hwf (o, t) (or_introl eq_refl)) as Hsh.
    unfold unesc_shape in Hsh. cbn [fst snd] in Hsh.
    destruct o as [|b [|x [|? ?]]]; try discriminate.
    destruct t as [|y [|? ?]]; try discriminate.
    apply andb_true_iff in Hsh. destruct Hsh as [Hsh Hyb].
    apply andb_true_iff in Hsh. destruct Hsh as [Hb Hxb].
    apply Ascii.eqb_eq in Hb. subst b.
    apply negb_true_iff in Hyb. apply negb_true_iff in Hxb.
    rewrite (replace_all_two x y (length s) s (le_n _)).
    rewrite (pass_compose (unesc_look tbl) x y Hyb) with (n := length s); [| | |apply le_n].
    + apply unesc_pass_ext. intros d. unfold unesc_look at 2. cbn [find].
      unfold key_is at 1. cbn [fst str_eqb]. rewrite andb_true_r.
      cbn [Ascii.eqb]. rewrite Ascii.eqb_refl. cbn [andb].
      rewrite (Ascii.eqb_sym x d). destruct (Ascii.eqb d x); reflexivity.
    + (* the product y is not the second byte of a later rule *)
      unfold unesc_look.
      destruct (find (key_is [bslash; y]) tbl) as [r'|] eqn:E; [exfalso|reflexivity].
      apply (find_key_iff tbl (unesc_wf_nodup _ Hwf')) in E. destruct E as [Hin Hk].
      pose proof (unesc_wf_compat _ Hwf ([bslash; x], [y]) r' (or_introl eq_refl) (or_intror Hin)) as Hc.
      unfold unesc_compat in Hc. cbn [fst snd] in Hc. rewrite Hk in Hc.
      apply orb_true_iff in Hc. destruct Hc as [Hc|Hc].
      * apply str_eqb_eq in Hc.
        pose proof (unesc_wf_nodup _ Hwf) as Hnd. cbn [map fst] in Hnd.
        inversion Hnd as [|? ? Hnotin _]; subst. apply Hnotin.
        rewrite Hc, <- Hk. apply in_map. exact Hin.
      * rewrite Ascii.eqb_refl in Hc. discriminate.
    + (* no rule has the source backslash backslash *)
      unfold unesc_look.
      destruct (find (key_is [bslash; bslash]) tbl) as [r'|] eqn:E; [exfalso|reflexivity].
      apply (find_key_iff tbl (unesc_wf_nodup _ Hwf')) in E. destruct E as [Hin Hk].
      pose proof (unesc_wf_shape _ Hwf' r' Hin) as Hs'. unfold unesc_shape in Hs'. rewrite Hk in Hs'.
      destruct (snd r') as [|? [|? ?]]; cbn in Hs'; discriminate.
Qed.

Lemma unesc_look_perm tbl tbl' : unesc_wf tbl -> Permutation tbl tbl' ->
  forall d, unesc_look tbl' d = unesc_look tbl d.
Proof.
  intros Hwf Hp d. unfold unesc_look.
  rewrite (find_key_perm tbl tbl' (unesc_wf_nodup _ Hwf) Hp). reflexivity.
Qed.

(** ** The generated tables *)
Lemma escape_table_wf : esc_wf escape_table.
Proof. apply esc_wf_b_sound. vm_compute. reflexivity. Qed.

Lemma unescape_table_wf : unesc_wf unescape_table.
Proof. apply unesc_wf_b_sound. vm_compute. reflexivity. Qed.

Definition swap_rule (r : str * str) : str * str := (snd r, fst r).
Definition rule_eqb (r r' : str * str) : bool := str_eqb (fst r) (fst r') && str_eqb (snd r) (snd r').
Definition rule_mem (r : str * str) (tbl : list (str * str)) : bool := existsb (rule_eqb r) tbl.

Lemma rule_mem_In r tbl : rule_mem r tbl = true <-> In r tbl.
Proof.
  unfold rule_mem. rewrite existsb_exists. split.
  - intros [r' [Hin He]]. unfold rule_eqb in He. apply andb_true_iff in He. destruct He as [H1 H2].
    apply str_eqb_eq in H1. apply str_eqb_eq in H2. destruct r, r'. cbn [fst snd] in *. subst. exact Hin.
  - intros Hin. exists r. split; [exact Hin|]. unfold rule_eqb. rewrite !str_eqb_refl. reflexivity.
Qed.

(** escape rule shape: one byte -> backslash + one byte *)
Definition esc_rule_shape (r : str * str) : bool :=
  match fst r, snd r with [_], [b; _] => Ascii.eqb b bslash | _, _ => false end.

(** (a) the two tables are mutually inverse rule by rule; every escape source
    is one byte, every escape target is backslash + one byte *)
Theorem C09_escape_unescape_tables :
  (forall x y, In (x, y) escape_table <-> In (y, x) unescape_table) /\
  (forall x y, In (x, y) escape_table -> exists c z, x = [c] /\ y = [bslash; z]) /\
  NoDup (map fst escape_table) /\ NoDup (map fst unescape_table).
Proof.
  assert (H1 : forallb (fun r => rule_mem (swap_rule r) unescape_table) escape_table = true)
    by (vm_compute; reflexivity).
  assert (H2 : forallb (fun r => rule_mem (swap_rule r) escape_table) unescape_table = true)
    by (vm_compute; reflexivity).
  assert (H3 : forallb esc_rule_shape escape_table = true) by (vm_compute; reflexivity).
  repeat split.
  - intros Hin. apply (proj1 (forallb_forall _ _) H1) in Hin. apply rule_mem_In in Hin. exact Hin.
  - intros Hin. apply (proj1 (forallb_forall _ _) H2) in Hin. apply rule_mem_In in Hin. exact Hin.
  - intros x y Hin. apply (proj1 (forallb_forall _ _) H3) in Hin.
    unfold esc_rule_shape in Hin. cbn [fst snd] in Hin.
    destruct x as [|c [|? ?]]; try discriminate.
    destruct y as [|b [|z [|? ?]]]; try discriminate.
    apply Ascii.eqb_eq in Hin. subst b. exists c, z. split; reflexivity.
  - exact (esc_wf_nodup _ escape_table_wf).
  - exact (unesc_wf_nodup _ unescape_table_wf).
Qed.

(** escape and unescape as single passes *)
Definition esc_byte : ascii -> str := esc_char escape_table.
Definition unesc_byte : ascii -> option ascii := unesc_look unescape_table.

Theorem escape_bytewise : forall s, escape s = flat_map esc_byte s.
Proof. exact (escape_like_bytewise escape_table escape_table_wf). Qed.

Theorem unescape_pass : forall s, unescape s = unesc_pass unesc_byte s.
Proof. exact (unescape_like_pass unescape_table unescape_table_wf). Qed.

(** Go iterates over a map: the rule order is random.  Neither function
    depends on it, on any input. *)
Theorem C09_escape_order_independent : forall tbl, Permutation escape_table tbl ->
  forall s, apply_replacements tbl s = escape s.
Proof.
  intros tbl Hp s.
  rewrite (escape_like_bytewise tbl (esc_wf_perm _ _ Hp escape_table_wf)), escape_bytewise.
  apply flat_map_ext. intros c. apply (esc_char_perm _ _ escape_table_wf Hp).
Qed.

Theorem C09_unescape_order_independent : forall tbl, Permutation unescape_table tbl ->
  forall s, apply_replacements tbl s = unescape s.
Proof.
  intros tbl Hp s.
  rewrite (unescape_like_pass tbl (unesc_wf_perm _ _ Hp unescape_table_wf)), unescape_pass.
  apply unesc_pass_ext. intros d. apply (unesc_look_perm _ _ unescape_table_wf Hp).
Qed.

(** ** (b) clean strings *)
(** second bytes of the unescape-rule sources *)
Definition unesc_seconds : list ascii :=
  flat_map (fun r => match fst r with [_; x] => [x] | _ => [] end) unescape_table.
Definition is_second (d : ascii) : bool := existsb (Ascii.eqb d) unesc_seconds.

(** no backslash immediately followed by the second byte of an unescape rule *)
Fixpoint clean_b (v : str) : bool :=
  match v with
  | [] => true
  | c :: v' =>
    (negb (Ascii.eqb c bslash) || match v' with d :: _ => negb (is_second d) | [] => true end)
    && clean_b v'
  end.
Definition clean (v : str) : Prop := clean_b v = true.

(** what the tables say about one byte [c]:
    - either escape leaves it alone, and then it is neither a quote nor a newline;
    - or escape turns it into backslash + z, unescape turns that back into c, z is
      neither newline nor backslash, and z is a quote only when c is itself the
      second byte of an unescape source. *)
Definition byte_fact (c : ascii) : bool :=
  if str_eqb (esc_byte c) [c]
  then negb (Ascii.eqb c dquote) && negb (Ascii.eqb c lfchar)
  else match esc_byte c with
       | [b; z] =>
         Ascii.eqb b bslash && negb (Ascii.eqb c bslash) && negb (Ascii.eqb z lfchar) &&
         negb (Ascii.eqb z bslash) &&
         match unesc_byte z with Some x => Ascii.eqb x c | None => false end &&
         (is_second c || negb (Ascii.eqb z dquote))
       | _ => false
       end.

Lemma byte_fact_all : forall c, byte_fact c = true.
Proof. apply forall_bytes. vm_compute. reflexivity. Qed.

Lemma second_fact_all : forall d, is_second d || match unesc_byte d with None => true | Some _ => false end = true.
Proof. apply forall_bytes. vm_compute. reflexivity. Qed.

Lemma unesc_byte_bslash : unesc_byte bslash = None.
Proof. vm_compute. reflexivity. Qed.

Inductive byte_case (c : ascii) : Prop :=
| BC_plain : esc_byte c = [c] -> c <> dquote -> c <> lfchar -> byte_case c
| BC_special : forall z, esc_byte c = [bslash; z] -> c <> bslash -> z <> lfchar -> z <> bslash ->
    unesc_byte z = Some c -> (is_second c = false -> z <> dquote) -> byte_case c.

Lemma neqb_neq (a b : ascii) : negb (Ascii.eqb a b) = true -> a <> b.
Proof. intros H E. subst. rewrite Ascii.eqb_refl in H. discriminate. Qed.

Lemma byte_cases : forall c, byte_case c.
Proof.
  intros c. pose proof (byte_fact_all c) as H. unfold byte_fact in H.
  destruct (str_eqb (esc_byte c) [c]) eqn:E.
  - apply str_eqb_eq in E. apply andb_true_iff in H. destruct H as [H1 H2].
    apply BC_plain; [exact E|apply neqb_neq; exact H1|apply neqb_neq; exact H2].
  - destruct (esc_byte c) as [|b [|z [|? ?]]] eqn:Ee; try discriminate.
    apply andb_true_iff in H. destruct H as [H H6].
    apply andb_true_iff in H. destruct H as [H H5].
    apply andb_true_iff in H. destruct H as [H H4].
    apply andb_true_iff in H. destruct H as [H H3].
    apply andb_true_iff in H. destruct H as [H1 H2].
    apply Ascii.eqb_eq in H1. subst b.
    destruct (unesc_byte z) as [x|] eqn:Eu; [|discriminate].
    apply Ascii.eqb_eq in H5. subst x.
    apply (BC_special c z).
    + exact Ee.
    + apply neqb_neq. exact H2.
    + apply neqb_neq. exact H3.
    + apply neqb_neq. exact H4.
    + exact Eu.
    + intros Hs. rewrite Hs in H6. cbn [orb] in H6. apply neqb_neq. exact H6.
Qed.

Lemma esc_byte_bslash : esc_byte bslash = [bslash].
Proof.
  destruct (byte_cases bslash) as [H _ _|z _ Hne _ _ _ _]; [exact H|congruence].
Qed.

Lemma not_second_unesc d : is_second d = false -> unesc_byte d = None.
Proof.
  intros H. pose proof (second_fact_all d) as F. rewrite H in F. cbn [orb] in F.
  destruct (unesc_byte d); [discriminate|reflexivity].
Qed.

Lemma clean_tail c v : clean (c :: v) -> clean v.
Proof. unfold clean. cbn [clean_b]. intros H. apply andb_true_iff in H. tauto. Qed.

Lemma clean_bslash_next d v : clean (bslash :: d :: v) -> is_second d = false.
Proof.
  unfold clean. cbn [clean_b]. intros H. apply andb_true_iff in H. destruct H as [H _].
  rewrite Ascii.eqb_refl in H. cbn [negb orb] in H. apply negb_true_iff in H. exact H.
Qed.

(** head of an escaped string *)
Lemma esc_head_unesc_none : forall d v, is_second d = false ->
  match flat_map esc_byte (d :: v) with e :: _ => unesc_byte e = None | [] => True end.
Proof.
  intros d v Hd. cbn [flat_map].
  destruct (byte_cases d) as [Hp _ _|z Hs _ _ _ _ _].
  - rewrite Hp. cbn [app]. apply not_second_unesc. exact Hd.
  - rewrite Hs. cbn [app]. exact unesc_byte_bslash.
Qed.

Lemma unesc_esc_clean : forall v, clean v -> unesc_pass unesc_byte (flat_map esc_byte v) = v.
Proof.
  induction v as [|c v IH]; intros Hc; [reflexivity|].
  pose proof (IH (clean_tail _ _ Hc)) as IHv.
  destruct (Ascii.eqb c bslash) eqn:Hcb.
  - apply Ascii.eqb_eq in Hcb. subst c.
    cbn [flat_map]. rewrite esc_byte_bslash. cbn [app].
    rewrite pass_bs_none; [rewrite IHv; reflexivity|].
    destruct v as [|d v']; [exact I|].
    apply esc_head_unesc_none. apply (clean_bslash_next d v'). exact Hc.
  - cbn [flat_map]. destruct (byte_cases c) as [Hp _ _|z Hs _ _ _ Hu _].
    + rewrite Hp. cbn [app]. rewrite pass_cons_nb by exact Hcb. rewrite IHv. reflexivity.
    + rewrite Hs. cbn [app]. rewrite (pass_bs_some unesc_byte z c) by exact Hu. rewrite IHv. reflexivity.
Qed.

Theorem C09_unescape_escape : forall v, clean v -> unescape (escape v) = v.
Proof. intros v Hc. rewrite unescape_pass, escape_bytewise. apply unesc_esc_clean. exact Hc. Qed.

(** the same for every iteration order of the two Go maps *)
Theorem C09_unescape_escape_any_order : forall et ut,
  Permutation escape_table et -> Permutation unescape_table ut ->
  forall v, clean v -> apply_replacements ut (apply_replacements et v) = v.
Proof.
  intros et ut He Hu v Hc.
  rewrite (C09_escape_order_independent et He), (C09_unescape_order_independent ut Hu).
  apply C09_unescape_escape. exact Hc.
Qed.

(** Outside the clean strings the composition fails: the value backslash-n
    prints as the two bytes backslash-n, which read back as a newline.  (Such a
    value is not produced by the parser from a literal: the body that looks like
    it should, backslash backslash n, yields backslash + newline — see
    C09_body_bs_bs_n below — but it can reach Sprint in a tree built by hand.) *)
Example C09_unescape_escape_unclean_refuted :
  let v := [bslash; "n"%char] in
  ~ clean v /\ unescape (escape v) = [lfchar] /\ unescape (escape v) <> v.
Proof. vm_compute. repeat split; try reflexivity; discriminate. Qed.

Example C09_body_bs_bs_n :
  unescape (strip_dquotes (bs """\\n""")) = [bslash; lfchar] /\
  escape [bslash; lfchar] = bs "\\n" /\ clean [bslash; lfchar].
Proof. vm_compute. repeat split; reflexivity. Qed.

(** ** (c) what the parser stores for a literal *)
Lemma strip_dquotes_quoted (s : str) : strip_dquotes (bs """" ++ s ++ bs """") = s.
Proof.
  unfold strip_dquotes. cbn [bs list_ascii_of_string app].
  rewrite rev_app_distr. cbn [rev app]. cbn. rewrite rev_involutive. reflexivity.
Qed.

Theorem C09_literal_value : forall v, clean v ->
  unescape (strip_dquotes (param_string (FPStr v))) = v.
Proof.
  intros v Hc. cbn [param_string]. rewrite strip_dquotes_quoted. apply C09_unescape_escape. exact Hc.
Qed.

(** ** (c, continued) the printed literal is read back as one string token *)

(** The scanner inside a string literal, as an automaton on runes: [st] = just
    after a backslash.  After a backslash any rune but a newline is consumed
    (known escape, digits, or an unknown escape that mpath tolerates). *)
Fixpoint rsafe (st : bool) (cs : list (Z * str)) : bool :=
  match cs with
  | [] => negb st
  | (c, _) :: cs' =>
    if st then negb (c =? 10) && rsafe false cs'
    else if (c =? 34) || (c =? 10) then false
    else rsafe (c =? 92) cs'
  end.

Definition plain_rune (c : Z) : Prop := c <> 34 /\ c <> 10 /\ c <> 92.

Lemma digit_plain c : digit_val c < 16 -> plain_rune c.
Proof. intros H. repeat split; intros ->; vm_compute in H; discriminate. Qed.

Lemma rsafe_plain c b cs : plain_rune c -> rsafe false ((c, b) :: cs) = rsafe false cs.
Proof.
  intros (H1 & H2 & H3). cbn [rsafe].
  apply Z.eqb_neq in H1. apply Z.eqb_neq in H2. apply Z.eqb_neq in H3.
  rewrite H1, H2, H3. reflexivity.
Qed.

Lemma rsafe_skip_plain : forall j cs,
  Forall (fun x => plain_rune (fst x)) (firstn j cs) -> rsafe false (skipn j cs) = rsafe false cs.
Proof.
  induction j as [|j IH]; intros cs HF; [reflexivity|].
  destruct cs as [|[c b] cs]; [reflexivity|].
  cbn [firstn] in HF. inversion HF as [|? ? Hc HF']; subst. cbn [fst] in Hc.
  cbn [skipn]. rewrite (rsafe_plain c b cs Hc). apply IH. exact HF'.
Qed.

Lemma scan_digits_app : forall n base cs q rest acc, base <= 16 ->
  exists j, (j <= length cs)%nat /\
    Forall (fun x => plain_rune (fst x)) (firstn j cs) /\
    scan_digits n base (cs ++ (34, q) :: rest) acc
    = (acc ++ concat (map snd (firstn j cs)), skipn j cs ++ (34, q) :: rest).
Proof.
  induction n as [|n IH]; intros base cs q rest acc Hb.
  - exists O. split; [lia|]. split; [constructor|]. cbn [scan_digits firstn skipn map concat].
    rewrite app_nil_r. reflexivity.
  - destruct cs as [|[c b] cs].
    + exists O. split; [lia|]. split; [constructor|]. cbn [scan_digits app firstn skipn map concat].
      assert (Hd : (digit_val 34 <? base) = false) by (apply Z.ltb_ge; vm_compute digit_val; lia).
      rewrite Hd, app_nil_r. reflexivity.
    + cbn [app scan_digits]. destruct (digit_val c <? base) eqn:Hd.
      * destruct (IH base cs q rest (acc ++ b) Hb) as (j & Hj & HF & Heq).
        exists (S j). split; [cbn [length]; lia|]. split.
        -- cbn [firstn]. constructor; [|exact HF]. cbn [fst]. apply digit_plain.
           apply Z.ltb_lt in Hd. lia.
        -- rewrite Heq. cbn [firstn skipn map concat snd]. rewrite <- !app_assoc. reflexivity.
      * exists O. split; [lia|]. split; [constructor|]. cbn [firstn skipn map concat].
        rewrite app_nil_r. reflexivity.
Qed.

Lemma scan_string_S fuel quote c b cs acc n :
  scan_string (S fuel) quote ((c, b) :: cs) acc n =
  if c =? quote then Some (acc ++ b, n, cs)
  else if c =? 10 then None
  else if c =? 92 then
    match cs with
    | [] => None
    | (e, eb) :: cs'' =>
      if zmem e [97; 98; 102; 110; 114; 116; 118; 92] || (e =? quote)
      then scan_string fuel quote cs'' (acc ++ b ++ eb) (S n)
      else if (48 <=? e) && (e <=? 55) then
        let (acc', r) := scan_digits 3 8 cs (acc ++ b) in scan_string fuel quote r acc' (S n)
      else if e =? 120 then
        let (acc', r) := scan_digits 2 16 cs'' (acc ++ b ++ eb) in scan_string fuel quote r acc' (S n)
      else if e =? 117 then
        let (acc', r) := scan_digits 4 16 cs'' (acc ++ b ++ eb) in scan_string fuel quote r acc' (S n)
      else if e =? 85 then
        let (acc', r) := scan_digits 8 16 cs'' (acc ++ b ++ eb) in scan_string fuel quote r acc' (S n)
      else scan_string fuel quote cs (acc ++ b) (S n)
    end
  else scan_string fuel quote cs (acc ++ b) (S n).
Proof. reflexivity. Qed.

(** the scanner consumes a safe body and stops at the closing quote *)
Lemma scan_string_safe : forall m cs, (length cs <= m)%nat -> rsafe false cs = true ->
  forall fuel q rest acc n, (length cs < fuel)%nat ->
  exists n', scan_string fuel 34 (cs ++ (34, q) :: rest) acc n
             = Some (acc ++ concat (map snd cs) ++ q, n', rest).
Proof.
  induction m as [|m IH]; intros cs Hm Hs fuel q rest acc n Hf.
  - destruct cs; [|cbn [length] in Hm; lia].
    destruct fuel as [|fuel]; [lia|]. exists n. cbn [app]. rewrite scan_string_S.
    cbn [map concat app]. reflexivity.
  - destruct cs as [|[c b] cs'].
    + destruct fuel as [|fuel]; [lia|]. exists n. cbn [app]. rewrite scan_string_S.
      cbn [map concat app]. reflexivity.
    + destruct fuel as [|fuel]; [cbn [length] in Hf; lia|].
      cbn [length] in Hm, Hf.
      cbn [rsafe] in Hs.
      destruct ((c =? 34) || (c =? 10)) eqn:Hq; [discriminate|].
      apply orb_false_iff in Hq. destruct Hq as [Hc34 Hc10].
      cbn [app]. rewrite scan_string_S, Hc34, Hc10.
      cbn [map concat snd].
      destruct (c =? 92) eqn:Hc92.
      * (* backslash *)
        destruct cs' as [|[e eb] cs'']; [cbn [rsafe] in Hs; discriminate|].
        cbn [rsafe] in Hs. apply andb_true_iff in Hs. destruct Hs as [He10 Hs].
        apply negb_true_iff in He10.
        cbn [length] in Hm, Hf. cbn [app map concat snd].
        destruct (zmem e [97; 98; 102; 110; 114; 116; 118; 92] || (e =? 34)) eqn:Hk.
        { destruct (IH cs'' ltac:(lia) Hs fuel q rest (acc ++ b ++ eb) (S n) ltac:(lia)) as [n' Hn'].
          exists n'. rewrite Hn'. rewrite <- !app_assoc. reflexivity. }
        apply orb_false_iff in Hk. destruct Hk as [Hz He34].
        assert (He92 : (e =? 92) = false).
        { cbn [zmem] in Hz. repeat (apply orb_false_iff in Hz; destruct Hz as [? Hz]).
          repeat match goal with H : _ || _ = false |- _ => apply orb_false_iff in H; destruct H end.
          assumption. }
        assert (Hplain : plain_rune e).
        { repeat split; apply Z.eqb_neq; assumption. }
        assert (Hs' : rsafe false ((e, eb) :: cs'') = true) by (rewrite rsafe_plain; assumption).
        (* a helper for the four digit-scanning branches *)
        assert (Hscan : forall k base (body : list (Z * str)) accd,
                  base <= 16 -> (length body <= m)%nat -> (length body < fuel)%nat ->
                  rsafe false body = true ->
                  exists n', (let (acc', r) := scan_digits k base (body ++ (34, q) :: rest) accd in
                              scan_string fuel 34 r acc' (S n))
                             = Some (accd ++ concat (map snd body) ++ q, n', rest)).
        { intros k base body accd Hb Hlen Hlf Hsb.
          destruct (scan_digits_app k base body q rest accd Hb) as (j & Hj & HF & Heq).
          rewrite Heq.
          assert (Hsk : rsafe false (skipn j body) = true) by (rewrite rsafe_skip_plain; assumption).
          assert (Hlen' : (length (skipn j body) <= m)%nat) by (rewrite skipn_length; lia).
          destruct (IH (skipn j body) Hlen' Hsk fuel q rest (accd ++ concat (map snd (firstn j body))) (S n)
                       ltac:(rewrite skipn_length; lia)) as [n' Hn'].
          exists n'. rewrite Hn'.
          assert (Hcat : concat (map snd body)
                         = concat (map snd (firstn j body)) ++ concat (map snd (skipn j body)))
            by (rewrite <- concat_app, <- map_app, firstn_skipn; reflexivity).
          rewrite Hcat, <- !app_assoc. reflexivity. }
        destruct ((48 <=? e) && (e <=? 55)) eqn:Hoct.
        { destruct (Hscan 3%nat 8 ((e, eb) :: cs'') (acc ++ b) ltac:(lia)
                          ltac:(cbn [length]; lia) ltac:(cbn [length]; lia) Hs') as [n' Hn'].
          exists n'. cbn [app] in Hn'. rewrite Hn'. cbn [map concat snd].
          rewrite <- !app_assoc. reflexivity. }
        destruct (e =? 120) eqn:Hx.
        { destruct (Hscan 2%nat 16 cs'' (acc ++ b ++ eb) ltac:(lia)
                          ltac:(lia) ltac:(lia) Hs) as [n' Hn'].
          exists n'. rewrite Hn'. rewrite <- !app_assoc. reflexivity. }
        destruct (e =? 117) eqn:Hu.
        { destruct (Hscan 4%nat 16 cs'' (acc ++ b ++ eb) ltac:(lia)
                          ltac:(lia) ltac:(lia) Hs) as [n' Hn'].
          exists n'. rewrite Hn'. rewrite <- !app_assoc. reflexivity. }
        destruct (e =? 85) eqn:HU.
        { destruct (Hscan 8%nat 16 cs'' (acc ++ b ++ eb) ltac:(lia)
                          ltac:(lia) ltac:(lia) Hs) as [n' Hn'].
          exists n'. rewrite Hn'. rewrite <- !app_assoc. reflexivity. }
        (* unknown escape: tolerated, the rune is scanned next *)
        destruct (IH ((e, eb) :: cs'') ltac:(cbn [length]; lia) Hs' fuel q rest (acc ++ b) (S n)
                     ltac:(cbn [length]; lia)) as [n' Hn'].
        exists n'. cbn [app] in Hn'. rewrite Hn'. cbn [map concat snd].
        rewrite <- !app_assoc. reflexivity.
      * destruct (IH cs' ltac:(lia) Hs fuel q rest (acc ++ b) (S n) ltac:(lia)) as [n' Hn'].
        exists n'. rewrite Hn'. rewrite <- !app_assoc. reflexivity.
Qed.

(* ================================================================== *)
(** * 3. Numeric literals                                              *)
(* ================================================================== *)
(* C09 — number round trip: numeral (dec_to_string d) = NumOk d for canonical d
   within the 15-significant-digit window of [numeral]. *)

(** * Character facts, by exhaustion over the 256 bytes *)

Local Ltac num_all_bytes c :=
  destruct c as [b0 b1 b2 b3 b4 b5 b6 b7];
  destruct b0, b1, b2, b3, b4, b5, b6, b7; vm_compute; reflexivity.

(* the characters that can occur in the body of a printed decimal *)
Definition num_dchar (c : ascii) : bool := is_digit c || Ascii.eqb c "."%char.

Lemma num_digit_facts : forall c,
  implb (is_digit c)
    (negb (Ascii.eqb c "-"%char) && negb (Ascii.eqb c "+"%char) &&
     negb (Ascii.eqb c "."%char) && (0 <=? byte c - 48) && (byte c - 48 <=? 9) &&
     (Ascii.eqb c "0"%char || (1 <=? byte c - 48)) &&
     (negb (Ascii.eqb c "0"%char) || (byte c - 48 =? 0))) = true.
Proof. intro c. num_all_bytes c. Qed.

Lemma num_dchar_facts : forall c,
  implb (num_dchar c)
    (negb (Ascii.eqb c "e"%char || Ascii.eqb c "E"%char) &&
     negb (Ascii.eqb c "_"%char) &&
     negb (Ascii.eqb (lower_ascii c) "x"%char)) = true.
Proof. intro c. num_all_bytes c. Qed.

Lemma num_digit_range : forall c, is_digit c = true -> 0 <= byte c - 48 <= 9.
Proof.
  intros c H. pose proof (num_digit_facts c) as F. rewrite H in F. cbn [implb] in F.
  repeat (apply andb_prop in F; destruct F as [F ?]). lia.
Qed.

Lemma num_digit_nonzero : forall c, is_digit c = true -> Ascii.eqb c "0"%char = false -> 1 <= byte c - 48.
Proof.
  intros c H H0. pose proof (num_digit_facts c) as F. rewrite H in F. cbn [implb] in F.
  repeat (apply andb_prop in F; destruct F as [F ?]).
  rewrite H0 in *. cbn [orb] in *. lia.
Qed.

Lemma num_digit_zero : forall c, is_digit c = true -> Ascii.eqb c "0"%char = true -> byte c - 48 = 0.
Proof.
  intros c H H0. pose proof (num_digit_facts c) as F. rewrite H in F. cbn [implb] in F.
  repeat (apply andb_prop in F; destruct F as [F ?]).
  rewrite H0 in *. cbn [orb negb] in *. lia.
Qed.

Lemma num_digit_not_sign : forall c, is_digit c = true ->
  Ascii.eqb c "-"%char = false /\ Ascii.eqb c "+"%char = false /\ Ascii.eqb c "."%char = false.
Proof.
  intros c H. pose proof (num_digit_facts c) as F. rewrite H in F. cbn [implb] in F.
  repeat (apply andb_prop in F; destruct F as [F ?]).
  repeat match goal with X : negb _ = true |- _ => apply Bool.negb_true_iff in X end.
  auto.
Qed.

Lemma num_dchar_not : forall c, num_dchar c = true ->
  (Ascii.eqb c "e"%char || Ascii.eqb c "E"%char) = false /\
  Ascii.eqb c "_"%char = false /\
  Ascii.eqb (lower_ascii c) "x"%char = false.
Proof.
  intros c H. pose proof (num_dchar_facts c) as F. rewrite H in F. cbn [implb] in F.
  repeat (apply andb_prop in F; destruct F as [F ?]).
  repeat match goal with X : negb _ = true |- _ => apply Bool.negb_true_iff in X end.
  auto.
Qed.

(** * Digit strings and their Horner value *)

Lemma num_dv_cons : forall acc c s, is_digit c = true ->
  digits_val acc (c :: s) = digits_val (acc * 10 + (byte c - 48)) s.
Proof. intros acc c s H. cbn [digits_val]. rewrite H. reflexivity. Qed.

Lemma num_all_digits_app : forall a b, all_digits (a ++ b) = all_digits a && all_digits b.
Proof.
  induction a as [|c a IH]; intro b; cbn [all_digits app]; [reflexivity|].
  rewrite IH. apply Bool.andb_assoc.
Qed.

(* value bounds: acc * 10^len <= v < (acc+1) * 10^len *)
Lemma num_dv_bounds : forall ds acc v, 0 <= acc ->
  digits_val acc ds = Some v ->
  acc * 10 ^ Z.of_nat (length ds) <= v < (acc + 1) * 10 ^ Z.of_nat (length ds).
Proof.
  induction ds as [|c ds IH]; intros acc v Hacc H.
  - cbn [digits_val] in H. injection H as H. subst v. cbn [length Z.of_nat]. rewrite Z.pow_0_r. lia.
  - cbn [digits_val] in H. destruct (is_digit c) eqn:Hc; [|discriminate].
    pose proof (num_digit_range c Hc) as Hr.
    apply IH in H; [|lia].
    cbn [length]. rewrite Nat2Z.inj_succ, Z.pow_succ_r by lia.
    assert (0 < 10 ^ Z.of_nat (length ds)) by (apply Z.pow_pos_nonneg; lia).
    nia.
Qed.

Lemma num_dv_app1 : forall pre acc l v,
  digits_val acc (pre ++ [l]) = Some v ->
  exists v', v = v' * 10 + (byte l - 48) /\ is_digit l = true.
Proof.
  induction pre as [|c pre IH]; intros acc l v H.
  - cbn [app digits_val] in H. destruct (is_digit l); [|discriminate].
    injection H as H. exists acc. split; [lia|reflexivity].
  - cbn [app digits_val] in H. destruct (is_digit c); [|discriminate].
    apply IH in H. exact H.
Qed.

(** * show_Z *)

Definition num_las := list_ascii_of_string.

Lemma num_ustr_acc : forall u acc,
  digits_val (Z.pos acc) (num_las (DecimalString.NilEmpty.string_of_uint u)) =
  Some (Z.pos (Pos.of_uint_acc u acc)).
Proof.
  unfold num_las.
  induction u as [|u IH|u IH|u IH|u IH|u IH|u IH|u IH|u IH|u IH|u IH]; intro acc;
    cbn [DecimalString.NilEmpty.string_of_uint list_ascii_of_string Pos.of_uint_acc];
    [reflexivity|..];
    (rewrite num_dv_cons by reflexivity; rewrite <- IH; f_equal;
     match goal with |- context [byte ?c] =>
       let v := eval vm_compute in (byte c) in change (byte c) with v end;
     lia).
Qed.

Lemma num_ustr_val : forall u,
  digits_val 0 (num_las (DecimalString.NilEmpty.string_of_uint u)) = Some (Z.of_N (Pos.of_uint u)).
Proof.
  induction u as [|u IH|u IH|u IH|u IH|u IH|u IH|u IH|u IH|u IH|u IH];
    [reflexivity|..];
    unfold num_las in *;
    cbn [DecimalString.NilEmpty.string_of_uint list_ascii_of_string Pos.of_uint Z.of_N];
    rewrite num_dv_cons by reflexivity;
    match goal with |- context [0 * 10 + (byte ?c - 48)] =>
      let v := eval vm_compute in (0 * 10 + (byte c - 48)) in
      change (0 * 10 + (byte c - 48)) with v end;
    [exact IH | apply num_ustr_acc ..].
Qed.

Lemma num_ustr_digits : forall u,
  all_digits (num_las (DecimalString.NilEmpty.string_of_uint u)) = true.
Proof.
  unfold num_las.
  induction u as [|u IH|u IH|u IH|u IH|u IH|u IH|u IH|u IH|u IH|u IH];
    cbn [DecimalString.NilEmpty.string_of_uint list_ascii_of_string all_digits];
    [reflexivity|..]; rewrite IH; reflexivity.
Qed.

Lemma num_to_uint_unorm : forall p, Pos.to_uint p = Decimal.unorm (Pos.to_uint p).
Proof.
  intro p. rewrite <- (DecimalPos.Unsigned.to_of (Pos.to_uint p)).
  rewrite DecimalPos.Unsigned.of_to. reflexivity.
Qed.

(* the decimal expansion of a positive number: digits, no leading zero, right value *)
Lemma num_show_pos : forall p, exists h t,
  show_Z (Z.pos p) = h :: t /\ Ascii.eqb h "0"%char = false /\
  all_digits (h :: t) = true /\ digits_val 0 (h :: t) = Some (Z.pos p).
Proof.
  intro p.
  assert (Hs : show_Z (Z.pos p) = num_las (DecimalString.NilEmpty.string_of_uint (Pos.to_uint p))).
  { unfold show_Z, bs, num_las. cbn [Z.to_int DecimalString.NilZero.string_of_int].
    pose proof (DecimalPos.Unsigned.to_uint_nonnil p) as Hn.
    destruct (Pos.to_uint p); [congruence|reflexivity..]. }
  pose proof (num_ustr_val (Pos.to_uint p)) as Hv.
  rewrite DecimalPos.Unsigned.of_to in Hv. cbn [Z.of_N] in Hv.
  pose proof (num_ustr_digits (Pos.to_uint p)) as Hd.
  rewrite <- Hs in Hv, Hd.
  pose proof (num_to_uint_unorm p) as Hu.
  pose proof (DecimalPos.Unsigned.to_uint_nonzero p) as Hnz.
  pose proof (DecimalPos.Unsigned.to_uint_nonnil p) as Hnn.
  assert (Hh : match Pos.to_uint p with Decimal.Nil | Decimal.D0 _ => False | _ => True end).
  { rewrite Hu. unfold Decimal.unorm.
    pose proof (DecimalFacts.nzhead_nonzero (Pos.to_uint p)) as Hz.
    destruct (Decimal.nzhead (Pos.to_uint p)) as [|u|u|u|u|u|u|u|u|u|u] eqn:E; try exact I.
    - rewrite Hu in Hnz. unfold Decimal.unorm in Hnz. rewrite E in Hnz. congruence.
    - exfalso. exact (Hz u eq_refl). }
  rewrite Hs in *. unfold num_las in *.
  destruct (Pos.to_uint p) as [|u|u|u|u|u|u|u|u|u|u]; try contradiction;
    cbn [DecimalString.NilEmpty.string_of_uint list_ascii_of_string] in *;
    eexists; eexists; (split; [reflexivity|]); (split; [reflexivity|]); split; assumption.
Qed.

Lemma num_show_neg : forall p, show_Z (Z.neg p) = "-"%char :: show_Z (Z.pos p).
Proof. intro p. reflexivity. Qed.

(** * Small list facts about the printer's and the reader's helpers *)

Lemma num_strip_nz : forall h t, Ascii.eqb h "0"%char = false -> strip_leading_zeros (h :: t) = h :: t.
Proof. intros h t H. cbn [strip_leading_zeros]. rewrite H. reflexivity. Qed.

Lemma num_strip_zeros_repeat : forall k s,
  strip_leading_zeros (repeat "0"%char k ++ s) = strip_leading_zeros s.
Proof. induction k as [|k IH]; intro s; [reflexivity|]. cbn [repeat app strip_leading_zeros]. apply IH. Qed.

Lemma num_trim_last : forall pre l, Ascii.eqb l "0"%char = false ->
  trim_trailing_zeros (pre ++ [l]) = pre ++ [l].
Proof.
  intros pre l H. unfold trim_trailing_zeros. rewrite rev_app_distr. cbn [rev app trim_trailing_zeros_rev].
  rewrite H. cbn [rev]. rewrite rev_involutive. reflexivity.
Qed.

Lemma num_all_digits_repeat : forall k, all_digits (repeat "0"%char k) = true.
Proof. induction k as [|k IH]; [reflexivity|]. cbn [repeat all_digits]. rewrite IH. reflexivity. Qed.

Definition num_plain (s : str) : bool := forallb num_dchar s.

Lemma num_plain_digits : forall s, all_digits s = true -> num_plain s = true.
Proof.
  induction s as [|c s IH]; intro H; [reflexivity|].
  cbn [all_digits] in H. apply andb_prop in H. destruct H as [Hc Hs].
  cbn [num_plain forallb]. unfold num_dchar at 1. rewrite Hc. cbn [orb andb]. apply IH, Hs.
Qed.

Lemma num_plain_app : forall a b, num_plain (a ++ b) = num_plain a && num_plain b.
Proof. intros a b. unfold num_plain. apply forallb_app. Qed.

Lemma num_plain_no_e : forall s i, num_plain s = true -> index_any_e s i = None.
Proof.
  induction s as [|c s IH]; intros i H; [reflexivity|].
  cbn [num_plain forallb] in H. apply andb_prop in H. destruct H as [Hc Hs].
  destruct (num_dchar_not c Hc) as (He & _ & _).
  cbn [index_any_e]. rewrite He. apply IH, Hs.
Qed.

Lemma num_plain_no_us : forall s, num_plain s = true ->
  existsb (fun c => Ascii.eqb c "_"%char) s = false.
Proof.
  induction s as [|c s IH]; intro H; [reflexivity|].
  cbn [num_plain forallb] in H. apply andb_prop in H. destruct H as [Hc Hs].
  destruct (num_dchar_not c Hc) as (_ & Hu & _).
  cbn [existsb]. rewrite Hu. cbn [orb]. apply IH, Hs.
Qed.

Lemma num_plain_no_hex : forall s, num_plain s = true -> starts_hex s = false.
Proof.
  intros [|z [|x s]] H; [reflexivity..|].
  cbn [num_plain forallb] in H. apply andb_prop in H. destruct H as [_ H].
  apply andb_prop in H. destruct H as [Hx _].
  destruct (num_dchar_not x Hx) as (_ & _ & Hh).
  cbn [starts_hex]. rewrite Hh. apply Bool.andb_false_r.
Qed.

Lemma num_before_dot_digits : forall a b, all_digits a = true ->
  before_dot (a ++ "."%char :: b) = a /\ after_dot (a ++ "."%char :: b) = Some b /\
  count_dots (a ++ "."%char :: b) = count_dots ("."%char :: b).
Proof.
  induction a as [|c a IH]; intros b H.
  - cbn [app before_dot after_dot]. cbn. auto.
  - cbn [all_digits] in H. apply andb_prop in H. destruct H as [Hc Ha].
    destruct (num_digit_not_sign c Hc) as (_ & _ & Hd).
    cbn [app before_dot after_dot count_dots]. rewrite Hd.
    destruct (IH b Ha) as (E1 & E2 & E3). rewrite E1, E2, E3. auto.
Qed.

Lemma num_nodot_digits : forall a, all_digits a = true ->
  before_dot a = a /\ after_dot a = None /\ count_dots a = O.
Proof.
  induction a as [|c a IH]; intro H; [auto|].
  cbn [all_digits] in H. apply andb_prop in H. destruct H as [Hc Ha].
  destruct (num_digit_not_sign c Hc) as (_ & _ & Hd).
  cbn [before_dot after_dot count_dots]. rewrite Hd.
  destruct (IH Ha) as (E1 & E2 & E3). rewrite E1, E2, E3. auto.
Qed.

(** * [numeral] cut in two: sign/guard/exponent split, then the digit work *)

Definition num_tail (neg : bool) (ip fp : str) (dots : nat) (eok : option Z) : num_result :=
  let simple_mant := all_digits ip && all_digits fp && (dots <=? 1)%nat
                     && negb ((List.length ip + List.length fp =? 0)%nat) in
  if negb simple_mant then NumReject
  else
    match eok with
    | None => NumReject
    | Some e0 =>
      let digits := strip_leading_zeros (ip ++ fp) in
      match digits_val 0 digits with
      | None => NumReject
      | Some c =>
        let e := e0 - Z.of_nat (List.length fp) in
        let adj := e + Z.of_nat (List.length digits) in
        if (15 <? List.length digits)%nat then NumUnknown
        else if (c =? 0) then (if (Z.abs e0 <? 100000) then NumOk dzero else NumUnknown)
        else if (adj <? -300) || (300 <? adj) then NumUnknown
        else NumOk (dnorm (mkDec (if neg then - c else c) e))
      end
    end.

Definition num_signed (neg : bool) (s : str) : str := if neg then "-"%char :: s else s.

(* a sign, then a non-empty body made of digits and dots only *)
Lemma num_numeral_plain_body : forall neg body,
  num_plain body = true ->
  (exists c r, body = c :: r /\ is_digit c = true) ->
  numeral (num_signed neg body) =
  num_tail neg (before_dot body) (match after_dot body with Some f => f | None => [] end)
           (count_dots body) (Some 0).
Proof.
  intros neg body Hp (c & r & Hb & Hc).
  pose proof (num_plain_no_e body 0%nat Hp) as He.
  pose proof (num_plain_no_us body Hp) as Hu.
  pose proof (num_plain_no_hex body Hp) as Hh.
  destruct (num_digit_not_sign c Hc) as (Hm & Hpl & _).
  destruct neg; cbn [num_signed].
  - unfold numeral. cbn [Ascii.eqb Bool.eqb existsb]. change (Ascii.eqb "-" "_") with false.
    cbn [orb]. rewrite Hu, Hh, He. cbn [orb]. rewrite Bool.andb_false_r. reflexivity.
  - unfold numeral. rewrite Hb at 1. rewrite Hm, Hpl. rewrite Hu, Hh, He. cbn [orb].
    rewrite Bool.andb_false_r. reflexivity.
Qed.

Definition num_join (ip fp : str) : str :=
  match fp with [] => ip | _ => ip ++ "."%char :: fp end.

Lemma num_tail_ok : forall neg ip fp dots ds v,
  all_digits ip = true -> all_digits fp = true -> ip <> [] -> (dots <= 1)%nat ->
  strip_leading_zeros (ip ++ fp) = ds -> digits_val 0 ds = Some v -> v <> 0 ->
  (length ds <= 15)%nat ->
  -300 <= - Z.of_nat (length fp) + Z.of_nat (length ds) <= 300 ->
  num_tail neg ip fp dots (Some 0) =
  NumOk (dnorm (mkDec (if neg then - v else v) (- Z.of_nat (length fp)))).
Proof.
  intros neg ip fp dots ds v Hip Hfp Hne Hdots Hds Hv Hv0 Hlen Hadj.
  unfold num_tail. rewrite Hip, Hfp, Hds, Hv.
  assert (E1 : (dots <=? 1)%nat = true) by (apply Nat.leb_le; exact Hdots).
  assert (E2 : (length ip + length fp =? 0)%nat = false).
  { apply Nat.eqb_neq. destruct ip; [congruence|]. cbn [length]. lia. }
  assert (E3 : (15 <? length ds)%nat = false) by (apply Nat.ltb_ge; exact Hlen).
  assert (E4 : (v =? 0) = false) by (apply Z.eqb_neq; exact Hv0).
  rewrite E1, E2, E3, E4. cbn [andb negb].
  rewrite Z.sub_0_l.
  assert (E5 : (- Z.of_nat (length fp) + Z.of_nat (length ds) <? -300) = false) by (apply Z.ltb_ge; lia).
  assert (E6 : (300 <? - Z.of_nat (length fp) + Z.of_nat (length ds)) = false) by (apply Z.ltb_ge; lia).
  rewrite E5, E6. reflexivity.
Qed.

Lemma num_numeral_plain : forall neg ip fp ds v,
  all_digits ip = true -> all_digits fp = true -> ip <> [] ->
  strip_leading_zeros (ip ++ fp) = ds -> digits_val 0 ds = Some v -> v <> 0 ->
  (length ds <= 15)%nat ->
  -300 <= - Z.of_nat (length fp) + Z.of_nat (length ds) <= 300 ->
  numeral (num_signed neg (num_join ip fp)) =
  NumOk (dnorm (mkDec (if neg then - v else v) (- Z.of_nat (length fp)))).
Proof.
  intros neg ip fp ds v Hip Hfp Hne Hds Hv Hv0 Hlen Hadj.
  assert (Hhead : exists c r, num_join ip fp = c :: r /\ is_digit c = true).
  { destruct ip as [|c ip]; [congruence|].
    cbn [all_digits] in Hip. apply andb_prop in Hip. destruct Hip as [Hc _].
    unfold num_join. destruct fp; cbn [app]; eauto. }
  assert (Hplain : num_plain (num_join ip fp) = true).
  { unfold num_join. destruct fp as [|f fp]; [apply num_plain_digits, Hip|].
    rewrite num_plain_app, (num_plain_digits ip Hip).
    cbn [num_plain forallb andb]. change (num_dchar ".") with true. cbn [andb].
    apply (num_plain_digits (f :: fp) Hfp). }
  rewrite (num_numeral_plain_body neg _ Hplain Hhead).
  unfold num_join. destruct fp as [|f fp].
  - destruct (num_nodot_digits ip Hip) as (E1 & E2 & E3). rewrite E1, E2, E3.
    apply (num_tail_ok neg ip [] 0%nat ds v); auto.
  - destruct (num_before_dot_digits ip (f :: fp) Hip) as (E1 & E2 & E3). rewrite E1, E2, E3.
    destruct (num_nodot_digits (f :: fp) Hfp) as (_ & _ & E4).
    apply (num_tail_ok neg ip (f :: fp) _ ds v); auto.
    change (count_dots ("."%char :: f :: fp)) with (1 + count_dots (f :: fp))%nat.
    rewrite E4. lia.
Qed.

(** * Canonical form *)

Lemma num_strip_step : forall k c e,
  strip_zeros (S k) c e =
  if c =? 0 then mkDec 0 0
  else if Z.rem c 10 =? 0 then strip_zeros k (Z.quot c 10) (e + 1) else mkDec c e.
Proof. reflexivity. Qed.

Lemma num_quot10_nonzero : forall c, c <> 0 -> Z.rem c 10 = 0 -> Z.quot c 10 <> 0.
Proof. intros c Hc Hr. pose proof (Z.quot_rem' c 10) as Q. rewrite Hr in Q. lia. Qed.

Lemma num_strip_exp : forall k c e, c <> 0 -> e <= dexp (strip_zeros k c e).
Proof.
  induction k as [|k IH]; intros c e Hc; [cbn [strip_zeros dexp]; lia|].
  rewrite num_strip_step.
  destruct (c =? 0) eqn:E0; [apply Z.eqb_eq in E0; contradiction|].
  destruct (Z.rem c 10 =? 0) eqn:E1; [|cbn [dexp]; lia].
  apply Z.eqb_eq in E1.
  pose proof (IH (Z.quot c 10) (e + 1) (num_quot10_nonzero c Hc E1)). lia.
Qed.

Lemma num_canonical : forall c e, dnorm (mkDec c e) = mkDec c e ->
  (c = 0 -> e = 0) /\ (c <> 0 -> Z.rem c 10 <> 0).
Proof.
  intros c e H. unfold dnorm in H. cbn [coef dexp] in H. rewrite num_strip_step in H.
  destruct (c =? 0) eqn:E0.
  - apply Z.eqb_eq in E0. split; [intros _; congruence|intro; contradiction].
  - apply Z.eqb_neq in E0. split; [intro; contradiction|intros _ Hr].
    rewrite Hr in H. cbn [Z.eqb] in H.
    pose proof (num_strip_exp (Z.to_nat (Z.log2 (Z.abs c))) (Z.quot c 10) (e + 1)
                  (num_quot10_nonzero c E0 Hr)) as Hle.
    rewrite H in Hle. cbn [dexp] in Hle. lia.
Qed.

Lemma num_strip_pow : forall n k c x, c <> 0 ->
  strip_zeros (n + k) (c * 10 ^ Z.of_nat n) x = strip_zeros k c (x + Z.of_nat n).
Proof.
  induction n as [|n IH]; intros k c x Hc.
  - cbn [Nat.add Z.of_nat]. rewrite Z.pow_0_r, Z.mul_1_r, Z.add_0_r. reflexivity.
  - cbn [Nat.add]. rewrite num_strip_step.
    rewrite Nat2Z.inj_succ, Z.pow_succ_r by lia.
    assert (Hp : 0 < 10 ^ Z.of_nat n) by (apply Z.pow_pos_nonneg; lia).
    replace (c * (10 * 10 ^ Z.of_nat n)) with (c * 10 ^ Z.of_nat n * 10) by ring.
    destruct (c * 10 ^ Z.of_nat n * 10 =? 0) eqn:E0; [apply Z.eqb_eq in E0; nia|].
    rewrite Z.rem_mul by lia. cbn [Z.eqb].
    rewrite Z.quot_mul by lia.
    rewrite IH by exact Hc. f_equal. lia.
Qed.

Lemma num_dnorm_scaled : forall c e, c <> 0 -> Z.rem c 10 <> 0 -> 0 <= e ->
  dnorm (mkDec (c * 10 ^ e) 0) = mkDec c e.
Proof.
  intros c e Hc Hr He. unfold dnorm. cbn [coef dexp].
  assert (Hp : 0 < 10 ^ e) by (apply Z.pow_pos_nonneg; lia).
  assert (Hlog : e <= Z.log2 (Z.abs (c * 10 ^ e))).
  { apply Z.log2_le_pow2; [nia|].
    assert (2 ^ e <= 10 ^ e) by (apply Z.pow_le_mono_l; lia). nia. }
  remember (Z.to_nat (Z.log2 (Z.abs (c * 10 ^ e)))) as L eqn:HL.
  assert (HLe : (Z.to_nat e <= L)%nat) by lia.
  replace (S L) with (Z.to_nat e + S (L - Z.to_nat e))%nat by lia.
  replace (c * 10 ^ e) with (c * 10 ^ Z.of_nat (Z.to_nat e)) by (rewrite Z2Nat.id by exact He; reflexivity).
  rewrite num_strip_pow by exact Hc.
  rewrite num_strip_step.
  destruct (c =? 0) eqn:E0; [apply Z.eqb_eq in E0; contradiction|].
  destruct (Z.rem c 10 =? 0) eqn:E1; [apply Z.eqb_eq in E1; contradiction|].
  f_equal. lia.
Qed.

(** * What [show_Z] prints for a non-zero coefficient without trailing zero *)

Lemma num_show_signed : forall c, c <> 0 ->
  show_Z c = num_signed (c <? 0) (show_Z (Z.abs c)).
Proof. intros [|p|p] H; [contradiction|reflexivity|reflexivity]. Qed.

Lemma num_show_abs : forall z, 0 < z -> exists h t,
  show_Z z = h :: t /\ Ascii.eqb h "0"%char = false /\
  all_digits (h :: t) = true /\ digits_val 0 (h :: t) = Some z /\
  10 ^ Z.of_nat (length t) <= z < 10 ^ Z.of_nat (length (h :: t)).
Proof.
  intros [|p|p] Hz; try lia.
  destruct (num_show_pos p) as (h & t & Hs & Hh & Hd & Hv).
  exists h, t. repeat (split; [assumption|]).
  split.
  - pose proof Hd as Hd'. cbn [all_digits] in Hd'. apply andb_prop in Hd'. destruct Hd' as [Hc _].
    pose proof Hv as Hv'. rewrite num_dv_cons in Hv' by exact Hc.
    pose proof (num_digit_nonzero h Hc Hh) as H1.
    apply num_dv_bounds in Hv'; [|lia].
    assert (0 < 10 ^ Z.of_nat (length t)) by (apply Z.pow_pos_nonneg; lia). nia.
  - apply num_dv_bounds in Hv; lia.
Qed.

Lemma num_show_last : forall z, 0 < z -> Z.rem z 10 <> 0 -> exists pre l,
  show_Z z = pre ++ [l] /\ Ascii.eqb l "0"%char = false.
Proof.
  intros z Hz Hr.
  destruct (num_show_abs z Hz) as (h & t & Hs & _ & Hd & Hv & _).
  assert (Hne : h :: t <> []) by discriminate.
  destruct (exists_last Hne) as (pre & l & Hl).
  exists pre, l. split; [congruence|].
  rewrite Hl in Hv. apply num_dv_app1 in Hv. destruct Hv as (v' & Hv' & Hld).
  destruct (Ascii.eqb l "0"%char) eqn:E; [|reflexivity].
  exfalso. apply Hr. rewrite (num_digit_zero l Hld E) in Hv'.
  rewrite Hv', Z.add_0_r. apply Z.rem_mul. lia.
Qed.

(** * The printer, case by case *)

Lemma num_rescale0 : forall c e, 0 <= e -> coef (rescale (mkDec c e) 0) = c * 10 ^ e.
Proof.
  intros c e He. unfold rescale. cbn [coef dexp].
  destruct (0 =? e) eqn:E0.
  - apply Z.eqb_eq in E0. subst e. cbn [coef]. rewrite Z.pow_0_r. lia.
  - destruct (e <? 0) eqn:E1; [apply Z.ltb_lt in E1; lia|].
    cbn [coef]. unfold pow10. rewrite Z.sub_0_r. reflexivity.
Qed.

Lemma num_dts_nonneg : forall c e, 0 <= e -> c <> 0 ->
  dec_to_string (mkDec c e) = num_signed (c <? 0) (show_Z (Z.abs c * 10 ^ e)).
Proof.
  intros c e He Hc. unfold dec_to_string. cbn [dexp].
  replace (0 <=? e) with true by (symmetry; apply Z.leb_le; exact He).
  rewrite num_rescale0 by exact He.
  assert (Hp : 0 < 10 ^ e) by (apply Z.pow_pos_nonneg; lia).
  rewrite num_show_signed by nia.
  rewrite Z.abs_mul, (Z.abs_eq (10 ^ e)) by lia.
  f_equal. destruct (Z.ltb_spec c 0), (Z.ltb_spec (c * 10 ^ e) 0); try reflexivity; nia.
Qed.

(* the fractional layout of Decimal.String, as a function of the digits and the scale *)
Definition num_frac_body (digits : str) (n : nat) : str :=
  let '(ip, fp) :=
    if (n <? length digits)%nat
    then (firstn (length digits - n) digits, skipn (length digits - n) digits)
    else (bs "0", repeat "0"%char (n - length digits) ++ digits) in
  let fp' := trim_trailing_zeros fp in
  match fp' with [] => ip | _ => ip ++ bs "." ++ fp' end.

Lemma num_dts_neg : forall c e, e < 0 ->
  dec_to_string (mkDec c e) =
  num_signed (c <? 0) (num_frac_body (show_Z (Z.abs c)) (Z.to_nat (- e))).
Proof.
  intros c e He. unfold dec_to_string. cbn [coef dexp].
  replace (0 <=? e) with false by (symmetry; apply Z.leb_gt; exact He).
  unfold num_frac_body.
  destruct (Z.to_nat (- e) <? length (show_Z (Z.abs c)))%nat; reflexivity.
Qed.

Lemma num_join_nonempty : forall ip pre l,
  match pre ++ [l] with [] => ip | _ => ip ++ bs "." ++ (pre ++ [l]) end = num_join ip (pre ++ [l]).
Proof. intros ip pre l. unfold num_join. destruct (pre ++ [l]); reflexivity. Qed.

Lemma num_frac_body_spec : forall D h t pre l n,
  D = h :: t -> D = pre ++ [l] ->
  Ascii.eqb h "0"%char = false -> Ascii.eqb l "0"%char = false ->
  all_digits D = true -> (1 <= n)%nat ->
  exists ip fp,
    num_frac_body D n = num_join ip fp /\
    all_digits ip = true /\ all_digits fp = true /\ ip <> [] /\
    strip_leading_zeros (ip ++ fp) = D /\ length fp = n.
Proof.
  intros D h t pre l n HD HDl Hh Hl Hd Hn.
  unfold num_frac_body.
  destruct (n <? length D)%nat eqn:E.
  - apply Nat.ltb_lt in E.
    set (k := (length D - n)%nat).
    assert (Hk : (k <= length pre)%nat).
    { unfold k. rewrite HDl at 1. rewrite app_length. cbn [length]. lia. }
    assert (Hfp : skipn k D = skipn k pre ++ [l]).
    { rewrite HDl at 1. rewrite skipn_app.
      replace (k - length pre)%nat with 0%nat by lia. reflexivity. }
    exists (firstn k D), (skipn k D).
    pose proof (firstn_skipn k D) as Hfs.
    assert (Hda : all_digits (firstn k D) && all_digits (skipn k D) = true).
    { rewrite <- num_all_digits_app, Hfs. exact Hd. }
    apply andb_prop in Hda. destruct Hda as [Hd1 Hd2].
    split.
    { rewrite Hfp. rewrite num_trim_last by exact Hl. apply num_join_nonempty. }
    split; [exact Hd1|]. split; [exact Hd2|].
    split.
    { intro Hnil. apply (f_equal (@length ascii)) in Hnil.
      rewrite firstn_length in Hnil. cbn [length] in Hnil. unfold k in Hnil. lia. }
    split.
    { rewrite Hfs, HD. apply num_strip_nz, Hh. }
    rewrite skipn_length. unfold k. lia.
  - apply Nat.ltb_ge in E.
    exists (bs "0"), (repeat "0"%char (n - length D) ++ D).
    split.
    { assert (Hfp : repeat "0"%char (n - length D) ++ D =
                    (repeat "0"%char (n - length D) ++ pre) ++ [l]).
      { rewrite HDl at 2. apply app_assoc. }
      rewrite Hfp. rewrite num_trim_last by exact Hl. apply num_join_nonempty. }
    split; [reflexivity|].
    split; [rewrite num_all_digits_app, num_all_digits_repeat, Hd; reflexivity|].
    split; [discriminate|].
    split.
    { change (bs "0" ++ repeat "0"%char (n - length D) ++ D)
        with ("0"%char :: repeat "0"%char (n - length D) ++ D).
      cbn [strip_leading_zeros]. change (Ascii.eqb "0" "0") with true. cbn iota.
      rewrite num_strip_zeros_repeat, HD. apply num_strip_nz, Hh. }
    rewrite app_length, repeat_length. lia.
Qed.

Lemma num_show_length : forall z n, 0 < z -> z < 10 ^ Z.of_nat n -> (length (show_Z z) <= n)%nat.
Proof.
  intros z n Hz Hlt.
  destruct (num_show_abs z Hz) as (h & t & Hs & _ & _ & _ & Hlo & _).
  rewrite Hs. cbn [length].
  assert (10 ^ Z.of_nat (length t) < 10 ^ Z.of_nat n) by lia.
  apply Z.pow_lt_mono_r_iff in H; lia.
Qed.

(** * C09 *)

Theorem C09_number_roundtrip : forall d : dec,
  dnorm d = d ->
  Z.abs (coef d) * 10 ^ Z.max 0 (dexp d) < 10 ^ 15 ->
  -300 <= dexp d + Z.of_nat (length (show_Z (Z.abs (coef d)))) ->
  numeral (dec_to_string d) = NumOk d.
Proof.
  intros [c e] Hn Hb Ha. cbn [coef dexp] in Hb, Ha.
  destruct (num_canonical c e Hn) as [Hz Hnz].
  destruct (Z.eq_dec c 0) as [Hc|Hc].
  { subst c. rewrite (Hz eq_refl). vm_compute. reflexivity. }
  specialize (Hnz Hc). clear Hz.
  assert (Habs : 0 < Z.abs c) by lia.
  assert (Hsgn : (if c <? 0 then - Z.abs c else Z.abs c) = c)
    by (destruct (Z.ltb_spec c 0); lia).
  destruct (Z_le_gt_dec 0 e) as [He|He].
  - (* integer notation *)
    rewrite num_dts_nonneg by assumption.
    rewrite Z.max_r in Hb by exact He.
    assert (Hp : 0 < 10 ^ e) by (apply Z.pow_pos_nonneg; lia).
    set (z := Z.abs c * 10 ^ e) in *.
    assert (Hzpos : 0 < z) by (unfold z; nia).
    destruct (num_show_abs z Hzpos) as (h & t & Hs & Hh & Hd & Hv & _).
    pose proof (num_show_length z 15 Hzpos Hb) as Hlen.
    rewrite Hs in Hlen |- *.
    etransitivity.
    { apply (num_numeral_plain (c <? 0) (h :: t) [] (h :: t) z).
      - exact Hd.
      - reflexivity.
      - discriminate.
      - rewrite app_nil_r. apply num_strip_nz, Hh.
      - exact Hv.
      - lia.
      - exact Hlen.
      - cbn [length] in Hlen |- *. lia. }
    f_equal. cbn [length Z.of_nat Z.opp].
    replace (if c <? 0 then - z else z) with (c * 10 ^ e)
      by (unfold z; destruct (Z.ltb_spec c 0); [rewrite Z.abs_neq|rewrite Z.abs_eq]; lia).
    apply num_dnorm_scaled; assumption.
  - (* fractional notation *)
    rewrite num_dts_neg by lia.
    rewrite Z.max_l, Z.pow_0_r, Z.mul_1_r in Hb by lia.
    destruct (num_show_abs (Z.abs c) Habs) as (h & t & Hs & Hh & Hd & Hv & _).
    assert (Hr : Z.rem (Z.abs c) 10 <> 0).
    { rewrite Z.rem_abs_l by lia. lia. }
    destruct (num_show_last (Z.abs c) Habs Hr) as (pre & l & Hsl & Hl).
    pose proof (num_show_length (Z.abs c) 15 Habs Hb) as Hlen.
    set (D := show_Z (Z.abs c)) in *.
    assert (Hd' : all_digits D = true) by (rewrite Hs; exact Hd).
    destruct (num_frac_body_spec D h t pre l (Z.to_nat (- e)) Hs Hsl Hh Hl Hd' ltac:(lia))
      as (ip & fp & Hbody & Hip & Hfp & Hne & Hstrip & Hfl).
    rewrite Hbody.
    rewrite (num_numeral_plain (c <? 0) ip fp D (Z.abs c)); try assumption.
    + rewrite Hsgn, Hfl. replace (- Z.of_nat (Z.to_nat (- e))) with e by lia.
      rewrite Hn. reflexivity.
    + rewrite Hs. exact Hv.
    + lia.
    + rewrite Hfl. lia.
Qed.

(* every exponent: at most 15 printed significant digits, scale down to -300 *)
Corollary C09_number_roundtrip_box : forall d : dec,
  dnorm d = d ->
  Z.abs (coef d) * 10 ^ Z.max 0 (dexp d) < 10 ^ 15 ->
  -300 <= dexp d ->
  numeral (dec_to_string d) = NumOk d.
Proof.
  intros d Hn Hb He. apply C09_number_roundtrip; [exact Hn|exact Hb|lia].
Qed.

Corollary C09_number_roundtrip_simple : forall d : dec,
  dnorm d = d ->
  Z.abs (coef d) < 10 ^ 15 ->
  -300 <= dexp d <= 0 ->
  numeral (dec_to_string d) = NumOk d.
Proof.
  intros d Hn Hb He. apply C09_number_roundtrip_box; [exact Hn| |lia].
  rewrite Z.max_l, Z.pow_0_r by lia. lia.
Qed.

Example C09_number_ex_100 :
  dec_to_string (mkDec 1 2) = bs "100" /\ numeral (bs "100") = NumOk (mkDec 1 2).
Proof. vm_compute. split; reflexivity. Qed.

Example C09_number_ex_neg_frac :
  dec_to_string (mkDec (-1234) (-2)) = bs "-12.34" /\ numeral (bs "-12.34") = NumOk (mkDec (-1234) (-2)).
Proof. vm_compute. split; reflexivity. Qed.

Example C09_number_ex_small :
  dec_to_string (mkDec 5 (-3)) = bs "0.005" /\ numeral (bs "0.005") = NumOk (mkDec 5 (-3)).
Proof. vm_compute. split; reflexivity. Qed.

Example C09_number_ex_zero :
  dec_to_string dzero = bs "0" /\ numeral (bs "0") = NumOk dzero.
Proof. vm_compute. split; reflexivity. Qed.

Example C09_number_ex_15_digits :
  numeral (dec_to_string (mkDec 999999999999999 0)) = NumOk (mkDec 999999999999999 0) /\
  numeral (dec_to_string (mkDec (-123456789012345) (-20))) = NumOk (mkDec (-123456789012345) (-20)).
Proof. vm_compute. split; reflexivity. Qed.

(* the side conditions are tight: one more digit, or one more place, and the model declines *)
Example C09_number_16_digits_declined :
  numeral (dec_to_string (mkDec 1 15)) = NumUnknown /\
  numeral (dec_to_string (mkDec 1234567890123456 (-3))) = NumUnknown.
Proof. vm_compute. split; reflexivity. Qed.

Example C09_number_adj_limit :
  numeral (dec_to_string (mkDec 1 (-301))) = NumOk (mkDec 1 (-301)) /\
  numeral (dec_to_string (mkDec 1 (-302))) = NumUnknown.
Proof. vm_compute. split; reflexivity. Qed.

(* without [dnorm d = d] the value comes back, the representation does not *)
Example C09_number_noncanonical_refuted :
  dec_to_string (mkDec 10 (-1)) = bs "1" /\
  numeral (dec_to_string (mkDec 10 (-1))) = NumOk (mkDec 1 0) /\
  numeral (dec_to_string (mkDec 0 3)) = NumOk dzero.
Proof. vm_compute. repeat split; reflexivity. Qed.

(* ================================================================== *)
(** * 5/6. Key-only paths: reparse, fixed point, userString            *)
(* ================================================================== *)
(* Reparse.v — C09 parts 5/6: key-only paths: Sprint output parses again to
   the same keys, Sprint is a fixed point, the userString is the query text. *)


Definition key_piece (kq : str * bool) : str := fst kq ++ (if snd kq then bs "?" else []).
Definition key_text (root : bool) (ks : list (str * bool)) : str :=
  (if root then bs "$" else bs "@") ++ concat (map (fun kq => bs "." ++ key_piece kq) ks).
Definition key_ops (ks : list (str * bool)) : list pathop :=
  map (fun kq => PIdent (fst kq) (snd kq) (key_piece kq)) ks.
(* ops is a list of keys, with arbitrary userStrings *)
Definition ops_keys (ops : list pathop) (ks : list (str * bool)) : Prop :=
  Forall2 (fun o kq => exists us, o = PIdent (fst kq) (snd kq) us) ops ks.
(* a key the lexer reads back as one identifier token *)
Definition good_key (uni : uclass) (kq : str * bool) : Prop :=
  fst kq <> [] /\
  (exists cs, chars_fuel (S (length (fst kq))) (fst kq) = Some cs /\
              forallb (fun rb => is_ident_rune uni (fst rb)) cs = true) /\
  (snd kq = false -> forall k', fst kq <> k' ++ bs "?").

(* ------------------------------------------------------------------ *)
(** * UTF-8 decoding: a successful decode only looks at its own bytes   *)
(* ------------------------------------------------------------------ *)

Ltac rp_break :=
  repeat match goal with
         | |- context [if ?c then _ else _] => destruct c eqn:?
         | |- context [match ?l with [] => _ | _ :: _ => _ end] => destruct l
         end.

Lemma rp_decode_rune_width : forall s r w,
  s <> [] -> decode_rune s = (r, w) -> (1 <= w)%nat.
Proof.
  intros s r w Hne. destruct s as [|b0 t]; [congruence|].
  unfold decode_rune. cbv zeta. rp_break; intros H; inversion H; lia.
Qed.

Lemma rp_decode_rune_app : forall s t r w,
  s <> [] ->
  decode_rune s = (r, w) ->
  (r =? rune_error) && (w =? 1)%nat = false ->
  decode_rune (s ++ t) = (r, w) /\ (w <= length s)%nat /\ (1 <= w)%nat.
Proof.
  intros s t r w Hne H E. revert H.
  destruct s as [|b0 [|b1 [|b2 [|b3 s]]]]; [congruence| | | |]; cbn [app length]; unfold decode_rune; cbv zeta;
    rp_break; intros H; inversion H; subst r w;
    try (exfalso; discriminate E);
    (split; [reflexivity|split; lia]).
Qed.

Lemma rp_chars_fuel_S : forall k s, s <> [] ->
  chars_fuel (S k) s =
  let '(r, w) := decode_rune s in
  if (r =? rune_error) && (w =? 1)%nat then None
  else if r =? 0 then None
  else match chars_fuel k (skipn w s) with
       | Some cs => Some ((r, firstn w s) :: cs)
       | None => None
       end.
Proof. intros k [|c s] H; [congruence|reflexivity]. Qed.

Lemma rp_chars_fuel_nil : forall n, chars_fuel n [] = Some [].
Proof. destruct n; reflexivity. Qed.

(* ------------------------------------------------------------------ *)
(** * chars_fuel: fuel independence and compositionality                *)
(* ------------------------------------------------------------------ *)

Lemma rp_chars_fuel_indep : forall n m s,
  (length s < n)%nat -> (length s < m)%nat -> chars_fuel n s = chars_fuel m s.
Proof.
  induction n as [|n IH]; intros m s Hn Hm; [lia|].
  destruct m as [|m]; [lia|].
  destruct s as [|c s]; [reflexivity|].
  assert (Hne : c :: s <> []) by discriminate.
  rewrite (rp_chars_fuel_S n _ Hne), (rp_chars_fuel_S m _ Hne).
  destruct (decode_rune (c :: s)) as [r w] eqn:D.
  pose proof (rp_decode_rune_width _ _ _ Hne D) as Hw.
  assert (Hl : (length (skipn w (c :: s)) < length (c :: s))%nat).
  { rewrite skipn_length. cbn [length]. lia. }
  rewrite (IH m (skipn w (c :: s))); [reflexivity| |]; cbn [length] in *; lia.
Qed.

(** the bytes of the runes are the input *)
Lemma rp_chars_fuel_bytes : forall n s cs,
  chars_fuel n s = Some cs -> (length s < n)%nat -> concat (map snd cs) = s.
Proof.
  induction n as [|n IH]; intros s cs H Hn; [lia|].
  destruct s as [|c s].
  - cbn in H. inversion H. reflexivity.
  - assert (Hne : c :: s <> []) by discriminate.
    rewrite (rp_chars_fuel_S n _ Hne) in H.
    destruct (decode_rune (c :: s)) as [r w] eqn:D.
    pose proof (rp_decode_rune_width _ _ _ Hne D) as Hw.
    destruct ((r =? rune_error) && (w =? 1)%nat); [discriminate|].
    destruct (r =? 0); [discriminate|].
    destruct (chars_fuel n (skipn w (c :: s))) as [l|] eqn:E; [|discriminate].
    inversion H; subst cs. cbn [map concat snd].
    rewrite (IH _ _ E).
    + apply firstn_skipn.
    + rewrite skipn_length. cbn [length] in *. lia.
Qed.

Lemma rp_chars_fuel_nonempty : forall n s cs,
  chars_fuel (S n) s = Some cs -> s <> [] -> cs <> [].
Proof.
  intros n s cs H Hne. rewrite (rp_chars_fuel_S n _ Hne) in H.
  destruct (decode_rune s) as [r w].
  destruct ((r =? rune_error) && (w =? 1)%nat); [discriminate|].
  destruct (r =? 0); [discriminate|].
  destruct (chars_fuel n (skipn w s)); [|discriminate].
  inversion H. discriminate.
Qed.

(** Compositionality: decoding [a ++ b] is decoding [a] then [b], provided
    [a] decodes on its own. *)
Lemma rp_chars_fuel_app : forall n a ca b m,
  chars_fuel n a = Some ca -> (length a < n)%nat -> (length (a ++ b) < m)%nat ->
  chars_fuel m (a ++ b) = option_map (app ca) (chars_fuel (S (length b)) b).
Proof.
  induction n as [|n IH]; intros a ca b m H Hn Hm; [lia|].
  destruct a as [|c a].
  - cbn in H. inversion H; subst ca. cbn [app] in *.
    rewrite (rp_chars_fuel_indep m (S (length b)) b) by lia.
    destruct (chars_fuel (S (length b)) b); reflexivity.
  - assert (Hne : c :: a <> []) by discriminate.
    assert (Hne' : (c :: a) ++ b <> []) by discriminate.
    rewrite (rp_chars_fuel_S n _ Hne) in H.
    destruct (decode_rune (c :: a)) as [r w] eqn:D.
    destruct ((r =? rune_error) && (w =? 1)%nat) eqn:E1; [discriminate|].
    destruct (r =? 0) eqn:E2; [discriminate|].
    destruct (chars_fuel n (skipn w (c :: a))) as [l|] eqn:E3; [|discriminate].
    inversion H; subst ca.
    destruct (rp_decode_rune_app _ b _ _ Hne D E1) as (D' & Hw & Hw1).
    destruct m as [|m]; [lia|].
    rewrite (rp_chars_fuel_S m _ Hne'), D', E1, E2.
    rewrite skipn_app, firstn_app.
    replace (w - length (c :: a))%nat with O by lia.
    cbn [skipn firstn]. rewrite app_nil_r.
    rewrite (IH _ _ b m E3).
    + destruct (chars_fuel (S (length b)) b); reflexivity.
    + rewrite skipn_length. cbn [length] in *. lia.
    + rewrite app_length, skipn_length. rewrite app_length in Hm. cbn [length] in *. lia.
Qed.

(** the special case used everywhere: fuel as [chars] supplies it *)
Lemma rp_chars_app : forall a ca b,
  chars_fuel (S (length a)) a = Some ca ->
  chars_fuel (S (length (a ++ b))) (a ++ b) = option_map (app ca) (chars_fuel (S (length b)) b).
Proof. intros a ca b H. apply (rp_chars_fuel_app _ _ _ _ _ H); lia. Qed.

(** one ASCII byte (not NUL) is one rune *)
Lemma rp_chars_fuel_ascii : forall k c s,
  0 < byte c < 128 ->
  chars_fuel (S k) (c :: s) = option_map (cons (byte c, [c])) (chars_fuel k s).
Proof.
  intros k c s Hc.
  rewrite rp_chars_fuel_S by discriminate.
  unfold decode_rune.
  replace (byte c <? 128) with true by (symmetry; apply Z.ltb_lt; lia).
  replace (byte c =? rune_error) with false by (symmetry; apply Z.eqb_neq; unfold rune_error; lia).
  replace (byte c =? 0) with false by (symmetry; apply Z.eqb_neq; lia).
  cbn [andb skipn firstn].
  destruct (chars_fuel k s); reflexivity.
Qed.

Lemma rp_chars_ascii : forall c s,
  0 < byte c < 128 ->
  chars_fuel (S (length (c :: s))) (c :: s) = option_map (cons (byte c, [c])) (chars_fuel (S (length s)) s).
Proof. intros c s Hc. cbn [length]. apply rp_chars_fuel_ascii, Hc. Qed.

(* ------------------------------------------------------------------ *)
(** * The character stream of a key path                                *)
(* ------------------------------------------------------------------ *)

Definition rp_runes (k : str) : list (Z * str) :=
  match chars_fuel (S (length k)) k with Some cs => cs | None => [] end.
Definition rp_key_cs (kq : str * bool) : list (Z * str) :=
  rp_runes (fst kq) ++ (if snd kq then [(63, bs "?")] else []).
Definition rp_keys_cs (ks : list (str * bool)) : list (Z * str) :=
  concat (map (fun kq => (46, bs ".") :: rp_key_cs kq) ks).
Definition rp_keys_text (ks : list (str * bool)) : str :=
  concat (map (fun kq => bs "." ++ key_piece kq) ks).
Definition rp_root_rune (root : bool) : Z := if root then 36 else 64.
Definition rp_root_str (root : bool) : str := if root then bs "$" else bs "@".

Lemma rp_good_key_runes : forall uni kq, good_key uni kq ->
  chars_fuel (S (length (fst kq))) (fst kq) = Some (rp_runes (fst kq)) /\
  forallb (fun rb => is_ident_rune uni (fst rb)) (rp_runes (fst kq)) = true /\
  rp_runes (fst kq) <> [] /\
  concat (map snd (rp_runes (fst kq))) = fst kq.
Proof.
  intros uni kq (Hne & (cs & Hcs & Hall) & _).
  unfold rp_runes. rewrite Hcs. repeat split; auto.
  - eapply rp_chars_fuel_nonempty; eauto.
  - eapply rp_chars_fuel_bytes; eauto.
Qed.

Lemma rp_chars_keys : forall uni ks, Forall (good_key uni) ks ->
  chars_fuel (S (length (rp_keys_text ks))) (rp_keys_text ks) = Some (rp_keys_cs ks).
Proof.
  intros uni ks H. induction H as [|kq ks Hk Hks IH]; [reflexivity|].
  destruct (rp_good_key_runes _ _ Hk) as (Hr & _).
  unfold rp_keys_text, rp_keys_cs. cbn [map concat].
  fold (rp_keys_text ks). fold (rp_keys_cs ks).
  change (bs ".") with ["."%char]. cbn [app].
  rewrite rp_chars_ascii by (vm_compute; split; reflexivity).
  unfold key_piece, rp_key_cs. rewrite <- !app_assoc.
  rewrite (rp_chars_app _ _ _ Hr).
  destruct (snd kq).
  - change (bs "?") with ["?"%char]. cbn [app].
    rewrite rp_chars_ascii by (vm_compute; split; reflexivity).
    rewrite IH. reflexivity.
  - cbn [app]. rewrite IH. reflexivity.
Qed.

Lemma rp_chars_key_text : forall uni root ks, Forall (good_key uni) ks ->
  chars (key_text root ks) = Some ((rp_root_rune root, rp_root_str root) :: rp_keys_cs ks).
Proof.
  intros uni root ks H. unfold chars, key_text. fold (rp_keys_text ks).
  assert (E : chars_fuel (S (length ((if root then bs "$" else bs "@") ++ rp_keys_text ks)))
                ((if root then bs "$" else bs "@") ++ rp_keys_text ks)
              = Some ((rp_root_rune root, rp_root_str root) :: rp_keys_cs ks)).
  { destruct root.
    - change (bs "$") with ["$"%char]. cbn [app].
      rewrite rp_chars_ascii by (vm_compute; split; reflexivity).
      rewrite (rp_chars_keys _ _ H). reflexivity.
    - change (bs "@") with ["@"%char]. cbn [app].
      rewrite rp_chars_ascii by (vm_compute; split; reflexivity).
      rewrite (rp_chars_keys _ _ H). reflexivity. }
  rewrite E. destruct root; reflexivity.
Qed.

(* ------------------------------------------------------------------ *)
(** * Rune facts (re-checked on the generated table)                    *)
(* ------------------------------------------------------------------ *)

Lemma rp_invalid_36 : zmem 36 invalid_runes = true. Proof. vm_compute. reflexivity. Qed.
Lemma rp_invalid_46 : zmem 46 invalid_runes = true. Proof. vm_compute. reflexivity. Qed.
Lemma rp_invalid_64 : zmem 64 invalid_runes = true. Proof. vm_compute. reflexivity. Qed.
Lemma rp_invalid_63 : zmem 63 invalid_runes = false. Proof. vm_compute. reflexivity. Qed.

Lemma rp_ident_36 : forall uni, is_ident_rune uni 36 = false.
Proof. intros uni. unfold is_ident_rune. rewrite rp_invalid_36. reflexivity. Qed.
Lemma rp_ident_46 : forall uni, is_ident_rune uni 46 = false.
Proof. intros uni. unfold is_ident_rune. rewrite rp_invalid_46. reflexivity. Qed.
Lemma rp_ident_64 : forall uni, is_ident_rune uni 64 = false.
Proof. intros uni. unfold is_ident_rune. rewrite rp_invalid_64. reflexivity. Qed.
Lemma rp_ident_63 : forall uni, is_ident_rune uni 63 = true.
Proof. intros uni. unfold is_ident_rune. rewrite rp_invalid_63. reflexivity. Qed.
Lemma rp_ident_eof : forall uni, is_ident_rune uni (-1) = false.
Proof. intros uni. unfold is_ident_rune. destruct (zmem (-1) invalid_runes); reflexivity. Qed.

Lemma rp_ident_not_ws : forall uni c, is_ident_rune uni c = true -> is_ws c = false.
Proof.
  intros uni c H. destruct (is_ws c) eqn:W; [|reflexivity]. exfalso.
  unfold is_ws in W.
  repeat (apply orb_true_iff in W; destruct W as [W|W]);
    apply Z.eqb_eq in W; subst c; unfold is_ident_rune in H;
    match type of H with (if ?z || _ then _ else _) = _ => destruct z end; discriminate H.
Qed.

(* ------------------------------------------------------------------ *)
(** * tokens_fuel: step lemmas and fuel monotonicity                    *)
(* ------------------------------------------------------------------ *)

Lemma rp_span_ident_app : forall uni cs1 cs2,
  forallb (fun rb => is_ident_rune uni (fst rb)) cs1 = true ->
  is_ident_rune uni (peek cs2) = false ->
  span_ident uni (cs1 ++ cs2) = (concat (map snd cs1), cs2).
Proof.
  intros uni cs1 cs2 H1 H2. induction cs1 as [|[c b] cs1 IH].
  - cbn [app map concat]. destruct cs2 as [|[c b] cs2]; [reflexivity|].
    cbn [peek] in H2. cbn [span_ident]. rewrite H2. reflexivity.
  - cbn [forallb fst] in H1. apply andb_true_iff in H1. destruct H1 as [Hc H1].
    cbn [app span_ident map concat snd]. rewrite Hc, (IH H1). reflexivity.
Qed.

(** an identifier token: a non-empty run of identifier runes, up to a
    non-identifier rune or EOF *)
Lemma rp_tokens_ident : forall uni k cs1 cs2,
  cs1 <> [] ->
  forallb (fun rb => is_ident_rune uni (fst rb)) cs1 = true ->
  is_ident_rune uni (peek cs2) = false ->
  tokens_fuel uni (S k) (cs1 ++ cs2)
  = option_map (cons (mkTok TIdent (concat (map snd cs1)) (peek cs2))) (tokens_fuel uni k cs2).
Proof.
  intros uni k cs1 cs2 Hne H1 H2.
  pose proof (rp_span_ident_app uni cs1 cs2 H1 H2) as Hs.
  destruct cs1 as [|[c b] cs1]; [congruence|].
  cbn [forallb fst] in H1. apply andb_true_iff in H1. destruct H1 as [Hc H1].
  cbn [app] in *. cbn [tokens_fuel].
  rewrite (rp_ident_not_ws _ _ Hc), Hc, Hs. reflexivity.
Qed.

(** a single-character token *)
Lemma rp_tokens_ch : forall uni k c b cs,
  is_ws c = false -> is_ident_rune uni c = false ->
  c <> 34 -> c <> 39 -> c <> 47 ->
  tokens_fuel uni (S k) ((c, b) :: cs)
  = option_map (cons (mkTok (TCh c) b (peek cs))) (tokens_fuel uni k cs).
Proof.
  intros uni k c b cs Hw Hi H34 H39 H47. cbn [tokens_fuel].
  rewrite Hw, Hi.
  apply Z.eqb_neq in H34, H39, H47. rewrite H34, H39, H47. reflexivity.
Qed.

(** white space is skipped *)
Lemma rp_tokens_ws : forall uni k c b cs,
  is_ws c = true -> tokens_fuel uni (S k) ((c, b) :: cs) = tokens_fuel uni k cs.
Proof. intros uni k c b cs Hw. cbn [tokens_fuel]. rewrite Hw. reflexivity. Qed.

Lemma rp_tokens_fuel_mono : forall uni n m cs ts,
  tokens_fuel uni n cs = Some ts -> (n <= m)%nat -> tokens_fuel uni m cs = Some ts.
Proof.
  intros uni. induction n as [|n IH]; intros m cs ts H Hm; [discriminate|].
  destruct m as [|m]; [lia|].
  assert (IH' : forall r ts', tokens_fuel uni n r = Some ts' -> tokens_fuel uni m r = Some ts').
  { intros r ts' Hr. apply (IH m r ts' Hr). lia. }
  assert (IHo : forall (f : list token -> list token) r ts', option_map f (tokens_fuel uni n r) = Some ts' ->
                                option_map f (tokens_fuel uni m r) = Some ts').
  { intros f r ts' Hr. destruct (tokens_fuel uni n r) as [l|] eqn:E; [|discriminate].
    rewrite (IH' _ _ E). exact Hr. }
  clear IH.
  destruct cs as [|[c b] cs]; [exact H|].
  revert H. cbn [tokens_fuel].
  repeat match goal with
         | |- context [if ?c then _ else _] => destruct c
         | |- context [let (_, _) := ?p in _] => destruct p
         | |- context [match ?o with Some _ => _ | None => _ end] =>
             match o with
             | tokens_fuel _ _ _ => fail 1
             | _ => destruct o
             end
         end; auto; try discriminate.
Qed.

(* ------------------------------------------------------------------ *)
(** * The token stream of a key path                                    *)
(* ------------------------------------------------------------------ *)

Fixpoint rp_key_toks (ks : list (str * bool)) : list token :=
  match ks with
  | [] => []
  | kq :: ks' =>
    mkTok (TCh 46) (bs ".") (peek (rp_key_cs kq ++ rp_keys_cs ks'))
    :: mkTok TIdent (key_piece kq) (peek (rp_keys_cs ks'))
    :: rp_key_toks ks'
  end.

Definition rp_root_tok (root : bool) (ks : list (str * bool)) : token :=
  mkTok (TCh (rp_root_rune root)) (rp_root_str root) (peek (rp_keys_cs ks)).

Lemma rp_peek_keys_cs : forall ks, peek (rp_keys_cs ks) = -1 \/ peek (rp_keys_cs ks) = 46.
Proof. intros [|kq ks]; [left|right]; reflexivity. Qed.

Lemma rp_peek_keys_cs_stop : forall uni ks, is_ident_rune uni (peek (rp_keys_cs ks)) = false.
Proof.
  intros uni ks. destruct (rp_peek_keys_cs ks) as [E|E]; rewrite E.
  - apply rp_ident_eof.
  - apply rp_ident_46.
Qed.

Lemma rp_good_key_cs : forall uni kq, good_key uni kq ->
  rp_key_cs kq <> [] /\
  forallb (fun rb => is_ident_rune uni (fst rb)) (rp_key_cs kq) = true /\
  concat (map snd (rp_key_cs kq)) = key_piece kq.
Proof.
  intros uni kq Hk. destruct (rp_good_key_runes _ _ Hk) as (_ & Hall & Hne & Hb).
  unfold rp_key_cs, key_piece. repeat split.
  - destruct (rp_runes (fst kq)); [congruence|discriminate].
  - rewrite forallb_app, Hall. destruct (snd kq); [|reflexivity].
    cbn [forallb fst andb]. rewrite rp_ident_63. reflexivity.
  - rewrite map_app, concat_app, Hb. destruct (snd kq); reflexivity.
Qed.

Lemma rp_tokens_keys : forall uni ks, Forall (good_key uni) ks ->
  forall fuel, (length (rp_keys_cs ks) < fuel)%nat ->
  tokens_fuel uni fuel (rp_keys_cs ks) = Some (rp_key_toks ks).
Proof.
  intros uni ks H. induction H as [|kq ks Hk Hks IH]; intros fuel Hf.
  - destruct fuel; [lia|reflexivity].
  - destruct (rp_good_key_cs _ _ Hk) as (Hne & Hall & Hb).
    unfold rp_keys_cs in *. cbn [map concat] in *. fold (rp_keys_cs ks) in *.
    cbn [app length] in Hf. rewrite app_length in Hf.
    assert (Hl : (1 <= length (rp_key_cs kq))%nat).
    { destruct (rp_key_cs kq); [congruence|cbn [length]; lia]. }
    destruct fuel as [|[|fuel]]; [lia|lia|].
    cbn [app].
    rewrite rp_tokens_ch; [| reflexivity | apply rp_ident_46 | discriminate | discriminate | discriminate].
    rewrite (rp_tokens_ident uni fuel _ _ Hne Hall (rp_peek_keys_cs_stop uni ks)).
    rewrite IH by lia. rewrite Hb. reflexivity.
Qed.

Lemma rp_visible_keys : forall uni ks, filter (visible uni) (rp_key_toks ks) = rp_key_toks ks.
Proof.
  intros uni ks. induction ks as [|kq ks IH]; [reflexivity|].
  cbn [rp_key_toks filter]. unfold visible at 1 2. cbn [tk].
  change (is_print uni 46) with true. cbv iota. rewrite IH. reflexivity.
Qed.

Lemma rp_lex_key_text : forall uni root ks, Forall (good_key uni) ks ->
  lex uni (key_text root ks) = Some (rp_root_tok root ks :: rp_key_toks ks).
Proof.
  intros uni root ks H. unfold lex. rewrite (rp_chars_key_text _ root _ H).
  rewrite rp_tokens_ch.
  - rewrite (rp_tokens_keys _ _ H) by (cbn [length]; lia).
    cbn [option_map filter]. unfold visible at 1, rp_root_tok. cbn [tk].
    replace (is_print uni (rp_root_rune root)) with true by (destruct root; reflexivity).
    rewrite rp_visible_keys. reflexivity.
  - destruct root; reflexivity.
  - destruct root; [apply rp_ident_36|apply rp_ident_64].
  - destruct root; discriminate.
  - destruct root; discriminate.
  - destruct root; discriminate.
Qed.

(* ------------------------------------------------------------------ *)
(** * The parser on that token stream                                   *)
(* ------------------------------------------------------------------ *)

Lemma rp_strip_qmark_piece : forall kq,
  (snd kq = false -> forall k', fst kq <> k' ++ bs "?") ->
  strip_qmark (key_piece kq) = (fst kq, snd kq).
Proof.
  intros [k q] H. cbn [fst snd] in *. unfold key_piece, strip_qmark. cbn [fst snd].
  destruct q.
  - rewrite rev_app_distr. cbn. rewrite rev_involutive. reflexivity.
  - rewrite app_nil_r. destruct (rev k) as [|c r] eqn:E; [reflexivity|].
    destruct (Ascii.eqb c "?"%char) eqn:Ec; [|reflexivity].
    exfalso. apply Ascii.eqb_eq in Ec. subst c.
    apply (H eq_refl (rev r)).
    rewrite <- (rev_involutive k), E. reflexivity.
Qed.

Lemma rp_path_loop_eof : forall k root isf me ops us rest,
  path_loop (S k) root isf me ops us CEOF rest = Ok (CZero, rest, Path false root isf me ops us).
Proof. reflexivity. Qed.

Lemma rp_path_loop_dot : forall k root isf me ops us b n rest,
  path_loop (S k) root isf me ops us (CTok (mkTok (TCh 46) b n)) rest
  = let (c, r) := scan rest in path_loop k root isf me ops (us ++ ch_str 46) c r.
Proof. reflexivity. Qed.

Lemma rp_path_loop_key : forall k root isf me ops us txt n rest,
  n <> 40 ->
  path_loop (S k) root isf me ops us (CTok (mkTok TIdent txt n)) rest
  = let '(name, q) := strip_qmark txt in
    let (c, r) := scan rest in
    path_loop k root isf me (ops ++ [PIdent name q txt]) (us ++ txt) c r.
Proof.
  intros k root isf me ops us txt n rest Hn. apply Z.eqb_neq in Hn.
  cbn [path_loop is_ch is_ident_tok tk tnext ttext orb]. rewrite Hn. reflexivity.
Qed.

Lemma rp_path_loop_keys : forall uni ks, Forall (good_key uni) ks ->
  forall fuel root isf me ops us, (2 * length ks + 1 <= fuel)%nat ->
  (let (c, r) := scan (rp_key_toks ks) in path_loop fuel root isf me ops us c r)
  = Ok (CZero, [], Path false root isf me (ops ++ key_ops ks) (us ++ rp_keys_text ks)).
Proof.
  intros uni ks H. induction H as [|kq ks Hk Hks IH]; intros fuel root isf me ops us Hf.
  - destruct fuel as [|fuel]; [cbn [length] in Hf; lia|].
    cbn [rp_key_toks scan]. rewrite rp_path_loop_eof.
    unfold key_ops, rp_keys_text. cbn [map concat]. rewrite !app_nil_r. reflexivity.
  - cbn [length] in Hf. destruct fuel as [|[|fuel]]; [lia|lia|].
    cbn [rp_key_toks scan].
    rewrite rp_path_loop_dot. cbn [scan].
    rewrite rp_path_loop_key
      by (destruct (rp_peek_keys_cs ks) as [E|E]; rewrite E; discriminate).
    destruct Hk as (_ & _ & Hq). rewrite (rp_strip_qmark_piece _ Hq).
    rewrite IH by lia.
    unfold key_ops, rp_keys_text. cbn [map concat].
    rewrite <- !app_assoc. reflexivity.
Qed.

Lemma rp_key_toks_length : forall ks, length (rp_key_toks ks) = (2 * length ks)%nat.
Proof. induction ks as [|kq ks IH]; [reflexivity|]. cbn [rp_key_toks length]. rewrite IH. lia. Qed.

Lemma rp_top_loop_root : forall k root ks rest,
  top_loop (S (S k)) None (CTok (rp_root_tok root ks)) rest
  = do (c, r, p) <- (let (c, r) := scan rest in
                     path_loop k root false false [] (rp_root_str root) c r);
    top_loop (S k) (Some (TopP p)) c r.
Proof. intros k [|] ks rest; reflexivity. Qed.

Lemma rp_parse_key_toks : forall uni root ks, Forall (good_key uni) ks ->
  parse_tokens (rp_root_tok root ks :: rp_key_toks ks)
  = Ok (TopP (Path false root false false (key_ops ks) (key_text root ks))).
Proof.
  intros uni root ks H. unfold parse_tokens. cbn [scan].
  assert (Hfuel : exists f, parse_fuel (rp_root_tok root ks :: rp_key_toks ks) = S (S f)
                            /\ (2 * length ks + 1 <= f)%nat).
  { unfold parse_fuel. cbn [length]. rewrite rp_key_toks_length.
    exists (3 * S (2 * length ks) + 6)%nat. split; lia. }
  destruct Hfuel as (f & -> & Hf).
  rewrite rp_top_loop_root.
  rewrite (rp_path_loop_keys _ _ H) by exact Hf.
  reflexivity.
Qed.

(* ------------------------------------------------------------------ *)
(** * Main statements                                                   *)
(* ------------------------------------------------------------------ *)

Lemma rp_ops_keys_key_ops : forall ks, ops_keys (key_ops ks) ks.
Proof.
  intros ks. unfold ops_keys, key_ops. induction ks as [|kq ks IH]; constructor; [|exact IH].
  exists (key_piece kq). reflexivity.
Qed.

Theorem C09_keypath_sprint : forall inv root isf me ops us ks,
  ops_keys ops ks -> sprint_top (TopP (Path inv root isf me ops us)) = key_text root ks.
Proof.
  intros inv root isf me ops us ks H.
  unfold sprint_top, key_text. cbn [path_us sprint_path]. unfold tabs. cbn [repeat app].
  f_equal. unfold ops_keys in H.
  induction H as [|o kq ops ks (us' & ->) _ IH]; [reflexivity|].
  cbn [map concat]. rewrite IH. reflexivity.
Qed.

Theorem C09_keypath_reparse : forall uni root ks,
  Forall (good_key uni) ks ->
  parse_string uni (key_text root ks)
  = Ok (TopP (Path false root false false (key_ops ks) (key_text root ks))).
Proof.
  intros uni root ks H. unfold parse_string.
  rewrite (rp_lex_key_text _ root _ H). exact (rp_parse_key_toks _ root _ H).
Qed.

Corollary C09_keypath_fixed_point : forall uni inv root isf me ops us ks,
  ops_keys ops ks -> Forall (good_key uni) ks ->
  exists a', parse_string uni (sprint_top (TopP (Path inv root isf me ops us))) = Ok (TopP a') /\
             sprint_top (TopP a') = sprint_top (TopP (Path inv root isf me ops us)) /\
             path_us a' = sprint_top (TopP (Path inv root isf me ops us)).
Proof.
  intros uni inv root isf me ops us ks Hops Hgood.
  rewrite (C09_keypath_sprint inv root isf me ops us ks Hops).
  exists (Path false root false false (key_ops ks) (key_text root ks)).
  split; [exact (C09_keypath_reparse uni root ks Hgood)|].
  split; [|reflexivity].
  apply C09_keypath_sprint, rp_ops_keys_key_ops.
Qed.

(** ASCII keys: a sufficient condition for [good_key] that needs no UTF-8 *)
Definition good_key_ascii (uni : uclass) (kq : str * bool) : Prop :=
  fst kq <> [] /\
  Forall (fun c => byte c < 128 /\ is_ident_rune uni (byte c) = true) (fst kq) /\
  (snd kq = false -> forall k', fst kq <> k' ++ bs "?").

Lemma rp_ident_pos : forall uni c, is_ident_rune uni c = true -> c < 128 -> 0 < c.
Proof.
  intros uni c H Hc. unfold is_ident_rune in H.
  destruct (zmem c invalid_runes || is_space uni c); [discriminate|].
  unfold is_print in H. replace (c <? 128) with true in H by (symmetry; apply Z.ltb_lt; lia).
  apply andb_true_iff in H. destruct H as [H _]. apply Z.leb_le in H. lia.
Qed.

Lemma rp_chars_ascii_str : forall uni k,
  Forall (fun c => byte c < 128 /\ is_ident_rune uni (byte c) = true) k ->
  chars_fuel (S (length k)) k = Some (map (fun c => (byte c, [c])) k) /\
  forallb (fun rb => is_ident_rune uni (fst rb)) (map (fun c => (byte c, [c])) k) = true.
Proof.
  intros uni k H. induction H as [|c k (Hc & Hi) Hk (IH1 & IH2)]; [split; reflexivity|].
  split.
  - rewrite rp_chars_ascii by (split; [eapply rp_ident_pos; eauto|exact Hc]).
    rewrite IH1. reflexivity.
  - cbn [map forallb fst]. rewrite Hi, IH2. reflexivity.
Qed.

Lemma rp_good_key_ascii : forall uni kq, good_key_ascii uni kq -> good_key uni kq.
Proof.
  intros uni kq (Hne & Hall & Hq). split; [exact Hne|split; [|exact Hq]].
  destruct (rp_chars_ascii_str _ _ Hall) as (H1 & H2). eauto.
Qed.

Corollary C09_keypath_reparse_ascii : forall uni root ks,
  Forall (good_key_ascii uni) ks ->
  parse_string uni (key_text root ks)
  = Ok (TopP (Path false root false false (key_ops ks) (key_text root ks))).
Proof.
  intros uni root ks H. apply C09_keypath_reparse.
  eapply Forall_impl; [|exact H]. intros kq. apply rp_good_key_ascii.
Qed.

(** ** Examples *)

Example C09_keypath_ex1 :
  parse_string uni_ascii (bs "$.a?.b")
  = Ok (TopP (Path false true false false
                [PIdent (bs "a") true (bs "a?"); PIdent (bs "b") false (bs "b")] (bs "$.a?.b"))).
Proof. vm_compute. reflexivity. Qed.

Example C09_keypath_ex2 :
  parse_string uni_ascii (bs "@.items.price_2?")
  = Ok (TopP (Path false false false false
                [PIdent (bs "items") false (bs "items"); PIdent (bs "price_2") true (bs "price_2?")]
                (bs "@.items.price_2?"))).
Proof. vm_compute. reflexivity. Qed.

Example C09_keypath_ex3 :
  parse_string uni_ascii (bs "$") = Ok (TopP (Path false true false false [] (bs "$"))).
Proof. vm_compute. reflexivity. Qed.

(** the theorem instantiated, and agreeing with the computation *)
Example C09_keypath_ex4 :
  key_text true [(bs "a", true); (bs "b", false)] = bs "$.a?.b" /\
  Forall (good_key uni_ascii) [(bs "a", true); (bs "b", false)].
Proof.
  split; [reflexivity|].
  repeat constructor; cbn [fst snd]; try discriminate;
    try (eexists; split; vm_compute; reflexivity);
    intros _ [|c [|d k']]; discriminate.
Qed.

(** a two-byte rune (U+00E9) in a key, with a classifier that calls it printable *)
Example C09_keypath_ex5 :
  let uni := mkUclass (fun c => c =? 233) (fun _ => false) in
  let k := [chr 99; chr 195; chr 169] in
  good_key uni (k, false) /\
  parse_string uni (bs "$." ++ k) = Ok (TopP (Path false true false false [PIdent k false k] (bs "$." ++ k))).
Proof.
  split.
  - repeat split; cbn [fst snd]; try discriminate.
    + eexists; split; vm_compute; reflexivity.
    + intros _ [|a [|b [|c [|d k']]]]; discriminate.
  - vm_compute. reflexivity.
Qed.

(** The corner case excluded by [good_key]: a key whose name ends in `?`,
    printed without a mark, reads back as the shorter key with the mark set. *)
Example C09_key_trailing_qmark_refuted : forall us us0,
  let t := TopP (Path false true false false [PIdent (bs "a?") false us] us0) in
  sprint_top t = bs "$.a?" /\
  parse_string uni_ascii (sprint_top t)
  = Ok (TopP (Path false true false false [PIdent (bs "a") true (bs "a?")] (bs "$.a?"))) /\
  ~ good_key uni_ascii (bs "a?", false).
Proof.
  intros us us0 t.
  assert (E : sprint_top t = bs "$.a?").
  { unfold t. rewrite (C09_keypath_sprint _ _ _ _ _ _ [(bs "a?", false)]); [reflexivity|].
    constructor; [|constructor]. exists us. reflexivity. }
  split; [exact E|split].
  - rewrite E. vm_compute. reflexivity.
  - intros (_ & _ & Hq). exact (Hq eq_refl (bs "a") eq_refl).
Qed.

(** hence the hypothesis cannot simply be dropped from the reparse theorem *)
Example C09_keypath_reparse_needs_good_key_refuted :
  ~ (forall uni root ks,
       parse_string uni (key_text root ks)
       = Ok (TopP (Path false root false false (key_ops ks) (key_text root ks)))).
Proof.
  intros H. specialize (H uni_ascii true [(bs "a?", false)]).
  vm_compute in H. discriminate H.
Qed.

(* ================================================================== *)
(** * 2c. The printed literal lexes as one string token                *)
(* ================================================================== *)

Lemma c9_invalid_34 : zmem 34 invalid_runes = true. Proof. vm_compute. reflexivity. Qed.
Lemma c9_ident_34 : forall uni, is_ident_rune uni 34 = false.
Proof. intros uni. unfold is_ident_rune. rewrite c9_invalid_34. reflexivity. Qed.

(** a string token inside a longer input *)
Lemma tokens_string : forall uni k q0 cs q rest,
  rsafe false cs = true ->
  tokens_fuel uni (S k) ((34, q0) :: cs ++ (34, q) :: rest)
  = option_map (cons (mkTok TString (q0 ++ concat (map snd cs) ++ q) (peek rest)))
               (tokens_fuel uni k rest).
Proof.
  intros uni k q0 cs q rest Hs. cbn [tokens_fuel].
  replace (is_ws 34) with false by reflexivity. rewrite c9_ident_34.
  replace (34 =? 34) with true by reflexivity.
  destruct (scan_string_safe (length cs) cs (le_n _) Hs
              (S (length (cs ++ (34, q) :: rest))) q rest q0 O) as [n' Hn'].
  { rewrite app_length. cbn [length]. lia. }
  rewrite Hn'. reflexivity.
Qed.

(** the literal printed for the value v is lexable when the escaped text
    decodes (valid UTF-8, no NUL) into runes the string scanner accepts *)
Definition lit_ok (v : str) : Prop :=
  exists cs, chars_fuel (S (length (escape v))) (escape v) = Some cs /\ rsafe false cs = true.

Lemma c9_chars_quote_app : forall s cs,
  chars_fuel (S (length s)) s = Some cs ->
  chars_fuel (S (length (bs """" ++ s ++ bs """"))) (bs """" ++ s ++ bs """")
  = Some ((34, bs """") :: cs ++ [(34, bs """")]).
Proof.
  intros s cs H.
  change (bs """" ++ s ++ bs """") with (dquote :: (s ++ bs """")).
  rewrite rp_chars_ascii by (vm_compute; split; reflexivity).
  rewrite (rp_chars_app s cs (bs """") H).
  reflexivity.
Qed.

Theorem C09_literal_lex : forall uni v, lit_ok v ->
  lex uni (param_string (FPStr v))
  = Some [mkTok TString (param_string (FPStr v)) (-1)].
Proof.
  intros uni v (cs & Hcs & Hs). cbn [param_string]. unfold lex, chars.
  rewrite (c9_chars_quote_app _ _ Hcs).
  replace (34 =? bom) with false by reflexivity.
  cbn [length]. rewrite tokens_string by exact Hs.
  assert (Hb : concat (map snd cs) = escape v).
  { apply (rp_chars_fuel_bytes _ _ _ Hcs). lia. }
  rewrite Hb.
  destruct (length (cs ++ [(34, bs """")])) as [|k] eqn:El.
  { rewrite app_length in El. cbn [length] in El. lia. }
  reflexivity.
Qed.

(** *** a syntactic class of lexable values: ASCII (no NUL), clean, not ending
    in an odd run of backslashes *)
Fixpoint leading_bslashes (s : str) : nat :=
  match s with c :: s' => if Ascii.eqb c bslash then S (leading_bslashes s') else O | [] => O end.
Definition trailing_bslashes (v : str) : nat := leading_bslashes (rev v).

(** the pairing of backslashes from the left; true = a backslash is pending *)
Fixpoint bs_pairs (st : bool) (v : str) : bool :=
  match v with
  | [] => st
  | c :: v' => if st then bs_pairs false v' else bs_pairs (Ascii.eqb c bslash) v'
  end.

Lemma bs_pairs_app st a b : bs_pairs st (a ++ b) = bs_pairs (bs_pairs st a) b.
Proof. revert st. induction a as [|c a IH]; intros st; [reflexivity|]. cbn [app bs_pairs]. destruct st; apply IH. Qed.

Lemma leading_bslashes_rev_snoc v c :
  leading_bslashes (rev (v ++ [c])) = if Ascii.eqb c bslash then S (leading_bslashes (rev v)) else O.
Proof. rewrite rev_app_distr. reflexivity. Qed.

Lemma bs_pairs_trailing : forall v, bs_pairs false v = Nat.odd (trailing_bslashes v).
Proof.
  unfold trailing_bslashes. induction v as [|c v IH] using rev_ind; [reflexivity|].
  rewrite bs_pairs_app, IH, leading_bslashes_rev_snoc. cbn [bs_pairs].
  destruct (Ascii.eqb c bslash).
  - rewrite Nat.odd_succ, <- Nat.negb_odd. destruct (Nat.odd (leading_bslashes (rev v))); reflexivity.
  - destruct (Nat.odd (leading_bslashes (rev v))); reflexivity.
Qed.

Definition asc_runes (w : str) : list (Z * str) := map (fun c => (byte c, [c])) w.
Definition is_asc (c : ascii) : bool := (0 <? byte c) && (byte c <? 128).

Lemma byte_const_facts : forall c,
  Bool.eqb (byte c =? 34) (Ascii.eqb c dquote) && Bool.eqb (byte c =? 10) (Ascii.eqb c lfchar) &&
  Bool.eqb (byte c =? 92) (Ascii.eqb c bslash) && implb (is_asc c) (forallb is_asc (esc_byte c)) = true.
Proof. apply forall_bytes. vm_compute. reflexivity. Qed.

Lemma byte_consts c :
  (byte c =? 34) = Ascii.eqb c dquote /\ (byte c =? 10) = Ascii.eqb c lfchar /\
  (byte c =? 92) = Ascii.eqb c bslash /\ (is_asc c = true -> forallb is_asc (esc_byte c) = true).
Proof.
  pose proof (byte_const_facts c) as H.
  apply andb_true_iff in H. destruct H as [H H4].
  apply andb_true_iff in H. destruct H as [H H3].
  apply andb_true_iff in H. destruct H as [H1 H2].
  apply Bool.eqb_prop in H1. apply Bool.eqb_prop in H2. apply Bool.eqb_prop in H3.
  repeat split; try assumption.
  intros Ha. rewrite Ha in H4. exact H4.
Qed.

Lemma neq_eqb_false (a b : ascii) : a <> b -> Ascii.eqb a b = false.
Proof. intros H. destruct (Ascii.eqb a b) eqn:E; [apply Ascii.eqb_eq in E; contradiction|reflexivity]. Qed.

Lemma rsafe_asc_cons st c w :
  rsafe st (asc_runes (c :: w)) =
  if st then negb (Ascii.eqb c lfchar) && rsafe false (asc_runes w)
  else if Ascii.eqb c dquote || Ascii.eqb c lfchar then false else rsafe (Ascii.eqb c bslash) (asc_runes w).
Proof.
  destruct (byte_consts c) as (H1 & H2 & H3 & _).
  unfold asc_runes. cbn [map rsafe]. rewrite H1, H2, H3. reflexivity.
Qed.

(** the scanner automaton on the escaped text = the backslash pairing on the value *)
Lemma rsafe_escape : forall v st, clean v ->
  (st = true -> match v with d :: _ => is_second d = false | [] => True end) ->
  rsafe st (asc_runes (flat_map esc_byte v)) = negb (bs_pairs st v).
Proof.
  induction v as [|c v IH]; intros st Hc Hst; [reflexivity|].
  pose proof (clean_tail _ _ Hc) as Hc'.
  cbn [flat_map bs_pairs].
  destruct (Ascii.eqb c bslash) eqn:Hcb.
  - apply Ascii.eqb_eq in Hcb. subst c. rewrite esc_byte_bslash. cbn [app].
    rewrite rsafe_asc_cons. rewrite Ascii.eqb_refl.
    replace (Ascii.eqb bslash lfchar) with false by reflexivity.
    replace (Ascii.eqb bslash dquote) with false by reflexivity.
    cbn [negb andb orb].
    destruct st.
    + apply IH; [exact Hc'|discriminate].
    + apply IH; [exact Hc'|]. intros _. destruct v as [|d v']; [exact I|].
      apply (clean_bslash_next d v'). exact Hc.
  - destruct (byte_cases c) as [Hp Hq Hl|z Hs Hnb Hzl Hzb Hu Hzq].
    + rewrite Hp. cbn [app]. rewrite rsafe_asc_cons.
      rewrite (neq_eqb_false _ _ Hq), (neq_eqb_false _ _ Hl), Hcb. cbn [negb andb orb].
      destruct st; apply IH; try exact Hc'; discriminate.
    + rewrite Hs. cbn [app]. destruct st.
      * (* pending backslash: the inserted backslash is consumed, z is scanned plainly *)
        rewrite rsafe_asc_cons.
        replace (Ascii.eqb bslash lfchar) with false by reflexivity. cbn [negb andb].
        rewrite rsafe_asc_cons.
        specialize (Hst eq_refl). cbn in Hst.
        rewrite (neq_eqb_false _ _ (Hzq Hst)), (neq_eqb_false _ _ Hzl), (neq_eqb_false _ _ Hzb).
        cbn [orb]. apply IH; [exact Hc'|discriminate].
      * rewrite rsafe_asc_cons.
        replace (Ascii.eqb bslash lfchar) with false by reflexivity.
        replace (Ascii.eqb bslash dquote) with false by reflexivity.
        rewrite Ascii.eqb_refl. cbn [orb].
        rewrite rsafe_asc_cons.
        rewrite (neq_eqb_false _ _ Hzl). cbn [negb andb].
        apply IH; [exact Hc'|discriminate].
Qed.

Lemma chars_asc : forall w, forallb is_asc w = true ->
  chars_fuel (S (length w)) w = Some (asc_runes w).
Proof.
  induction w as [|c w IH]; intros H; [reflexivity|].
  cbn [forallb] in H. apply andb_true_iff in H. destruct H as [Hc Hw].
  unfold is_asc in Hc. apply andb_true_iff in Hc. destruct Hc as [H0 H1].
  apply Z.ltb_lt in H0. apply Z.ltb_lt in H1.
  rewrite rp_chars_ascii by lia. rewrite (IH Hw). reflexivity.
Qed.

Lemma escape_asc : forall v, forallb is_asc v = true -> forallb is_asc (flat_map esc_byte v) = true.
Proof.
  induction v as [|c v IH]; intros H; [reflexivity|].
  cbn [forallb] in H. apply andb_true_iff in H. destruct H as [Hc Hv].
  cbn [flat_map]. rewrite forallb_app, (IH Hv), andb_true_r.
  destruct (byte_consts c) as (_ & _ & _ & Ha). apply Ha. exact Hc.
Qed.

Theorem lit_ok_ascii : forall v,
  Forall (fun c => 0 < byte c < 128) v -> clean v -> Nat.even (trailing_bslashes v) = true ->
  lit_ok v.
Proof.
  intros v Ha Hc Ht.
  assert (Hasc : forallb is_asc v = true).
  { apply forallb_forall. intros c Hin. rewrite Forall_forall in Ha. specialize (Ha c Hin).
    unfold is_asc. apply andb_true_iff. split; apply Z.ltb_lt; lia. }
  exists (asc_runes (escape v)). split.
  - apply chars_asc. rewrite escape_bytewise. apply escape_asc. exact Hasc.
  - rewrite escape_bytewise, (rsafe_escape v false Hc) by discriminate.
    rewrite bs_pairs_trailing, <- Nat.negb_even, Ht. reflexivity.
Qed.

(** C09_literal_roundtrip: the literal Sprint prints for a clean, lexable
    value is one string token, and the parser's reading of that token
    (unescape of the text between the quotes) is the value. *)
Theorem C09_literal_roundtrip : forall uni v, clean v -> lit_ok v ->
  exists t, lex uni (param_string (FPStr v)) = Some [t] /\ tk t = TString /\
            unescape (strip_dquotes (ttext t)) = v.
Proof.
  intros uni v Hc Hl. eexists. split; [apply C09_literal_lex; exact Hl|].
  split; [reflexivity|]. cbn [ttext]. apply C09_literal_value. exact Hc.
Qed.

Corollary C09_literal_roundtrip_ascii : forall uni v,
  Forall (fun c => 0 < byte c < 128) v -> clean v -> Nat.even (trailing_bslashes v) = true ->
  exists t, lex uni (param_string (FPStr v)) = Some [t] /\ tk t = TString /\
            unescape (strip_dquotes (ttext t)) = v.
Proof. intros uni v Ha Hc Ht. apply C09_literal_roundtrip; [exact Hc|apply lit_ok_ascii; assumption]. Qed.

(** a value ending in a single backslash prints as a literal that does not lex *)
Example C09_literal_trailing_bslash_refuted :
  let v := [bslash] in clean v /\ lex uni_ascii (param_string (FPStr v)) = None.
Proof. vm_compute. split; reflexivity. Qed.

(* ================================================================== *)
(** * 4. `?` marks                                                      *)
(* ================================================================== *)
Theorem C09_key_roundtrip : forall (name : str) (q : bool),
  (q = false -> forall k', name <> k' ++ bs "?") ->
  strip_qmark (name ++ (if q then bs "?" else [])) = (name, q).
Proof. intros name q H. exact (rp_strip_qmark_piece (name, q) H). Qed.

(** the corner: a key that itself ends in `?` and carries no mark is printed
    as name, and read back as the shorter key with the mark set *)
Theorem C09_key_roundtrip_trailing_qmark : forall k',
  strip_qmark ((k' ++ bs "?") ++ []) = (k', true).
Proof.
  intros k'. rewrite app_nil_r. unfold strip_qmark. rewrite rev_app_distr. cbn.
  rewrite rev_involutive. reflexivity.
Qed.

(* ================================================================== *)
(** * 5 (continued). Key-only paths: the reparsed tree is structurally equal *)
(* ================================================================== *)
Lemma ops_keys_struct_eq : forall ops ks, ops_keys ops ks ->
  Forall2 struct_eq_pathop ops (key_ops ks).
Proof.
  intros ops ks H. induction H as [|o kq ops ks [us ->] _ IH]; [constructor|].
  cbn [key_ops map]. constructor; [constructor|exact IH].
Qed.

Theorem C09_keypath_struct_eq : forall uni inv root me ops us ks,
  ops_keys ops ks -> Forall (good_key uni) ks ->
  let a := Path inv root false me ops us in
  exists a', parse_string uni (sprint_top (TopP a)) = Ok (TopP a') /\
             struct_eq (TopP a) (TopP a') /\
             sprint_top (TopP a') = sprint_top (TopP a) /\
             path_us a' = sprint_top (TopP a).
Proof.
  intros uni inv root me ops us ks Hk Hg a. unfold a.
  rewrite (C09_keypath_sprint inv root false me ops us ks Hk).
  exists (Path false root false false (key_ops ks) (key_text root ks)).
  split; [apply C09_keypath_reparse; exact Hg|].
  split; [constructor; constructor; apply ops_keys_struct_eq; exact Hk|].
  split; [|reflexivity].
  apply C09_keypath_sprint.
  clear. induction ks as [|kq ks IH]; [constructor|].
  cbn [key_ops map]. constructor; [eexists; reflexivity|exact IH].
Qed.

(** and therefore evaluates to the same result on every data value *)
Corollary C09_keypath_same_result : forall uni eng inv root me ops us ks data,
  ops_keys ops ks -> Forall (good_key uni) ks ->
  let a := Path inv root false me ops us in
  exists a', parse_string uni (sprint_top (TopP a)) = Ok (TopP a') /\
             do_top uni eng (TopP a') data = do_top uni eng (TopP a) data.
Proof.
  intros uni eng inv root me ops us ks data Hk Hg a.
  destruct (C09_keypath_struct_eq uni inv root me ops us ks Hk Hg) as (a' & Hp & Hs & _).
  exists a'. split; [exact Hp|]. symmetry. apply C09_same_result_top. exact Hs.
Qed.

(* ================================================================== *)
(** * 2d. Every value the parser can store for a literal survives       *)
(* ================================================================== *)

(** [clean] is stronger than needed: a backslash may be followed by a byte
    that escape rewrites (a quote, a control byte); only a backslash followed
    by one of the letters that unescape consumes is fatal. *)
Definition bad_after_bslash (d : ascii) : bool := is_second d && str_eqb (esc_byte d) [d].

Fixpoint wclean_b (v : str) : bool :=
  match v with
  | [] => true
  | c :: v' =>
    (negb (Ascii.eqb c bslash) || match v' with d :: _ => negb (bad_after_bslash d) | [] => true end)
    && wclean_b v'
  end.
Definition wclean (v : str) : Prop := wclean_b v = true.

Lemma clean_wclean : forall v, clean v -> wclean v.
Proof.
  unfold clean, wclean. induction v as [|c v IH]; intros H; [reflexivity|].
  cbn [clean_b wclean_b] in *. apply andb_true_iff in H. destruct H as [H1 H2].
  rewrite (IH H2), andb_true_r.
  destruct (Ascii.eqb c bslash); [|reflexivity]. cbn [negb orb] in *.
  destruct v as [|d v']; [reflexivity|].
  unfold bad_after_bslash. apply negb_true_iff in H1. rewrite H1. reflexivity.
Qed.

(** table facts about the unescape side, byte by byte *)
Definition unesc_fact (d : ascii) : bool :=
  match unesc_byte d with
  | Some y => str_eqb (esc_byte y) [bslash; d] && negb (Ascii.eqb y bslash) && is_second d
              && negb (Ascii.eqb d lfchar) && negb (Ascii.eqb d bslash) && is_asc y && is_asc d
  | None => negb (is_second d)
  end.
Lemma unesc_fact_all : forall d, unesc_fact d = true.
Proof. apply forall_bytes. vm_compute. reflexivity. Qed.

Lemma unesc_some d y : unesc_byte d = Some y ->
  esc_byte y = [bslash; d] /\ y <> bslash /\ is_second d = true /\ d <> lfchar /\ d <> bslash /\
  is_asc y = true /\ is_asc d = true.
Proof.
  intros H. pose proof (unesc_fact_all d) as F. unfold unesc_fact in F. rewrite H in F.
  apply andb_true_iff in F. destruct F as [F F7].
  apply andb_true_iff in F. destruct F as [F F6].
  apply andb_true_iff in F. destruct F as [F F5].
  apply andb_true_iff in F. destruct F as [F F4].
  apply andb_true_iff in F. destruct F as [F F3].
  apply andb_true_iff in F. destruct F as [F1 F2].
  apply str_eqb_eq in F1.
  repeat split; try assumption; apply neqb_neq; assumption.
Qed.

Lemma unesc_none d : unesc_byte d = None -> is_second d = false.
Proof.
  intros H. pose proof (unesc_fact_all d) as F. unfold unesc_fact in F. rewrite H in F.
  apply negb_true_iff in F. exact F.
Qed.

Lemma not_bad_of_none d : unesc_byte d = None -> bad_after_bslash d = false.
Proof. intros H. unfold bad_after_bslash. rewrite (unesc_none d H). reflexivity. Qed.

Lemma not_bad_special y d : esc_byte y = [bslash; d] -> bad_after_bslash y = false.
Proof.
  intros H. unfold bad_after_bslash. rewrite H.
  destruct (is_second y); [|reflexivity]. cbn [andb str_eqb].
  rewrite andb_false_r. reflexivity.
Qed.

Lemma wclean_tail c v : wclean (c :: v) -> wclean v.
Proof. unfold wclean. cbn [wclean_b]. intros H. apply andb_true_iff in H. tauto. Qed.

Lemma wclean_bslash_next d v : wclean (bslash :: d :: v) -> bad_after_bslash d = false.
Proof.
  unfold wclean. cbn [wclean_b]. intros H. apply andb_true_iff in H. destruct H as [H _].
  rewrite Ascii.eqb_refl in H. cbn [negb orb] in H. apply negb_true_iff in H. exact H.
Qed.

Lemma esc_head_unesc_none_w : forall d v, bad_after_bslash d = false ->
  match flat_map esc_byte (d :: v) with e :: _ => unesc_byte e = None | [] => True end.
Proof.
  intros d v Hd. cbn [flat_map].
  destruct (byte_cases d) as [Hp _ _|z Hs _ _ _ _ _].
  - rewrite Hp. cbn [app]. unfold bad_after_bslash in Hd. rewrite Hp, str_eqb_refl, andb_true_r in Hd.
    apply not_second_unesc. exact Hd.
  - rewrite Hs. cbn [app]. exact unesc_byte_bslash.
Qed.

Lemma unesc_esc_wclean : forall v, wclean v -> unesc_pass unesc_byte (flat_map esc_byte v) = v.
Proof.
  induction v as [|c v IH]; intros Hc; [reflexivity|].
  pose proof (IH (wclean_tail _ _ Hc)) as IHv.
  destruct (Ascii.eqb c bslash) eqn:Hcb.
  - apply Ascii.eqb_eq in Hcb. subst c.
    cbn [flat_map]. rewrite esc_byte_bslash. cbn [app].
    rewrite pass_bs_none; [rewrite IHv; reflexivity|].
    destruct v as [|d v']; [exact I|].
    apply esc_head_unesc_none_w. apply (wclean_bslash_next d v'). exact Hc.
  - cbn [flat_map]. destruct (byte_cases c) as [Hp _ _|z Hs _ _ _ Hu _].
    + rewrite Hp. cbn [app]. rewrite pass_cons_nb by exact Hcb. rewrite IHv. reflexivity.
    + rewrite Hs. cbn [app]. rewrite (pass_bs_some unesc_byte z c) by exact Hu. rewrite IHv. reflexivity.
Qed.

Theorem C09_unescape_escape_weak : forall v, wclean v -> unescape (escape v) = v.
Proof. intros v Hc. rewrite unescape_pass, escape_bytewise. apply unesc_esc_wclean. exact Hc. Qed.

(** the head of an unescaped string *)
Lemma unesc_head_not_bad : forall s,
  match s with d :: _ => unesc_byte d = None | [] => True end ->
  match unesc_pass unesc_byte s with e :: _ => bad_after_bslash e = false | [] => True end.
Proof.
  intros [|c [|d s'']] H; [exact I| |].
  - cbn [unesc_pass]. apply not_bad_of_none. exact H.
  - cbn [unesc_pass]. destruct (Ascii.eqb c bslash) eqn:Hc.
    + destruct (unesc_byte d) as [y|] eqn:Hd.
      * destruct (unesc_some d y Hd) as (He & _). apply (not_bad_special y d He).
      * apply not_bad_of_none. exact H.
    + apply not_bad_of_none. exact H.
Qed.

Lemma wclean_unesc_n : forall n (s : str), (length s <= n)%nat -> wclean (unesc_pass unesc_byte s).
Proof.
  unfold wclean. induction n as [|n IH]; intros s Hn.
  - destruct s; [reflexivity|cbn [length] in Hn; lia].
  - destruct s as [|c [|d s'']]; [reflexivity| |].
    + cbn [unesc_pass wclean_b]. rewrite orb_true_r. reflexivity.
    + cbn [length] in Hn.
      destruct (Ascii.eqb c bslash) eqn:Hc.
      * apply Ascii.eqb_eq in Hc. subst c.
        destruct (unesc_byte d) as [y|] eqn:Hd.
        -- rewrite (pass_bs_some unesc_byte d y) by exact Hd.
           destruct (unesc_some d y Hd) as (_ & Hyb & _).
           cbn [wclean_b]. rewrite (neq_eqb_false _ _ Hyb). cbn [negb orb andb]. apply IH. lia.
        -- rewrite pass_bs_none by exact Hd.
           cbn [wclean_b]. rewrite Ascii.eqb_refl. cbn [negb orb].
           rewrite (IH (d :: s'')) by (cbn [length]; lia). rewrite andb_true_r.
           pose proof (unesc_head_not_bad (d :: s'') Hd) as Hh.
           destruct (unesc_pass unesc_byte (d :: s'')) as [|e r]; [reflexivity|].
           rewrite Hh. reflexivity.
      * rewrite pass_cons_nb by exact Hc. cbn [wclean_b]. rewrite Hc. cbn [negb orb andb].
        apply IH. cbn [length]. lia.
Qed.

Theorem C09_unescape_image_wclean : forall s, wclean (unescape s).
Proof. intros s. rewrite unescape_pass. exact (wclean_unesc_n (length s) s (le_n _)). Qed.

(** unescape-after-escape is the identity on everything unescape can produce,
    i.e. on every value the parser stores for a string (or character) literal *)
Theorem C09_unescape_escape_on_image : forall s, unescape (escape (unescape s)) = unescape s.
Proof. intros s. apply C09_unescape_escape_weak. apply C09_unescape_image_wclean. Qed.

(** ** the scanner automaton on bytes *)
Fixpoint lit_safe (st : bool) (w : str) : bool :=
  match w with
  | [] => negb st
  | c :: w' =>
    if st then negb (Ascii.eqb c lfchar) && lit_safe false w'
    else if Ascii.eqb c dquote || Ascii.eqb c lfchar then false
    else lit_safe (Ascii.eqb c bslash) w'
  end.

Lemma rsafe_asc : forall w st, rsafe st (asc_runes w) = lit_safe st w.
Proof.
  induction w as [|c w IH]; intros st; [reflexivity|].
  rewrite rsafe_asc_cons. cbn [lit_safe]. rewrite !IH. reflexivity.
Qed.

Lemma lit_safe_plain st c w : c <> dquote -> c <> lfchar -> c <> bslash ->
  lit_safe st (c :: w) = lit_safe false w.
Proof.
  intros H1 H2 H3. cbn [lit_safe].
  rewrite (neq_eqb_false _ _ H1), (neq_eqb_false _ _ H2), (neq_eqb_false _ _ H3).
  destruct st; reflexivity.
Qed.

(** a body the scanner accepts, unescaped then escaped again, is accepted *)
Lemma lit_safe_esc_unesc : forall n (s : str) st, (length s <= n)%nat ->
  (st = true -> match s with d :: _ => unesc_byte d = None | [] => True end) ->
  lit_safe st s = true ->
  lit_safe st (flat_map esc_byte (unesc_pass unesc_byte s)) = true.
Proof.
  induction n as [|n IH]; intros s st Hn Hinv Hs.
  - destruct s; [exact Hs|cbn [length] in Hn; lia].
  - destruct s as [|c s']; [exact Hs|]. cbn [length] in Hn.
    (* one byte [c] emitted by unescape, in scanner state st, followed by rest *)
    assert (Hemit : forall rest,
              (st = true -> unesc_byte c = None) ->
              Ascii.eqb c bslash = false ->
              lit_safe st (c :: rest) = true ->
              forall out, lit_safe false rest = true -> lit_safe false out = true ->
              lit_safe st (esc_byte c ++ out) = true).
    { intros rest Hi Hcb Hl out _ Hout.
      destruct (byte_cases c) as [Hp Hq Hlf|z Hz Hnb Hzl Hzb Hu Hzq].
      - rewrite Hp. cbn [app]. rewrite lit_safe_plain; [exact Hout|exact Hq|exact Hlf|].
        intros E. subst c. rewrite Ascii.eqb_refl in Hcb. discriminate.
      - rewrite Hz. cbn [app]. destruct st.
        + cbn [lit_safe]. replace (Ascii.eqb bslash lfchar) with false by reflexivity. cbn [negb andb].
          assert (Hsec : is_second c = false) by (apply unesc_none; apply Hi; reflexivity).
          rewrite (neq_eqb_false _ _ (Hzq Hsec)), (neq_eqb_false _ _ Hzl), (neq_eqb_false _ _ Hzb).
          cbn [orb]. exact Hout.
        + cbn [lit_safe].
          replace (Ascii.eqb bslash lfchar) with false by reflexivity.
          replace (Ascii.eqb bslash dquote) with false by reflexivity.
          rewrite Ascii.eqb_refl. cbn [orb]. rewrite (neq_eqb_false _ _ Hzl). cbn [negb andb].
          exact Hout. }
    destruct s' as [|d s''].
    + (* last byte *)
      cbn [unesc_pass flat_map]. rewrite app_nil_r.
      destruct (Ascii.eqb c bslash) eqn:Hcb.
      * apply Ascii.eqb_eq in Hcb. subst c. rewrite esc_byte_bslash. exact Hs.
      * rewrite <- (app_nil_r (esc_byte c)).
        apply (Hemit []); [exact Hinv|first [exact Hcb|reflexivity]|exact Hs|reflexivity|reflexivity].
    + cbn [length] in Hn.
      destruct (Ascii.eqb c bslash) eqn:Hcb.
      * apply Ascii.eqb_eq in Hcb. subst c.
        destruct (unesc_byte d) as [y|] eqn:Hd.
        -- (* a rule: the two bytes come back as they were *)
           rewrite (pass_bs_some unesc_byte d y) by exact Hd.
           destruct (unesc_some d y Hd) as (He & _ & Hsec & Hdl & Hdb & _).
           cbn [flat_map]. rewrite He. cbn [app].
           assert (IHs : lit_safe false s'' = true ->
                         lit_safe false (flat_map esc_byte (unesc_pass unesc_byte s'')) = true).
           { intros H. apply IH; [lia|discriminate|exact H]. }
           destruct st.
           ++ cbn [lit_safe] in Hs |- *.
              replace (Ascii.eqb bslash lfchar) with false in * by reflexivity. cbn [negb andb] in *.
              destruct (Ascii.eqb d dquote || Ascii.eqb d lfchar); [discriminate|].
              rewrite (neq_eqb_false _ _ Hdb) in *. apply IHs. exact Hs.
           ++ cbn [lit_safe] in Hs |- *.
              replace (Ascii.eqb bslash lfchar) with false in * by reflexivity.
              replace (Ascii.eqb bslash dquote) with false in * by reflexivity.
              rewrite Ascii.eqb_refl in *. cbn [orb] in *.
              rewrite (neq_eqb_false _ _ Hdl) in *. cbn [negb andb] in *. apply IHs. exact Hs.
        -- rewrite pass_bs_none by exact Hd.
           cbn [flat_map]. rewrite esc_byte_bslash. cbn [app].
           destruct st.
           ++ cbn [lit_safe] in Hs |- *.
              replace (Ascii.eqb bslash lfchar) with false in * by reflexivity. cbn [negb andb] in *.
              apply IH; [cbn [length]; lia|discriminate|exact Hs].
           ++ cbn [lit_safe] in Hs |- *.
              replace (Ascii.eqb bslash lfchar) with false in * by reflexivity.
              replace (Ascii.eqb bslash dquote) with false in * by reflexivity.
              rewrite Ascii.eqb_refl in *. cbn [orb] in *.
              apply IH; [cbn [length]; lia|intros _; exact Hd|exact Hs].
      * rewrite pass_cons_nb by exact Hcb. cbn [flat_map].
        assert (Hrest : lit_safe false (d :: s'') = true).
        { cbn [lit_safe] in Hs. destruct st.
          - apply andb_true_iff in Hs. tauto.
          - destruct (Ascii.eqb c dquote || Ascii.eqb c lfchar); [discriminate|].
            rewrite Hcb in Hs. exact Hs. }
        apply (Hemit (d :: s'')); [exact Hinv|first [exact Hcb|reflexivity]|exact Hs|exact Hrest|].
        apply IH; [cbn [length]; lia|discriminate|exact Hrest].
Qed.

Theorem lit_safe_image : forall s, lit_safe false s = true ->
  lit_safe false (escape (unescape s)) = true.
Proof.
  intros s H. rewrite unescape_pass, escape_bytewise.
  apply (lit_safe_esc_unesc (length s) s false (le_n _)); [discriminate|exact H].
Qed.

(** ASCII is preserved by unescape *)
Lemma unesc_asc_n : forall n (s : str), (length s <= n)%nat ->
  forallb is_asc s = true -> forallb is_asc (unesc_pass unesc_byte s) = true.
Proof.
  induction n as [|n IH]; intros s Hn Ha.
  - destruct s; [reflexivity|cbn [length] in Hn; lia].
  - destruct s as [|c [|d s'']]; [reflexivity|exact Ha|]. cbn [length] in Hn.
    cbn [forallb] in Ha. apply andb_true_iff in Ha. destruct Ha as [Hc Ha].
    destruct (Ascii.eqb c bslash) eqn:Hcb.
    + apply Ascii.eqb_eq in Hcb. subst c. destruct (unesc_byte d) as [y|] eqn:Hd.
      * rewrite (pass_bs_some unesc_byte d y) by exact Hd.
        destruct (unesc_some d y Hd) as (_ & _ & _ & _ & _ & Hy & _).
        cbn [forallb]. rewrite Hy. apply andb_true_iff in Ha. destruct Ha as [_ Ha].
        apply IH; [lia|exact Ha].
      * rewrite pass_bs_none by exact Hd. cbn [forallb]. rewrite Hc. apply IH; [cbn [length]; lia|exact Ha].
    + rewrite pass_cons_nb by exact Hcb. cbn [forallb]. rewrite Hc. apply IH; [cbn [length]; lia|exact Ha].
Qed.

(** C09 for string literals, complete for ASCII bodies: whatever string token
    the scanner accepts, the value stored for it is printed as a literal that
    is again one string token, and that token yields the same value. *)
Theorem C09_string_token_roundtrip_ascii : forall uni body,
  forallb is_asc body = true -> lit_safe false body = true ->
  let tok := bs """" ++ body ++ bs """" in
  let v := unescape (strip_dquotes tok) in
  lex uni tok = Some [mkTok TString tok (-1)] /\
  lex uni (param_string (FPStr v)) = Some [mkTok TString (param_string (FPStr v)) (-1)] /\
  unescape (strip_dquotes (param_string (FPStr v))) = v.
Proof.
  intros uni body Ha Hs tok v. unfold v, tok. rewrite strip_dquotes_quoted.
  assert (Hlex : forall w, forallb is_asc w = true -> lit_safe false w = true ->
            lex uni (bs """" ++ w ++ bs """") = Some [mkTok TString (bs """" ++ w ++ bs """") (-1)]).
  { intros w Hwa Hws. unfold lex, chars.
    rewrite (c9_chars_quote_app w (asc_runes w) (chars_asc w Hwa)).
    replace (34 =? bom) with false by reflexivity.
    cbn [length]. rewrite tokens_string by (rewrite rsafe_asc; exact Hws).
    assert (Hb : concat (map snd (asc_runes w)) = w).
    { clear. induction w as [|c w IH]; [reflexivity|]. unfold asc_runes in *.
      cbn [map concat snd app]. rewrite IH. reflexivity. }
    rewrite Hb.
    destruct (length (asc_runes w ++ [(34, bs """")])) as [|k] eqn:El.
    { rewrite app_length in El. cbn [length] in El. lia. }
    reflexivity. }
  split; [apply Hlex; assumption|]. split.
  - cbn [param_string]. apply Hlex.
    + rewrite escape_bytewise. apply escape_asc. rewrite unescape_pass.
      apply (unesc_asc_n (length body)); [apply le_n|exact Ha].
    + apply lit_safe_image. exact Hs.
  - cbn [param_string]. rewrite strip_dquotes_quoted. apply C09_unescape_escape_on_image.
Qed.

(** the stronger notion is not necessary: backslash-quote is not clean, yet survives *)
Example C09_clean_not_necessary :
  let v := unescape (bs "\\\""") in
  v = [bslash; bslash; dquote] /\ ~ clean v /\ wclean v /\ unescape (escape v) = v.
Proof. vm_compute. repeat split; try reflexivity. discriminate. Qed.

(* ================================================================== *)
(** * UTF-8: runes that decode to themselves                            *)
(* ================================================================== *)
(* Utf8.v — runes produced by chars_fuel are self-decoding, lists of
   self-decoding runes decode back from their bytes, and the byte shape of runes. *)

(* a rune whose bytes decode to itself whatever follows *)
Definition u8_good_rune (rb : Z * str) : Prop :=
  snd rb <> [] /\ fst rb <> 0 /\
  forall t, decode_rune (snd rb ++ t) = (fst rb, length (snd rb)) /\
            ((fst rb =? rune_error) && (length (snd rb) =? 1)%nat = false).

(** rewrite the conditions already decided by [rp_break] *)
Ltac u8_rew :=
  repeat match goal with
         | H : ?c = _ |- context [if ?c then _ else _] => rewrite H
         end.

(** a successful decode is determined by the [w] bytes it consumed *)
Lemma u8_decode_rune_firstn : forall s r w,
  s <> [] -> decode_rune s = (r, w) ->
  (r =? rune_error) && (w =? 1)%nat = false ->
  decode_rune (firstn w s) = (r, w) /\ length (firstn w s) = w /\ firstn w s <> [].
Proof.
  intros s r w Hne H E. revert H.
  destruct s as [|b0 [|b1 [|b2 [|b3 s]]]]; [congruence| | | |];
    unfold decode_rune at 1; cbv zeta;
    rp_break; intros H; inversion H; subst r w;
    try (exfalso; discriminate E);
    cbn [firstn length]; (split; [|split; [reflexivity|discriminate]]);
    unfold decode_rune; cbv zeta; u8_rew; reflexivity.
Qed.

Lemma u8_decode_good : forall s r w,
  s <> [] -> decode_rune s = (r, w) ->
  (r =? rune_error) && (w =? 1)%nat = false -> r <> 0 ->
  u8_good_rune (r, firstn w s).
Proof.
  intros s r w Hne D E H0.
  destruct (u8_decode_rune_firstn _ _ _ Hne D E) as (D' & Hl & Hne').
  unfold u8_good_rune. cbn [fst snd]. split; [exact Hne'|split; [exact H0|]].
  intros t. rewrite Hl. split; [|exact E].
  exact (proj1 (rp_decode_rune_app _ t _ _ Hne' D' E)).
Qed.

(** (1) every rune of a successful [chars_fuel] is self-decoding *)
Lemma u8_chars_good : forall n s cs, (length s < n)%nat ->
  chars_fuel n s = Some cs -> Forall u8_good_rune cs /\ concat (map snd cs) = s.
Proof.
  intros n s cs Hn H. split; [|exact (rp_chars_fuel_bytes _ _ _ H Hn)].
  revert s cs Hn H. induction n as [|n IH]; intros s cs Hn H; [lia|].
  destruct s as [|c s].
  - cbn in H. inversion H. constructor.
  - assert (Hne : c :: s <> []) by discriminate.
    rewrite (rp_chars_fuel_S n _ Hne) in H.
    destruct (decode_rune (c :: s)) as [r w] eqn:D.
    pose proof (rp_decode_rune_width _ _ _ Hne D) as Hw.
    destruct ((r =? rune_error) && (w =? 1)%nat) eqn:E1; [discriminate|].
    destruct (r =? 0) eqn:E2; [discriminate|].
    destruct (chars_fuel n (skipn w (c :: s))) as [l|] eqn:E3; [|discriminate].
    inversion H; subst cs. constructor.
    + apply u8_decode_good; auto. apply Z.eqb_neq, E2.
    + apply (IH _ _) in E3; [exact E3|].
      rewrite skipn_length. cbn [length] in *. lia.
Qed.

(** (2) self-decoding runes decode back from their concatenated bytes *)
Lemma u8_good_chars : forall cs, Forall u8_good_rune cs ->
  forall n, (length (concat (map snd cs)) < n)%nat ->
  chars_fuel n (concat (map snd cs)) = Some cs.
Proof.
  intros cs H. induction H as [|[r b] cs (Hb & Hr & Hd) Hcs IH]; intros n Hn.
  - destruct n; [lia|reflexivity].
  - cbn [fst snd] in *. cbn [map concat snd] in *.
    destruct n as [|n]; [lia|].
    assert (Hlb : (1 <= length b)%nat) by (destruct b; [congruence|cbn [length]; lia]).
    assert (Hne : b ++ concat (map snd cs) <> []) by (destruct b; [congruence|discriminate]).
    destruct (Hd (concat (map snd cs))) as (D & E).
    rewrite (rp_chars_fuel_S n _ Hne), D, E.
    apply Z.eqb_neq in Hr. rewrite Hr.
    rewrite skipn_app, firstn_app, skipn_all, firstn_all, Nat.sub_diag.
    cbn [skipn firstn app]. rewrite app_nil_r.
    rewrite IH; [reflexivity|].
    rewrite app_length in Hn. lia.
Qed.

(** hence, for self-decoding runes, the two views coincide *)
Lemma u8_good_chars_iff : forall cs n, (length (concat (map snd cs)) < n)%nat ->
  (Forall u8_good_rune cs <-> chars_fuel n (concat (map snd cs)) = Some cs).
Proof.
  intros cs n Hn. split.
  - intros H. apply u8_good_chars; assumption.
  - intros H. exact (proj1 (u8_chars_good _ _ _ Hn H)).
Qed.

(** (3) the byte shape of a decoded rune *)
Lemma u8_byte_nonneg : forall c, 0 <= byte c.
Proof. intros c. unfold byte. lia. Qed.

Ltac u8_bools :=
  unfold in_rng, is_cont in *;
  repeat match goal with
         | H : context [if ?c then _ else _] |- _ => destruct c eqn:?
         | H : _ && _ = true |- _ => apply andb_true_iff in H; destruct H
         | H : (_ <=? _) = true |- _ => apply Z.leb_le in H
         | H : (_ <? _) = true |- _ => apply Z.ltb_lt in H
         | H : (_ <? _) = false |- _ => apply Z.ltb_ge in H
         | H : (_ =? _) = true |- _ => apply Z.eqb_eq in H
         | H : (_ =? _) = false |- _ => apply Z.eqb_neq in H
         end.

Lemma u8_decode_rune_shape : forall s r w,
  s <> [] -> decode_rune s = (r, w) ->
  (r =? rune_error) && (w =? 1)%nat = false -> r <> 0 ->
  (0 < r < 128 /\ exists c, firstn w s = [c] /\ byte c = r) \/
  (128 <= r /\ firstn w s <> [] /\ Forall (fun c => 128 <= byte c) (firstn w s)).
Proof.
  intros s r w Hne H E H0. revert H.
  destruct s as [|b0 [|b1 [|b2 [|b3 s]]]]; [congruence| | | |];
    unfold decode_rune; cbv zeta;
    rp_break; intros H; inversion H; subst r w;
    try (exfalso; discriminate E);
    cbn [firstn]; clear H E;
    pose proof (u8_byte_nonneg b0);
    u8_bools;
    first [ left; split; [lia|eexists; split; reflexivity]
          | right; split; [lia|split; [discriminate|repeat constructor; lia]] ].
Qed.

Lemma u8_rune_shape : forall n s cs, (length s < n)%nat ->
  chars_fuel n s = Some cs ->
  Forall (fun rb => (0 < fst rb < 128 /\ exists c, snd rb = [c] /\ byte c = fst rb) \/
                    (128 <= fst rb /\ snd rb <> [] /\ Forall (fun c => 128 <= byte c) (snd rb))) cs.
Proof.
  induction n as [|n IH]; intros s cs Hn H; [lia|].
  destruct s as [|c s].
  - cbn in H. inversion H. constructor.
  - assert (Hne : c :: s <> []) by discriminate.
    rewrite (rp_chars_fuel_S n _ Hne) in H.
    destruct (decode_rune (c :: s)) as [r w] eqn:D.
    pose proof (rp_decode_rune_width _ _ _ Hne D) as Hw.
    destruct ((r =? rune_error) && (w =? 1)%nat) eqn:E1; [discriminate|].
    destruct (r =? 0) eqn:E2; [discriminate|].
    destruct (chars_fuel n (skipn w (c :: s))) as [l|] eqn:E3; [|discriminate].
    inversion H; subst cs. constructor.
    + cbn [fst snd]. apply u8_decode_rune_shape; auto. apply Z.eqb_neq, E2.
    + apply (IH _ _) in E3; [exact E3|].
      rewrite skipn_length. cbn [length] in *. lia.
Qed.

(** and conversely an ASCII non-NUL byte is a good rune *)
Lemma u8_good_ascii : forall c, 0 < byte c < 128 -> u8_good_rune (byte c, [c]).
Proof.
  intros c Hc. unfold u8_good_rune. cbn [fst snd length app].
  split; [discriminate|split; [lia|]]. intros t.
  unfold decode_rune.
  replace (byte c <? 128) with true by (symmetry; apply Z.ltb_lt; lia).
  replace (byte c =? rune_error) with false by (symmetry; apply Z.eqb_neq; unfold rune_error; lia).
  split; reflexivity.
Qed.

(* ================================================================== *)
(** * 2e. String literals with arbitrary UTF-8 content                  *)
(* ================================================================== *)

Definition rune_shape (rb : Z * str) : Prop :=
  (0 < fst rb < 128 /\ exists c, snd rb = [c] /\ byte c = fst rb) \/
  (128 <= fst rb /\ snd rb <> [] /\ Forall (fun c => 128 <= byte c) (snd rb)).

Definition valid_utf8 (s : str) : Prop := exists cs, chars_fuel (S (length s)) s = Some cs.

Lemma valid_runes s : valid_utf8 s <->
  exists cs, Forall u8_good_rune cs /\ Forall rune_shape cs /\ concat (map snd cs) = s.
Proof.
  split.
  - intros [cs H]. exists cs.
    destruct (u8_chars_good _ _ _ (Nat.lt_succ_diag_r _) H) as [Hg Hc].
    split; [exact Hg|]. split; [|exact Hc].
    exact (u8_rune_shape _ _ _ (Nat.lt_succ_diag_r _) H).
  - intros (cs & Hg & _ & Hc). exists cs. subst s. apply u8_good_chars; [exact Hg|lia].
Qed.

Definition high_byte (c : ascii) : Prop := 128 <= byte c.

Lemma high_fact_all : forall c,
  is_asc c || (byte c =? 0) ||
  (str_eqb (esc_byte c) [c] && negb (Ascii.eqb c bslash) && negb (Ascii.eqb c dquote) &&
   negb (Ascii.eqb c lfchar) && match unesc_byte c with None => true | Some _ => false end) = true.
Proof. apply forall_bytes. vm_compute. reflexivity. Qed.

Lemma high_facts c : high_byte c ->
  esc_byte c = [c] /\ c <> bslash /\ c <> dquote /\ c <> lfchar /\ unesc_byte c = None.
Proof.
  unfold high_byte. intros H. pose proof (high_fact_all c) as F.
  assert (Ha : is_asc c = false).
  { unfold is_asc. apply andb_false_iff. right. apply Z.ltb_ge. exact H. }
  assert (Hz : (byte c =? 0) = false) by (apply Z.eqb_neq; lia).
  rewrite Ha, Hz in F. cbn [orb] in F.
  apply andb_true_iff in F. destruct F as [F F5].
  apply andb_true_iff in F. destruct F as [F F4].
  apply andb_true_iff in F. destruct F as [F F3].
  apply andb_true_iff in F. destruct F as [F1 F2].
  apply str_eqb_eq in F1.
  repeat split; try (apply neqb_neq; assumption); try assumption.
  destruct (unesc_byte c); [discriminate|reflexivity].
Qed.

Lemma lit_safe_high : forall b rest st, b <> [] -> Forall high_byte b ->
  lit_safe st (b ++ rest) = lit_safe false rest.
Proof.
  induction b as [|c b IH]; intros rest st Hne HF; [congruence|].
  inversion HF as [|? ? Hc HF']; subst.
  destruct (high_facts c Hc) as (_ & Hb & Hq & Hl & _).
  cbn [app]. rewrite lit_safe_plain by assumption.
  destruct b as [|c' b']; [reflexivity|].
  apply IH; [discriminate|exact HF'].
Qed.

(** the rune-level scanner automaton only depends on the bytes *)
Lemma rsafe_bytes : forall cs st, Forall rune_shape cs ->
  rsafe st cs = lit_safe st (concat (map snd cs)).
Proof.
  induction cs as [|[r b] cs IH]; intros st HF; [reflexivity|].
  inversion HF as [|? ? Hs HF']; subst. cbn [map concat snd].
  destruct Hs as [(Hr & c & Hb & Hc)|(Hr & Hne & Hh)]; cbn [fst snd] in *.
  - subst b. cbn [app rsafe lit_safe].
    destruct (byte_consts c) as (H1 & H2 & H3 & _). rewrite Hc in *.
    rewrite H1, H2, H3, !(IH _ HF'). reflexivity.
  - rewrite (lit_safe_high b _ st Hne Hh). cbn [rsafe].
    replace (r =? 10) with false by (symmetry; apply Z.eqb_neq; lia).
    replace (r =? 34) with false by (symmetry; apply Z.eqb_neq; lia).
    replace (r =? 92) with false by (symmetry; apply Z.eqb_neq; lia).
    cbn [negb andb orb]. destruct st; apply IH; exact HF'.
Qed.

Lemma asc_runes_good : forall w, forallb is_asc w = true ->
  Forall u8_good_rune (asc_runes w) /\ Forall rune_shape (asc_runes w) /\
  concat (map snd (asc_runes w)) = w.
Proof.
  induction w as [|c w IH]; intros H; [repeat split; constructor|].
  cbn [forallb] in H. apply andb_true_iff in H. destruct H as [Hc Hw].
  destruct (IH Hw) as (I1 & I2 & I3).
  unfold is_asc in Hc. apply andb_true_iff in Hc. destruct Hc as [H0 H1].
  apply Z.ltb_lt in H0. apply Z.ltb_lt in H1.
  unfold asc_runes in *. cbn [map concat snd app]. repeat split.
  - constructor; [apply u8_good_ascii; lia|exact I1].
  - constructor; [|exact I2]. left. cbn [fst snd]. split; [lia|]. exists c. split; reflexivity.
  - rewrite I3. reflexivity.
Qed.

Lemma flat_map_high_id : forall b, Forall high_byte b -> flat_map esc_byte b = b.
Proof.
  induction b as [|c b IH]; intros HF; [reflexivity|].
  inversion HF as [|? ? Hc HF']; subst. cbn [flat_map].
  destruct (high_facts c Hc) as (He & _). rewrite He, (IH HF'). reflexivity.
Qed.

Lemma valid_escape : forall s, valid_utf8 s -> valid_utf8 (flat_map esc_byte s).
Proof.
  intros s Hv. apply valid_runes in Hv. destruct Hv as (cs & Hg & Hs & Hc). subst s.
  apply valid_runes.
  induction cs as [|[r b] cs IH]; [exists []; repeat split; constructor|].
  inversion Hg as [|? ? Hg1 Hg']; subst. inversion Hs as [|? ? Hs1 Hs']; subst.
  destruct (IH Hg' Hs') as (cs2 & G2 & S2 & C2).
  cbn [map concat snd]. rewrite flat_map_app.
  destruct Hs1 as [(Hr & c & Hb & Hc)|(Hr & Hne & Hh)]; cbn [fst snd] in *.
  - subst b. cbn [flat_map]. rewrite app_nil_r.
    assert (Ha : is_asc c = true).
    { unfold is_asc. apply andb_true_iff. split; apply Z.ltb_lt; lia. }
    destruct (byte_consts c) as (_ & _ & _ & Hesc). specialize (Hesc Ha).
    destruct (asc_runes_good (esc_byte c) Hesc) as (A1 & A2 & A3).
    exists (asc_runes (esc_byte c) ++ cs2). repeat split.
    + apply Forall_app. split; assumption.
    + apply Forall_app. split; assumption.
    + rewrite map_app, concat_app, A3, C2. reflexivity.
  - rewrite (flat_map_high_id b Hh).
    exists ((r, b) :: cs2). repeat split.
    + constructor; assumption.
    + constructor; [right; cbn [fst snd]; repeat split; assumption|exact S2].
    + cbn [map concat snd]. rewrite C2. reflexivity.
Qed.

Lemma pass_app_high : forall f b rest, Forall high_byte b ->
  unesc_pass f (b ++ rest) = b ++ unesc_pass f rest.
Proof.
  induction b as [|c b IH]; intros rest HF; [reflexivity|].
  inversion HF as [|? ? Hc HF']; subst.
  destruct (high_facts c Hc) as (_ & Hb & _).
  cbn [app]. rewrite pass_cons_nb by (apply neq_eqb_false; exact Hb).
  rewrite (IH rest HF'). reflexivity.
Qed.

Lemma valid_unesc_n : forall n cs, (length cs <= n)%nat ->
  Forall u8_good_rune cs -> Forall rune_shape cs ->
  exists cs2, Forall u8_good_rune cs2 /\ Forall rune_shape cs2 /\
              concat (map snd cs2) = unesc_pass unesc_byte (concat (map snd cs)).
Proof.
  induction n as [|n IH]; intros cs Hn Hg Hs.
  - destruct cs; [|cbn [length] in Hn; lia]. exists []. repeat split; constructor.
  - destruct cs as [|[r b] cs]; [exists []; repeat split; constructor|].
    cbn [length] in Hn.
    inversion Hg as [|? ? Hg1 Hg']; subst. inversion Hs as [|? ? Hs1 Hs']; subst.
    cbn [map concat snd].
    destruct Hs1 as [(Hr & c & Hb & Hc)|(Hr & Hne & Hh)]; cbn [fst snd] in *.
    + subst b. subst r. cbn [app].
      destruct (Ascii.eqb c bslash) eqn:Hcb.
      * apply Ascii.eqb_eq in Hcb. subst c.
        (* what follows the backslash? *)
        destruct cs as [|[r' b'] cs'].
        { exists [(byte bslash, [bslash])]. repeat split.
          - constructor; [exact Hg1|constructor].
          - constructor; [left; cbn [fst snd]; split; [lia|exists bslash; split; reflexivity]|constructor]. }
        inversion Hg' as [|? ? Hg2 Hg'']; subst. inversion Hs' as [|? ? Hs2 Hs'']; subst.
        cbn [length] in Hn. cbn [map concat snd].
        destruct Hs2 as [(Hr' & d & Hb' & Hd)|(Hr' & Hne' & Hh')]; cbn [fst snd] in *.
        -- subst b'. subst r'. cbn [app]. destruct (unesc_byte d) as [y|] eqn:Hu.
           ++ rewrite (pass_bs_some unesc_byte d y) by exact Hu.
              destruct (IH cs' ltac:(lia) Hg'' Hs'') as (cs2 & G2 & S2 & C2).
              destruct (unesc_some d y Hu) as (_ & _ & _ & _ & _ & Hy & _).
              destruct (asc_runes_good [y]) as (A1 & A2 & A3).
              { cbn [forallb]. rewrite Hy. reflexivity. }
              exists (asc_runes [y] ++ cs2). repeat split.
              ** apply Forall_app. split; assumption.
              ** apply Forall_app. split; assumption.
              ** rewrite map_app, concat_app, A3, C2. reflexivity.
           ++ rewrite pass_bs_none by exact Hu.
              destruct (IH ((byte d, [d]) :: cs') ltac:(cbn [length]; lia) Hg' Hs') as (cs2 & G2 & S2 & C2).
              cbn [map concat snd app] in C2.
              exists ((byte bslash, [bslash]) :: cs2). repeat split.
              ** constructor; assumption.
              ** constructor; [left; cbn [fst snd]; split; [lia|exists bslash; split; reflexivity]|exact S2].
              ** cbn [map concat snd app]. rewrite C2. reflexivity.
        -- destruct b' as [|d b'']; [congruence|]. cbn [app].
           inversion Hh' as [|? ? Hdh _]; subst.
           destruct (high_facts d Hdh) as (_ & _ & _ & _ & Hu).
           rewrite pass_bs_none by exact Hu.
           destruct (IH ((r', d :: b'') :: cs') ltac:(cbn [length]; lia) Hg' Hs') as (cs2 & G2 & S2 & C2).
           cbn [map concat snd app] in C2.
           exists ((byte bslash, [bslash]) :: cs2). repeat split.
           ** constructor; assumption.
           ** constructor; [left; cbn [fst snd]; split; [lia|exists bslash; split; reflexivity]|exact S2].
           ** cbn [map concat snd app]. rewrite C2. reflexivity.
      * rewrite pass_cons_nb by exact Hcb.
        destruct (IH cs ltac:(lia) Hg' Hs') as (cs2 & G2 & S2 & C2).
        exists ((byte c, [c]) :: cs2). repeat split.
        -- constructor; assumption.
        -- constructor; [left; cbn [fst snd]; split; [lia|exists c; split; reflexivity]|exact S2].
        -- cbn [map concat snd app]. rewrite C2. reflexivity.
    + rewrite (pass_app_high unesc_byte b _ Hh).
      destruct (IH cs ltac:(lia) Hg' Hs') as (cs2 & G2 & S2 & C2).
      exists ((r, b) :: cs2). repeat split.
      * constructor; assumption.
      * constructor; [right; cbn [fst snd]; repeat split; assumption|exact S2].
      * cbn [map concat snd]. rewrite C2. reflexivity.
Qed.

Lemma valid_unesc : forall s, valid_utf8 s -> valid_utf8 (unesc_pass unesc_byte s).
Proof.
  intros s Hv. apply valid_runes in Hv. destruct Hv as (cs & Hg & Hs & Hc). subst s.
  apply valid_runes. exact (valid_unesc_n (length cs) cs (le_n _) Hg Hs).
Qed.

(** a quoted body the scanner accepts is one string token *)
Lemma lex_quoted : forall uni w cs,
  chars_fuel (S (length w)) w = Some cs -> rsafe false cs = true ->
  lex uni (bs """" ++ w ++ bs """") = Some [mkTok TString (bs """" ++ w ++ bs """") (-1)].
Proof.
  intros uni w cs Hcs Hs. unfold lex, chars.
  rewrite (c9_chars_quote_app _ _ Hcs).
  replace (34 =? bom) with false by reflexivity.
  cbn [length]. rewrite tokens_string by exact Hs.
  assert (Hb : concat (map snd cs) = w).
  { apply (rp_chars_fuel_bytes _ _ _ Hcs). lia. }
  rewrite Hb.
  destruct (length (cs ++ [(34, bs """")])) as [|k] eqn:El.
  { rewrite app_length in El. cbn [length] in El. lia. }
  reflexivity.
Qed.

Lemma lit_ok_of_bytes : forall v, valid_utf8 (escape v) -> lit_safe false (escape v) = true -> lit_ok v.
Proof.
  intros v [cs Hcs] Hs. exists cs. split; [exact Hcs|].
  rewrite (rsafe_bytes cs false (u8_rune_shape _ _ _ (Nat.lt_succ_diag_r _) Hcs)).
  rewrite (rp_chars_fuel_bytes _ _ _ Hcs (Nat.lt_succ_diag_r _)). exact Hs.
Qed.

(** C09 for string literals, complete: whatever string token the scanner
    accepts (any UTF-8 content, any escapes), the value the parser stores for
    it is printed by Sprint as a literal that is again one string token, and
    that token yields the same value. *)
Theorem C09_string_token_roundtrip : forall uni body cs,
  chars_fuel (S (length body)) body = Some cs -> rsafe false cs = true ->
  let tok := bs """" ++ body ++ bs """" in
  let v := unescape (strip_dquotes tok) in
  lex uni tok = Some [mkTok TString tok (-1)] /\
  lex uni (param_string (FPStr v)) = Some [mkTok TString (param_string (FPStr v)) (-1)] /\
  unescape (strip_dquotes (param_string (FPStr v))) = v /\
  wclean v /\ lit_ok v.
Proof.
  intros uni body cs Hcs Hs tok v. unfold v, tok. rewrite strip_dquotes_quoted.
  assert (Hl : lit_ok (unescape body)).
  { apply lit_ok_of_bytes.
    - rewrite escape_bytewise, unescape_pass. apply valid_escape, valid_unesc. exists cs. exact Hcs.
    - apply lit_safe_image.
      rewrite <- (rp_chars_fuel_bytes _ _ _ Hcs (Nat.lt_succ_diag_r _)).
      rewrite <- (rsafe_bytes cs false (u8_rune_shape _ _ _ (Nat.lt_succ_diag_r _) Hcs)). exact Hs. }
  split; [apply (lex_quoted uni body cs Hcs Hs)|].
  split; [apply C09_literal_lex; exact Hl|].
  split; [cbn [param_string]; rewrite strip_dquotes_quoted; apply C09_unescape_escape_on_image|].
  split; [apply C09_unescape_image_wclean|exact Hl].
Qed.

(** a syntactic class of printable values, now with UTF-8: valid UTF-8 without
    NUL, clean, not ending in an odd run of backslashes *)
Theorem lit_ok_utf8 : forall v,
  valid_utf8 v -> clean v -> Nat.even (trailing_bslashes v) = true -> lit_ok v.
Proof.
  intros v Hv Hc Ht. apply lit_ok_of_bytes.
  - rewrite escape_bytewise. apply valid_escape. exact Hv.
  - rewrite escape_bytewise, <- rsafe_asc, (rsafe_escape v false Hc) by discriminate.
    rewrite bs_pairs_trailing, <- Nat.negb_even, Ht. reflexivity.
Qed.

Corollary C09_literal_roundtrip_utf8 : forall uni v,
  valid_utf8 v -> clean v -> Nat.even (trailing_bslashes v) = true ->
  exists t, lex uni (param_string (FPStr v)) = Some [t] /\ tk t = TString /\
            unescape (strip_dquotes (ttext t)) = v.
Proof. intros uni v Hv Hc Ht. apply C09_literal_roundtrip; [exact Hc|apply lit_ok_utf8; assumption]. Qed.

Example C09_string_utf8_example :
  let body := bs "caf" ++ [chr 195; chr 169] ++ bs "\t\\n" in
  exists cs, chars_fuel (S (length body)) body = Some cs /\ rsafe false cs = true /\
             unescape body = bs "caf" ++ [chr 195; chr 169; chr 9; bslash; lfchar].
Proof. eexists. vm_compute. repeat split; reflexivity. Qed.

(* ================================================================== *)
(** * 5 (extended). Paths of keys and calls of known functions with literal arguments *)
(* ================================================================== *)
(* ================================================================== *)
(** * 7. Paths of keys and calls of known functions with literal arguments *)
(* ================================================================== *)

Definition known_func (ft : str) : Prop := exists d, In d func_table /\ ft = bs (fd_key d).
Definition num_ok (d : dec) : Prop :=
  dnorm d = d /\ Z.abs (coef d) * 10 ^ Z.max 0 (dexp d) < 10 ^ 15 /\
  -300 <= dexp d + Z.of_nat (length (show_Z (Z.abs (coef d)))).
Definition lit_param_ok (p : param) : Prop :=
  match p with
  | FPBool _ => True
  | FPStr v => clean v /\ lit_ok v
  | FPNum d => num_ok d
  | FPPath _ | FPLog _ => False
  end.
Definition frag_op (uni : uclass) (o : pathop) : Prop :=
  match o with
  | PIdent k q _ => good_key uni (k, q)
  | PFunc (Func _ ft ps _) => known_func ft /\ Forall lit_param_ok ps
  | PFilter _ _ => False
  end.

(* ------------------------------------------------------------------ *)
(** * The printed text                                                  *)
(* ------------------------------------------------------------------ *)

Fixpoint fc_tail_text (ps : list param) : str :=
  match ps with
  | [] => bs ")"
  | p :: ps' => bs "," ++ param_string p ++ fc_tail_text ps'
  end.
Definition fc_args_text (ps : list param) : str :=
  match ps with
  | [] => bs ")"
  | p :: ps' => param_string p ++ fc_tail_text ps'
  end.
Definition fc_func_text (ft : str) (ps : list param) : str := ft ++ bs "(" ++ fc_args_text ps.
Definition fc_op_text (o : pathop) : str :=
  match o with
  | PIdent k q _ => bs "." ++ key_piece (k, q)
  | PFunc (Func _ ft ps _) => bs "." ++ fc_func_text ft ps
  | PFilter _ _ => []
  end.
Definition fc_ops_text (ops : list pathop) : str := concat (map fc_op_text ops).
Definition fc_text (root : bool) (ops : list pathop) : str := rp_root_str root ++ fc_ops_text ops.

(** what the parser rebuilds: every userString recomputed *)
Definition fc_norm_op (o : pathop) : pathop :=
  match o with
  | PIdent k q _ => PIdent k q (key_piece (k, q))
  | PFunc (Func inv ft ps us) => PFunc (Func false ft ps (sprint_func (Func inv ft ps us)))
  | PFilter l us => PFilter l us
  end.
Definition fc_norm_ops (ops : list pathop) : list pathop := map fc_norm_op ops.

Definition fc_no_filter (o : pathop) : Prop := match o with PFilter _ _ => False | _ => True end.

Lemma fc_concat_str_tail : forall ps p,
  concat_str (bs ",") (map param_string (p :: ps)) ++ bs ")" = param_string p ++ fc_tail_text ps.
Proof.
  induction ps as [|p' ps IH]; intros p; [reflexivity|].
  change (concat_str (bs ",") (map param_string (p :: p' :: ps)))
    with (param_string p ++ bs "," ++ concat_str (bs ",") (map param_string (p' :: ps))).
  rewrite <- !app_assoc. rewrite IH. reflexivity.
Qed.

Lemma fc_sprint_func : forall inv ft ps us,
  sprint_func (Func inv ft ps us) = fc_func_text ft ps.
Proof.
  intros inv ft ps us. unfold sprint_func, fc_func_text. f_equal. f_equal.
  destruct ps as [|p ps]; [reflexivity|]. apply fc_concat_str_tail.
Qed.

Lemma fc_sprint_ops : forall k ops, Forall fc_no_filter ops ->
  concat (map (fun o => match o with
                        | PIdent name q _ => bs "." ++ name ++ (if q then bs "?" else [])
                        | PFilter l _ => sprint_log k 0 l
                        | PFunc f => bs "." ++ sprint_func f
                        end) ops) = fc_ops_text ops.
Proof.
  intros k ops H. unfold fc_ops_text. induction H as [|o ops Ho _ IH]; [reflexivity|].
  cbn [map concat]. rewrite IH. f_equal.
  destruct o as [name q us|l us|[inv ft ps us]]; [reflexivity|contradiction|].
  cbn [fc_op_text]. rewrite fc_sprint_func. reflexivity.
Qed.

Theorem C09_litfunc_sprint : forall inv root isf me ops us,
  Forall fc_no_filter ops ->
  sprint_top (TopP (Path inv root isf me ops us)) = fc_text root ops.
Proof.
  intros inv root isf me ops us H.
  unfold sprint_top, fc_text. cbn [path_us sprint_path]. unfold tabs. cbn [repeat app].
  rewrite (fc_sprint_ops _ _ H). destruct root; reflexivity.
Qed.

Lemma fc_frag_no_filter : forall uni ops, Forall (frag_op uni) ops -> Forall fc_no_filter ops.
Proof.
  intros uni ops H. eapply Forall_impl; [|exact H].
  intros [k q us|l us|f] Ho; [exact I|exact Ho|exact I].
Qed.

Lemma fc_norm_no_filter : forall ops, Forall fc_no_filter ops -> Forall fc_no_filter (fc_norm_ops ops).
Proof.
  intros ops H. unfold fc_norm_ops. induction H as [|o ops Ho _ IH]; [constructor|].
  cbn [map]. constructor; [|exact IH].
  destruct o as [k q us|l us|[inv ft ps us]]; [exact I|contradiction|exact I].
Qed.

Lemma fc_norm_text : forall ops, fc_ops_text (fc_norm_ops ops) = fc_ops_text ops.
Proof.
  intros ops. unfold fc_ops_text, fc_norm_ops. induction ops as [|o ops IH]; [reflexivity|].
  cbn [map concat]. rewrite IH. f_equal.
  destruct o as [k q us|l us|[inv ft ps us]]; reflexivity.
Qed.

(* ------------------------------------------------------------------ *)
(** * Rune facts on the generated tables                                *)
(* ------------------------------------------------------------------ *)

(** for a rune below 128 the classifier is not consulted *)
Definition fc_ident_b (c : Z) : bool := negb (zmem c invalid_runes) && (33 <=? c) && (c <=? 126).

Lemma fc_ident_b_sound : forall uni c, fc_ident_b c = true -> is_ident_rune uni c = true.
Proof.
  intros uni c H. unfold fc_ident_b in H.
  apply andb_true_iff in H. destruct H as [H H3].
  apply andb_true_iff in H. destruct H as [H1 H2].
  apply negb_true_iff in H1. apply Z.leb_le in H2. apply Z.leb_le in H3.
  unfold is_ident_rune, is_space, is_print. rewrite H1.
  replace (c <? 128) with true by (symmetry; apply Z.ltb_lt; lia).
  replace (9 <=? c) with true by (symmetry; apply Z.leb_le; lia).
  replace (c <=? 13) with false by (symmetry; apply Z.leb_gt; lia).
  replace (c =? 32) with false by (symmetry; apply Z.eqb_neq; lia).
  replace (32 <=? c) with true by (symmetry; apply Z.leb_le; lia).
  replace (c <=? 126) with true by (symmetry; apply Z.leb_le; lia).
  reflexivity.
Qed.

Lemma fc_ident_b_asc : forall ch, fc_ident_b (byte ch) = true -> is_asc ch = true.
Proof.
  intros ch H. unfold fc_ident_b in H.
  apply andb_true_iff in H. destruct H as [H H3].
  apply andb_true_iff in H. destruct H as [_ H2].
  apply Z.leb_le in H2. apply Z.leb_le in H3.
  unfold is_asc. apply andb_true_iff. split; apply Z.ltb_lt; lia.
Qed.

Definition fc_ident_str (w : str) : bool := forallb (fun ch => fc_ident_b (byte ch)) w.

Lemma fc_invalid_40 : zmem 40 invalid_runes = true. Proof. vm_compute. reflexivity. Qed.
Lemma fc_invalid_41 : zmem 41 invalid_runes = true. Proof. vm_compute. reflexivity. Qed.
Lemma fc_invalid_44 : zmem 44 invalid_runes = true. Proof. vm_compute. reflexivity. Qed.
Lemma fc_ident_40 : forall uni, is_ident_rune uni 40 = false.
Proof. intros uni. unfold is_ident_rune. rewrite fc_invalid_40. reflexivity. Qed.
Lemma fc_ident_41 : forall uni, is_ident_rune uni 41 = false.
Proof. intros uni. unfold is_ident_rune. rewrite fc_invalid_41. reflexivity. Qed.
Lemma fc_ident_44 : forall uni, is_ident_rune uni 44 = false.
Proof. intros uni. unfold is_ident_rune. rewrite fc_invalid_44. reflexivity. Qed.

(** digits and the minus sign are identifier runes; a digit is neither t nor f *)
Lemma fc_digit_facts : forall c,
  implb (is_digit c || Ascii.eqb c "-"%char || Ascii.eqb c "."%char) (is_asc c) &&
  implb (is_digit c || Ascii.eqb c "-"%char) (fc_ident_b (byte c)) &&
  implb (is_digit c) (negb (Ascii.eqb c "t"%char) && negb (Ascii.eqb c "f"%char)) = true.
Proof. apply forall_bytes. vm_compute. reflexivity. Qed.

Lemma fc_digit_ident : forall c, is_digit c = true -> fc_ident_b (byte c) = true.
Proof.
  intros c H. pose proof (fc_digit_facts c) as F. rewrite H in F. cbn [orb implb] in F.
  apply andb_true_iff in F. destruct F as [F _]. apply andb_true_iff in F. tauto.
Qed.

Lemma fc_digit_not_tf : forall c, is_digit c = true ->
  Ascii.eqb c "t"%char = false /\ Ascii.eqb c "f"%char = false.
Proof.
  intros c H. pose proof (fc_digit_facts c) as F. rewrite H in F. cbn [orb implb] in F.
  apply andb_true_iff in F. destruct F as [_ F]. apply andb_true_iff in F. destruct F as [F1 F2].
  apply negb_true_iff in F1. apply negb_true_iff in F2. tauto.
Qed.

Lemma fc_minus_ident : fc_ident_b (byte "-"%char) = true.
Proof. vm_compute. reflexivity. Qed.

Lemma fc_digits_ident : forall s, all_digits s = true -> fc_ident_str s = true.
Proof.
  induction s as [|c s IH]; intros H; [reflexivity|].
  cbn [all_digits] in H. apply andb_true_iff in H. destruct H as [Hc Hs].
  unfold fc_ident_str. cbn [forallb]. rewrite (fc_digit_ident c Hc). exact (IH Hs).
Qed.

Lemma fc_bool_ident : forall b, fc_ident_str (param_string (FPBool b)) = true.
Proof. intros [|]; vm_compute; reflexivity. Qed.

(** the function table: every key is a non-empty ASCII identifier that the
    parser's lookup by name maps to itself *)
Definition fc_name_ok (ft : str) : bool :=
  match ft with [] => false | _ => true end && fc_ident_str ft &&
  match ft_get_by_name ft with Some k => str_eqb k ft | None => false end.

Lemma fc_func_table_ok : forallb (fun d => fc_name_ok (bs (fd_key d))) func_table = true.
Proof. vm_compute. reflexivity. Qed.

Lemma fc_known_func : forall ft, known_func ft ->
  ft <> [] /\ fc_ident_str ft = true /\ ft_get_by_name ft = Some ft.
Proof.
  intros ft (d & Hin & ->).
  pose proof (proj1 (forallb_forall _ _) fc_func_table_ok d Hin) as H. cbv beta in H.
  unfold fc_name_ok in H.
  apply andb_true_iff in H. destruct H as [H H3].
  apply andb_true_iff in H. destruct H as [H1 H2].
  split; [|split; [exact H2|]].
  - intros E. rewrite E in H1. discriminate.
  - destruct (ft_get_by_name (bs (fd_key d))) as [k|]; [|discriminate].
    apply str_eqb_eq in H3. rewrite H3. reflexivity.
Qed.

(* ------------------------------------------------------------------ *)
(** * The shape of a printed number                                     *)
(* ------------------------------------------------------------------ *)

Lemma fc_num_shape : forall d, dnorm d = d ->
  exists neg ip fp,
    dec_to_string d = num_signed neg (num_join ip fp) /\
    all_digits ip = true /\ all_digits fp = true /\ ip <> [].
Proof.
  intros [c e] Hn.
  destruct (num_canonical c e Hn) as [Hz Hnz].
  destruct (Z.eq_dec c 0) as [Hc|Hc].
  { subst c. rewrite (Hz eq_refl). exists false, (bs "0"), []. repeat split; discriminate. }
  specialize (Hnz Hc). clear Hz.
  assert (Habs : 0 < Z.abs c) by lia.
  destruct (Z_le_gt_dec 0 e) as [He|He].
  - rewrite num_dts_nonneg by assumption.
    assert (Hp : 0 < 10 ^ e) by (apply Z.pow_pos_nonneg; lia).
    assert (Hzpos : 0 < Z.abs c * 10 ^ e) by nia.
    destruct (num_show_abs _ Hzpos) as (h & t & Hs & _ & Hd & _).
    exists (c <? 0), (h :: t), []. rewrite Hs. repeat split; [exact Hd|discriminate].
  - rewrite num_dts_neg by lia.
    destruct (num_show_abs (Z.abs c) Habs) as (h & t & Hs & Hh & Hd & _).
    assert (Hr : Z.rem (Z.abs c) 10 <> 0) by (rewrite Z.rem_abs_l by lia; lia).
    destruct (num_show_last (Z.abs c) Habs Hr) as (pre & l & Hsl & Hl).
    assert (Hd' : all_digits (show_Z (Z.abs c)) = true) by (rewrite Hs; exact Hd).
    destruct (num_frac_body_spec (show_Z (Z.abs c)) h t pre l (Z.to_nat (- e)) Hs Hsl Hh Hl Hd' ltac:(lia))
      as (ip & fp & Hbody & Hip & Hfp & Hne & _ & _).
    exists (c <? 0), ip, fp. rewrite Hbody. repeat split; assumption.
Qed.

Lemma fc_signed_ident : forall neg ip, all_digits ip = true -> fc_ident_str (num_signed neg ip) = true.
Proof.
  intros neg ip H. destruct neg; cbn [num_signed]; [|apply fc_digits_ident; exact H].
  unfold fc_ident_str. cbn [forallb]. rewrite fc_minus_ident. apply (fc_digits_ident _ H).
Qed.

Lemma fc_signed_split_nofrac : forall neg ip, all_digits ip = true ->
  after_dot (num_signed neg ip) = None.
Proof.
  intros neg ip H. destruct (num_nodot_digits ip H) as (_ & E & _).
  destruct neg; cbn [num_signed]; [|exact E]. cbn [after_dot]. exact E.
Qed.

Lemma fc_signed_split_frac : forall neg ip fp, all_digits ip = true ->
  after_dot (num_signed neg (ip ++ "."%char :: fp)) = Some fp /\
  before_dot (num_signed neg (ip ++ "."%char :: fp)) = num_signed neg ip.
Proof.
  intros neg ip fp H. destruct (num_before_dot_digits ip fp H) as (E1 & E2 & _).
  destruct neg; cbn [num_signed]; [|split; assumption].
  cbn [after_dot before_dot]. rewrite E1, E2. split; reflexivity.
Qed.

Lemma fc_signed_not_bool : forall neg ip, all_digits ip = true -> ip <> [] ->
  str_eqb (num_signed neg ip) (bs "true") = false /\ str_eqb (num_signed neg ip) (bs "false") = false.
Proof.
  intros neg ip H Hne. destruct neg; cbn [num_signed]; [split; reflexivity|].
  destruct ip as [|c ip]; [congruence|].
  cbn [all_digits] in H. apply andb_true_iff in H. destruct H as [Hc _].
  destruct (fc_digit_not_tf c Hc) as [Ht Hf].
  change (bs "true") with ("t"%char :: bs "rue"). change (bs "false") with ("f"%char :: bs "alse").
  cbn [str_eqb]. rewrite Ht, Hf. split; reflexivity.
Qed.

Lemma fc_num_asc : forall neg ip fp, all_digits ip = true -> all_digits fp = true ->
  forallb is_asc (num_signed neg (num_join ip fp)) = true.
Proof.
  assert (Hd : forall s, all_digits s = true -> forallb is_asc s = true).
  { induction s as [|c s IH]; intros H; [reflexivity|].
    cbn [all_digits] in H. apply andb_true_iff in H. destruct H as [Hc Hs].
    cbn [forallb]. rewrite (fc_ident_b_asc c (fc_digit_ident c Hc)). exact (IH Hs). }
  intros neg ip fp Hip Hfp.
  assert (Hj : forallb is_asc (num_join ip fp) = true).
  { unfold num_join. destruct fp as [|f fp]; [exact (Hd _ Hip)|].
    rewrite forallb_app, (Hd _ Hip). cbn [forallb andb]. exact (Hd _ Hfp). }
  destruct neg; cbn [num_signed]; [|exact Hj]. cbn [forallb]. rewrite Hj. reflexivity.
Qed.

(* ------------------------------------------------------------------ *)
(** * The character stream                                              *)
(* ------------------------------------------------------------------ *)

Definition fc_dec (s : str) (cs : list (Z * str)) : Prop := chars_fuel (S (length s)) s = Some cs.

Lemma fc_dec_nil : fc_dec [] [].
Proof. reflexivity. Qed.

Lemma fc_dec_app : forall a ca b cb, fc_dec a ca -> fc_dec b cb -> fc_dec (a ++ b) (ca ++ cb).
Proof.
  intros a ca b cb Ha Hb. unfold fc_dec in *. rewrite (rp_chars_app a ca b Ha), Hb. reflexivity.
Qed.

Lemma fc_dec_asc : forall w, forallb is_asc w = true -> fc_dec w (asc_runes w).
Proof. exact chars_asc. Qed.

Lemma fc_asc_runes_app : forall a b, asc_runes (a ++ b) = asc_runes a ++ asc_runes b.
Proof. intros a b. unfold asc_runes. apply map_app. Qed.

Lemma fc_asc_runes_bytes : forall w, concat (map snd (asc_runes w)) = w.
Proof. induction w as [|c w IH]; [reflexivity|]. cbn [asc_runes map concat snd app]. f_equal. exact IH. Qed.

Definition fc_param_cs (p : param) : list (Z * str) :=
  match p with
  | FPStr v => (34, bs """") :: rp_runes (escape v) ++ [(34, bs """")]
  | _ => asc_runes (param_string p)
  end.

Fixpoint fc_tail_cs (ps : list param) : list (Z * str) :=
  match ps with
  | [] => [(41, bs ")")]
  | p :: ps' => (44, bs ",") :: fc_param_cs p ++ fc_tail_cs ps'
  end.
Definition fc_args_cs (ps : list param) : list (Z * str) :=
  match ps with
  | [] => [(41, bs ")")]
  | p :: ps' => fc_param_cs p ++ fc_tail_cs ps'
  end.
Definition fc_op_cs (o : pathop) : list (Z * str) :=
  match o with
  | PIdent k q _ => (46, bs ".") :: rp_key_cs (k, q)
  | PFunc (Func _ ft ps _) => (46, bs ".") :: asc_runes ft ++ (40, bs "(") :: fc_args_cs ps
  | PFilter _ _ => []
  end.
Definition fc_ops_cs (ops : list pathop) : list (Z * str) := concat (map fc_op_cs ops).

Lemma fc_dec_param : forall p, lit_param_ok p -> fc_dec (param_string p) (fc_param_cs p).
Proof.
  intros [d|v|b|q|l] H; cbn [lit_param_ok] in H; try contradiction.
  - destruct H as (Hn & _ & _).
    destruct (fc_num_shape d Hn) as (neg & ip & fp & Hs & Hip & Hfp & _).
    cbn [fc_param_cs param_string]. apply fc_dec_asc. rewrite Hs. apply fc_num_asc; assumption.
  - destruct H as (_ & cs & Hcs & _).
    cbn [fc_param_cs param_string]. unfold rp_runes. rewrite Hcs.
    exact (c9_chars_quote_app _ _ Hcs).
  - cbn [fc_param_cs]. apply fc_dec_asc. destruct b; reflexivity.
Qed.

Lemma fc_dec_tail : forall ps, Forall lit_param_ok ps -> fc_dec (fc_tail_text ps) (fc_tail_cs ps).
Proof.
  intros ps H. induction H as [|p ps Hp _ IH]; [reflexivity|].
  cbn [fc_tail_text fc_tail_cs].
  apply (fc_dec_app (bs ",") [(44, bs ",")]); [reflexivity|].
  apply fc_dec_app; [apply fc_dec_param; exact Hp|exact IH].
Qed.

Lemma fc_dec_args : forall ps, Forall lit_param_ok ps -> fc_dec (fc_args_text ps) (fc_args_cs ps).
Proof.
  intros ps H. destruct H as [|p ps Hp Hps]; [reflexivity|].
  cbn [fc_args_text fc_args_cs].
  apply fc_dec_app; [apply fc_dec_param; exact Hp|apply fc_dec_tail; exact Hps].
Qed.

Lemma fc_ident_str_asc : forall w, fc_ident_str w = true -> forallb is_asc w = true.
Proof.
  induction w as [|c w IH]; intros H; [reflexivity|].
  unfold fc_ident_str in H. cbn [forallb] in H. apply andb_true_iff in H. destruct H as [Hc Hw].
  cbn [forallb]. rewrite (fc_ident_b_asc c Hc). exact (IH Hw).
Qed.

Lemma fc_dec_op : forall uni o, frag_op uni o -> fc_dec (fc_op_text o) (fc_op_cs o).
Proof.
  intros uni [k q us|l us|[inv ft ps us]] H; cbn [frag_op] in H; [| contradiction |].
  - cbn [fc_op_text fc_op_cs].
    apply (fc_dec_app (bs ".") [(46, bs ".")]); [reflexivity|].
    destruct (rp_good_key_runes _ _ H) as (Hr & _). cbn [fst] in Hr.
    unfold key_piece, rp_key_cs. cbn [fst snd].
    apply fc_dec_app; [exact Hr|]. destruct q; reflexivity.
  - destruct H as (Hk & Hps). destruct (fc_known_func ft Hk) as (_ & Hid & _).
    cbn [fc_op_text fc_op_cs]. unfold fc_func_text.
    apply (fc_dec_app (bs ".") [(46, bs ".")]); [reflexivity|].
    apply fc_dec_app; [apply fc_dec_asc, fc_ident_str_asc; exact Hid|].
    apply (fc_dec_app (bs "(") [(40, bs "(")]); [reflexivity|].
    apply fc_dec_args. exact Hps.
Qed.

Lemma fc_dec_ops : forall uni ops, Forall (frag_op uni) ops -> fc_dec (fc_ops_text ops) (fc_ops_cs ops).
Proof.
  intros uni ops H. unfold fc_ops_text, fc_ops_cs.
  induction H as [|o ops Ho _ IH]; [reflexivity|].
  cbn [map concat]. apply fc_dec_app; [exact (fc_dec_op uni o Ho)|exact IH].
Qed.

Lemma fc_chars_text : forall uni root ops, Forall (frag_op uni) ops ->
  chars (fc_text root ops) = Some ((rp_root_rune root, rp_root_str root) :: fc_ops_cs ops).
Proof.
  intros uni root ops H. unfold chars, fc_text.
  assert (E : fc_dec (rp_root_str root ++ fc_ops_text ops)
                     ([(rp_root_rune root, rp_root_str root)] ++ fc_ops_cs ops)).
  { apply fc_dec_app; [destruct root; reflexivity|exact (fc_dec_ops uni ops H)]. }
  unfold fc_dec in E. rewrite E. cbn [app]. destruct root; reflexivity.
Qed.

(* ------------------------------------------------------------------ *)
(** * The token stream                                                  *)
(* ------------------------------------------------------------------ *)

(** [cs] in front of [rest] lexes to [toks] in front of the tokens of [rest];
    one unit of fuel per rune is enough *)
Definition fc_lex (uni : uclass) (cs : list (Z * str)) (toks : list token) (rest : list (Z * str)) : Prop :=
  forall k ts, tokens_fuel uni k rest = Some ts ->
    tokens_fuel uni (length cs + k) (cs ++ rest) = Some (toks ++ ts).

Lemma fc_lex_app : forall uni cs1 t1 cs2 t2 rest,
  fc_lex uni cs1 t1 (cs2 ++ rest) -> fc_lex uni cs2 t2 rest ->
  fc_lex uni (cs1 ++ cs2) (t1 ++ t2) rest.
Proof.
  intros uni cs1 t1 cs2 t2 rest H1 H2 k ts Hk.
  rewrite app_length, <- !app_assoc, <- Nat.add_assoc. apply H1. apply H2. exact Hk.
Qed.

Lemma fc_lex_ch : forall uni c b rest,
  is_ws c = false -> is_ident_rune uni c = false -> c <> 34 -> c <> 39 -> c <> 47 ->
  fc_lex uni [(c, b)] [mkTok (TCh c) b (peek rest)] rest.
Proof.
  intros uni c b rest Hw Hi H34 H39 H47 k ts Hk.
  cbn [length app Nat.add]. rewrite rp_tokens_ch by assumption. rewrite Hk. reflexivity.
Qed.

Lemma fc_lex_ident : forall uni cs1 rest,
  cs1 <> [] ->
  forallb (fun rb => is_ident_rune uni (fst rb)) cs1 = true ->
  is_ident_rune uni (peek rest) = false ->
  fc_lex uni cs1 [mkTok TIdent (concat (map snd cs1)) (peek rest)] rest.
Proof.
  intros uni cs1 rest Hne Hall Hstop k ts Hk.
  destruct cs1 as [|x cs1'] eqn:E; [congruence|]. rewrite <- E in *.
  assert (Hl : (length cs1 + k = S (length cs1' + k))%nat) by (rewrite E; reflexivity).
  rewrite Hl. rewrite (rp_tokens_ident uni _ cs1 rest Hne Hall Hstop).
  rewrite (rp_tokens_fuel_mono uni k (length cs1' + k) rest ts Hk) by lia. reflexivity.
Qed.

Lemma fc_lex_asc_ident : forall uni w rest,
  w <> [] -> fc_ident_str w = true -> is_ident_rune uni (peek rest) = false ->
  fc_lex uni (asc_runes w) [mkTok TIdent w (peek rest)] rest.
Proof.
  intros uni w rest Hne Hid Hstop.
  rewrite <- (fc_asc_runes_bytes w) at 2. apply fc_lex_ident.
  - destruct w; [congruence|discriminate].
  - clear Hne. induction w as [|c w IH]; [reflexivity|].
    unfold fc_ident_str in Hid. cbn [forallb] in Hid. apply andb_true_iff in Hid. destruct Hid as [Hc Hw].
    cbn [asc_runes map forallb fst]. rewrite (fc_ident_b_sound uni _ Hc). exact (IH Hw).
  - exact Hstop.
Qed.

Lemma fc_lex_string : forall uni q0 cs q rest,
  rsafe false cs = true ->
  fc_lex uni ((34, q0) :: cs ++ [(34, q)])
         [mkTok TString (q0 ++ concat (map snd cs) ++ q) (peek rest)] rest.
Proof.
  intros uni q0 cs q rest Hs k ts Hk.
  cbn [length app]. rewrite <- app_assoc. cbn [app Nat.add].
  rewrite tokens_string by exact Hs.
  rewrite (rp_tokens_fuel_mono uni k _ rest ts Hk) by lia. reflexivity.
Qed.

(** ** tokens of one parameter *)
Definition fc_num_toks (s : str) (rest : list (Z * str)) : list token :=
  match after_dot s with
  | None => [mkTok TIdent s (peek rest)]
  | Some f => [mkTok TIdent (before_dot s) 46;
               mkTok (TCh 46) (bs ".") (peek (asc_runes f ++ rest));
               mkTok TIdent f (peek rest)]
  end.

Definition fc_param_toks (p : param) (rest : list (Z * str)) : list token :=
  match p with
  | FPNum d => fc_num_toks (dec_to_string d) rest
  | FPStr v => [mkTok TString (param_string p) (peek rest)]
  | _ => [mkTok TIdent (param_string p) (peek rest)]
  end.

Lemma fc_lex_dot : forall uni rest, fc_lex uni [(46, bs ".")] [mkTok (TCh 46) (bs ".") (peek rest)] rest.
Proof.
  intros uni rest. apply fc_lex_ch; [reflexivity|apply rp_ident_46|discriminate|discriminate|discriminate].
Qed.

Lemma fc_lex_num : forall uni neg ip fp rest,
  all_digits ip = true -> all_digits fp = true -> ip <> [] ->
  is_ident_rune uni (peek rest) = false ->
  fc_lex uni (asc_runes (num_signed neg (num_join ip fp)))
         (fc_num_toks (num_signed neg (num_join ip fp)) rest) rest.
Proof.
  intros uni neg ip fp rest Hip Hfp Hne Hstop.
  assert (Hne' : num_signed neg ip <> []) by (destruct neg, ip; cbn [num_signed]; congruence).
  unfold num_join, fc_num_toks. destruct fp as [|f fp].
  - rewrite (fc_signed_split_nofrac neg ip Hip).
    apply fc_lex_asc_ident; [exact Hne'|apply fc_signed_ident; exact Hip|exact Hstop].
  - destruct (fc_signed_split_frac neg ip (f :: fp) Hip) as (E1 & E2). rewrite E1, E2.
    assert (Ha : asc_runes (num_signed neg (ip ++ "."%char :: f :: fp))
                 = asc_runes (num_signed neg ip) ++ [(46, bs ".")] ++ asc_runes (f :: fp)).
    { destruct neg; cbn [num_signed]; [change ("-"%char :: ip ++ "."%char :: f :: fp)
                                         with (("-"%char :: ip) ++ "."%char :: f :: fp)|];
        rewrite fc_asc_runes_app; reflexivity. }
    rewrite Ha.
    apply (fc_lex_app uni _ [mkTok TIdent (num_signed neg ip) 46]).
    { apply (fc_lex_asc_ident uni (num_signed neg ip) (([(46, bs ".")] ++ asc_runes (f :: fp)) ++ rest));
        [exact Hne'|apply fc_signed_ident; exact Hip|apply rp_ident_46]. }
    apply (fc_lex_app uni _ [mkTok (TCh 46) (bs ".") (peek (asc_runes (f :: fp) ++ rest))]).
    { apply fc_lex_dot. }
    apply fc_lex_asc_ident; [discriminate|apply fc_digits_ident; exact Hfp|exact Hstop].
Qed.

Lemma fc_lex_param : forall uni p rest, lit_param_ok p ->
  is_ident_rune uni (peek rest) = false ->
  fc_lex uni (fc_param_cs p) (fc_param_toks p rest) rest.
Proof.
  intros uni [d|v|b|q|l] rest H Hstop; cbn [lit_param_ok] in H; try contradiction.
  - destruct H as (Hn & _ & _).
    destruct (fc_num_shape d Hn) as (neg & ip & fp & Hs & Hip & Hfp & Hne).
    cbn [fc_param_cs fc_param_toks param_string]. rewrite Hs. apply fc_lex_num; assumption.
  - destruct H as (_ & cs & Hcs & Hsafe).
    cbn [fc_param_cs fc_param_toks param_string]. unfold rp_runes. rewrite Hcs.
    assert (Hb : concat (map snd cs) = escape v) by (apply (rp_chars_fuel_bytes _ _ _ Hcs); lia).
    rewrite <- Hb. apply fc_lex_string. exact Hsafe.
  - cbn [fc_param_cs fc_param_toks].
    apply fc_lex_asc_ident; [destruct b; discriminate|apply fc_bool_ident|exact Hstop].
Qed.

(** ** tokens of an argument list, of a path element, of a path *)
Fixpoint fc_tail_toks (ps : list param) (rest : list (Z * str)) : list token :=
  match ps with
  | [] => [mkTok (TCh 41) (bs ")") (peek rest)]
  | p :: ps' => mkTok (TCh 44) (bs ",") (peek (fc_param_cs p ++ fc_tail_cs ps' ++ rest))
                :: fc_param_toks p (fc_tail_cs ps' ++ rest) ++ fc_tail_toks ps' rest
  end.
Definition fc_args_toks (ps : list param) (rest : list (Z * str)) : list token :=
  match ps with
  | [] => [mkTok (TCh 41) (bs ")") (peek rest)]
  | p :: ps' => fc_param_toks p (fc_tail_cs ps' ++ rest) ++ fc_tail_toks ps' rest
  end.
Definition fc_op_toks (o : pathop) (rest : list (Z * str)) : list token :=
  match o with
  | PIdent k q _ =>
    [mkTok (TCh 46) (bs ".") (peek (rp_key_cs (k, q) ++ rest));
     mkTok TIdent (key_piece (k, q)) (peek rest)]
  | PFunc (Func _ ft ps _) =>
    mkTok (TCh 46) (bs ".") (peek (asc_runes ft ++ (40, bs "(") :: fc_args_cs ps ++ rest))
    :: mkTok TIdent ft 40
    :: mkTok (TCh 40) (bs "(") (peek (fc_args_cs ps ++ rest))
    :: fc_args_toks ps rest
  | PFilter _ _ => []
  end.
Fixpoint fc_ops_toks (ops : list pathop) : list token :=
  match ops with
  | [] => []
  | o :: ops' => fc_op_toks o (fc_ops_cs ops') ++ fc_ops_toks ops'
  end.

Lemma fc_peek_tail : forall ps rest,
  peek (fc_tail_cs ps ++ rest) = 41 \/ peek (fc_tail_cs ps ++ rest) = 44.
Proof. intros [|p ps] rest; [left|right]; reflexivity. Qed.

Lemma fc_peek_tail_stop : forall uni ps rest, is_ident_rune uni (peek (fc_tail_cs ps ++ rest)) = false.
Proof.
  intros uni ps rest. destruct (fc_peek_tail ps rest) as [E|E]; rewrite E; [apply fc_ident_41|apply fc_ident_44].
Qed.

Lemma fc_lex_rparen : forall uni rest, fc_lex uni [(41, bs ")")] [mkTok (TCh 41) (bs ")") (peek rest)] rest.
Proof.
  intros uni rest. apply fc_lex_ch; [reflexivity|apply fc_ident_41|discriminate|discriminate|discriminate].
Qed.

Lemma fc_lex_tail : forall uni ps rest, Forall lit_param_ok ps ->
  fc_lex uni (fc_tail_cs ps) (fc_tail_toks ps rest) rest.
Proof.
  intros uni ps rest H. induction H as [|p ps Hp _ IH]; [apply fc_lex_rparen|].
  cbn [fc_tail_cs fc_tail_toks].
  apply (fc_lex_app uni [(44, bs ",")] [mkTok (TCh 44) (bs ",") (peek (fc_param_cs p ++ fc_tail_cs ps ++ rest))]
                    (fc_param_cs p ++ fc_tail_cs ps)).
  { rewrite <- app_assoc.
    apply fc_lex_ch; [reflexivity|apply fc_ident_44|discriminate|discriminate|discriminate]. }
  apply fc_lex_app; [|exact IH].
  apply fc_lex_param; [exact Hp|apply fc_peek_tail_stop].
Qed.

Lemma fc_lex_args : forall uni ps rest, Forall lit_param_ok ps ->
  fc_lex uni (fc_args_cs ps) (fc_args_toks ps rest) rest.
Proof.
  intros uni ps rest H. destruct H as [|p ps Hp Hps]; [apply fc_lex_rparen|].
  cbn [fc_args_cs fc_args_toks].
  apply fc_lex_app; [|apply fc_lex_tail; exact Hps].
  apply fc_lex_param; [exact Hp|apply fc_peek_tail_stop].
Qed.

Lemma fc_lex_op : forall uni o rest, frag_op uni o ->
  is_ident_rune uni (peek rest) = false ->
  fc_lex uni (fc_op_cs o) (fc_op_toks o rest) rest.
Proof.
  intros uni [k q us|l us|[inv ft ps us]] rest H Hstop; cbn [frag_op] in H; [|contradiction|].
  - cbn [fc_op_cs fc_op_toks].
    destruct (rp_good_key_cs _ _ H) as (Hne & Hall & Hb).
    apply (fc_lex_app uni [(46, bs ".")] [mkTok (TCh 46) (bs ".") (peek (rp_key_cs (k, q) ++ rest))]
                      (rp_key_cs (k, q)) [mkTok TIdent (key_piece (k, q)) (peek rest)]).
    { apply fc_lex_dot. }
    rewrite <- Hb. apply fc_lex_ident; assumption.
  - destruct H as (Hk & Hps). destruct (fc_known_func ft Hk) as (Hne & Hid & _).
    cbn [fc_op_cs fc_op_toks].
    apply (fc_lex_app uni [(46, bs ".")]
             [mkTok (TCh 46) (bs ".") (peek (asc_runes ft ++ (40, bs "(") :: fc_args_cs ps ++ rest))]
             (asc_runes ft ++ (40, bs "(") :: fc_args_cs ps)
             (mkTok TIdent ft 40 :: mkTok (TCh 40) (bs "(") (peek (fc_args_cs ps ++ rest)) :: fc_args_toks ps rest)).
    { rewrite <- app_assoc. apply fc_lex_dot. }
    apply (fc_lex_app uni (asc_runes ft) [mkTok TIdent ft 40] ((40, bs "(") :: fc_args_cs ps)
             (mkTok (TCh 40) (bs "(") (peek (fc_args_cs ps ++ rest)) :: fc_args_toks ps rest)).
    { apply (fc_lex_asc_ident uni ft (((40, bs "(") :: fc_args_cs ps) ++ rest) Hne Hid). apply fc_ident_40. }
    apply (fc_lex_app uni [(40, bs "(")] [mkTok (TCh 40) (bs "(") (peek (fc_args_cs ps ++ rest))]
             (fc_args_cs ps) (fc_args_toks ps rest)).
    { apply fc_lex_ch; [reflexivity|apply fc_ident_40|discriminate|discriminate|discriminate]. }
    apply fc_lex_args. exact Hps.
Qed.

Lemma fc_peek_ops : forall uni ops, Forall (frag_op uni) ops ->
  peek (fc_ops_cs ops) = -1 \/ peek (fc_ops_cs ops) = 46.
Proof.
  intros uni ops H. destruct H as [|o ops Ho _]; [left; reflexivity|right].
  destruct o as [k q us|l us|[inv ft ps us]]; [reflexivity|contradiction|reflexivity].
Qed.

Lemma fc_peek_ops_stop : forall uni ops, Forall (frag_op uni) ops ->
  is_ident_rune uni (peek (fc_ops_cs ops)) = false.
Proof.
  intros uni ops H. destruct (fc_peek_ops uni ops H) as [E|E]; rewrite E; [apply rp_ident_eof|apply rp_ident_46].
Qed.

Lemma fc_lex_ops : forall uni ops, Forall (frag_op uni) ops ->
  fc_lex uni (fc_ops_cs ops) (fc_ops_toks ops) [].
Proof.
  intros uni ops H. induction H as [|o ops Ho Hops IH].
  - intros k ts Hk. exact Hk.
  - unfold fc_ops_cs. cbn [map concat fc_ops_toks]. fold (fc_ops_cs ops).
    apply fc_lex_app; [|exact IH]. rewrite app_nil_r.
    apply fc_lex_op; [exact Ho|apply fc_peek_ops_stop; exact Hops].
Qed.

(** ** the tokens are all visible *)
Definition fc_vis_b (t : token) : bool :=
  match tk t with TCh c => (32 <=? c) && (c <=? 126) | _ => true end.

Lemma fc_vis_sound : forall uni toks, forallb fc_vis_b toks = true -> filter (visible uni) toks = toks.
Proof.
  intros uni toks. induction toks as [|t toks IH]; intros H; [reflexivity|].
  cbn [forallb] in H. apply andb_true_iff in H. destruct H as [Ht Hts].
  cbn [filter]. rewrite (IH Hts).
  assert (Hv : visible uni t = true).
  { unfold visible. unfold fc_vis_b in Ht. destruct (tk t) as [| | |c]; try reflexivity.
    apply andb_true_iff in Ht. destruct Ht as [H1 H2]. apply Z.leb_le in H1. apply Z.leb_le in H2.
    unfold is_print. replace (c <? 128) with true by (symmetry; apply Z.ltb_lt; lia).
    apply andb_true_iff. split; apply Z.leb_le; lia. }
  rewrite Hv. reflexivity.
Qed.

Lemma fc_vis_param : forall p rest, forallb fc_vis_b (fc_param_toks p rest) = true.
Proof.
  intros [d|v|b|q|l] rest; try reflexivity.
  cbn [fc_param_toks]. unfold fc_num_toks. destruct (after_dot (dec_to_string d)); reflexivity.
Qed.

Lemma fc_vis_tail : forall ps rest, forallb fc_vis_b (fc_tail_toks ps rest) = true.
Proof.
  induction ps as [|p ps IH]; intros rest; [reflexivity|].
  cbn [fc_tail_toks forallb]. rewrite forallb_app, fc_vis_param, IH. reflexivity.
Qed.

Lemma fc_vis_ops : forall ops, forallb fc_vis_b (fc_ops_toks ops) = true.
Proof.
  induction ops as [|o ops IH]; [reflexivity|].
  cbn [fc_ops_toks]. rewrite forallb_app, IH, andb_true_r.
  destruct o as [k q us|l us|[inv ft ps us]]; try reflexivity.
  cbn [fc_op_toks forallb]. change (fc_vis_b (mkTok (TCh 46) (bs ".") _)) with true.
  destruct ps as [|p ps]; [reflexivity|].
  cbn [fc_args_toks]. rewrite forallb_app, fc_vis_param, fc_vis_tail. reflexivity.
Qed.

Definition fc_root_tok (root : bool) (ops : list pathop) : token :=
  mkTok (TCh (rp_root_rune root)) (rp_root_str root) (peek (fc_ops_cs ops)).

Lemma fc_lex_text : forall uni root ops, Forall (frag_op uni) ops ->
  lex uni (fc_text root ops) = Some (fc_root_tok root ops :: fc_ops_toks ops).
Proof.
  intros uni root ops H. unfold lex. rewrite (fc_chars_text uni root ops H).
  assert (Ht : tokens_fuel uni (length (fc_ops_cs ops) + 1) (fc_ops_cs ops ++ []) = Some (fc_ops_toks ops ++ [])).
  { apply (fc_lex_ops uni ops H). reflexivity. }
  rewrite !app_nil_r in Ht.
  cbn [length]. rewrite rp_tokens_ch.
  - rewrite (rp_tokens_fuel_mono uni _ (S (length (fc_ops_cs ops))) _ _ Ht) by lia.
    cbn [option_map filter]. unfold visible at 1. cbn [tk].
    replace (is_print uni (rp_root_rune root)) with true by (destruct root; reflexivity).
    rewrite (fc_vis_sound uni _ (fc_vis_ops ops)). reflexivity.
  - destruct root; reflexivity.
  - destruct root; [apply rp_ident_36|apply rp_ident_64].
  - destruct root; discriminate.
  - destruct root; discriminate.
  - destruct root; discriminate.
Qed.

(* ------------------------------------------------------------------ *)
(** * The parser on that token stream                                   *)
(* ------------------------------------------------------------------ *)

Lemma fc_path_loop_func : forall k root isf me ops us txt rest,
  path_loop (S k) root isf me ops us (CTok (mkTok TIdent txt 40)) rest
  = do (c, r, f) <- parse_func k (CTok (mkTok TIdent txt 40)) rest;
    path_loop k root isf me (ops ++ [PFunc f]) (us ++ func_us f) c r.
Proof. reflexivity. Qed.

Lemma fc_parse_func : forall k txt key b n rest,
  ft_get_by_name txt = Some key ->
  parse_func (S k) (CTok (mkTok TIdent txt 40)) (mkTok (TCh 40) b n :: rest)
  = func_loop k false key [] (key ++ b) (CTok (mkTok (TCh 40) b n)) rest.
Proof.
  intros k txt key b n rest H.
  change (parse_func (S k) (CTok (mkTok TIdent txt 40)) (mkTok (TCh 40) b n :: rest))
    with (let '(invalid, ft) := match ft_get_by_name txt with
                                | Some key => (false, key)
                                | None => (true, txt)
                                end in
          func_loop k invalid ft [] (ft ++ b) (CTok (mkTok (TCh 40) b n)) rest).
  rewrite H. reflexivity.
Qed.

Lemma fc_func_loop_lparen : forall k inv ft ps us b n rest,
  func_loop (S k) inv ft ps us (CTok (mkTok (TCh 40) b n)) rest
  = let (c, r) := scan rest in func_loop k inv ft ps us c r.
Proof. reflexivity. Qed.

Lemma fc_func_loop_comma : forall k inv ft ps us b n rest,
  func_loop (S k) inv ft ps us (CTok (mkTok (TCh 44) b n)) rest
  = let (c, r) := scan rest in func_loop k inv ft ps (us ++ ch_str 44) c r.
Proof. reflexivity. Qed.

Lemma fc_func_loop_rparen : forall k inv ft ps us b n rest,
  func_loop (S k) inv ft ps us (CTok (mkTok (TCh 41) b n)) rest
  = let (c, r) := scan rest in Ok (c, r, Func inv ft ps (us ++ ch_str 41)).
Proof. reflexivity. Qed.

Lemma fc_func_loop_string : forall k inv ft ps us txt n rest,
  func_loop (S k) inv ft ps us (CTok (mkTok TString txt n)) rest
  = let (c, r) := scan rest in
    func_loop k inv ft (ps ++ [FPStr (unescape (strip_dquotes txt))]) (us ++ txt) c r.
Proof. reflexivity. Qed.

Lemma fc_func_loop_ident : forall k inv ft ps us txt n rest,
  func_loop (S k) inv ft ps us (CTok (mkTok TIdent txt n)) rest
  = if str_eqb txt (bs "true") then
      let (c, r) := scan rest in func_loop k inv ft (ps ++ [FPBool true]) (us ++ txt) c r
    else if str_eqb txt (bs "false") then
      let (c, r) := scan rest in func_loop k inv ft (ps ++ [FPBool false]) (us ++ txt) c r
    else
      let '(ntxt, rest') := deal_with_numbers (mkTok TIdent txt n) rest in
      match numeral ntxt with
      | NumOk d => let (c, r) := scan rest' in func_loop k inv ft (ps ++ [FPNum d]) (us ++ ntxt) c r
      | NumReject => perr
      | NumUnknown => Declined "numeral outside the modelled fragment"
      end.
Proof. reflexivity. Qed.

Lemma fc_param_toks_length : forall p rest, (1 <= length (fc_param_toks p rest))%nat.
Proof.
  intros [d|v|b|q|l] rest; cbn [fc_param_toks length]; try lia.
  unfold fc_num_toks. destruct (after_dot (dec_to_string d)); cbn [length]; lia.
Qed.

(** one literal argument: one iteration of the loop *)
Lemma fc_func_loop_param : forall p rest toks k inv ft ps0 us,
  lit_param_ok p -> (peek rest = 41 \/ peek rest = 44) ->
  (let (c, r) := scan (fc_param_toks p rest ++ toks) in func_loop (S k) inv ft ps0 us c r)
  = (let (c, r) := scan toks in func_loop k inv ft (ps0 ++ [p]) (us ++ param_string p) c r).
Proof.
  intros [d|v|b|q|l] rest toks k inv ft ps0 us H Hpk; cbn [lit_param_ok] in H; try contradiction.
  - (* number *)
    pose proof H as (Hn & Hb & Ha).
    pose proof (C09_number_roundtrip d Hn Hb Ha) as Hnum.
    destruct (fc_num_shape d Hn) as (neg & ip & fp & Hs & Hip & Hfp & Hne).
    cbn [fc_param_toks param_string]. rewrite Hs in Hnum |- *.
    destruct (fc_signed_not_bool neg ip Hip Hne) as (Ht & Hf).
    unfold num_join, fc_num_toks in *. destruct fp as [|f fp].
    + rewrite (fc_signed_split_nofrac neg ip Hip).
      cbn [app scan]. rewrite fc_func_loop_ident, Ht, Hf.
      unfold deal_with_numbers. cbn [tnext ttext].
      replace (peek rest =? 46) with false by (destruct Hpk as [E|E]; rewrite E; reflexivity).
      rewrite Hnum. reflexivity.
    + destruct (fc_signed_split_frac neg ip (f :: fp) Hip) as (E1 & E2). rewrite E1, E2.
      cbn [app scan]. rewrite fc_func_loop_ident, Ht, Hf.
      unfold deal_with_numbers. cbn [tnext ttext asc_runes map app peek].
      change (46 =? 46) with true. cbv iota.
      cbn [all_digits] in Hfp. apply andb_true_iff in Hfp. destruct Hfp as [Hfd _].
      change (is_digit_rune (byte f)) with (is_digit f). rewrite Hfd.
      assert (Htxt : num_signed neg ip ++ bs "." ++ f :: fp = num_signed neg (ip ++ "."%char :: f :: fp)).
      { destruct neg; cbn [num_signed]; [change (bs "." ++ f :: fp) with ("."%char :: f :: fp)|];
          reflexivity. }
      rewrite Htxt, Hnum. reflexivity.
  - (* string *)
    destruct H as (Hc & _).
    cbn [fc_param_toks app scan]. rewrite fc_func_loop_string.
    rewrite (C09_literal_value v Hc). reflexivity.
  - (* boolean *)
    cbn [fc_param_toks app scan]. rewrite fc_func_loop_ident. destruct b; reflexivity.
Qed.

Lemma fc_func_loop_tail : forall ps, Forall lit_param_ok ps ->
  forall rest toks fuel inv ft ps0 us,
  (length (fc_tail_toks ps rest) <= fuel)%nat ->
  (let (c, r) := scan (fc_tail_toks ps rest ++ toks) in func_loop fuel inv ft ps0 us c r)
  = (let (c, r) := scan toks in Ok (c, r, Func inv ft (ps0 ++ ps) (us ++ fc_tail_text ps))).
Proof.
  intros ps H. induction H as [|p ps Hp _ IH]; intros rest toks fuel inv ft ps0 us Hf.
  - cbn [fc_tail_toks length] in Hf. destruct fuel as [|k]; [lia|].
    cbn [fc_tail_toks app scan]. rewrite fc_func_loop_rparen, app_nil_r. reflexivity.
  - cbn [fc_tail_toks length] in Hf. rewrite app_length in Hf.
    pose proof (fc_param_toks_length p (fc_tail_cs ps ++ rest)) as Hl.
    destruct fuel as [|[|k]]; [lia|lia|].
    cbn [fc_tail_toks app scan]. rewrite fc_func_loop_comma, <- app_assoc.
    rewrite fc_func_loop_param by (exact Hp || apply fc_peek_tail).
    rewrite IH by lia.
    cbn [fc_tail_text]. rewrite <- !app_assoc. reflexivity.
Qed.

Lemma fc_func_loop_args : forall ps, Forall lit_param_ok ps ->
  forall rest toks fuel inv ft us,
  (length (fc_args_toks ps rest) <= fuel)%nat ->
  (let (c, r) := scan (fc_args_toks ps rest ++ toks) in func_loop fuel inv ft [] us c r)
  = (let (c, r) := scan toks in Ok (c, r, Func inv ft ps (us ++ fc_args_text ps))).
Proof.
  intros ps H rest toks fuel inv ft us Hf. destruct H as [|p ps Hp Hps].
  - cbn [fc_args_toks length] in Hf. destruct fuel as [|k]; [lia|].
    cbn [fc_args_toks app scan]. rewrite fc_func_loop_rparen. reflexivity.
  - cbn [fc_args_toks] in Hf. rewrite app_length in Hf.
    pose proof (fc_param_toks_length p (fc_tail_cs ps ++ rest)) as Hl.
    destruct fuel as [|k]; [lia|].
    cbn [fc_args_toks]. rewrite <- app_assoc.
    rewrite fc_func_loop_param by (exact Hp || apply fc_peek_tail).
    rewrite (fc_func_loop_tail ps Hps) by lia.
    cbn [fc_args_text app]. rewrite <- !app_assoc. reflexivity.
Qed.

Lemma fc_bind_scan : forall (toks : list token) (F : func)
    (K : cursor * list token * func -> pres path),
  bind (let (c, r) := scan toks in Ok (c, r, F)) K = (let (c, r) := scan toks in K (c, r, F)).
Proof. intros [|t toks] F K; reflexivity. Qed.

Lemma fc_args_toks_length : forall ps rest, (1 <= length (fc_args_toks ps rest))%nat.
Proof.
  intros [|p ps] rest; cbn [fc_args_toks length]; [lia|].
  rewrite app_length. pose proof (fc_param_toks_length p (fc_tail_cs ps ++ rest)). lia.
Qed.

Lemma fc_path_loop_ops : forall uni ops, Forall (frag_op uni) ops ->
  forall fuel root isf me ops0 us, (length (fc_ops_toks ops) + 1 <= fuel)%nat ->
  (let (c, r) := scan (fc_ops_toks ops) in path_loop fuel root isf me ops0 us c r)
  = Ok (CZero, [], Path false root isf me (ops0 ++ fc_norm_ops ops) (us ++ fc_ops_text ops)).
Proof.
  intros uni ops H. induction H as [|o ops Ho Hops IH]; intros fuel root isf me ops0 us Hf.
  - destruct fuel as [|fuel]; [cbn [fc_ops_toks length] in Hf; lia|].
    cbn [fc_ops_toks scan]. rewrite rp_path_loop_eof.
    unfold fc_norm_ops, fc_ops_text. cbn [map concat]. rewrite !app_nil_r. reflexivity.
  - destruct o as [k q us1|l us1|[inv ft ps us1]]; cbn [frag_op] in Ho; [|contradiction|].
    + (* a key *)
      cbn [fc_ops_toks fc_op_toks app length] in Hf.
      destruct fuel as [|[|fuel]]; [lia|lia|].
      cbn [fc_ops_toks fc_op_toks app scan].
      rewrite rp_path_loop_dot. cbn [scan].
      rewrite rp_path_loop_key
        by (destruct (fc_peek_ops uni ops Hops) as [E|E]; rewrite E; discriminate).
      destruct Ho as (_ & _ & Hq). rewrite (rp_strip_qmark_piece (k, q) Hq). cbn [fst snd].
      rewrite IH by lia.
      unfold fc_norm_ops, fc_ops_text. cbn [map concat fc_norm_op fc_op_text].
      rewrite <- !app_assoc. reflexivity.
    + (* a call *)
      destruct Ho as (Hk & Hps). destruct (fc_known_func ft Hk) as (_ & _ & Hget).
      cbn [fc_ops_toks fc_op_toks app length] in Hf. rewrite app_length in Hf.
      pose proof (fc_args_toks_length ps (fc_ops_cs ops)) as Hl.
      destruct fuel as [|[|[|[|fuel]]]]; [lia|lia|lia|lia|].
      cbn [fc_ops_toks fc_op_toks app scan].
      rewrite rp_path_loop_dot. cbn [scan].
      rewrite fc_path_loop_func.
      rewrite (fc_parse_func _ ft ft _ _ _ Hget).
      rewrite fc_func_loop_lparen.
      rewrite (fc_func_loop_args ps Hps) by lia.
      rewrite fc_bind_scan. cbv beta iota.
      rewrite IH by lia.
      unfold fc_norm_ops, fc_ops_text. cbn [map concat fc_norm_op fc_op_text func_us].
      rewrite fc_sprint_func. unfold fc_func_text.
      rewrite <- !app_assoc. reflexivity.
Qed.

Lemma fc_ops_toks_bound : forall root ops,
  exists f, parse_fuel (fc_root_tok root ops :: fc_ops_toks ops) = S (S f)
            /\ (length (fc_ops_toks ops) + 1 <= f)%nat.
Proof.
  intros root ops. unfold parse_fuel. cbn [length].
  exists (3 * length (fc_ops_toks ops) + 9)%nat. split; lia.
Qed.

Lemma fc_top_loop_root : forall k root n rest,
  top_loop (S (S k)) None (CTok (mkTok (TCh (rp_root_rune root)) (rp_root_str root) n)) rest
  = do (c, r, p) <- (let (c, r) := scan rest in
                     path_loop k root false false [] (rp_root_str root) c r);
    top_loop (S k) (Some (TopP p)) c r.
Proof. intros k [|] n rest; reflexivity. Qed.

Lemma fc_parse_toks : forall uni root ops, Forall (frag_op uni) ops ->
  parse_tokens (fc_root_tok root ops :: fc_ops_toks ops)
  = Ok (TopP (Path false root false false (fc_norm_ops ops) (fc_text root ops))).
Proof.
  intros uni root ops H. unfold parse_tokens. cbn [scan].
  destruct (fc_ops_toks_bound root ops) as (f & -> & Hf).
  unfold fc_root_tok. rewrite fc_top_loop_root.
  rewrite (fc_path_loop_ops uni ops H) by exact Hf.
  reflexivity.
Qed.

(* ------------------------------------------------------------------ *)
(** * Main statements                                                   *)
(* ------------------------------------------------------------------ *)

Theorem C09_litfunc_reparse_text : forall uni root ops,
  Forall (frag_op uni) ops ->
  parse_string uni (fc_text root ops)
  = Ok (TopP (Path false root false false (fc_norm_ops ops) (fc_text root ops))).
Proof.
  intros uni root ops H. unfold parse_string.
  rewrite (fc_lex_text uni root ops H). exact (fc_parse_toks uni root ops H).
Qed.

Lemma fc_params_struct_eq : forall ps, Forall lit_param_ok ps -> Forall2 struct_eq_param ps ps.
Proof.
  intros ps H. induction H as [|p ps Hp _ IH]; constructor; [|exact IH].
  destruct p; cbn [lit_param_ok] in Hp; try contradiction; constructor.
Qed.

Lemma fc_norm_struct_eq : forall uni ops, Forall (frag_op uni) ops ->
  Forall2 struct_eq_pathop ops (fc_norm_ops ops).
Proof.
  intros uni ops H. unfold fc_norm_ops. induction H as [|o ops Ho _ IH]; [constructor|].
  cbn [map]. constructor; [|exact IH].
  destruct o as [k q us|l us|[inv ft ps us]]; cbn [frag_op] in Ho; [constructor|contradiction|].
  cbn [fc_norm_op]. constructor. constructor. apply fc_params_struct_eq. exact (proj2 Ho).
Qed.

Theorem C09_litfunc_reparse : forall uni inv root me ops us,
  Forall (frag_op uni) ops ->
  let a := Path inv root false me ops us in
  exists a', parse_string uni (sprint_top (TopP a)) = Ok (TopP a') /\
             struct_eq (TopP a) (TopP a') /\
             sprint_top (TopP a') = sprint_top (TopP a) /\
             path_us a' = sprint_top (TopP a).
Proof.
  intros uni inv root me ops us H a. unfold a.
  pose proof (fc_frag_no_filter uni ops H) as Hnf.
  rewrite (C09_litfunc_sprint inv root false me ops us Hnf).
  exists (Path false root false false (fc_norm_ops ops) (fc_text root ops)).
  split; [exact (C09_litfunc_reparse_text uni root ops H)|].
  split; [constructor; constructor; exact (fc_norm_struct_eq uni ops H)|].
  split; [|reflexivity].
  rewrite (C09_litfunc_sprint _ _ _ _ _ _ (fc_norm_no_filter ops Hnf)).
  unfold fc_text. rewrite fc_norm_text. reflexivity.
Qed.

(** and therefore evaluates to the same result on every data value *)
Corollary C09_litfunc_same_result : forall uni eng inv root me ops us data,
  Forall (frag_op uni) ops ->
  let a := Path inv root false me ops us in
  exists a', parse_string uni (sprint_top (TopP a)) = Ok (TopP a') /\
             do_top uni eng (TopP a') data = do_top uni eng (TopP a) data.
Proof.
  intros uni eng inv root me ops us data H a.
  destruct (C09_litfunc_reparse uni inv root me ops us H) as (a' & Hp & Hs & _).
  exists a'. split; [exact Hp|]. symmetry. apply C09_same_result_top. exact Hs.
Qed.

(** a decidable sufficient condition for [known_func] *)
Lemma fc_known_func_b : forall ft,
  existsb (fun d => str_eqb (bs (fd_key d)) ft) func_table = true -> known_func ft.
Proof.
  intros ft H. apply existsb_exists in H. destruct H as (d & Hin & E).
  apply str_eqb_eq in E. exists d. split; [exact Hin|symmetry; exact E].
Qed.

(** in the generated table every descriptor's Name is its key, so the
    parser's lookup by Name and Sprint's printing of the key agree for every
    known function (re-checked whenever the table is regenerated) *)
Example C09_litfunc_names_are_keys :
  forallb (fun d => str_eqb (bs (fd_name d)) (bs (fd_key d))) func_table = true /\
  forallb (fun d => fc_name_ok (bs (fd_key d))) func_table = true.
Proof. vm_compute. split; reflexivity. Qed.

(** ** Examples *)
Definition fc_ex_ops : list pathop :=
  [PIdent (bs "a") true [];
   PFunc (Func true (bs "Equal")
            [FPStr [chr 120; chr 9; chr 121]; FPNum (mkDec (-125) (-1)); FPBool true] (bs "junk"));
   PFunc (Func false (bs "Count") [] [])].

Example C09_litfunc_ex1 :
  parse_string uni_ascii (bs "$.a?.Equal(""x\ty"",-12.5,true).Count()")
  = Ok (TopP (Path false true false false
                [PIdent (bs "a") true (bs "a?");
                 PFunc (Func false (bs "Equal")
                          [FPStr [chr 120; chr 9; chr 121]; FPNum (mkDec (-125) (-1)); FPBool true]
                          (bs "Equal(""x\ty"",-12.5,true)"));
                 PFunc (Func false (bs "Count") [] (bs "Count()"))]
                (bs "$.a?.Equal(""x\ty"",-12.5,true).Count()"))).
Proof. vm_compute. reflexivity. Qed.

(** the hypotheses of the theorem hold for that tree, its text is the query
    above, and the tree the theorem predicts is the one computed *)
Example C09_litfunc_ex2 :
  Forall (frag_op uni_ascii) fc_ex_ops /\
  sprint_top (TopP (Path true true false true fc_ex_ops (bs "stale")))
  = bs "$.a?.Equal(""x\ty"",-12.5,true).Count()" /\
  parse_string uni_ascii (bs "$.a?.Equal(""x\ty"",-12.5,true).Count()")
  = Ok (TopP (Path false true false false (fc_norm_ops fc_ex_ops) (fc_text true fc_ex_ops))).
Proof.
  split; [|split; vm_compute; reflexivity].
  unfold fc_ex_ops. constructor; [|constructor; [|constructor; [|constructor]]].
  - (* the key a? *)
    cbn [frag_op]. split; [discriminate|split].
    + eexists; split; vm_compute; reflexivity.
    + cbn [snd]. discriminate.
  - (* Equal("x\ty",-12.5,true) *)
    cbn [frag_op]. split; [apply fc_known_func_b; vm_compute; reflexivity|].
    constructor; [|constructor; [|constructor; [exact I|constructor]]].
    + cbn [lit_param_ok]. split; [vm_compute; reflexivity|].
      eexists; split; vm_compute; reflexivity.
    + cbn [lit_param_ok]. split; [vm_compute; reflexivity|split; [vm_compute; reflexivity|]].
      vm_compute. discriminate.
  - (* Count() *)
    cbn [frag_op]. split; [apply fc_known_func_b; vm_compute; reflexivity|constructor].
Qed.

Example C09_litfunc_ex3 :
  parse_string uni_ascii (bs "@.items.Sum(1,0.25,-3).Greater(100)")
  = Ok (TopP (Path false false false false
                [PIdent (bs "items") false (bs "items");
                 PFunc (Func false (bs "Sum") [FPNum (mkDec 1 0); FPNum (mkDec 25 (-2)); FPNum (mkDec (-3) 0)]
                          (bs "Sum(1,0.25,-3)"));
                 PFunc (Func false (bs "Greater") [FPNum (mkDec 1 2)] (bs "Greater(100)"))]
                (bs "@.items.Sum(1,0.25,-3).Greater(100)"))).
Proof. vm_compute. reflexivity. Qed.

(** outside the fragment: a non-canonical number in a hand-built tree prints as
    "1" and comes back as the canonical 1, which is a different parameter *)
Example C09_litfunc_noncanonical_number_refuted :
  let t := TopP (Path false true false false [PFunc (Func false (bs "Add") [FPNum (mkDec 10 (-1))] [])] []) in
  sprint_top t = bs "$.Add(1)" /\
  parse_string uni_ascii (sprint_top t)
  = Ok (TopP (Path false true false false
                [PFunc (Func false (bs "Add") [FPNum (mkDec 1 0)] (bs "Add(1)"))] (bs "$.Add(1)"))) /\
  ~ num_ok (mkDec 10 (-1)).
Proof.
  split; [vm_compute; reflexivity|split; [vm_compute; reflexivity|]].
  intros (H & _). vm_compute in H. discriminate H.
Qed.

(* ================================================================== *)
(** * 6. UserString reproduces the query text                           *)
(* ================================================================== *)
(** A query written as Sprint writes it (no optional white space, no
    comments) is reproduced exactly by the UserString of its parse. *)
Theorem C09_keypath_userstring : forall uni root ks,
  Forall (good_key uni) ks ->
  exists t, parse_string uni (key_text root ks) = Ok t /\ top_us t = key_text root ks.
Proof.
  intros uni root ks H. eexists. split; [apply C09_keypath_reparse; exact H|reflexivity].
Qed.

Theorem C09_litfunc_userstring : forall uni root ops,
  Forall (frag_op uni) ops ->
  exists t, parse_string uni (fc_text root ops) = Ok t /\ top_us t = fc_text root ops.
Proof.
  intros uni root ops H. eexists. split; [apply C09_litfunc_reparse_text; exact H|reflexivity].
Qed.

(** With optional white space the userString is the text with the white space
    removed — not the text. *)
Example C09_userstring_whitespace :
  exists t, parse_string uni_ascii (bs "$ .a . b") = Ok t /\ top_us t = bs "$.a.b".
Proof. eexists. split; vm_compute; reflexivity. Qed.

(* ================================================================== *)
(** * Findings: queries that parse, whose Sprint text parses to something else *)
(* ================================================================== *)

(** Character literals: the parser keeps the single quotes in the value (only
    double quotes are stripped); Sprint prints the value as a double-quoted
    literal.  Checked on examples only. *)
Definition c9_first_arg (o : outcome top) : option param :=
  match o with
  | Ok (TopP (Path _ _ _ _ [_; PFunc (Func _ _ (p :: _) _)] _)) => Some p
  | _ => None
  end.
Definition c9_reparse (uni : uclass) (q : str) : outcome top :=
  match parse_string uni q with Ok t => parse_string uni (sprint_top t) | o => o end.

Example C09_char_literal_examples :
  forallb (fun q =>
             match c9_first_arg (parse_string uni_ascii (bs q)), c9_first_arg (c9_reparse uni_ascii (bs q)) with
             | Some (FPStr v), Some (FPStr v') => str_eqb v v'
             | _, _ => false
             end)
          ["$.x.Equal('a')"; "$.x.Equal('""')"; "$.x.Equal('\n')"; "$.x.Equal('\'')"; "$.x.Equal('\\')";
           "$.x.Equal('\x41')"; "$.x.Equal('\101')"; "$.x.Equal(""\\\"""")"; "$.x.Equal(""a\qb"")"]%string
  = true.
Proof. vm_compute. reflexivity. Qed.

(** FINDING.  FP_Path.String() / FP_LogicalOperation.String() print the
    *userString* of a path or group argument, i.e. the token texts glued
    together without separators, where the top level prints with Sprint.  Two
    tokens that were separated only by white space (or by a character the
    function parser silently skips) merge into one:
      $.x.Equal($.a b)        parses as the keys a, b;    Sprint: $.x.Equal($.ab)
      $.x.Equal($.y.Add(1;2)) parses as Add(1, 2);        Sprint: $.x.Equal($.y.Add(12))
    The Sprint text parses, to a different operation with a different result.
    (Confirmed on the Go implementation: on {"x":1,"y":1,"a":{"b":1},"ab":2} the
    first query yields true, its Sprint text yields false.) *)
Definition c9_num (z : Z) : gv := VFloat false false (FFin (mkDec z 0)).
Definition c9_obj (kvs : list (string * gv)) : gv :=
  VMap KtStr EAny false (map (fun kv => (VStr false (bs (fst kv)), snd kv)) kvs).
Definition c9_data : gv :=
  c9_obj [("x", c9_num 1); ("y", c9_num 1); ("a", c9_obj [("b", c9_num 1)]); ("ab", c9_num 2)]%string.

Example C09_nested_path_argument_refuted :
  exists t t',
    parse_string uni_ascii (bs "$.x.Equal($.a b)") = Ok t /\
    sprint_top t = bs "$.x.Equal($.ab)" /\
    parse_string uni_ascii (sprint_top t) = Ok t' /\
    sprint_top t' = sprint_top t /\
    do_top uni_ascii no_engines t c9_data = Ok (VBool false true) /\
    do_top uni_ascii no_engines t' c9_data = Ok (VBool false false) /\
    ~ struct_eq t t'.
Proof.
  eexists. eexists.
  split; [vm_compute; reflexivity|].
  split; [vm_compute; reflexivity|].
  split; [vm_compute; reflexivity|].
  split; [vm_compute; reflexivity|].
  split; [vm_compute; reflexivity|].
  split; [vm_compute; reflexivity|].
  intros H. apply (C09_same_result_top uni_ascii no_engines _ _ c9_data) in H.
  vm_compute in H. discriminate H.
Qed.

Example C09_nested_skipped_separator_refuted :
  exists t t',
    parse_string uni_ascii (bs "$.x.Equal($.y.Add(1;2))") = Ok t /\
    sprint_top t = bs "$.x.Equal($.y.Add(12))" /\
    parse_string uni_ascii (sprint_top t) = Ok t' /\
    do_top uni_ascii no_engines t c9_data = Err (EOther "expected 1 params") /\
    do_top uni_ascii no_engines t' c9_data = Ok (VBool false false) /\
    ~ struct_eq t t'.
Proof.
  eexists. eexists.
  split; [vm_compute; reflexivity|].
  split; [vm_compute; reflexivity|].
  split; [vm_compute; reflexivity|].
  split; [vm_compute; reflexivity|].
  split; [vm_compute; reflexivity|].
  intros H. apply (C09_same_result_top uni_ascii no_engines _ _ c9_data) in H.
  vm_compute in H. discriminate H.
Qed.

(** At the top level the same spellings are harmless: Sprint prints its own
    separators. *)
Example C09_top_level_whitespace_ok :
  exists t t',
    parse_string uni_ascii (bs "$.a b.AnyOf(1 2;3)") = Ok t /\
    sprint_top t = bs "$.a.b.AnyOf(1,2,3)" /\
    parse_string uni_ascii (sprint_top t) = Ok t' /\ sprint_top t' = sprint_top t.
Proof.
  eexists. eexists.
  split; [vm_compute; reflexivity|].
  split; [vm_compute; reflexivity|].
  split; [vm_compute; reflexivity|].
  vm_compute; reflexivity.
Qed.

(** Model limit (not a defect of the library): numerals beyond 15 printed
    digits are outside the modelled fragment of strconv.ParseFloat; the value
    1e20 parses, prints as 100000000000000000000, and the model declines. *)
Example C09_number_large_exponent_declined :
  numeral (bs "1e20") = NumOk (mkDec 1 20) /\
  dec_to_string (mkDec 1 20) = bs "100000000000000000000" /\
  numeral (dec_to_string (mkDec 1 20)) = NumUnknown.
Proof. vm_compute. repeat split; reflexivity. Qed.

(* ================================================================== *)
(** * Assumptions                                                       *)
(* ================================================================== *)
Print Assumptions C09_struct_eq_refl.
Print Assumptions C09_same_result.
Print Assumptions C09_same_result_top.
Print Assumptions C09_escape_unescape_tables.
Print Assumptions C09_escape_order_independent.
Print Assumptions C09_unescape_order_independent.
Print Assumptions C09_unescape_escape.
Print Assumptions C09_unescape_escape_any_order.
Print Assumptions C09_unescape_escape_unclean_refuted.
Print Assumptions C09_body_bs_bs_n.
Print Assumptions C09_literal_value.
Print Assumptions C09_number_roundtrip.
Print Assumptions C09_number_roundtrip_box.
Print Assumptions C09_number_roundtrip_simple.
Print Assumptions C09_number_ex_100.
Print Assumptions C09_number_ex_neg_frac.
Print Assumptions C09_number_ex_small.
Print Assumptions C09_number_ex_zero.
Print Assumptions C09_number_ex_15_digits.
Print Assumptions C09_number_16_digits_declined.
Print Assumptions C09_number_adj_limit.
Print Assumptions C09_number_noncanonical_refuted.
Print Assumptions C09_keypath_sprint.
Print Assumptions C09_keypath_reparse.
Print Assumptions C09_keypath_fixed_point.
Print Assumptions C09_keypath_reparse_ascii.
Print Assumptions C09_keypath_ex1.
Print Assumptions C09_keypath_ex2.
Print Assumptions C09_keypath_ex3.
Print Assumptions C09_keypath_ex4.
Print Assumptions C09_keypath_ex5.
Print Assumptions C09_key_trailing_qmark_refuted.
Print Assumptions C09_keypath_reparse_needs_good_key_refuted.
Print Assumptions C09_literal_lex.
Print Assumptions C09_literal_roundtrip.
Print Assumptions C09_literal_roundtrip_ascii.
Print Assumptions C09_literal_trailing_bslash_refuted.
Print Assumptions C09_key_roundtrip.
Print Assumptions C09_key_roundtrip_trailing_qmark.
Print Assumptions C09_keypath_struct_eq.
Print Assumptions C09_keypath_same_result.
Print Assumptions C09_unescape_escape_weak.
Print Assumptions C09_unescape_image_wclean.
Print Assumptions C09_unescape_escape_on_image.
Print Assumptions C09_string_token_roundtrip_ascii.
Print Assumptions C09_clean_not_necessary.
Print Assumptions C09_string_token_roundtrip.
Print Assumptions C09_literal_roundtrip_utf8.
Print Assumptions C09_string_utf8_example.
Print Assumptions C09_litfunc_sprint.
Print Assumptions C09_litfunc_reparse_text.
Print Assumptions C09_litfunc_reparse.
Print Assumptions C09_litfunc_same_result.
Print Assumptions C09_litfunc_names_are_keys.
Print Assumptions C09_litfunc_ex1.
Print Assumptions C09_litfunc_ex2.
Print Assumptions C09_litfunc_ex3.
Print Assumptions C09_litfunc_noncanonical_number_refuted.
Print Assumptions C09_keypath_userstring.
Print Assumptions C09_litfunc_userstring.
Print Assumptions C09_userstring_whitespace.
Print Assumptions C09_char_literal_examples.
Print Assumptions C09_nested_path_argument_refuted.
Print Assumptions C09_nested_skipped_separator_refuted.
Print Assumptions C09_top_level_whitespace_ok.
Print Assumptions C09_number_large_exponent_declined.
