(* Proofs/C09.v — Sprint output parses again: what survives and what does not.

   1. struct_eq: equality of operation trees up to the userString fields and
      the invalid / must_end flags; evaluation does not see the difference
      (C09_same_result).
   2. String literals: the generated escape / unescape tables are mutually
      inverse; unescape (escape v) = v on clean strings, in any rule order.
   3. Numeric literals: numeral (dec_to_string d) = NumOk d for canonical d.
   4. `?` marks.
   5/6. The reparse theorem for key-only paths, fixed point, userString.

   No axioms; Print Assumptions at the end. *)
From Coq Require Import Permutation.
From Mpath.Model Require Import Base Dec Types GoVal Ast Lexer Parser Printer Funcs Eval.
From Mpath.Generated Require Import FuncTable Escapes Runes.

Local Open Scope Z_scope.

(* ================================================================== *)
(** * 1. Structural equality and evaluation                            *)
(* ================================================================== *)

(** Equal up to: every [us]; [invalid] of Path / Func / LogOp; [must_end] of
    Path.  Everything else — root flag, is_filter flags, keys and their `?`
    marks, function keys, parameters (numbers by Leibniz equality of [dec]),
    group types, nesting, order — must coincide. *)
Inductive struct_eq_path : path -> path -> Prop :=
| SE_Path : forall inv inv' root isf me me' ops ops' us us',
    Forall2 struct_eq_pathop ops ops' ->
    struct_eq_path (Path inv root isf me ops us) (Path inv' root isf me' ops' us')
with struct_eq_pathop : pathop -> pathop -> Prop :=
| SE_Ident : forall name q us us', struct_eq_pathop (PIdent name q us) (PIdent name q us')
| SE_Filter : forall l l' us us', struct_eq_logop l l' -> struct_eq_pathop (PFilter l us) (PFilter l' us')
| SE_PFunc : forall f f', struct_eq_func f f' -> struct_eq_pathop (PFunc f) (PFunc f')
with struct_eq_func : func -> func -> Prop :=
| SE_Func : forall inv inv' ft ps ps' us us',
    Forall2 struct_eq_param ps ps' ->
    struct_eq_func (Func inv ft ps us) (Func inv' ft ps' us')
with struct_eq_param : param -> param -> Prop :=
| SE_Num : forall d, struct_eq_param (FPNum d) (FPNum d)
| SE_Str : forall s, struct_eq_param (FPStr s) (FPStr s)
| SE_Bool : forall b, struct_eq_param (FPBool b) (FPBool b)
| SE_FPPath : forall p p', struct_eq_path p p' -> struct_eq_param (FPPath p) (FPPath p')
| SE_FPLog : forall l l', struct_eq_logop l l' -> struct_eq_param (FPLog l) (FPLog l')
with struct_eq_logop : logop -> logop -> Prop :=
| SE_LogOp : forall inv inv' isf t xs xs' us us',
    Forall2 struct_eq_operand xs xs' ->
    struct_eq_logop (LogOp inv isf t xs us) (LogOp inv' isf t xs' us')
with struct_eq_operand : operand -> operand -> Prop :=
| SE_OpP : forall p p', struct_eq_path p p' -> struct_eq_operand (OpP p) (OpP p')
| SE_OpL : forall l l', struct_eq_logop l l' -> struct_eq_operand (OpL l) (OpL l').

Inductive struct_eq_top : top -> top -> Prop :=
| SE_TopP : forall p p', struct_eq_path p p' -> struct_eq_top (TopP p) (TopP p')
| SE_TopL : forall l l', struct_eq_logop l l' -> struct_eq_top (TopL l) (TopL l').

Inductive struct_eq_node : node -> node -> Prop :=
| SE_NPath : forall p p', struct_eq_path p p' -> struct_eq_node (NPath p) (NPath p')
| SE_NOp : forall o o', struct_eq_pathop o o' -> struct_eq_node (NOp o) (NOp o')
| SE_NFunc : forall f f', struct_eq_func f f' -> struct_eq_node (NFunc f) (NFunc f')
| SE_NLog : forall l l', struct_eq_logop l l' -> struct_eq_node (NLog l) (NLog l')
| SE_NTop : forall t t', struct_eq_top t t' -> struct_eq_node (NTop t) (NTop t').

Definition struct_eq := struct_eq_top.

(** ** struct_eq is an equivalence (reflexivity needs a size measure because
    the trees nest through lists). *)
Fixpoint size_path (p : path) : nat :=
  match p with Path _ _ _ _ ops _ => S (fold_right (fun o n => (size_pathop o + n)%nat) O ops) end
with size_pathop (o : pathop) : nat :=
  match o with PIdent _ _ _ => 1%nat | PFilter l _ => S (size_logop l) | PFunc f => S (size_func f) end
with size_func (f : func) : nat :=
  match f with Func _ _ ps _ => S (fold_right (fun p n => (size_param p + n)%nat) O ps) end
with size_param (p : param) : nat :=
  match p with FPPath q => S (size_path q) | FPLog l => S (size_logop l) | _ => 1%nat end
with size_logop (l : logop) : nat :=
  match l with LogOp _ _ _ xs _ => S (fold_right (fun x n => (size_operand x + n)%nat) O xs) end
with size_operand (x : operand) : nat :=
  match x with OpP p => S (size_path p) | OpL l => S (size_logop l) end.

Lemma Forall2_refl_bounded {A} (R : A -> A -> Prop) (sz : A -> nat) (n : nat) (l : list A) :
  (forall x, (sz x < n)%nat -> R x x) ->
  (fold_right (fun x m => (sz x + m)%nat) O l < n)%nat ->
  Forall2 R l l.
Proof.
  intros HR. induction l as [|x l IH]; intros Hlt; constructor; cbn [fold_right] in Hlt.
  - apply HR. lia.
  - apply IH. lia.
Qed.

Lemma struct_eq_refl_bounded : forall n,
  (forall p, (size_path p < n)%nat -> struct_eq_path p p) /\
  (forall o, (size_pathop o < n)%nat -> struct_eq_pathop o o) /\
  (forall f, (size_func f < n)%nat -> struct_eq_func f f) /\
  (forall p, (size_param p < n)%nat -> struct_eq_param p p) /\
  (forall l, (size_logop l < n)%nat -> struct_eq_logop l l) /\
  (forall x, (size_operand x < n)%nat -> struct_eq_operand x x).
Proof.
  induction n as [|n IH]; [repeat split; intros; lia|].
  destruct IH as (IHp & IHo & IHf & IHa & IHl & IHx).
  repeat split.
  - intros [inv root isf me ops us] Hs. cbn [size_path] in Hs. constructor.
    eapply Forall2_refl_bounded; [exact IHo|]. lia.
  - intros [name q us|l us|f] Hs; cbn [size_pathop] in Hs; constructor.
    + apply IHl. lia.
    + apply IHf. lia.
  - intros [inv ft ps us] Hs. cbn [size_func] in Hs. constructor.
    eapply Forall2_refl_bounded; [exact IHa|]. lia.
  - intros [d|s|b|q|l] Hs; cbn [size_param] in Hs; constructor.
    + apply IHp. lia.
    + apply IHl. lia.
  - intros [inv isf t xs us] Hs. cbn [size_logop] in Hs. constructor.
    eapply Forall2_refl_bounded; [exact IHx|]. lia.
  - intros [p|l] Hs; cbn [size_operand] in Hs; constructor.
    + apply IHp. lia.
    + apply IHl. lia.
Qed.

Lemma struct_eq_path_refl p : struct_eq_path p p.
Proof. apply (proj1 (struct_eq_refl_bounded (S (size_path p)))). lia. Qed.
Lemma struct_eq_logop_refl l : struct_eq_logop l l.
Proof. apply (proj1 (proj2 (proj2 (proj2 (proj2 (struct_eq_refl_bounded (S (size_logop l)))))))). lia. Qed.
Theorem C09_struct_eq_refl t : struct_eq t t.
Proof. destruct t; constructor; [apply struct_eq_path_refl|apply struct_eq_logop_refl]. Qed.

(** ** The evaluator's list helpers respect pointwise-equal evaluators *)
Lemma se_pathop_qmark o o' : struct_eq_pathop o o' -> pathop_qmark o = pathop_qmark o'.
Proof. intros H; inversion H; reflexivity. Qed.
Lemma se_pathop_is_func o o' : struct_eq_pathop o o' -> pathop_is_func o = pathop_is_func o'.
Proof. intros H; inversion H; reflexivity. Qed.

Definition prev_rel (a b : option pathop) : Prop :=
  match a, b with
  | Some o, Some o' => pathop_qmark o = pathop_qmark o'
  | None, None => True
  | _, _ => False
  end.

Lemma path_ops_se (ev ev' : pathop -> gv -> outcome gv) :
  (forall o o' d, struct_eq_pathop o o' -> ev o d = ev' o' d) ->
  forall ops ops', Forall2 struct_eq_pathop ops ops' ->
  forall prev prev' pn data le, prev_rel prev prev' ->
    path_ops ev prev pn ops data le = path_ops ev' prev' pn ops' data le.
Proof.
  intros Hev ops ops' HF. induction HF as [|o o' ops ops' Ho HF IH]; intros prev prev' pn data le Hp.
  - reflexivity.
  - cbn [path_ops].
    assert (Hb : match prev with Some p => pn && negb (pathop_qmark p) && negb (pathop_is_func o) | None => false end
               = match prev' with Some p => pn && negb (pathop_qmark p) && negb (pathop_is_func o') | None => false end).
    { destruct prev as [p|], prev' as [p'|]; cbn [prev_rel] in Hp; try contradiction; [|reflexivity].
      rewrite Hp, (se_pathop_is_func _ _ Ho). reflexivity. }
    rewrite Hb, (Hev o o' data Ho), (se_pathop_qmark _ _ Ho).
    destruct (match prev' with Some p => pn && negb (pathop_qmark p) && negb (pathop_is_func o') | None => false end); [reflexivity|].
    assert (Hp' : prev_rel (Some o) (Some o')) by (exact (se_pathop_qmark _ _ Ho)).
    destruct (ev' o' data) as [v|e|m| |w]; try reflexivity.
    + apply IH. exact Hp'.
    + destruct e; [|reflexivity]. destruct (pathop_qmark o'); [|reflexivity]. apply IH. exact Hp'.
Qed.

Lemma log_ops_se (ev ev' : operand -> outcome gv) :
  (forall x x', struct_eq_operand x x' -> ev x = ev' x') ->
  forall t xs xs', Forall2 struct_eq_operand xs xs' -> log_ops ev t xs = log_ops ev' t xs'.
Proof.
  intros Hev t xs xs' HF. induction HF as [|x x' xs xs' Hx HF IH]; [reflexivity|].
  cbn [log_ops]. rewrite (Hev x x' Hx), IH. reflexivity.
Qed.

Lemma filter_elems_ext (ev ev' : gv -> outcome gv) :
  (forall x, ev x = ev' x) -> forall xs, filter_elems ev xs = filter_elems ev' xs.
Proof.
  intros Hev xs. induction xs as [|x xs IH]; [reflexivity|].
  cbn [filter_elems]. rewrite (Hev x), IH. reflexivity.
Qed.

Lemma eval_params_se (ev : node -> outcome gv) :
  (forall m m', struct_eq_node m m' -> ev m = ev m') ->
  forall ps ps', Forall2 struct_eq_param ps ps' -> eval_params ev ps = eval_params ev ps'.
Proof.
  intros Hev ps ps' HF. induction HF as [|p p' ps ps' Hp HF IH]; [reflexivity|].
  cbn [eval_params]. rewrite IH.
  destruct Hp as [d|s|b|q q' Hq|l l' Hl]; try reflexivity.
  - rewrite (Hev (NPath q) (NPath q')) by (constructor; exact Hq). reflexivity.
  - rewrite (Hev (NLog l) (NLog l')) by (constructor; exact Hl). reflexivity.
Qed.

(** ** C09_same_result *)
Theorem C09_same_result : forall uni eng fuel n n' cur orig,
  struct_eq_node n n' -> eval uni eng fuel n cur orig = eval uni eng fuel n' cur orig.
Proof.
  intros uni eng. induction fuel as [|k IH]; intros n n' cur orig Hn; [reflexivity|].
  destruct Hn as [p p' Hp|o o' Ho|f f' Hf|l l' Hl|t t' Ht].
  - destruct Hp as [inv inv' root isf me me' ops ops' us us' Hops].
    cbn [eval].
    destruct (root && isf); [reflexivity|].
    assert (Hd : match ops with [] => convert_unless_string (if root then orig else cur) | _ => if root then orig else cur end
               = match ops' with [] => convert_unless_string (if root then orig else cur) | _ => if root then orig else cur end).
    { destruct Hops; reflexivity. }
    rewrite Hd.
    apply path_ops_se; [|exact Hops|exact I].
    intros o o' d Ho. apply IH. constructor. exact Ho.
  - destruct Ho as [name q us us'|l l' us us' Hl|f f' Hf]; cbn [eval].
    + reflexivity.
    + destruct (get_as_struct_or_slice cur) as [[val [|]]|]; [| |reflexivity].
      * rewrite (IH (NLog l) (NLog l') val orig) by (constructor; exact Hl). reflexivity.
      * destruct val; try reflexivity.
        rewrite (filter_elems_ext (fun x => eval uni eng k (NLog l) x orig) (fun x => eval uni eng k (NLog l') x orig));
          [reflexivity|].
        intros x. apply IH. constructor. exact Hl.
    + apply IH. constructor. exact Hf.
  - destruct Hf as [inv inv' ft ps ps' us us' Hps]. cbn [eval].
    rewrite (eval_params_se (fun m => eval uni eng k m cur orig)) with (ps' := ps');
      [reflexivity| |exact Hps].
    intros m m' Hm. apply IH. exact Hm.
  - destruct Hl as [inv inv' isf t xs xs' us us' Hxs]. cbn [eval].
    apply log_ops_se; [|exact Hxs].
    intros x x' Hx. destruct Hx as [p p' Hp|l l' Hl]; apply IH; constructor; assumption.
  - destruct Ht as [p p' Hp|l l' Hl]; cbn [eval]; apply IH; constructor; assumption.
Qed.

(** The same, for whole operations as Do runs them. *)
Corollary C09_same_result_top : forall uni eng t t' data,
  struct_eq t t' -> do_top uni eng t data = do_top uni eng t' data.
Proof.
  intros uni eng t t' data Ht. unfold do_top. apply C09_same_result. constructor. exact Ht.
Qed.
