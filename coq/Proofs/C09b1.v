(* Proofs/C09b1.v — C09b, part 1: lexeme lists ("items").

   A text is described as a list of items: white space, one punctuation
   character, a key, a function name, a group keyword, a literal argument.
   This file gives, for any such list, its text, its rune stream, its token
   stream (with the scanner's Peek value after every token) and proves that
   the lexer of Model/Lexer.v maps the text to the token stream, provided
   every identifier-like item is followed by a rune that ends an identifier
   (wf_items).  White space items produce no token.  Everything here is
   independent of the operation tree; parts 2-4 instantiate it twice (compact
   rendering, Sprint layout). *)
From Mpath.Model Require Import Base Dec Types GoVal Ast Lexer Parser Printer Funcs Eval.
From Mpath.Generated Require Import FuncTable Escapes Runes.
From Mpath.Proofs Require Import C09.

Local Open Scope Z_scope.

(* ------------------------------------------------------------------ *)
(** * Items                                                             *)
(* ------------------------------------------------------------------ *)

Inductive item :=
| IWs (w : str)                 (* TABs and newlines *)
| ICh (c : Z)                   (* one punctuation character *)
| IKey (kq : str * bool)        (* a key, with its `?` mark *)
| IName (ft : str)              (* a function name *)
| IKw (t : lot)                 (* AND / OR *)
| ILit (p : param).             (* a number, string or boolean literal *)

Definition kw_text (t : lot) : str :=
  match t with LAnd => bs "AND" | LOr => bs "OR" | LBad s => s end.

Definition item_text (it : item) : str :=
  match it with
  | IWs w => w
  | ICh c => ch_str c
  | IKey kq => key_piece kq
  | IName ft => ft
  | IKw t => kw_text t
  | ILit p => param_string p
  end.

Definition item_cs (it : item) : list (Z * str) :=
  match it with
  | IWs w => asc_runes w
  | ICh c => [(c, ch_str c)]
  | IKey kq => rp_key_cs kq
  | IName ft => asc_runes ft
  | IKw t => asc_runes (kw_text t)
  | ILit p => fc_param_cs p
  end.

(** [rest]: the runes that follow the item (only their first matters) *)
Definition item_toks (it : item) (rest : list (Z * str)) : list token :=
  match it with
  | IWs _ => []
  | ICh c => [mkTok (TCh c) (ch_str c) (peek rest)]
  | IKey kq => [mkTok TIdent (key_piece kq) (peek rest)]
  | IName ft => [mkTok TIdent ft (peek rest)]
  | IKw t => [mkTok TIdent (kw_text t) (peek rest)]
  | ILit p => fc_param_toks p rest
  end.

Definition items_text (its : list item) : str := concat (map item_text its).
Definition items_cs (its : list item) : list (Z * str) := concat (map item_cs its).
Fixpoint items_toks (its : list item) (rest : list (Z * str)) : list token :=
  match its with
  | [] => []
  | it :: its' => item_toks it (items_cs its' ++ rest) ++ items_toks its' rest
  end.

(** the punctuation of the query language *)
Definition punct : list Z := [36; 64; 46; 44; 40; 41; 91; 93; 123; 125].

Definition ws_char (c : ascii) : bool := Ascii.eqb c (chr 9) || Ascii.eqb c (chr 10).

(** what an item needs from the rune that follows it *)
Definition item_ok (uni : uclass) (it : item) (rest : list (Z * str)) : Prop :=
  match it with
  | IWs w => forallb ws_char w = true
  | ICh c => In c punct
  | IKey kq => good_key uni kq /\ is_ident_rune uni (peek rest) = false /\ peek rest <> 40
  | IName ft => known_func ft /\ peek rest = 40
  | IKw t => (t = LAnd \/ t = LOr) /\ peek rest = 44
  | ILit p => lit_param_ok p /\ (peek rest = 41 \/ peek rest = 44)
  end.

Fixpoint wf_items (uni : uclass) (its : list item) (rest : list (Z * str)) : Prop :=
  match its with
  | [] => True
  | it :: its' => item_ok uni it (items_cs its' ++ rest) /\ wf_items uni its' rest
  end.

(* ------------------------------------------------------------------ *)
(** * Concatenation                                                     *)
(* ------------------------------------------------------------------ *)

Lemma items_text_app : forall a b, items_text (a ++ b) = items_text a ++ items_text b.
Proof. intros a b. unfold items_text. rewrite map_app, concat_app. reflexivity. Qed.

Lemma items_cs_app : forall a b, items_cs (a ++ b) = items_cs a ++ items_cs b.
Proof. intros a b. unfold items_cs. rewrite map_app, concat_app. reflexivity. Qed.

Lemma items_text_cons : forall it a, items_text (it :: a) = item_text it ++ items_text a.
Proof. reflexivity. Qed.

Lemma items_cs_cons : forall it a, items_cs (it :: a) = item_cs it ++ items_cs a.
Proof. reflexivity. Qed.

Lemma items_toks_app : forall a b rest,
  items_toks (a ++ b) rest = items_toks a (items_cs b ++ rest) ++ items_toks b rest.
Proof.
  induction a as [|it a IH]; intros b rest; [reflexivity|].
  cbn [app items_toks]. rewrite IH, items_cs_app, <- !app_assoc. reflexivity.
Qed.

Lemma wf_items_app : forall uni a b rest,
  wf_items uni (a ++ b) rest <-> wf_items uni a (items_cs b ++ rest) /\ wf_items uni b rest.
Proof.
  intros uni. induction a as [|it a IH]; intros b rest.
  - cbn [app wf_items]. tauto.
  - cbn [app wf_items]. rewrite IH, items_cs_app, <- app_assoc. tauto.
Qed.

Lemma items_text_flat_map : forall {A} (f : A -> list item) l,
  items_text (flat_map f l) = concat (map (fun x => items_text (f x)) l).
Proof.
  intros A f l. induction l as [|x l IH]; [reflexivity|].
  cbn [flat_map map concat]. rewrite items_text_app, IH. reflexivity.
Qed.

(* ------------------------------------------------------------------ *)
(** * Runes of an item                                                  *)
(* ------------------------------------------------------------------ *)

Lemma ws_char_facts : forall c, ws_char c = true -> is_asc c = true /\ is_ws (byte c) = true.
Proof.
  intros c H. unfold ws_char in H. apply orb_true_iff in H.
  destruct H as [H|H]; apply Ascii.eqb_eq in H; subst c; split; reflexivity.
Qed.

Lemma ws_str_asc : forall w, forallb ws_char w = true -> forallb is_asc w = true.
Proof.
  induction w as [|c w IH]; intros H; [reflexivity|].
  cbn [forallb] in H. apply andb_true_iff in H. destruct H as [Hc Hw].
  cbn [forallb]. rewrite (proj1 (ws_char_facts c Hc)). exact (IH Hw).
Qed.

Lemma punct_cases : forall (P : Z -> Prop),
  P 36 -> P 64 -> P 46 -> P 44 -> P 40 -> P 41 -> P 91 -> P 93 -> P 123 -> P 125 ->
  forall c, In c punct -> P c.
Proof.
  intros P H1 H2 H3 H4 H5 H6 H7 H8 H9 H10 c Hin. unfold punct in Hin. cbn [In] in Hin.
  repeat (destruct Hin as [<-|Hin]; [assumption|]). contradiction.
Qed.

Lemma kw_cases : forall t, t = LAnd \/ t = LOr ->
  kw_text t <> [] /\ fc_ident_str (kw_text t) = true.
Proof. intros t [->| ->]; split; try discriminate; vm_compute; reflexivity. Qed.

Lemma item_dec : forall uni it rest, item_ok uni it rest -> fc_dec (item_text it) (item_cs it).
Proof.
  intros uni [w|c|kq|ft|t|p] rest H; cbn [item_ok] in H; cbn [item_text item_cs].
  - apply fc_dec_asc. apply ws_str_asc. exact H.
  - revert c H. apply punct_cases; reflexivity.
  - destruct H as (Hk & _). destruct (rp_good_key_runes _ _ Hk) as (Hr & _).
    unfold key_piece, rp_key_cs. apply fc_dec_app; [exact Hr|]. destruct (snd kq); reflexivity.
  - destruct H as (Hk & _). destruct (fc_known_func ft Hk) as (_ & Hid & _).
    apply fc_dec_asc, fc_ident_str_asc. exact Hid.
  - destruct H as (Ht & _). apply fc_dec_asc, fc_ident_str_asc. exact (proj2 (kw_cases t Ht)).
  - apply fc_dec_param. exact (proj1 H).
Qed.

Lemma items_dec : forall uni its rest, wf_items uni its rest -> fc_dec (items_text its) (items_cs its).
Proof.
  intros uni its rest. induction its as [|it its IH]; intros H; [reflexivity|].
  cbn [wf_items] in H. destruct H as [Hi Hr].
  rewrite items_text_cons, items_cs_cons.
  apply fc_dec_app; [exact (item_dec uni it _ Hi)|exact (IH Hr)].
Qed.

(* ------------------------------------------------------------------ *)
(** * Tokens of an item                                                 *)
(* ------------------------------------------------------------------ *)

Lemma fc_lex_nil : forall uni rest, fc_lex uni [] [] rest.
Proof. intros uni rest k ts Hk. exact Hk. Qed.

Lemma fc_lex_ws : forall uni w rest, forallb ws_char w = true -> fc_lex uni (asc_runes w) [] rest.
Proof.
  intros uni w rest. induction w as [|c w IH]; intros H; [apply fc_lex_nil|].
  cbn [forallb] in H. apply andb_true_iff in H. destruct H as [Hc Hw].
  intros k ts Hk. cbn [asc_runes map length app Nat.add].
  rewrite rp_tokens_ws by exact (proj2 (ws_char_facts c Hc)).
  exact (IH Hw k ts Hk).
Qed.

Lemma punct_lex : forall uni c rest, In c punct ->
  fc_lex uni [(c, ch_str c)] [mkTok (TCh c) (ch_str c) (peek rest)] rest.
Proof.
  intros uni c rest H. revert c H.
  apply punct_cases; (apply fc_lex_ch; [reflexivity|reflexivity|discriminate|discriminate|discriminate]).
Qed.

Lemma item_lex : forall uni it rest, item_ok uni it rest ->
  fc_lex uni (item_cs it) (item_toks it rest) rest.
Proof.
  intros uni [w|c|kq|ft|t|p] rest H; cbn [item_ok] in H; cbn [item_cs item_toks].
  - apply fc_lex_ws. exact H.
  - apply punct_lex. exact H.
  - destruct H as (Hk & Hstop & _). destruct (rp_good_key_cs _ _ Hk) as (Hne & Hall & Hb).
    rewrite <- Hb. apply fc_lex_ident; assumption.
  - destruct H as (Hk & Hn). destruct (fc_known_func ft Hk) as (Hne & Hid & _).
    apply fc_lex_asc_ident; [exact Hne|exact Hid|]. rewrite Hn. apply fc_ident_40.
  - destruct H as (Ht & Hn). destruct (kw_cases t Ht) as (Hne & Hid).
    apply fc_lex_asc_ident; [exact Hne|exact Hid|]. rewrite Hn. apply fc_ident_44.
  - destruct H as (Hp & Hn). apply fc_lex_param; [exact Hp|].
    destruct Hn as [E|E]; rewrite E; [apply fc_ident_41|apply fc_ident_44].
Qed.

Lemma items_lex : forall uni its rest, wf_items uni its rest ->
  fc_lex uni (items_cs its) (items_toks its rest) rest.
Proof.
  intros uni its rest. induction its as [|it its IH]; intros H; [apply fc_lex_nil|].
  cbn [wf_items] in H. destruct H as [Hi Hr].
  rewrite items_cs_cons. cbn [items_toks].
  apply fc_lex_app; [exact (item_lex uni it _ Hi)|exact (IH Hr)].
Qed.

Lemma item_vis : forall uni it rest, item_ok uni it rest -> forallb fc_vis_b (item_toks it rest) = true.
Proof.
  intros uni [w|c|kq|ft|t|p] rest H; cbn [item_ok] in H; cbn [item_toks]; try reflexivity.
  - revert c H. apply punct_cases; reflexivity.
  - apply fc_vis_param.
Qed.

Lemma items_vis : forall uni its rest, wf_items uni its rest ->
  forallb fc_vis_b (items_toks its rest) = true.
Proof.
  intros uni its rest. induction its as [|it its IH]; intros H; [reflexivity|].
  cbn [wf_items] in H. destruct H as [Hi Hr].
  cbn [items_toks]. rewrite forallb_app, (item_vis uni it _ Hi), (IH Hr). reflexivity.
Qed.

(** the lexer on the text of a well-formed item list *)
Theorem lex_items : forall uni its,
  wf_items uni its [] -> peek (items_cs its) <> bom ->
  lex uni (items_text its) = Some (items_toks its []).
Proof.
  intros uni its Hwf Hbom.
  pose proof (items_dec uni its [] Hwf) as Hd. unfold fc_dec in Hd.
  assert (Hc : chars (items_text its) = Some (items_cs its)).
  { unfold chars. rewrite Hd.
    destruct (items_cs its) as [|[r b] cs]; [reflexivity|].
    cbn [peek] in Hbom. apply Z.eqb_neq in Hbom. rewrite Hbom. reflexivity. }
  unfold lex. rewrite Hc.
  pose proof (items_lex uni its [] Hwf 1%nat [] eq_refl) as Ht.
  rewrite !app_nil_r, Nat.add_1_r in Ht. rewrite Ht.
  cbn [option_map]. rewrite (fc_vis_sound uni _ (items_vis uni its [] Hwf)). reflexivity.
Qed.

(* ------------------------------------------------------------------ *)
(** * Separated lists                                                   *)
(* ------------------------------------------------------------------ *)

(** [jn sep [a; b; c] = a ++ sep ++ b ++ sep ++ c] (the shape of concat_str) *)
Fixpoint jn {A} (sep : list A) (ls : list (list A)) : list A :=
  match ls with
  | [] => []
  | [x] => x
  | x :: ls' => x ++ sep ++ jn sep ls'
  end.

Definition jn_tail {A} (sep : list A) (ls : list (list A)) : list A :=
  concat (map (fun y => sep ++ y) ls).

Lemma jn_cons : forall {A} (sep : list A) x ls, jn sep (x :: ls) = x ++ jn_tail sep ls.
Proof.
  intros A sep x ls. revert x. induction ls as [|y ls IH]; intros x.
  - cbn [jn jn_tail map concat]. rewrite app_nil_r. reflexivity.
  - change (jn sep (x :: y :: ls)) with (x ++ sep ++ jn sep (y :: ls)).
    rewrite IH. unfold jn_tail. cbn [map concat]. rewrite <- !app_assoc. reflexivity.
Qed.

Lemma concat_str_cons : forall sep x ls,
  concat_str sep (x :: ls) = x ++ concat (map (fun y => sep ++ y) ls).
Proof.
  intros sep x ls. revert x. induction ls as [|y ls IH]; intros x.
  - cbn [concat_str map concat]. rewrite app_nil_r. reflexivity.
  - change (concat_str sep (x :: y :: ls)) with (x ++ sep ++ concat_str sep (y :: ls)).
    rewrite IH. cbn [map concat]. rewrite <- !app_assoc. reflexivity.
Qed.

Lemma items_text_jn : forall sep ls,
  items_text (jn sep ls) = concat_str (items_text sep) (map items_text ls).
Proof.
  intros sep ls. destruct ls as [|x ls]; [reflexivity|].
  rewrite jn_cons. cbn [map]. rewrite concat_str_cons, items_text_app. f_equal.
  unfold jn_tail. induction ls as [|y ls IH]; [reflexivity|].
  cbn [map concat]. rewrite !items_text_app, IH. rewrite <- !app_assoc. reflexivity.
Qed.

(* ------------------------------------------------------------------ *)
(** * Small facts used by the later parts                               *)
(* ------------------------------------------------------------------ *)

Lemma tabs_ws : forall n, forallb ws_char (tabs n) = true.
Proof. induction n as [|n IH]; [reflexivity|]. unfold tabs in *. cbn [repeat forallb]. rewrite IH. reflexivity. Qed.

Lemma nl_tabs_ws : forall n, forallb ws_char (nl ++ tabs n) = true.
Proof. intros n. rewrite forallb_app, tabs_ws. reflexivity. Qed.

Lemma root_str_ch : forall root, rp_root_str root = ch_str (rp_root_rune root).
Proof. intros [|]; reflexivity. Qed.
