(* Proofs/C10a.v — C10, part 1: every decimal primitive the evaluator uses
   depends only on the VALUE of its operands, not on their (coef, exp)
   representation; and the canonical form [dnorm] is unique per value. *)
From Mpath.Model Require Import Base Dec.
From Mpath.Proofs Require Import DecQ DecMod.
From Coq Require Import ZArith QArith Qpower Qabs Qfield Lia Lra List Morphisms.
Import ListNotations.
Local Open Scope Q_scope.

Local Arguments Z.pow : simpl never.
Local Arguments Z.quot : simpl never.
Local Arguments Z.rem : simpl never.

(** two decimals denote the same number *)
Definition deqv (a b : dec) : Prop := dval a == dval b.

Lemma deqv_refl a : deqv a a.
Proof. unfold deqv. reflexivity. Qed.
Lemma deqv_sym a b : deqv a b -> deqv b a.
Proof. unfold deqv. intros H. symmetry. exact H. Qed.
Lemma deqv_trans a b c : deqv a b -> deqv b c -> deqv a c.
Proof. unfold deqv. intros H1 H2. rewrite H1. exact H2. Qed.

(** * Comparisons *)
Lemma dcmp_resp a a' b b' : deqv a a' -> deqv b b' -> dcmp a b = dcmp a' b'.
Proof. apply repr_invariant. Qed.

Lemma deq_resp a a' b b' : deqv a a' -> deqv b b' -> deq a b = deq a' b'.
Proof. intros Ha Hb. unfold deq. rewrite (dcmp_resp a a' b b' Ha Hb). reflexivity. Qed.
Lemma dlt_resp a a' b b' : deqv a a' -> deqv b b' -> dlt a b = dlt a' b'.
Proof. intros Ha Hb. unfold dlt. rewrite (dcmp_resp a a' b b' Ha Hb). reflexivity. Qed.
Lemma dgt_resp a a' b b' : deqv a a' -> deqv b b' -> dgt a b = dgt a' b'.
Proof. intros Ha Hb. unfold dgt. rewrite (dcmp_resp a a' b b' Ha Hb). reflexivity. Qed.
Lemma dle_resp a a' b b' : deqv a a' -> deqv b b' -> dle a b = dle a' b'.
Proof. intros Ha Hb. unfold dle. rewrite (dgt_resp a a' b b' Ha Hb). reflexivity. Qed.
Lemma dge_resp a a' b b' : deqv a a' -> deqv b b' -> dge a b = dge a' b'.
Proof. intros Ha Hb. unfold dge. rewrite (dlt_resp a a' b b' Ha Hb). reflexivity. Qed.

(** * Exact arithmetic *)
Lemma dadd_resp a a' b b' : deqv a a' -> deqv b b' -> deqv (dadd a b) (dadd a' b').
Proof. unfold deqv. intros Ha Hb. rewrite !dadd_exact, Ha, Hb. reflexivity. Qed.
Lemma dsub_resp a a' b b' : deqv a a' -> deqv b b' -> deqv (dsub a b) (dsub a' b').
Proof. unfold deqv. intros Ha Hb. rewrite !dsub_exact, Ha, Hb. reflexivity. Qed.
Lemma dmul_resp a a' b b' : deqv a a' -> deqv b b' -> deqv (dmul a b) (dmul a' b').
Proof. unfold deqv. intros Ha Hb. rewrite !dmul_exact, Ha, Hb. reflexivity. Qed.

(** * Sign and zero *)
Lemma dis_zero_resp a b : deqv a b -> dis_zero a = dis_zero b.
Proof.
  intros H. destruct (dis_zero a) eqn:Ea, (dis_zero b) eqn:Eb; try reflexivity.
  - apply dis_zero_iff in Ea. unfold deqv in H. rewrite H in Ea. apply dis_zero_iff in Ea. congruence.
  - apply dis_zero_iff in Eb. unfold deqv in H. rewrite <- H in Eb. apply dis_zero_iff in Eb. congruence.
Qed.

Lemma dis_neg_iff a : dis_neg a = true <-> dval a < 0.
Proof.
  unfold dis_neg, dval. pose proof (pow10Q_pos (dexp a)) as Hp. split.
  - intros H. apply Z.ltb_lt in H. rewrite Zlt_Qlt in H.
    setoid_replace 0 with (0 * pow10Q (dexp a)) by ring.
    apply Qmult_lt_r; [exact Hp | exact H].
  - intros H. apply Z.ltb_lt. rewrite Zlt_Qlt.
    setoid_replace 0 with (0 * pow10Q (dexp a)) in H by ring.
    apply Qmult_lt_r in H; [exact H | exact Hp].
Qed.

Lemma dis_neg_resp a b : deqv a b -> dis_neg a = dis_neg b.
Proof.
  intros H. destruct (dis_neg a) eqn:Ea, (dis_neg b) eqn:Eb; try reflexivity.
  - apply dis_neg_iff in Ea. unfold deqv in H. rewrite H in Ea. apply dis_neg_iff in Ea. congruence.
  - apply dis_neg_iff in Eb. unfold deqv in H. rewrite <- H in Eb. apply dis_neg_iff in Eb. congruence.
Qed.

(** * Integer part *)
Lemma inject_Z_eq x y : inject_Z x == inject_Z y -> x = y.
Proof. apply inject_Z_injective. Qed.

Lemma dval_exp0 c : dval (mkDec c 0) == inject_Z c.
Proof. rewrite dval_mk, pow10Q_0. ring. Qed.

Lemma rescale0_value d : dval (rescale d 0) == inject_Z (Qtrunc (dval d)).
Proof.
  rewrite <- truncate0_spec. unfold truncate0.
  destruct (dexp d <? 0)%Z eqn:E; [reflexivity|].
  apply Z.ltb_ge in E. apply rescale_exact. exact E.
Qed.

Lemma coef_rescale0 d : coef (rescale d 0) = Qtrunc (dval d).
Proof.
  apply inject_Z_eq. rewrite <- rescale0_value.
  pose proof (rescale_dexp d 0) as He.
  destruct (rescale d 0) as [c e]. cbn [dexp coef] in *. subst e.
  symmetry. apply dval_exp0.
Qed.

Lemma int_part_resp a b : deqv a b -> int_part a = int_part b.
Proof.
  intros H. unfold int_part. rewrite !coef_rescale0. unfold deqv in H. rewrite H. reflexivity.
Qed.

(** * IsInteger *)
Lemma dis_integer_iff d : dis_integer d = true <-> dval d == inject_Z (Qtrunc (dval d)).
Proof.
  unfold dis_integer. destruct (0 <=? dexp d)%Z eqn:E.
  - apply Z.leb_le in E. split; [intros _|reflexivity].
    rewrite <- truncate0_spec. unfold truncate0.
    replace (dexp d <? 0)%Z with false by (symmetry; apply Z.ltb_ge; exact E). reflexivity.
  - apply Z.leb_gt in E.
    assert (Hp : (0 < pow10 (- dexp d))%Z) by (apply pow10_pos; lia).
    assert (Hone : pow10Q (dexp d) * inject_Z (pow10 (- dexp d)) == 1).
    { rewrite <- pow10Q_shift by lia. replace (dexp d + - dexp d)%Z with 0%Z by lia. apply pow10Q_0. }
    assert (Hc : dval d * inject_Z (pow10 (- dexp d)) == inject_Z (coef d)).
    { unfold dval. rewrite <- Qmult_assoc, Hone. ring. }
    assert (Hq : Qtrunc (dval d) = Z.quot (coef d) (pow10 (- dexp d))).
    { rewrite <- coef_rescale0. unfold rescale.
      replace (0 =? dexp d)%Z with false by (symmetry; apply Z.eqb_neq; lia).
      replace (dexp d <? 0)%Z with true by (symmetry; apply Z.ltb_lt; exact E).
      cbn [coef]. replace (0 - dexp d)%Z with (- dexp d)%Z by lia. reflexivity. }
    rewrite Hq.
    pose proof (Z.quot_rem' (coef d) (pow10 (- dexp d))) as Hqr.
    split.
    + intros H. apply Z.eqb_eq in H. rewrite H, Z.add_0_r in Hqr.
      assert (Hnz : ~ inject_Z (pow10 (- dexp d)) == 0) by (apply inject_Z_nz; lia).
      apply (Qmult_inj_r _ _ _ Hnz). rewrite Hc, <- inject_Z_mult.
      rewrite Hqr at 1. rewrite Z.mul_comm. reflexivity.
    + intros H. apply Z.eqb_eq.
      rewrite H in Hc. rewrite <- inject_Z_mult in Hc. apply inject_Z_eq in Hc. lia.
Qed.

Lemma dis_integer_resp a b : deqv a b -> dis_integer a = dis_integer b.
Proof.
  intros H. unfold deqv in H.
  destruct (dis_integer a) eqn:Ea, (dis_integer b) eqn:Eb; try reflexivity.
  - apply dis_integer_iff in Ea. rewrite H in Ea. apply dis_integer_iff in Ea. congruence.
  - apply dis_integer_iff in Eb. rewrite <- H in Eb. apply dis_integer_iff in Eb. congruence.
Qed.

(** * Canonical form: unique per value *)
Definition canonical (d : dec) : Prop :=
  (coef d = 0 /\ dexp d = 0)%Z \/ (coef d <> 0 /\ Z.rem (coef d) 10 <> 0)%Z.

Lemma strip_zeros_canonical : forall k c e,
  (Z.abs c < 2 ^ Z.of_nat (S k))%Z -> canonical (strip_zeros (S k) c e).
Proof.
  induction k as [|k IH]; intros c e Hc.
  - change (2 ^ Z.of_nat 1)%Z with 2%Z in Hc.
    cbn [strip_zeros].
    destruct (c =? 0)%Z eqn:E0; [left; split; reflexivity|].
    apply Z.eqb_neq in E0.
    assert (Hc1 : c = 1%Z \/ c = (-1)%Z) by lia.
    destruct Hc1 as [-> | ->]; cbn; right; split; discriminate.
  - remember (S k) as k' eqn:Hk'. cbn [strip_zeros].
    destruct (c =? 0)%Z eqn:E0; [left; split; reflexivity|].
    apply Z.eqb_neq in E0.
    destruct (Z.rem c 10 =? 0)%Z eqn:Er.
    + apply IH.
      rewrite Hk' in Hc. rewrite Nat2Z.inj_succ, Z.pow_succ_r in Hc by lia.
      rewrite <- Z.quot_abs by lia.
      assert (Hq : (Z.abs c ÷ Z.abs 10 <= Z.abs c / 2)%Z).
      { rewrite Z.quot_div_nonneg by lia. change (Z.abs 10) with 10%Z.
        apply Z.div_le_lower_bound; [lia|].
        pose proof (Z.mul_div_le (Z.abs c) 10). lia. }
      assert (Hh : (Z.abs c / 2 < 2 ^ Z.of_nat (S k))%Z) by (apply Z.div_lt_upper_bound; lia).
      subst k'. lia.
    + apply Z.eqb_neq in Er. right. cbn [coef]. split; assumption.
Qed.

Lemma dnorm_canonical d : canonical (dnorm d).
Proof.
  unfold dnorm. apply strip_zeros_canonical.
  rewrite Nat2Z.inj_succ, Z2Nat.id by apply Z.log2_nonneg.
  destruct (Z.eq_dec (coef d) 0) as [H0|H0].
  - rewrite H0. cbn. lia.
  - apply Z.log2_spec. lia.
Qed.

Lemma canonical_unique_le a b :
  canonical a -> canonical b -> deqv a b -> (dexp a <= dexp b)%Z -> a = b.
Proof.
  intros Ha Hb H Hle. unfold deqv in H.
  destruct a as [c1 e1], b as [c2 e2]. unfold canonical in *. cbn [coef dexp] in *.
  destruct Ha as [[Hc1 He1]|[Hc1 Hr1]].
  - subst c1 e1.
    assert (Hz : dis_zero (mkDec c2 e2) = true).
    { apply dis_zero_iff. rewrite <- H. rewrite dval_mk. ring. }
    unfold dis_zero in Hz. cbn [coef] in Hz. apply Z.eqb_eq in Hz.
    destruct Hb as [[_ He2]|[Hc2 _]]; [subst; reflexivity | contradiction].
  - destruct Hb as [[Hc2 He2]|[Hc2 Hr2]].
    + subst c2 e2.
      assert (Hz : dis_zero (mkDec c1 e1) = true).
      { apply dis_zero_iff. rewrite H. rewrite dval_mk. ring. }
      unfold dis_zero in Hz. cbn [coef] in Hz. apply Z.eqb_eq in Hz. contradiction.
    + rewrite !dval_mk in H.
      replace e2 with (e1 + (e2 - e1))%Z in H by lia.
      rewrite (pow10Q_shift e1 (e2 - e1)) in H by lia.
      assert (Hnz : ~ pow10Q e1 == 0) by apply pow10Q_nz.
      assert (Hz : inject_Z c1 == inject_Z (c2 * pow10 (e2 - e1))).
      { rewrite inject_Z_mult. apply (Qmult_inj_r _ _ _ Hnz). rewrite H. ring. }
      apply inject_Z_eq in Hz.
      destruct (Z.eq_dec e1 e2) as [He|He].
      * subst e2. replace (e1 - e1)%Z with 0%Z in Hz by lia. change (pow10 0) with 1%Z in Hz.
        f_equal. lia.
      * exfalso. apply Hr1.
        assert (Hp : pow10 (e2 - e1) = (10 * pow10 (e2 - e1 - 1))%Z).
        { unfold pow10. rewrite <- Z.pow_succ_r by lia. f_equal. lia. }
        rewrite Hz, Hp.
        replace (c2 * (10 * pow10 (e2 - e1 - 1)))%Z with ((c2 * pow10 (e2 - e1 - 1)) * 10)%Z by ring.
        apply Z.rem_mul. lia.
Qed.

Lemma canonical_unique a b : canonical a -> canonical b -> deqv a b -> a = b.
Proof.
  intros Ha Hb H. destruct (Z_le_gt_dec (dexp a) (dexp b)) as [Hle|Hgt].
  - apply canonical_unique_le; assumption.
  - symmetry. apply canonical_unique_le; [assumption | assumption | apply deqv_sym; exact H | lia].
Qed.

Theorem dnorm_unique a b : deqv a b -> dnorm a = dnorm b.
Proof.
  intros H. apply canonical_unique; [apply dnorm_canonical | apply dnorm_canonical |].
  unfold deqv. rewrite !dnorm_exact. exact H.
Qed.

Theorem dnorm_eq_iff a b : dnorm a = dnorm b <-> deqv a b.
Proof.
  split; [|apply dnorm_unique].
  intros H. unfold deqv. rewrite <- (dnorm_exact a), <- (dnorm_exact b), H. reflexivity.
Qed.

(** * Aggregates over value-equal lists *)
Fixpoint qsum (l : list dec) : Q := match l with [] => 0 | d :: r => dval d + qsum r end.

Lemma fold_left_qsum : forall rest a, fold_left Qplus (map dval rest) a == a + qsum rest.
Proof.
  induction rest as [|x rest IH]; intros a; cbn [map fold_left qsum].
  - ring.
  - rewrite IH. ring.
Qed.

Lemma dsum_value first rest : dval (dsum first rest) == qsum (first :: rest).
Proof. rewrite dsum_exact, fold_left_qsum. reflexivity. Qed.

Lemma qsum_app l1 l2 : qsum (l1 ++ l2) == qsum l1 + qsum l2.
Proof.
  induction l1 as [|x l1 IH]; cbn [app qsum]; [ring|].
  rewrite IH. ring.
Qed.

Lemma qsum_resp l1 l2 : Forall2 deqv l1 l2 -> qsum l1 == qsum l2.
Proof.
  induction 1 as [|x y l1 l2 Hxy Hl IH]; cbn [qsum]; [reflexivity|].
  rewrite IH. unfold deqv in Hxy. rewrite Hxy. reflexivity.
Qed.

(** the sum of a list (0 for the empty list, as func_decimal_slice has it) *)
Definition sum_of (l : list dec) : dec :=
  match l with [] => dzero | [d] => d | d :: rest => dsum d rest end.

Lemma sum_of_value l : dval (sum_of l) == qsum l.
Proof.
  destruct l as [|d [|x rest]].
  - cbn. apply dzero_exact.
  - cbn. ring.
  - unfold sum_of. apply dsum_value.
Qed.

(** minimum / maximum: characterised by membership and bound, hence equal in
    value on lists that have the same values in any order *)
Definition same_values (l1 l2 : list dec) : Prop :=
  (forall x, In x l1 -> exists y, In y l2 /\ deqv x y) /\
  (forall y, In y l2 -> exists x, In x l1 /\ deqv x y).

Lemma dmin_same f1 r1 f2 r2 :
  same_values (f1 :: r1) (f2 :: r2) -> deqv (dmin f1 r1) (dmin f2 r2).
Proof.
  intros [H12 H21].
  destruct (dmin_spec f1 r1) as [Hin1 Hle1]. destruct (dmin_spec f2 r2) as [Hin2 Hle2].
  destruct (H12 _ Hin1) as [y [Hy Hxy]]. destruct (H21 _ Hin2) as [x [Hx Hyx]].
  unfold deqv in *. apply Qle_antisym.
  - rewrite <- Hyx. apply Hle1. exact Hx.
  - rewrite Hxy. apply Hle2. exact Hy.
Qed.

Lemma dmax_same f1 r1 f2 r2 :
  same_values (f1 :: r1) (f2 :: r2) -> deqv (dmax f1 r1) (dmax f2 r2).
Proof.
  intros [H12 H21].
  destruct (dmax_spec f1 r1) as [Hin1 Hle1]. destruct (dmax_spec f2 r2) as [Hin2 Hle2].
  destruct (H12 _ Hin1) as [y [Hy Hxy]]. destruct (H21 _ Hin2) as [x [Hx Hyx]].
  unfold deqv in *. apply Qle_antisym.
  - rewrite Hxy. apply Hle2. exact Hy.
  - rewrite <- Hyx. apply Hle1. exact Hx.
Qed.

Lemma same_values_forall2 l1 l2 : Forall2 deqv l1 l2 -> same_values l1 l2.
Proof.
  induction 1 as [|x y l1 l2 Hxy Hl [IH1 IH2]]; split.
  - intros x [].
  - intros y [].
  - intros z [<-|Hz]; [exists y; split; [left; reflexivity | exact Hxy]|].
    destruct (IH1 z Hz) as [w [Hw Hzw]]. exists w. split; [right; exact Hw | exact Hzw].
  - intros z [<-|Hz]; [exists x; split; [left; reflexivity | exact Hxy]|].
    destruct (IH2 z Hz) as [w [Hw Hzw]]. exists w. split; [right; exact Hw | exact Hzw].
Qed.

Lemma same_values_app_comm a1 b1 a2 b2 :
  same_values a1 a2 -> same_values b1 b2 -> same_values (a1 ++ b1) (b2 ++ a2).
Proof.
  intros [Ha1 Ha2] [Hb1 Hb2]. split.
  - intros x Hx. apply in_app_or in Hx. destruct Hx as [Hx|Hx].
    + destruct (Ha1 x Hx) as [y [Hy H]]. exists y. split; [apply in_or_app; right; exact Hy | exact H].
    + destruct (Hb1 x Hx) as [y [Hy H]]. exists y. split; [apply in_or_app; left; exact Hy | exact H].
  - intros y Hy. apply in_app_or in Hy. destruct Hy as [Hy|Hy].
    + destruct (Hb2 y Hy) as [x [Hx H]]. exists x. split; [apply in_or_app; right; exact Hx | exact H].
    + destruct (Ha2 y Hy) as [x [Hx H]]. exists x. split; [apply in_or_app; left; exact Hx | exact H].
Qed.

Lemma same_values_app a1 b1 a2 b2 :
  same_values a1 a2 -> same_values b1 b2 -> same_values (a1 ++ b1) (a2 ++ b2).
Proof.
  intros [Ha1 Ha2] [Hb1 Hb2]. split.
  - intros x Hx. apply in_app_or in Hx. destruct Hx as [Hx|Hx].
    + destruct (Ha1 x Hx) as [y [Hy H]]. exists y. split; [apply in_or_app; left; exact Hy | exact H].
    + destruct (Hb1 x Hx) as [y [Hy H]]. exists y. split; [apply in_or_app; right; exact Hy | exact H].
  - intros y Hy. apply in_app_or in Hy. destruct Hy as [Hy|Hy].
    + destruct (Ha2 y Hy) as [x [Hx H]]. exists x. split; [apply in_or_app; left; exact Hx | exact H].
    + destruct (Hb2 y Hy) as [x [Hx H]]. exists x. split; [apply in_or_app; right; exact Hx | exact H].
Qed.

Lemma same_values_sym l1 l2 : same_values l1 l2 -> same_values l2 l1.
Proof.
  intros [H1 H2]. split.
  - intros y Hy. destruct (H2 y Hy) as [x [Hx H]]. exists x. split; [exact Hx | apply deqv_sym; exact H].
  - intros x Hx. destruct (H1 x Hx) as [y [Hy H]]. exists y. split; [exact Hy | apply deqv_sym; exact H].
Qed.

Lemma same_values_length_nil l1 l2 : same_values l1 l2 -> l1 = [] -> l2 = [].
Proof.
  intros [_ H2] ->. destruct l2 as [|y l2]; [reflexivity|].
  destruct (H2 y (or_introl eq_refl)) as [x [[] _]].
Qed.


Lemma F2_length {A B} (P : A -> B -> Prop) l1 l2 : Forall2 P l1 l2 -> length l1 = length l2.
Proof. induction 1; cbn; congruence. Qed.

(** two lists of decimals with the same values up to order *)
Definition lrel (l1 l2 : list dec) : Prop :=
  same_values l1 l2 /\ qsum l1 == qsum l2 /\ length l1 = length l2.

Lemma lrel_app a1 b1 a2 b2 : Forall2 deqv a1 a2 -> Forall2 deqv b1 b2 -> lrel (a1 ++ b1) (a2 ++ b2).
Proof.
  intros Ha Hb. split; [|split].
  - apply same_values_app; apply same_values_forall2; assumption.
  - rewrite !qsum_app, (qsum_resp _ _ Ha), (qsum_resp _ _ Hb). reflexivity.
  - rewrite !app_length, (F2_length _ _ _ Ha), (F2_length _ _ _ Hb). reflexivity.
Qed.

Lemma lrel_app_comm a1 b1 a2 b2 : Forall2 deqv a1 a2 -> Forall2 deqv b1 b2 -> lrel (a1 ++ b1) (b2 ++ a2).
Proof.
  intros Ha Hb. split; [|split].
  - apply same_values_app_comm; apply same_values_forall2; assumption.
  - rewrite !qsum_app, (qsum_resp _ _ Ha), (qsum_resp _ _ Hb). ring.
  - rewrite !app_length, (F2_length _ _ _ Ha), (F2_length _ _ _ Hb). apply Nat.add_comm.
Qed.

Lemma lrel_nil l1 l2 : lrel l1 l2 -> l1 = [] -> l2 = [].
Proof. intros [_ [_ Hl]] ->. destruct l2; [reflexivity | discriminate Hl]. Qed.

Lemma lrel_sum l1 l2 : lrel l1 l2 -> deqv (sum_of l1) (sum_of l2).
Proof. intros [_ [Hq _]]. unfold deqv. rewrite !sum_of_value. exact Hq. Qed.

Definition min_of (l : list dec) : dec := match l with [] => dzero | [d] => d | d :: rest => dmin d rest end.
Definition max_of (l : list dec) : dec := match l with [] => dzero | [d] => d | d :: rest => dmax d rest end.

Lemma min_of_cons d rest : min_of (d :: rest) = dmin d rest.
Proof. destruct rest; reflexivity. Qed.
Lemma max_of_cons d rest : max_of (d :: rest) = dmax d rest.
Proof. destruct rest; reflexivity. Qed.

Lemma lrel_min l1 l2 : lrel l1 l2 -> deqv (min_of l1) (min_of l2).
Proof.
  intros [Hs [_ Hl]]. destruct l1 as [|d1 r1], l2 as [|d2 r2]; try discriminate Hl; [apply deqv_refl|].
  rewrite !min_of_cons. apply dmin_same. exact Hs.
Qed.

Lemma lrel_max l1 l2 : lrel l1 l2 -> deqv (max_of l1) (max_of l2).
Proof.
  intros [Hs [_ Hl]]. destruct l1 as [|d1 r1], l2 as [|d2 r2]; try discriminate Hl; [apply deqv_refl|].
  rewrite !max_of_cons. apply dmax_same. exact Hs.
Qed.

Lemma Forall2_deqv_refl l : Forall2 deqv l l.
Proof. induction l; constructor; [apply deqv_refl | assumption]. Qed.


(** * Division: DivRound is a function of the exact quotient *)
Lemma Qcompare_scale_r a b p : 0 < p -> (a * p ?= b * p) = (a ?= b).
Proof.
  intros Hp. destruct (Qcompare_spec a b) as [H|H|H].
  - apply Qeq_alt. rewrite H. reflexivity.
  - apply Qlt_alt. apply Qmult_lt_r; assumption.
  - apply Qgt_alt. apply Qmult_lt_r; assumption.
Qed.

Lemma Qcompare_inject a b : (inject_Z a ?= inject_Z b) = (a ?= b)%Z.
Proof. unfold Qcompare, inject_Z. cbn [Qnum Qden]. rewrite !Z.mul_1_r. reflexivity. Qed.

(** round [x * 10^prec] to an integer, half away from zero *)
Definition qround (x : Q) (prec : Z) : Q :=
  let y := x * pow10Q prec in
  let t := Qtrunc y in
  match (Qabs (y - inject_Z t) * 2 ?= 1) with
  | Lt => inject_Z t * pow10Q (- prec)
  | _ => if Qlt_le_dec x 0 then (inject_Z t - 1) * pow10Q (- prec) else (inject_Z t + 1) * pow10Q (- prec)
  end.

Lemma qround_comp x x' prec : x == x' -> qround x prec == qround x' prec.
Proof.
  intros H. unfold qround. cbv zeta.
  assert (Ht : Qtrunc (x * pow10Q prec) = Qtrunc (x' * pow10Q prec)) by (rewrite H; reflexivity).
  rewrite Ht.
  assert (Hc : (Qabs (x * pow10Q prec - inject_Z (Qtrunc (x' * pow10Q prec))) * 2 ?= 1)
             = (Qabs (x' * pow10Q prec - inject_Z (Qtrunc (x' * pow10Q prec))) * 2 ?= 1)) by (rewrite H; reflexivity).
  rewrite Hc.
  destruct (Qabs (x' * pow10Q prec - inject_Z (Qtrunc (x' * pow10Q prec))) * 2 ?= 1); try reflexivity;
    destruct (Qlt_le_dec x 0) as [L|L], (Qlt_le_dec x' 0) as [L'|L']; try reflexivity; exfalso;
    rewrite H in L; apply (Qlt_irrefl 0); first [exact (Qle_lt_trans _ _ _ L' L) | exact (Qle_lt_trans _ _ _ L L')].
Qed.

Lemma sgn_mul_neg a b : (Z.sgn a * Z.sgn b <? 0)%Z = (a * b <? 0)%Z.
Proof.
  rewrite <- Z.sgn_mul.
  destruct (Z.lt_trichotomy (a * b) 0) as [H|[H|H]].
  - rewrite (Z.sgn_neg _ H). symmetry. apply Z.ltb_lt. exact H.
  - rewrite H. reflexivity.
  - rewrite (Z.sgn_pos _ H). symmetry. apply Z.ltb_ge. lia.
Qed.

Theorem div_round_value a b prec :
  coef b <> 0%Z -> dval (div_round a b prec) == qround (dval a / dval b) prec.
Proof.
  intros Hb.
  destruct (quo_rem_shape a b prec Hb)
    as (aa & bb & pa & pb & er & Hpa & Hpb & Haa & Hbb & Hqr & Hdiv & Hpow).
  assert (Hbbnz : bb <> 0%Z) by nia.
  assert (Hnz : ~ inject_Z bb == 0) by (apply inject_Z_nz; exact Hbbnz).
  assert (Hsa : Z.sgn (coef a) = Z.sgn aa).
  { rewrite Haa, Z.sgn_mul, (Z.sgn_pos pa Hpa). lia. }
  assert (Hsb : Z.sgn (coef b) = Z.sgn bb).
  { rewrite Hbb, Z.sgn_mul, (Z.sgn_pos pb Hpb). lia. }
  assert (Habs : Z.abs bb = (Z.abs (coef b) * pb)%Z).
  { rewrite Hbb, Z.abs_mul, (Z.abs_eq pb) by lia. reflexivity. }
  assert (Hcmp : dcmp (mkDec (Z.abs (Z.rem aa bb) * 2) (er + prec)) (dabs b)
                 = (Z.abs (Z.rem aa bb) * 2 ?= Z.abs bb)%Z).
  { rewrite dcmp_spec, dval_mk.
    assert (Hab : dval (dabs b) == inject_Z (Z.abs bb) * pow10Q (er + prec)).
    { unfold dabs. rewrite dval_mk, Hpow, Habs, inject_Z_mult. ring. }
    rewrite Hab. apply Qcompare_scale. apply pow10Q_pos. }
  remember (dval a / dval b) as x eqn:Hx. clear Hx.
  pose proof (pow10Q_pos (- prec)) as Hp.
  (* y = aa / bb *)
  assert (Hy : x * pow10Q prec == inject_Z aa / inject_Z bb).
  { rewrite Hdiv, <- Qmult_assoc, <- pow10Q_plus.
    replace (- prec + prec)%Z with 0%Z by lia. rewrite pow10Q_0. ring. }
  assert (Ht : Qtrunc (x * pow10Q prec) = Z.quot aa bb).
  { rewrite Hy. apply Qtrunc_div. exact Hbbnz. }
  pose proof (Z.quot_rem' aa bb) as Hqr'.
  assert (Haq : inject_Z aa == inject_Z bb * inject_Z (Z.quot aa bb) + inject_Z (Z.rem aa bb)).
  { rewrite <- inject_Z_mult, <- inject_Z_plus, <- Hqr'. reflexivity. }
  assert (Hf : (x * pow10Q prec - inject_Z (Z.quot aa bb)) * inject_Z bb == inject_Z (Z.rem aa bb)).
  { rewrite Hy. unfold Qdiv. rewrite Haq. field. exact Hnz. }
  assert (Hfa : Qabs (x * pow10Q prec - inject_Z (Z.quot aa bb)) * inject_Z (Z.abs bb) == inject_Z (Z.abs (Z.rem aa bb))).
  { rewrite <- !Qabs_inject_Z, <- Qabs_Qmult, Hf. reflexivity. }
  assert (Hbpos : 0 < inject_Z (Z.abs bb)).
  { change 0 with (inject_Z 0). rewrite <- Zlt_Qlt. lia. }
  assert (Hc : (Qabs (x * pow10Q prec - inject_Z (Z.quot aa bb)) * 2 ?= 1)
             = (Z.abs (Z.rem aa bb) * 2 ?= Z.abs bb)%Z).
  { rewrite <- (Qcompare_scale_r _ _ _ Hbpos), <- Qcompare_inject.
    assert (E1 : Qabs (x * pow10Q prec - inject_Z (Z.quot aa bb)) * 2 * inject_Z (Z.abs bb)
                 == inject_Z (Z.abs (Z.rem aa bb) * 2)).
    { rewrite inject_Z_mult, <- Hfa. change (inject_Z 2) with 2. ring. }
    rewrite E1, Qmult_1_l. reflexivity. }
  (* the sign *)
  assert (Hsgn : (Z.sgn aa * Z.sgn bb <? 0)%Z = true <-> x < 0).
  { rewrite sgn_mul_neg, Z.ltb_lt.
    assert (Hbb2 : 0 < inject_Z bb * inject_Z bb).
    { rewrite <- inject_Z_mult. change 0 with (inject_Z 0). rewrite <- Zlt_Qlt. nia. }
    assert (Hxq : x * (inject_Z bb * inject_Z bb) == inject_Z (aa * bb) * pow10Q (- prec)).
    { rewrite Hdiv, inject_Z_mult. field. exact Hnz. }
    split.
    - intros Hlt. apply (Qmult_lt_r _ _ _ Hbb2). rewrite Hxq, Qmult_0_l.
      setoid_replace 0 with (0 * pow10Q (- prec)) by ring. apply Qmult_lt_r; [exact Hp|].
      change 0 with (inject_Z 0). rewrite <- Zlt_Qlt. exact Hlt.
    - intros Hlt. apply (Qmult_lt_r _ _ _ Hbb2) in Hlt. rewrite Hxq, Qmult_0_l in Hlt.
      setoid_replace 0 with (0 * pow10Q (- prec)) in Hlt by ring. apply Qmult_lt_r in Hlt; [|exact Hp].
      change 0 with (inject_Z 0) in Hlt. rewrite <- Zlt_Qlt in Hlt. exact Hlt. }
  assert (Hone : dval (mkDec 1 (- prec)) == pow10Q (- prec)).
  { rewrite dval_mk. change (inject_Z 1) with 1. ring. }
  unfold div_round. rewrite Hqr. cbv iota. cbn [coef dexp]. rewrite Hsa, Hsb, Hcmp.
  unfold qround. cbv zeta. rewrite Ht, Hc.
  assert (Helse :
    dval (if (Z.sgn aa * Z.sgn bb <? 0)%Z
          then dsub (mkDec (Z.quot aa bb) (- prec)) (mkDec 1 (- prec))
          else dadd (mkDec (Z.quot aa bb) (- prec)) (mkDec 1 (- prec)))
    == (if Qlt_le_dec x 0 then (inject_Z (Z.quot aa bb) - 1) * pow10Q (- prec)
        else (inject_Z (Z.quot aa bb) + 1) * pow10Q (- prec))).
  { destruct (Z.sgn aa * Z.sgn bb <? 0)%Z eqn:Es; destruct (Qlt_le_dec x 0) as [L|L].
    - rewrite dsub_exact, Hone, dval_mk. ring.
    - exfalso. apply (Qlt_irrefl 0). apply (Qle_lt_trans _ _ _ L). apply Hsgn. reflexivity.
    - exfalso. apply Hsgn in L. discriminate L.
    - rewrite dadd_exact, Hone, dval_mk. ring. }
  destruct (Z.abs (Z.rem aa bb) * 2 ?= Z.abs bb)%Z.
  - exact Helse.
  - rewrite dval_mk. reflexivity.
  - exact Helse.
Qed.

Theorem ddiv_resp a a' b b' : coef b <> 0%Z -> deqv a a' -> deqv b b' -> deqv (ddiv a b) (ddiv a' b').
Proof.
  intros Hb Ha Hbb. unfold deqv in *.
  assert (Hb' : coef b' <> 0%Z).
  { intros E. apply Hb. assert (Z : dis_zero b' = true) by (unfold dis_zero; rewrite E; reflexivity).
    rewrite <- (dis_zero_resp b b' Hbb) in Z. unfold dis_zero in Z. apply Z.eqb_eq in Z. exact Z. }
  unfold ddiv. rewrite (div_round_value a b _ Hb), (div_round_value a' b' _ Hb').
  apply qround_comp. rewrite Ha, Hbb. reflexivity.
Qed.

Theorem truncate0_resp a b : deqv a b -> deqv (truncate0 a) (truncate0 b).
Proof. unfold deqv. intros H. rewrite !truncate0_spec, H. reflexivity. Qed.

Theorem dmod_resp a a' b b' : coef b <> 0%Z -> deqv a a' -> deqv b b' -> deqv (dmod a b) (dmod a' b').
Proof.
  intros Hb Ha Hbb. unfold dmod.
  apply dsub_resp; [exact Ha|]. apply dmul_resp; [exact Hbb|]. apply truncate0_resp. apply ddiv_resp; assumption.
Qed.

Definition avg_of (l : list dec) : dec := match l with [] => dzero | [d] => d | d :: rest => davg d rest end.

Lemma lrel_avg l1 l2 : lrel l1 l2 -> deqv (avg_of l1) (avg_of l2).
Proof.
  intros [_ [Hq Hl]].
  destruct l1 as [|d1 [|e1 r1]], l2 as [|d2 [|e2 r2]]; try discriminate Hl.
  - apply deqv_refl.
  - unfold deqv. cbn [avg_of qsum] in *. rewrite !Qplus_0_r in Hq. exact Hq.
  - unfold avg_of, davg.
    assert (Hlen : length (e1 :: r1) = length (e2 :: r2)) by (cbn in Hl |- *; lia).
    rewrite Hlen. apply ddiv_resp.
    + cbn [coef]. lia.
    + unfold deqv. rewrite !dsum_value. exact Hq.
    + apply deqv_refl.
Qed.

Print Assumptions dnorm_unique.
Print Assumptions ddiv_resp.
Print Assumptions lrel_avg.
Print Assumptions int_part_resp.
Print Assumptions dis_integer_resp.
Print Assumptions dmin_same.
Print Assumptions dsum_value.
