(* Proofs/C15b.v — the fields OFFERED at a value are exactly its declared
   fields that are not blocked (C15: a blocked root field "is left out of the
   fields offered at the root").

   [available_fields v blocked] is the model of getAvailableFieldsForValue:
   the selector texts of the value's fields, `_dependencies` dropped, every
   text cleaned (quotes stripped, a trailing `?` / `!` mark trimmed) and — since
   repair 001cf94 — compared with the blocked list AFTER cleaning.  Before the
   repair the comparison used the raw selector text, so a blocked step declared
   as `s2?: {…}` stayed among the offered fields (exhibited by the C15 check,
   replayed on the code, repaired). *)
From Coq Require Import List Bool String.
Import ListNotations.
From Mpath.Model Require Import Base Types Cue Validate Blocked.
From Mpath.Generated Require Import BasePaths.
From Mpath.Proofs Require C15.

Lemma str_mem_false_iff (s : str) l : str_mem s l = false <-> ~ In s l.
Proof. exact (Mpath.Proofs.C15.str_mem_false s l). Qed.

(** the value whose fields are listed *)
Definition listed_value (v : cty) : option cty :=
  match incomplete_kind v with KStruct => Some v | _ => underlying_value v end.

(** exactly: the cleaned names of the fields other than `_dependencies` whose
    cleaned name (quotes stripped once more, as checkIfValueInList does) is not blocked *)
Theorem available_fields_exact : forall v blocked l,
  available_fields v blocked = Some l ->
  exists u, listed_value v = Some u /\
    forall f, In f l <->
      exists fld, In fld (field_texts u) /\ str_eqb fld BP_Dependencies = false /\
                  ~ In (strip_quotes (clean_field_name fld)) blocked /\ clean_field_name fld = f.
Proof.
  intros v blocked l H. unfold available_fields in H. fold (listed_value v) in H.
  destruct (listed_value v) as [u|] eqn:Hu; [|discriminate].
  exists u. split; [reflexivity|]. injection H as <-. intro f.
  rewrite in_map_iff. split.
  - intros [fld [Hc Hin]]. apply filter_In in Hin. destruct Hin as [Hin Hb].
    apply andb_true_iff in Hb. destruct Hb as [Hd Hm].
    apply negb_true_iff in Hd. apply negb_true_iff in Hm. apply str_mem_false_iff in Hm.
    exists fld. repeat split; assumption.
  - intros [fld [Hin [Hd [Hm Hc]]]]. exists fld. split; [exact Hc|].
    apply filter_In. split; [exact Hin|].
    apply andb_true_iff. split; apply negb_true_iff; [exact Hd | apply str_mem_false_iff; exact Hm].
Qed.

(** relative to the unrestricted listing: offered = all fields minus the blocked ones *)
Theorem available_fields_minus_blocked : forall v blocked l0 l,
  available_fields v [] = Some l0 -> available_fields v blocked = Some l ->
  forall f, In f l <-> In f l0 /\ ~ In (strip_quotes f) blocked.
Proof.
  intros v blocked l0 l H0 H f.
  destruct (available_fields_exact v [] l0 H0) as [u0 [Hu0 E0]].
  destruct (available_fields_exact v blocked l H) as [u [Hu E]].
  rewrite Hu0 in Hu. injection Hu as <-.
  rewrite E, E0. split.
  - intros [fld [Hin [Hd [Hm Hc]]]]. split.
    + exists fld. repeat split; try assumption. intros [].
    + rewrite <- Hc. exact Hm.
  - intros [[fld [Hin [Hd [_ Hc]]]] Hm]. exists fld. repeat split; try assumption.
    rewrite Hc. exact Hm.
Qed.

(** at the root of a schema, with the blocked list of the current step *)
Definition offered_root (schema : cty) (cur : str) : outcome (option (list str)) :=
  match cur with
  | [] => Ok (available_fields schema [])
  | _ => match blocked_root_fields schema cur with
         | Ok bl => Ok (available_fields schema bl)
         | Err e => Err e
         | Panic m => Panic m
         | OutOfFuel => OutOfFuel
         | Declined w => Declined w
         end
  end.

Theorem C15_offered_root : forall schema cur bl l,
  cur <> [] -> blocked_root_fields schema cur = Ok bl -> offered_root schema cur = Ok (Some l) ->
  forall f, In f l <-> In f (root_fields schema) /\ ~ In (strip_quotes f) bl.
Proof.
  intros schema cur bl l Hc Hb Ho f. unfold offered_root in Ho.
  destruct cur as [|c0 cs]; [contradiction|]. rewrite Hb in Ho. injection Ho as Ho.
  unfold blocked_root_fields in Hb. unfold root_fields.
  destruct (available_fields schema []) as [l0|] eqn:H0; [|discriminate].
  exact (available_fields_minus_blocked schema bl l0 l H0 Ho f).
Qed.

(** a name that does not begin with a quote is its own stripped form *)
Lemma strip_quotes_plain : forall f : str, has_prefix f dquote = false -> strip_quotes f = f.
Proof. intros f H. unfold strip_quotes. rewrite H. reflexivity. Qed.

(** non-vacuity, and the defect that was repaired: three steps, the second
    declared optional; for current step s3 (which depends on s1) the offered
    fields are input and s1 — s2 and s3 are left out *)
Definition ex_step (deps : list string) : cty :=
  CStruct false [(mkLabel (bs "_dependencies") FHidden, CDeps (map bs deps));
                 (mkLabel (bs "result") FRegular, CStr)].
Definition ex_schema : cty :=
  CStruct false [(mkLabel (bs "input") FRegular, CStruct false [(mkLabel (bs "_dependencies") FHidden, CDeps []); (mkLabel (bs "name") FRegular, CStr)]);
                 (mkLabel (bs "s1") FRegular, ex_step []);
                 (mkLabel (bs "s2") FOptional, ex_step []);
                 (mkLabel (bs "s3") FRegular, ex_step ["s1"%string])].

Example C15_offered_example :
  root_fields ex_schema = map bs ["input"; "s1"; "s2"; "s3"]%string /\
  blocked_root_fields ex_schema (bs "s3") = Ok (map bs ["s3"; "s2"]%string) /\
  offered_root ex_schema (bs "s3") = Ok (Some (map bs ["input"; "s1"]%string)) /\
  (* what the comparison on the raw selector text gave: s2 stays *)
  map clean_field_name
      (filter (fun fld => negb (str_eqb fld BP_Dependencies) && negb (str_mem (strip_quotes fld) (map bs ["s3"; "s2"]%string)))
              (field_texts ex_schema))
  = map bs ["input"; "s1"; "s2"]%string.
Proof. vm_compute. repeat split; reflexivity. Qed.

(** a step whose name needs a quoted label, declared optional (`"s-2"?: {…}`): listed by its name
    (repair 1d0cd11: the mark is trimmed before the quotes are stripped), blocked and not offered *)
Definition ex_schema_quoted : cty :=
  CStruct false [(mkLabel (bs "input") FRegular, CStruct false [(mkLabel (bs "_dependencies") FHidden, CDeps []); (mkLabel (bs "name") FRegular, CStr)]);
                 (mkLabel (bs "s-1") FQuoted, ex_step []);
                 (mkLabel (bs "s-2") FOptional, ex_step []);
                 (mkLabel (bs "s-3") FRequired, ex_step ["s-1"%string])].

Example C15_offered_quoted_example :
  field_texts ex_schema_quoted = [bs "input"; dquote ++ bs "s-1" ++ dquote; dquote ++ bs "s-2" ++ dquote ++ bs "?"; dquote ++ bs "s-3" ++ dquote ++ bs "!"] /\
  root_fields ex_schema_quoted = map bs ["input"; "s-1"; "s-2"; "s-3"]%string /\
  blocked_root_fields ex_schema_quoted (bs "s-3") = Ok (map bs ["s-3"; "s-2"]%string) /\
  offered_root ex_schema_quoted (bs "s-3") = Ok (Some (map bs ["input"; "s-1"]%string)).
Proof. vm_compute. repeat split; reflexivity. Qed.

Print Assumptions C15_offered_quoted_example.
Print Assumptions available_fields_exact.
Print Assumptions available_fields_minus_blocked.
Print Assumptions C15_offered_root.
Print Assumptions C15_offered_example.
