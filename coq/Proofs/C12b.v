(* Proofs/C12b.v -- the lock-discipline checker of Model/Conc.v restricted to
   a set of thread entry points.

   [check_table] (Model/Conc.v) checks EVERY program of the table as if a
   thread could start in it.  A helper that is only ever called by other
   functions of the table with a mutex already held (a method [C.op] that
   reads and writes a map and relies on its caller [CueValidate] holding
   [C.mu]) makes [check_table] answer false although every real entry point
   is fine: threads never start in the helper.

   Here:
     A. [check_entries fuel T E]: only the programs of T whose names are in E
        are checked as thread entry points.  Calls are still resolved in the
        whole of T, so a helper is checked in the context of each of its
        callers (that is what [exec_top] / [call_n] do when they meet an
        [ACall]); the guard of a variable is inferred from the logs of the
        entry programs, and the log of an entry includes the accesses of its
        callees.  A name of E that is not in T makes the check fail.
     B. soundness with respect to the interleaving semantics, for threads
        whose names are taken from E ([C12b_entries_sound],
        [C12b_entries_guard_sound], [C12b_access_holds_guard],
        [C12b_deadlock_free_single_mutex]);
     C. conservativity: [check_entries fuel T (map fst T) = check_table fuel T];
     D. examples (vm_compute).

   Everything of Proofs/C12.v is reused: its invariant [Inv T G] asks, thread
   by thread, for [thread_ok], and the only place where "all programs of the
   table were checked" enters is the initial state ([init_ok] of every
   initial thread).  So only the lemmas about the initial state are restated
   here. *)

From Coq Require Import String List Bool Arith Lia.
From Mpath.Model Require Import Conc.
From Mpath.Proofs Require Import C12.
Import ListNotations.
Open Scope string_scope.
Open Scope list_scope.

(* ------------------------------------------------------------------ *)
(* A. The checker over a set of entry points                           *)
(* ------------------------------------------------------------------ *)

(* the programs of T that are thread entry points: those named in E (in the
   order of T; a program shadowed by an earlier one of the same name is kept,
   as in [check_table]) *)
Definition entries_of (T : table) (E : list string) : table :=
  filter (fun fp => mem (fst fp) E) T.

(* every name of E is the name of a program of T *)
Definition entries_known (T : table) (E : list string) : bool :=
  forallb (fun n => mem n (map fst T)) E.

(* the entry points under a given guard map *)
Definition check_entries_with (fuel : nat) (T : table) (E : list string) (G : guard) : bool :=
  entries_known T E &&
  forallb (fun fp => check_prog_with fuel T G (snd fp)) (entries_of T E).

(* the entry points, with one common guard per variable inferred from the
   logs of the entry programs (callees included, in the context of their
   callers) *)
Definition check_entries (fuel : nat) (T : table) (E : list string) : bool :=
  match logs_of fuel T (entries_of T E) with
  | None => false
  | Some L => check_entries_with fuel T E (guard_of L)
  end.

(* ------------------------------------------------------------------ *)
(* B. Soundness                                                        *)
(* ------------------------------------------------------------------ *)

Lemma In_entries_of : forall T E f p,
  In (f, p) T -> In f E -> In (f, p) (entries_of T E).
Proof.
  intros T E f p HT HE. unfold entries_of. apply filter_In. split; [exact HT|].
  simpl. apply mem_In. exact HE.
Qed.

Lemma entries_of_incl : forall T E fp, In fp (entries_of T E) -> In fp T /\ In (fst fp) E.
Proof.
  intros T E fp H. unfold entries_of in H. apply filter_In in H.
  destruct H as [H1 H2]. split; [exact H1 | apply mem_In; exact H2].
Qed.

Lemma lookup_some_of_In_fst : forall f T, In f (map fst T) -> exists p, lookup f T = Some p.
Proof.
  intros f T. induction T as [|[g q] T IH]; intros H; simpl in *; [contradiction|].
  destruct (String.eqb_spec f g) as [E|E].
  - exists q. reflexivity.
  - destruct H as [H|H]; [congruence | exact (IH H)].
Qed.

(* an accepted entry list only names programs of the table *)
Lemma check_entries_with_known : forall fuel T E G,
  check_entries_with fuel T E G = true ->
  forall n, In n E -> exists p, lookup n T = Some p.
Proof.
  intros fuel T E G H n Hn. unfold check_entries_with in H.
  apply andb_true_iff in H. destruct H as [Hk _].
  unfold entries_known in Hk. rewrite forallb_forall in Hk.
  apply lookup_some_of_In_fst. apply mem_In. apply Hk. exact Hn.
Qed.

Lemma check_entries_known : forall fuel T E,
  check_entries fuel T E = true ->
  forall n, In n E -> exists p, lookup n T = Some p.
Proof.
  intros fuel T E H. unfold check_entries in H.
  destruct (logs_of fuel T (entries_of T E)) as [L|]; [|discriminate].
  eapply check_entries_with_known. exact H.
Qed.

(* the counterpart of [check_table_with_init_ok]: a thread named after an
   entry point of E starts in a checked program *)
Lemma check_entries_with_init_ok : forall fuel T E G f,
  check_entries_with fuel T E G = true -> In f E ->
  init_ok T G (thread_of_name T f).
Proof.
  intros fuel T E G f H Hf. unfold thread_of_name.
  destruct (lookup f T) as [p|] eqn:Hl.
  - apply lookup_In in Hl. unfold check_entries_with in H.
    apply andb_true_iff in H. destruct H as [_ H].
    rewrite forallb_forall in H. apply (check_prog_init_ok fuel).
    apply (H (f, p)). apply In_entries_of; assumption.
  - split; [reflexivity | split; [reflexivity | split; reflexivity]].
Qed.

(* the invariant of C12.v holds in every state reachable from threads named
   after entry points *)
Lemma check_entries_with_Inv : forall fuel T E G,
  check_entries_with fuel T E G = true ->
  forall names, (forall n, In n names -> In n E) ->
  forall sched g, run T (init T names) sched g -> Inv T G g.
Proof.
  intros fuel T E G Hc names Hsub sched g Hr.
  eapply run_Inv; [exact Hr|]. unfold init. apply Inv_init.
  intros t Hin. apply in_map_iff in Hin. destruct Hin as [f [Ef Hf]]. subst t.
  eapply check_entries_with_init_ok; [exact Hc | apply Hsub; exact Hf].
Qed.

(* The general form: any guard map G under which every entry point passes
   the checker; threads named after entry points. *)
Theorem C12b_entries_guard_sound : forall fuel T E G,
  check_entries_with fuel T E G = true ->
  forall names, (forall n, In n names -> In n E) ->
  forall (sched : list nat) (g : gstate),
    run T (init T names) sched g ->
    ~ Racy g /\ ~ Shared g /\ ~ Crash T g /\
    (forall i t, nth_error (g_thr g) i = Some t -> finished t ->
       (forall m, s_mtx (g_sh g) m <> Some i) /\ t_owned t = []).
Proof.
  intros fuel T E G Hc names Hsub sched g Hr.
  assert (HI : Inv T G g) by (eapply check_entries_with_Inv; eassumption).
  split; [eapply Inv_not_racy; exact HI|].
  split; [eapply Inv_not_shared; exact HI|].
  split; [eapply Inv_not_crash; exact HI|].
  eapply Inv_finished. exact HI.
Qed.

(* C12b: if the entry points E of the table pass [check_entries], then for
   any number of threads, each running an entry point of E, and any schedule,
   no reachable state is racy, none has a pool object shared by two threads,
   no thread is ever about to unlock a mutex it does not hold (or Put an
   object it does not own, or call a function that is not in the table), and
   a finished thread holds no mutex and no pool object.  The programs of T
   that are not in E (the helpers) are covered as callees. *)
Theorem C12b_entries_sound : forall fuel T E,
  check_entries fuel T E = true ->
  forall names, (forall n, In n names -> In n E) ->
  forall (sched : list nat) (g : gstate),
    run T (init T names) sched g ->
    ~ Racy g /\ ~ Shared g /\ ~ Crash T g /\
    (forall i t, nth_error (g_thr g) i = Some t -> finished t ->
       (forall m, s_mtx (g_sh g) m <> Some i) /\ t_owned t = []).
Proof.
  intros fuel T E Hc. unfold check_entries in Hc.
  destruct (logs_of fuel T (entries_of T E)) as [L|] eqn:HL; [|discriminate].
  eapply C12b_entries_guard_sound. exact Hc.
Qed.

(* Mutual exclusion, spelled out: while a thread is inside an access to v
   (in an entry point or in a helper called from it), it holds the guard of
   v. *)
Theorem C12b_access_holds_guard : forall fuel T E G,
  check_entries_with fuel T E G = true ->
  forall names, (forall n, In n names -> In n E) ->
  forall (sched : list nat) (g : gstate),
    run T (init T names) sched g ->
    forall i t w v, nth_error (g_thr g) i = Some t -> t_acc t = Some (w, v) ->
      exists m, G v = Some m /\ s_mtx (g_sh g) m = Some i.
Proof.
  intros fuel T E G Hc names Hsub sched g Hr i t w v Hi Ha.
  assert (HI : Inv T G g) by (eapply check_entries_with_Inv; eassumption).
  destruct HI as [It _]. destruct (It _ _ Hi) as [h [Hh [_ Hacc]]].
  destruct (Hacc _ _ Ha) as [m [Hg Hin]]. exists m. split; [exact Hg|].
  apply Hh. exact Hin.
Qed.

(* the same with the inferred guard *)
Corollary C12b_access_holds_inferred_guard : forall fuel T E L,
  logs_of fuel T (entries_of T E) = Some L ->
  check_entries fuel T E = true ->
  forall names, (forall n, In n names -> In n E) ->
  forall (sched : list nat) (g : gstate),
    run T (init T names) sched g ->
    forall i t w v, nth_error (g_thr g) i = Some t -> t_acc t = Some (w, v) ->
      exists m, guard_of L v = Some m /\ s_mtx (g_sh g) m = Some i.
Proof.
  intros fuel T E L HL Hc. unfold check_entries in Hc. rewrite HL in Hc.
  eapply C12b_access_holds_guard. exact Hc.
Qed.

(* Deadlock freedom with a single mutex (the counterpart of
   [C12_deadlock_free_single_mutex]); the syntactic condition is on the whole
   table, helpers included. *)
Theorem C12b_deadlock_free_single_mutex : forall fuel T E m0,
  check_entries fuel T E = true ->
  table_locks_only m0 T = true ->
  forall names, (forall n, In n names -> In n E) ->
  forall (sched : list nat) (g : gstate),
    run T (init T names) sched g ->
    (exists i t, nth_error (g_thr g) i = Some t /\ ~ finished t) ->
    exists i, can_move T g i.
Proof.
  intros fuel T E m0 Hc HT names Hsub sched g Hr [i [t [Hi Hnf]]].
  unfold check_entries in Hc.
  destruct (logs_of fuel T (entries_of T E)) as [L|] eqn:HLg; [|discriminate].
  assert (HI : Inv T (guard_of L) g) by (eapply check_entries_with_Inv; eassumption).
  assert (HL : LInv m0 g).
  { eapply run_LInv; [exact HT | exact Hr | apply init_LInv; exact HT]. }
  destruct HI as [It [Ih _]].
  destruct (thread_progress T _ i t (g_sh g) (It _ _ Hi) Hnf)
    as [[t' [sh' Hs]] | [m [k [d [rest [j [Hf [Hm Hji]]]]]]]].
  { exists i. eexists. eapply step_intro; eassumption. }
  assert (Em : m = m0) by (eapply blocked_on_m0; [apply (HL _ _ Hi) | exact Hf]).
  subst m.
  pose proof (Ih _ _ Hm) as Hlt. apply nth_error_Some in Hlt.
  destruct (nth_error (g_thr g) j) as [tj|] eqn:Hj; [|contradiction Hlt; reflexivity].
  assert (Hnfj : ~ finished tj).
  { intro Hfin. destruct (It _ _ Hj) as [hj [Hhj [Hstj _]]].
    unfold finished in Hfin. rewrite Hfin in Hstj. simpl in Hstj.
    destruct Hstj as [Eh _]. apply Hhj in Hm. subst hj. contradiction. }
  destruct (thread_progress T _ j tj (g_sh g) (It _ _ Hj) Hnfj)
    as [[t' [sh' Hs]] | [m' [k' [d' [rest' [j' [Hf' [Hm' Hjj']]]]]]]].
  { exists j. eexists. eapply step_intro; eassumption. }
  assert (Em : m' = m0) by (eapply blocked_on_m0; [apply (HL _ _ Hj) | exact Hf']).
  subst m'. rewrite Hm in Hm'. inversion Hm'. congruence.
Qed.

(* ------------------------------------------------------------------ *)
(* C. Conservativity                                                   *)
(* ------------------------------------------------------------------ *)

Lemma filter_all : forall (A : Type) (f : A -> bool) l,
  (forall x, In x l -> f x = true) -> filter f l = l.
Proof.
  intros A f l. induction l as [|x l IH]; intros H; simpl; [reflexivity|].
  rewrite (H x (or_introl eq_refl)). rewrite IH; [reflexivity|].
  intros y Hy. apply H. right. exact Hy.
Qed.

Lemma entries_of_all : forall T, entries_of T (map fst T) = T.
Proof.
  intros T. unfold entries_of. apply filter_all.
  intros fp Hin. apply mem_In. apply in_map. exact Hin.
Qed.

Lemma entries_known_all : forall T, entries_known T (map fst T) = true.
Proof.
  intros T. unfold entries_known. apply forallb_forall.
  intros n Hn. apply mem_In. exact Hn.
Qed.

Lemma check_entries_with_all : forall fuel T G,
  check_entries_with fuel T (map fst T) G = check_table_with fuel T G.
Proof.
  intros fuel T G. unfold check_entries_with, check_table_with.
  rewrite entries_known_all, entries_of_all. reflexivity.
Qed.

(* With every program of the table declared an entry point, [check_entries]
   IS [check_table]: same programs, same logs, same inferred guard. *)
Theorem C12b_all_entries : forall fuel T,
  check_entries fuel T (map fst T) = check_table fuel T.
Proof.
  intros fuel T. unfold check_entries, check_table. rewrite entries_of_all.
  destruct (logs_of fuel T T) as [L|]; [|reflexivity].
  apply check_entries_with_all.
Qed.

Corollary C12b_conservative : forall fuel T,
  check_table fuel T = true -> check_entries fuel T (map fst T) = true.
Proof. intros fuel T H. rewrite C12b_all_entries. exact H. Qed.

(* the entry list is a set: order and repetitions do not matter *)
Lemma entries_of_ext : forall T E E',
  (forall n, In n E <-> In n E') -> entries_of T E = entries_of T E'.
Proof.
  intros T E E' H. unfold entries_of. apply filter_ext. intros fp.
  destruct (mem (fst fp) E) eqn:H1; destruct (mem (fst fp) E') eqn:H2; try reflexivity.
  - apply mem_In in H1. apply H in H1. apply mem_In in H1. congruence.
  - apply mem_In in H2. apply H in H2. apply mem_In in H2. congruence.
Qed.

Lemma entries_known_ext : forall T E E',
  (forall n, In n E <-> In n E') -> entries_known T E = entries_known T E'.
Proof.
  intros T E E' H. unfold entries_known.
  destruct (forallb (fun n => mem n (map fst T)) E) eqn:H1;
  destruct (forallb (fun n => mem n (map fst T)) E') eqn:H2; try reflexivity.
  - rewrite forallb_forall in H1.
    assert (X : forallb (fun n => mem n (map fst T)) E' = true).
    { apply forallb_forall. intros n Hn. apply H1. apply H. exact Hn. }
    congruence.
  - rewrite forallb_forall in H2.
    assert (X : forallb (fun n => mem n (map fst T)) E = true).
    { apply forallb_forall. intros n Hn. apply H2. apply H. exact Hn. }
    congruence.
Qed.

Theorem C12b_entries_set : forall fuel T E E',
  (forall n, In n E <-> In n E') -> check_entries fuel T E = check_entries fuel T E'.
Proof.
  intros fuel T E E' H. unfold check_entries, check_entries_with.
  rewrite (entries_of_ext T E E' H), (entries_known_ext T E E' H). reflexivity.
Qed.

(* ------------------------------------------------------------------ *)
(* D. Examples                                                         *)
(* ------------------------------------------------------------------ *)

Module Examples.

(* CueValidate takes C.mu (defer Unlock) and calls the method C.op, which
   reads and writes C.ops without locking: it relies on its caller *)
Definition cue_validate : prog :=
  [AIf [AReturn] []; ALock "C.mu"; ADeferUnlock "C.mu";
   ARead "C.ops"; ARead "C.cues"; ACall "C.op"; AIf [AReturn] [];
   ARead "C.cues"; AIf [AIf [AReturn] []; AWrite "C.cues"] []; AReturn].

Definition c_op : prog :=
  [ARead "C.ops"; AIf [AReturn] []; AWrite "C.ops"; AReturn].

Definition tbl : table := [("CueValidate", cue_validate); ("C.op", c_op)].

(* rejected when every program is an entry point: a thread starting in C.op
   accesses C.ops with no mutex held *)
Example ex_table_rejected : check_table 4 tbl = false.
Proof. vm_compute. reflexivity. Qed.

(* accepted when threads only start in CueValidate *)
Example ex_entries_accepted : check_entries 4 tbl ["CueValidate"] = true.
Proof. vm_compute. reflexivity. Qed.

(* the inferred guards: both maps are guarded by C.mu; the access of C.op to
   C.ops is in the log of CueValidate *)
Example ex_entries_log :
  exists L, logs_of 4 tbl (entries_of tbl ["CueValidate"]) = Some L /\
    guard_of L "C.ops" = Some "C.mu" /\ guard_of L "C.cues" = Some "C.mu" /\
    length (filter (fun e => String.eqb "C.ops" (fst e)) L) = 3.
Proof. eexists. vm_compute. repeat split. Qed.

(* rejected as soon as the helper is declared an entry point *)
Example ex_helper_entry_rejected : check_entries 4 tbl ["CueValidate"; "C.op"] = false.
Proof. vm_compute. reflexivity. Qed.

Example ex_helper_only_rejected : check_entries 4 tbl ["C.op"] = false.
Proof. vm_compute. reflexivity. Qed.

(* the entry forgets the lock: the accesses of the entry and of the helper
   are unguarded *)
Definition cue_validate_no_lock : prog :=
  [AIf [AReturn] [];
   ARead "C.ops"; ARead "C.cues"; ACall "C.op"; AIf [AReturn] [];
   ARead "C.cues"; AIf [AIf [AReturn] []; AWrite "C.cues"] []; AReturn].

Example ex_entry_without_lock_rejected :
  check_entries 4 [("CueValidate", cue_validate_no_lock); ("C.op", c_op)] ["CueValidate"] = false.
Proof. vm_compute. reflexivity. Qed.

(* the entry locks only after the call of the helper: the helper's accesses
   are unguarded in this calling context *)
Example ex_entry_locks_too_late_rejected :
  check_entries 4
    [("CueValidate", [ACall "C.op"; ALock "C.mu"; ADeferUnlock "C.mu"; ARead "C.cues"]);
     ("C.op", c_op)] ["CueValidate"] = false.
Proof. vm_compute. reflexivity. Qed.

(* a second entry point that calls the helper under another mutex: no common
   guard for C.ops *)
Example ex_two_callers_no_common_guard_rejected :
  check_entries 4
    (tbl ++ [("Other", [ALock "D.mu"; ACall "C.op"; AUnlock "D.mu"])])
    ["CueValidate"; "Other"] = false.
Proof. vm_compute. reflexivity. Qed.

(* ... and under the same mutex: accepted *)
Example ex_two_callers_accepted :
  check_entries 4
    (tbl ++ [("Other", [ALock "C.mu"; ACall "C.op"; AUnlock "C.mu"])])
    ["CueValidate"; "Other"] = true.
Proof. vm_compute. reflexivity. Qed.

(* a helper that locks the mutex its caller already holds (Go mutexes are
   not reentrant) *)
Example ex_helper_relocks_rejected :
  check_entries 4
    [("CueValidate", cue_validate);
     ("C.op", [ALock "C.mu"; AWrite "C.ops"; AUnlock "C.mu"])] ["CueValidate"] = false.
Proof. vm_compute. reflexivity. Qed.

(* an entry name that is not in the table (a misspelt name would otherwise
   make the check vacuous) *)
Example ex_unknown_entry_rejected : check_entries 4 tbl ["CueValidat"] = false.
Proof. vm_compute. reflexivity. Qed.

Example ex_unknown_entry_rejected2 : check_entries 4 tbl ["CueValidate"; "Nope"] = false.
Proof. vm_compute. reflexivity. Qed.

(* the call depth is bounded by the fuel *)
Example ex_fuel_too_small : check_entries 0 tbl ["CueValidate"] = false.
Proof. vm_compute. reflexivity. Qed.

(* the table of C12.v, all three functions entry points: same answer *)
Example ex_c12_table_accepted :
  check_entries 3 C12.Examples.tbl ["ParseReadSeeker"; "ParseString"; "CueValidate"] = true.
Proof. vm_compute. reflexivity. Qed.

(* the theorem applied: any number of threads in CueValidate, any schedule *)
Example ex_cue_validate_safe :
  forall names, (forall n, In n names -> n = "CueValidate") ->
  forall sched g, run tbl (init tbl names) sched g ->
    ~ Racy g /\ ~ Shared g /\ ~ Crash tbl g /\
    (forall i t, nth_error (g_thr g) i = Some t -> finished t ->
       (forall m, s_mtx (g_sh g) m <> Some i) /\ t_owned t = []).
Proof.
  intros names Hn. apply (C12b_entries_sound 4 tbl ["CueValidate"] ex_entries_accepted).
  intros n Hin. left. symmetry. apply Hn. exact Hin.
Qed.

Example ex_cue_validate_deadlock_free :
  forall names, (forall n, In n names -> n = "CueValidate") ->
  forall sched g, run tbl (init tbl names) sched g ->
    (exists i t, nth_error (g_thr g) i = Some t /\ ~ finished t) ->
    exists i, can_move tbl g i.
Proof.
  intros names Hn.
  apply (C12b_deadlock_free_single_mutex 4 tbl ["CueValidate"] "C.mu" ex_entries_accepted).
  - vm_compute. reflexivity.
  - intros n Hin. left. symmetry. apply Hn. exact Hin.
Qed.

(* the restriction to E matters: a thread that does start in the helper next
   to one in CueValidate reaches a racy state *)
Example ex_helper_thread_races :
  exists sched g, run tbl (init tbl ["CueValidate"; "C.op"]) sched g /\ Racy g.
Proof.
  exists [0; 0; 0; 0; 0; 0; 0; 0; 0; 1; 1; 1; 1].
  eexists. split.
  - unfold init, tbl, cue_validate, c_op, thread_of_name, thread_of_prog. simpl.
    (* thread 0: CueValidate, with C.mu held, into the read of C.ops inside C.op *)
    eapply run_cons; [eapply step_intro with (i := 0); [reflexivity | apply TIfElse] | simpl].
    eapply run_cons; [eapply step_intro with (i := 0); [reflexivity | apply TLock; reflexivity] | simpl].
    eapply run_cons; [eapply step_intro with (i := 0); [reflexivity | apply TDeferUnlock] | simpl].
    eapply run_cons; [eapply step_intro with (i := 0); [reflexivity | apply TReadBegin] | simpl].
    eapply run_cons; [eapply step_intro with (i := 0); [reflexivity | apply TAccEnd] | simpl].
    eapply run_cons; [eapply step_intro with (i := 0); [reflexivity | apply TReadBegin] | simpl].
    eapply run_cons; [eapply step_intro with (i := 0); [reflexivity | apply TAccEnd] | simpl].
    eapply run_cons; [eapply step_intro with (i := 0); [reflexivity | eapply TCall; reflexivity] | simpl].
    eapply run_cons; [eapply step_intro with (i := 0); [reflexivity | apply TReadBegin] | simpl].
    (* thread 1: C.op, no lock taken, into its write of C.ops *)
    eapply run_cons; [eapply step_intro with (i := 1); [reflexivity | apply TReadBegin] | simpl].
    eapply run_cons; [eapply step_intro with (i := 1); [reflexivity | apply TAccEnd] | simpl].
    eapply run_cons; [eapply step_intro with (i := 1); [reflexivity | apply TIfElse] | simpl].
    eapply run_cons; [eapply step_intro with (i := 1); [reflexivity | apply TWriteBegin] | simpl].
    apply run_nil.
  - exists 0, 1. eexists. eexists. exists false, true, "C.ops". simpl.
    split; [discriminate|].
    split; [reflexivity|]. split; [reflexivity|].
    split; [reflexivity|]. split; [reflexivity|]. right. reflexivity.
Qed.

End Examples.

Print Assumptions C12b_entries_guard_sound.
Print Assumptions C12b_entries_sound.
Print Assumptions C12b_access_holds_guard.
Print Assumptions C12b_access_holds_inferred_guard.
Print Assumptions C12b_deadlock_free_single_mutex.
Print Assumptions C12b_all_entries.
Print Assumptions C12b_conservative.
Print Assumptions C12b_entries_set.
